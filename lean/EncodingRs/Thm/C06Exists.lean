import EncodingRs.Lemmas.MaxLenVariant
import EncodingRs.Thm.C07Life
import EncodingRs.Thm.C08
/-!
# C06 — decoder side: an admissible stop policy exists for every capacity (non-vacuity of `Admissible`)

The decoder theorems of C06/C07/C08 are stated for *every* stop decision (`Budget`) of a raw call
that satisfies the side conditions `Model.Admissible` (the output fits; an `OutputFull` stop is
justified by lack of the space asked for; a `Malformed` return leaves room for U+FFFD).  This file
shows that the hypothesis is never vacuous: for every variant decoder, every state satisfying the
state invariant (every reachable state does), every source of bytes, `last` flag and every
capacity that is at least the documented minimum (`minCap`: 4 bytes of UTF-8, 2 units of UTF-16),
**some** budget makes the call admissible (`exists_admissible_variant`,
`exists_admissible_reachable`).  It is the decoder analogue of `Thm.C06Enc.exists_admissible`.

The budget is the one of the scheme the Rust follows: before each byte compare the free space with
`F.need k s b`; stop with `OutputFull` at the first byte where less is free; otherwise never stop
(at the end of the stream stop iff an error is pending and less than `F.eofNeed k` is free).  The
induction (`run_exists`) carries the invariant "what has been written, plus `eofRoom` of the current
state, fits", where `eofRoom` is room for one U+FFFD whenever the stream could end in this state
with an error that is reported without a space check of its own (`F.eofNeed k < replRoom k`).
What a family must satisfy is `StopLaw`: a step that was allowed by the check leaves `eofRoom` of
the next state (no error) resp. room for U+FFFD (error) inside the space that was checked, and the
flush of a delayed output plus `eofRoom` of the flushed state fits `minCap`.

The same at the level of `Decoder` (the BOM life cycle, second half of the file): for every decoder
reachable from `Decoder.new` that is not finished, every source and every destination of at least
`minCap`, budgets `b1` (replay of withheld BOM bytes) and `b2` (the source) exist for which
`Decoder.rawCall` does not reach the "output buffer must have been too small" panic and all its
inner variant-decoder calls are admissible as the driver checks them (`rawCall_exists`,
`rawCall_exists_reachable`; `DGood`).  The replay is never stopped before its first byte (it asks for
at most `minCap`), and the call on the source goes on in what the replay left of the destination,
which may be less than `minCap` (`call_exists_x`, `exists_admissible_chain`: a call that ended with
`InputEmpty` under the scheme leaves the room its state needs).

What is **not** claimed here: that the stops of the *real* decoder are admissible (that is the
correspondence run of the harness), nor that an admissible budget exists below `minCap`
(`gb18030_cap3_none` at the end of the file: with 3 bytes of UTF-8 no budget is admissible for a
reachable gb18030 state, so the hypothesis `minCap k ≤ cap` cannot be dropped).
-/
namespace EncodingRs.Thm.C06Exists
open EncodingRs EncodingRs.Model EncodingRs.Lemmas.Potential EncodingRs.Lemmas.MaxLenFam
open EncodingRs.Lemmas.MaxLenVariant EncodingRs.Lemmas.FamLaws EncodingRs.Lemmas.Scalar

/-! ## the generic theorem -/

/-- room that has to stay free while the decoder is in state `s`: if the stream can end here with
an error and the end-of-stream block does not check for room itself, the `Malformed` return needs
room for U+FFFD -/
def eofRoom (F : Fam) (k : Sink) (s : F.σ) : Nat :=
  if (F.eof s).isSome = true ∧ F.eofNeed k < replRoom k then replRoom k else 0

theorem eofRoom_le (F : Fam) (k : Sink) (s : F.σ) : eofRoom F k s ≤ replRoom k := by
  unfold eofRoom; split
  · exact Nat.le_refl _
  · exact Nat.zero_le _

theorem eofRoom_of_eof_none (F : Fam) (k : Sink) (s : F.σ) (h : F.eof s = none) : eofRoom F k s = 0 := by
  unfold eofRoom; rw [h]; simp

theorem eofRoom_of_eofNeed (F : Fam) (k : Sink) (s : F.σ) (h : replRoom k ≤ F.eofNeed k) : eofRoom F k s = 0 := by
  unfold eofRoom
  have : ¬ ((F.eof s).isSome = true ∧ F.eofNeed k < replRoom k) := fun h' => absurd h'.2 (by omega)
  simp [this]

theorem replRoom_le_minCap (k : Sink) : replRoom k ≤ minCap k := by cases k <;> decide

/-- what a family has to satisfy for the scheme "stop iff less than `need` is free" to be admissible
(`I`: a state invariant) -/
structure StopLaw (F : Fam) (k : Sink) (I : F.σ → Prop) : Prop where
  inv_step : ∀ s b, I s → F.pend s = none → b < 256 → I (F.feed s b).st
  inv_pend : ∀ s o s', I s → F.pend s = some (o, s') → I s'
  /-- a step without error: what it writes, plus the room the next state needs, was checked -/
  step_ok : ∀ s b, I s → F.pend s = none → b < 256 → (F.feed s b).err = none →
    unitsOfList k (F.feed s b).out + eofRoom F k (F.feed s b).st ≤ F.need k s b
  /-- an error step: what it writes, plus room for U+FFFD, was checked -/
  step_err : ∀ s b e, I s → F.pend s = none → b < 256 → (F.feed s b).err = some e →
    unitsOfList k (F.feed s b).out + replRoom k ≤ F.need k s b
  /-- the flush of a delayed output, plus the room the flushed state needs, fits the documented
  minimum -/
  flush : ∀ s o s', I s → F.pend s = some (o, s') → unitsOfList k o + eofRoom F k s' ≤ minCap k

/-- the budgets the scheme produces -/
def budgetOf : Option Nat → Budget
  | none => .unlimited
  | some n => .full n

theorem budgetOf_succ_isZero (n : Option Nat) : (budgetOf (n.map (· + 1))).isZero = false := by
  cases n <;> simp [budgetOf, Budget.isZero]

theorem budgetOf_succ_dec (n : Option Nat) : (budgetOf (n.map (· + 1))).dec = budgetOf n := by
  cases n <;> simp [budgetOf, Budget.dec]

theorem budgetOf_succ_stopHere (F : Fam) (k : Sink) (s : F.σ) (b : Nat) (rest : List Nat) (n : Option Nat) :
    stopHere F k s b rest (budgetOf (n.map (· + 1))) = none := by
  cases n <;> simp [budgetOf, stopHere]

/-- the three clauses of `Admissible` behind `used` units already written -/
def Fits {σ : Type} (k : Sink) (cap used : Nat) (r : CallRes σ) : Prop :=
  used + unitsOfList k r.out ≤ cap ∧
  (r.res = .outputFull → cap < used + unitsOfList k r.out + r.stopNeed) ∧
  (∀ l a, r.res = .malformed l a → used + unitsOfList k r.out + replRoom k ≤ cap)

theorem fits_inputEmpty {σ : Type} (k : Sink) (cap used rd sn : Nat) (s : σ) (h : used ≤ cap) :
    Fits k cap used (⟨.inputEmpty, rd, [], s, sn⟩ : CallRes σ) := by
  refine ⟨?_, ?_, ?_⟩
  · show used + unitsOfList k [] ≤ cap
    rw [units_nil]; exact h
  · intro h; cases h
  · intro l a h; cases h

theorem fits_malformed {σ : Type} (k : Sink) (cap used rd sn l a : Nat) (out : List Nat) (s : σ)
    (h : used + unitsOfList k out + replRoom k ≤ cap) :
    Fits k cap used (⟨.malformed l a, rd, out, s, sn⟩ : CallRes σ) := by
  refine ⟨?_, ?_, ?_⟩
  · show used + unitsOfList k out ≤ cap
    omega
  · intro h; cases h
  · intro l a _; exact h

theorem fits_full {σ : Type} (k : Sink) (cap used rd sn : Nat) (s : σ) (h1 : used ≤ cap) (h2 : cap < used + sn) :
    Fits k cap used (⟨.outputFull, rd, [], s, sn⟩ : CallRes σ) := by
  refine ⟨?_, ?_, ?_⟩
  · show used + unitsOfList k [] ≤ cap
    rw [units_nil]; exact h1
  · intro _
    show cap < used + unitsOfList k [] + sn
    rw [units_nil]; exact h2
  · intro l a h; cases h

theorem fits_append {σ : Type} (k : Sink) (cap used rd : Nat) (o : List Nat) (st : σ) (t : CallRes σ)
    (h : Fits k cap (used + unitsOfList k o) t) :
    Fits k cap used (⟨t.res, rd, o ++ t.out, st, t.stopNeed⟩ : CallRes σ) := by
  obtain ⟨h1, h2, h3⟩ := h
  refine ⟨?_, ?_, ?_⟩
  · show used + unitsOfList k (o ++ t.out) ≤ cap
    rw [unitsOfList_append]; omega
  · intro hres
    have := h2 hres
    show cap < used + unitsOfList k (o ++ t.out) + t.stopNeed
    rw [unitsOfList_append]; omega
  · intro l a hres
    have := h3 l a hres
    show used + unitsOfList k (o ++ t.out) + replRoom k ≤ cap
    rw [unitsOfList_append]; omega

/-- what the scheme guarantees on top of `Fits`: a call that ends with `InputEmpty` before the end of
the stream leaves the invariant of the induction intact (so the next call may go on in what is
left of the destination, even if that is less than `minCap`), and it does not stop before its first
byte unless the space asked for that byte is missing -/
def FitsX (F : Fam) (k : Sink) (I : F.σ → Prop) (cap used : Nat) (last : Bool) (s : F.σ) (src : List Nat)
    (r : CallRes F.σ) : Prop :=
  Fits k cap used r ∧
  (r.res = .inputEmpty → last = false →
    used + unitsOfList k r.out + eofRoom F k r.st ≤ cap ∧ F.pend r.st = none ∧ I r.st) ∧
  (r.res = .outputFull → r.read = 0 → ∀ b tl, src = b :: tl → cap < used + F.need k s b)

theorem fitsX_append (F : Fam) (k : Sink) (I : F.σ → Prop) (cap used : Nat) (last : Bool) (s s1 : F.σ)
    (b : Nat) (tl o : List Nat) (t : CallRes F.σ)
    (h : FitsX F k I cap (used + unitsOfList k o) last s1 tl t) :
    FitsX F k I cap used last s (b :: tl) ⟨t.res, t.read + 1, o ++ t.out, t.st, t.stopNeed⟩ := by
  obtain ⟨h1, h2, _⟩ := h
  refine ⟨fits_append k cap used _ o _ t h1, ?_, ?_⟩
  · intro hres hl
    obtain ⟨h3, h4, h5⟩ := h2 hres hl
    refine ⟨?_, h4, h5⟩
    show used + unitsOfList k (o ++ t.out) + eofRoom F k t.st ≤ cap
    rw [unitsOfList_append]; omega
  · intro _ hread
    exact absurd hread (Nat.succ_ne_zero _)

/-- the main loop under the scheme: from a flushed state, with `used` units written and the room
the state needs still free, some budget makes the rest of the call fit -/
theorem run_exists_x (F : Fam) (k : Sink) (I : F.σ → Prop) (L : Laws F) (S : StopLaw F k I) (cap : Nat)
    (last : Bool) :
    ∀ (src : List Nat) (s : F.σ) (used : Nat), I s → F.pend s = none → (∀ b ∈ src, b < 256) →
      used + eofRoom F k s ≤ cap →
      ∃ n : Option Nat, FitsX F k I cap used last s src (run F k last s src (budgetOf n)) := by
  intro src
  induction src with
  | nil =>
    intro s used hi hp _ hroom
    have hused : used ≤ cap := by omega
    have hnil : ∀ (sn : Nat), FitsX F k I cap used last s [] ⟨.inputEmpty, 0, [], s, sn⟩ := by
      intro sn
      refine ⟨fits_inputEmpty k cap used 0 sn s hused, ?_, ?_⟩
      · intro _ _
        refine ⟨?_, hp, hi⟩
        show used + unitsOfList k [] + eofRoom F k s ≤ cap
        rw [units_nil]; omega
      · intro h; cases h
    cases last with
    | false =>
      refine ⟨none, ?_⟩
      simp only [run, Bool.false_eq_true, if_false]
      exact hnil 0
    | true =>
      cases he : F.eof s with
      | none =>
        refine ⟨none, ?_⟩
        simp only [run, if_true, he]
        exact hnil 0
      | some p =>
        obtain ⟨e, s'⟩ := p
        by_cases hlt : F.eofNeed k < replRoom k
        · -- no space check at the end of the stream: the invariant left room for U+FFFD
          have hr : eofRoom F k s = replRoom k := by
            unfold eofRoom; rw [he]; simp [hlt]
          refine ⟨none, ?_⟩
          simp only [run, if_true, he, budgetOf, Budget.isZero, Bool.false_eq_true, if_false]
          refine ⟨?_, (by intro h; cases h), (by intro h; cases h)⟩
          apply fits_malformed
          rw [units_nil]; omega
        · by_cases hfree : used + F.eofNeed k ≤ cap
          · refine ⟨none, ?_⟩
            simp only [run, if_true, he, budgetOf, Budget.isZero, Bool.false_eq_true, if_false]
            refine ⟨?_, (by intro h; cases h), (by intro h; cases h)⟩
            apply fits_malformed
            rw [units_nil]; omega
          · refine ⟨some 0, ?_⟩
            simp only [run, if_true, he, budgetOf, Budget.isZero, beq_self_eq_true]
            refine ⟨fits_full k cap used 0 _ s hused (by omega), (by intro h; cases h), ?_⟩
            intro _ _ b tl h; cases h
  | cons b tl ih =>
    intro s used hi hp hb hroom
    have hb0 : b < 256 := hb b (List.mem_cons_self ..)
    have hbt : ∀ x ∈ tl, x < 256 := fun x hx => hb x (List.mem_cons_of_mem _ hx)
    by_cases hn : used + F.need k s b ≤ cap
    · cases hE : (F.feed s b).err with
      | some e =>
        have hle := S.step_err s b e hi hp hb0 hE
        refine ⟨none, ?_⟩
        rw [run]
        simp only [budgetOf, stopHere, hE]
        refine ⟨?_, (by intro h; cases h), (by intro h; cases h)⟩
        apply fits_malformed
        omega
      | none =>
        have hle := S.step_ok s b hi hp hb0 hE
        obtain ⟨n, hfit⟩ := ih (F.feed s b).st (used + unitsOfList k (F.feed s b).out)
          (S.inv_step s b hi hp hb0) (L.pend_err s b hp hE) hbt (by omega)
        refine ⟨n.map (· + 1), ?_⟩
        rw [run, budgetOf_succ_stopHere]
        simp only [hE, budgetOf_succ_dec]
        exact fitsX_append F k I cap used last s _ b tl _ _ hfit
    · refine ⟨some 0, ?_⟩
      rw [run]
      simp only [budgetOf, stopHere, if_true]
      refine ⟨fits_full k cap used 0 _ s (by omega) (by omega), (by intro h; cases h), ?_⟩
      intro _ _ b' tl' h
      cases h
      omega

theorem run_exists (F : Fam) (k : Sink) (I : F.σ → Prop) (L : Laws F) (S : StopLaw F k I) (cap : Nat)
    (last : Bool) (src : List Nat) (s : F.σ) (used : Nat) (hi : I s) (hp : F.pend s = none)
    (hb : ∀ b ∈ src, b < 256) (hroom : used + eofRoom F k s ≤ cap) :
    ∃ n : Option Nat, Fits k cap used (run F k last s src (budgetOf n)) := by
  obtain ⟨n, h, _⟩ := run_exists_x F k I L S cap last src s used hi hp hb hroom
  exact ⟨n, h⟩

theorem admissible_of_fits (F : Fam) (k : Sink) (cap : Nat) (r : CallRes F.σ) (h : Fits k cap 0 r) :
    Admissible F k cap r := by
  obtain ⟨h1, h2, h3⟩ := h
  refine ⟨by omega, ?_, ?_⟩
  · intro hres; have := h2 hres; omega
  · intro l a hres; have := h3 l a hres; omega

/-- **for every capacity ≥ the documented minimum an admissible raw call exists** (every family
satisfying `StopLaw`; all variants: `exists_admissible_variant`) -/
theorem exists_admissible (F : Fam) (k : Sink) (I : F.σ → Prop) (L : Laws F) (S : StopLaw F k I)
    (s : F.σ) (hi : I s) (src : List Nat) (hb : ∀ b ∈ src, b < 256) (last : Bool) (cap : Nat)
    (hcap : minCap k ≤ cap) :
    ∃ budget, Admissible F k cap (Model.call F k s src last budget) := by
  have hrm := replRoom_le_minCap k
  cases hp : F.pend s with
  | none =>
    have hr := eofRoom_le F k s
    obtain ⟨n, hfit⟩ := run_exists F k I L S cap last src s 0 hi hp hb (by omega)
    refine ⟨budgetOf n, ?_⟩
    unfold Model.call
    simp only [hp]
    exact admissible_of_fits F k cap _ hfit
  | some p =>
    obtain ⟨o, s'⟩ := p
    have hfl := S.flush s o s' hi hp
    obtain ⟨n, hfit⟩ := run_exists F k I L S cap last src s' (0 + unitsOfList k o) (S.inv_pend s o s' hi hp)
      (L.pend_once s o s' hp) hb (by omega)
    refine ⟨budgetOf (n.map (· + 1)), ?_⟩
    unfold Model.call
    simp only [hp, budgetOf_succ_isZero, Bool.false_eq_true, if_false, budgetOf_succ_dec]
    exact admissible_of_fits F k cap _ (fits_append k cap 0 _ _ _ _ hfit)

/-- what a call under the scheme guarantees on top of `Admissible` (see `FitsX`) -/
def CallX (F : Fam) (k : Sink) (I : F.σ → Prop) (cap : Nat) (last : Bool) (s : F.σ) (src : List Nat)
    (r : CallRes F.σ) : Prop :=
  Admissible F k cap r ∧
  (r.res = .inputEmpty → last = false →
    unitsOfList k r.out + eofRoom F k r.st ≤ cap ∧ F.pend r.st = none ∧ I r.st) ∧
  (F.pend s = none → r.res = .outputFull → r.read = 0 → ∀ b tl, src = b :: tl → cap < F.need k s b)

/-- the call-level statement with what is needed to chain calls into one destination: the capacity
is at least `minCap`, **or** the state is flushed and the room it needs is free (which is what a
call that ended with `InputEmpty` leaves behind) -/
theorem call_exists_x (F : Fam) (k : Sink) (I : F.σ → Prop) (L : Laws F) (S : StopLaw F k I)
    (s : F.σ) (hi : I s) (src : List Nat) (hb : ∀ b ∈ src, b < 256) (last : Bool) (cap : Nat)
    (hcap : minCap k ≤ cap ∨ (F.pend s = none ∧ eofRoom F k s ≤ cap)) :
    ∃ budget, CallX F k I cap last s src (Model.call F k s src last budget) := by
  cases hp : F.pend s with
  | none =>
    have hroom : 0 + eofRoom F k s ≤ cap := by
      rcases hcap with h | ⟨_, h⟩
      · have := eofRoom_le F k s
        have := replRoom_le_minCap k
        omega
      · omega
    obtain ⟨n, h1, h2, h3⟩ := run_exists_x F k I L S cap last src s 0 hi hp hb hroom
    refine ⟨budgetOf n, ?_⟩
    unfold Model.call
    simp only [hp]
    refine ⟨admissible_of_fits F k cap _ h1, ?_, ?_⟩
    · intro hres hl
      obtain ⟨a, b, c⟩ := h2 hres hl
      exact ⟨by omega, b, c⟩
    · intro _ hres hread b tl hsrc
      have := h3 hres hread b tl hsrc
      omega
  | some p =>
    obtain ⟨o, s'⟩ := p
    have hc : minCap k ≤ cap := by
      rcases hcap with h | ⟨h, _⟩
      · exact h
      · rw [hp] at h; cases h
    have hfl := S.flush s o s' hi hp
    obtain ⟨n, h1, h2, _⟩ := run_exists_x F k I L S cap last src s' (0 + unitsOfList k o) (S.inv_pend s o s' hi hp)
      (L.pend_once s o s' hp) hb (by omega)
    refine ⟨budgetOf (n.map (· + 1)), ?_⟩
    unfold Model.call
    simp only [hp, budgetOf_succ_isZero, Bool.false_eq_true, if_false, budgetOf_succ_dec]
    refine ⟨admissible_of_fits F k cap _ (fits_append k cap 0 _ _ _ _ h1), ?_, ?_⟩
    · intro hres hl
      obtain ⟨a, b, c⟩ := h2 hres hl
      refine ⟨?_, b, c⟩
      show unitsOfList k (o ++ _) + eofRoom F k (run F k last s' src (budgetOf n)).st ≤ cap
      rw [unitsOfList_append]; omega
    · intro h; rw [hp] at h; cases h

/-- **two calls into one destination** (the shape of the BOM replay of `Decoder`): some budget
makes a non-last call admissible, and if it ends with `InputEmpty`, some budget makes the next call
admissible for what is left of the destination — even if that is less than `minCap` -/
theorem exists_admissible_chain (F : Fam) (k : Sink) (I : F.σ → Prop) (L : Laws F) (S : StopLaw F k I)
    (s : F.σ) (hi : I s) (src1 src2 : List Nat) (hb1 : ∀ b ∈ src1, b < 256) (hb2 : ∀ b ∈ src2, b < 256)
    (last : Bool) (cap : Nat) (hcap : minCap k ≤ cap) :
    ∃ b1, Admissible F k cap (Model.call F k s src1 false b1) ∧
      ((Model.call F k s src1 false b1).res = .inputEmpty →
        ∃ b2, Admissible F k (cap - unitsOfList k (Model.call F k s src1 false b1).out)
          (Model.call F k (Model.call F k s src1 false b1).st src2 last b2)) := by
  obtain ⟨b1, h1, h2, _⟩ := call_exists_x F k I L S s hi src1 hb1 false cap (Or.inl hcap)
  refine ⟨b1, h1, ?_⟩
  intro hres
  obtain ⟨a, b, c⟩ := h2 hres rfl
  obtain ⟨b2, h3, _⟩ := call_exists_x F k I L S _ c src2 hb2 last
    (cap - unitsOfList k (Model.call F k s src1 false b1).out) (Or.inr ⟨b, by omega⟩)
  exact ⟨b2, h3⟩

/-! ## the law for every family -/

theorem replRoom_le_needAstral (k : Sink) : replRoom k ≤ needAstral k := by cases k <;> decide
theorem needBmp_le_needAstral (k : Sink) : needBmp k ≤ needAstral k := by cases k <;> decide
theorem needAstral_eq_minCap (k : Sink) : needAstral k = minCap k := by cases k <;> rfl
theorem one_add_replRoom_le_minCap (k : Sink) : 1 + replRoom k ≤ minCap k := by cases k <;> decide

/-! ### single-byte, x-user-defined, replacement -/

theorem singleByte_stopLaw (t : Array Nat) (ht : TableBmp t) (k : Sink) :
    StopLaw (singleByteFam t) k (fun _ => True) where
  inv_step := fun _ _ _ _ _ => trivial
  inv_pend := fun _ _ _ _ _ => trivial
  step_ok := by
    intro s b _ _ hb _
    show unitsOfList k (singleByteFeed t s b).out + eofRoom (singleByteFam t) k _ ≤ needBmp k
    rw [eofRoom_of_eof_none _ _ _ rfl]
    exact (singleByte_facts t ht s b hb).2.1 k
  step_err := by
    intro s b e _ _ hb he
    have he' : (singleByteFeed t s b).err = some e := he
    show unitsOfList k (singleByteFeed t s b).out + replRoom k ≤ needBmp k
    rw [(singleByte_facts t ht s b hb).2.2 (by rw [he']; simp), units_nil, replRoom_eq_needBmp]
    omega
  flush := by intro s o s' _ h; cases h

theorem userDefined_stopLaw (k : Sink) : StopLaw userDefinedFam k (fun _ => True) where
  inv_step := fun _ _ _ _ _ => trivial
  inv_pend := fun _ _ _ _ _ => trivial
  step_ok := by
    intro s b _ _ hb _
    show unitsOfList k (userDefinedFeed s b).out + eofRoom userDefinedFam k _ ≤ needBmp k
    rw [eofRoom_of_eof_none _ _ _ rfl]
    exact (userDefined_facts s b hb).2 k
  step_err := by
    intro s b e _ _ hb he
    have he' : (userDefinedFeed s b).err = some e := he
    rw [(userDefined_facts s b hb).1] at he'; cases he'
  flush := by intro s o s' _ h; cases h

theorem replacement_stopLaw (k : Sink) : StopLaw replacementFam k (fun _ => True) where
  inv_step := fun _ _ _ _ _ => trivial
  inv_pend := fun _ _ _ _ _ => trivial
  step_ok := by
    intro (s : Bool) b _ _ _ he
    have he' : (replacementFeed s b).err = none := he
    show unitsOfList k (replacementFeed s b).out + eofRoom replacementFam k _ ≤ (if s then 0 else needBmp k)
    rw [eofRoom_of_eof_none _ _ _ rfl]
    cases s with
    | true => simp [replacementFeed, FeedRes.ok, units_nil]
    | false => simp [replacementFeed, FeedRes.bad] at he'
  step_err := by
    intro (s : Bool) b e _ _ _ he
    have he' : (replacementFeed s b).err = some e := he
    show unitsOfList k (replacementFeed s b).out + replRoom k ≤ (if s then 0 else needBmp k)
    cases s with
    | true => simp [replacementFeed, FeedRes.ok] at he'
    | false => simp [replacementFeed, FeedRes.bad, units_nil, replRoom_eq_needBmp]
  flush := by intro s o s' _ h; cases h

/-! ### UTF-8 -/

theorem utf8_eofRoom (k : Sink) (s : Utf8St) (h : Gen.MaxLen.utf8ExtraFromState s = 0) : eofRoom utf8Fam k s = 0 := by
  apply eofRoom_of_eof_none
  show (if s.needed ≠ 0 then some ((s.seen + 1, 0), utf8Init) else none) = none
  have hn : s.needed = 0 := by
    unfold Gen.MaxLen.utf8ExtraFromState at h
    split at h
    · assumption
    · omega
  simp [hn]

theorem utf8_stopLaw (k : Sink) : StopLaw utf8Fam k utf8Inv where
  inv_step := fun s b hi _ hb => (utf8_step s b hi hb).1
  inv_pend := by intro s o s' _ h; cases h
  step_ok := by
    intro (s : Utf8St) b hi _ hb he
    have he' : (utf8Feed s b).err = none := he
    show unitsOfList k (utf8Feed s b).out + eofRoom utf8Fam k (utf8Feed s b).st ≤ needAstral k
    rcases utf8_facts s b hi hb with ⟨_, _, ho, _⟩ | ⟨_, _, hx, c, ho, _, _⟩ | ⟨⟨e, h⟩, _⟩
    · rw [ho, units_nil]
      have := eofRoom_le utf8Fam k (utf8Feed s b).st
      have := replRoom_le_needAstral k
      omega
    · rw [ho, units_single, utf8_eofRoom k _ hx]
      have := unitsOf_le_astral k c
      omega
    · rw [he'] at h; cases h
  step_err := by
    intro (s : Utf8St) b e hi _ hb he
    have he' : (utf8Feed s b).err = some e := he
    show unitsOfList k (utf8Feed s b).out + replRoom k ≤ needAstral k
    rcases utf8_facts s b hi hb with ⟨h, _⟩ | ⟨h, _⟩ | ⟨_, ho, _⟩
    · rw [he'] at h; cases h
    · rw [he'] at h; cases h
    · rw [ho, units_nil]
      have := replRoom_le_needAstral k
      omega
  flush := by intro s o s' _ h; cases h

/-! ### UTF-16LE/BE: the end-of-stream block checks for room itself (`eofNeed`), so no room has to
be kept free between steps -/

theorem utf16_eofRoom (be : Bool) (k : Sink) (s : Utf16St) : eofRoom (utf16Fam be) k s = 0 :=
  eofRoom_of_eofNeed _ _ _ (by
    show replRoom k ≤ needBmp k
    rw [replRoom_eq_needBmp]; exact Nat.le_refl _)

theorem utf16_stopLaw (be : Bool) (k : Sink) : StopLaw (utf16Fam be) k utf16InvB where
  inv_step := fun s b hi hp hb => (utf16_facts be s b hi ((utf16_pend_none_iff s be).mp hp) hb).1
  inv_pend := fun s o s' hi h => (utf16_pend_facts be s o s' hi h).1
  step_ok := by
    intro (s : Utf16St) b hi hp hb he
    have he' : (utf16Feed be s b).err = none := he
    have hf := (utf16_facts be s b hi ((utf16_pend_none_iff s be).mp hp) hb).2
    show unitsOfList k (utf16Feed be s b).out + eofRoom (utf16Fam be) k (utf16Feed be s b).st ≤ needAstral k
    rw [utf16_eofRoom]
    unfold Utf16Facts at hf
    simp only at hf
    rcases hf with ⟨_, ho, _⟩ | ⟨_, _, _, c, ho⟩ | ⟨_, _, _, c, ho, _⟩ | ⟨⟨e, h⟩, _⟩ | ⟨⟨e, h⟩, _⟩
    · rw [ho, units_nil]; omega
    · rw [ho, units_single]; have := unitsOf_le_astral k c; omega
    · rw [ho, units_single]; have := unitsOf_le_astral k c; omega
    · rw [he'] at h; cases h
    · rw [he'] at h; cases h
  step_err := by
    intro (s : Utf16St) b e hi hp hb he
    have he' : (utf16Feed be s b).err = some e := he
    have hf := (utf16_facts be s b hi ((utf16_pend_none_iff s be).mp hp) hb).2
    show unitsOfList k (utf16Feed be s b).out + replRoom k ≤ needAstral k
    unfold Utf16Facts at hf
    simp only at hf
    have := replRoom_le_needAstral k
    rcases hf with ⟨h, _⟩ | ⟨h, _⟩ | ⟨h, _⟩ | ⟨_, _, ho, _⟩ | ⟨_, _, ho, _⟩
    · rw [he'] at h; cases h
    · rw [he'] at h; cases h
    · rw [he'] at h; cases h
    · rw [ho, units_nil]; omega
    · rw [ho, units_nil]; omega
  flush := by
    intro (s : Utf16St) o (s' : Utf16St) hi h
    obtain ⟨_, _, c, ho, _⟩ := utf16_pend_facts be s o s' hi h
    rw [utf16_eofRoom, ho, units_single]
    have := unitsOf_le_astral k c
    have := needAstral_eq_minCap k
    omega

/-! ### Big5, EUC-KR, Shift_JIS -/

theorem replRoom_le_twoByteNeed (astral : Bool) (k : Sink) :
    replRoom k ≤ (if astral then needAstral k else needBmp k) := by
  cases astral <;> cases k <;> decide

theorem twoByte_stopLaw (lf : Nat → LeadRes) (tf : Nat → Nat → TrailRes) (astral : Bool) (k : Sink)
    (S : checkLead lf = true) (T : checkTrail tf = true) (a1 a2 : Nat)
    (hl : checkLeadU lf k a1 = true) (h1 : 1 ≤ a1) (ht : checkTrailU tf k a2 = true)
    (ha1 : a1 ≤ (if astral then needAstral k else needBmp k))
    (ha2 : a2 ≤ (if astral then needAstral k else needBmp k)) :
    StopLaw (twoByteFam lf tf astral) k (fun s => ∀ l, s = some l → l < 256) where
  inv_step := fun s b hi hp hb => ((twoByteScalar lf tf astral S T).step s b hi hp hb).1
  inv_pend := by intro s o s' _ h; cases h
  step_ok := by
    intro (s : Option Nat) b hi _ hb he
    have he' : (twoByteFeed lf tf s b).err = none := he
    show unitsOfList k (twoByteFeed lf tf s b).out + eofRoom (twoByteFam lf tf astral) k (twoByteFeed lf tf s b).st
      ≤ (if astral then needAstral k else needBmp k)
    have h0 : eofRoom (twoByteFam lf tf astral) k (none : Option Nat) = 0 := eofRoom_of_eof_none _ _ _ rfl
    have hr := replRoom_le_twoByteNeed astral k
    rcases twoByte_facts lf tf k a1 a2 hl h1 ht s b hi hb with
      ⟨_, _, hst, hu⟩ | ⟨_, _, _, ho⟩ | ⟨_, ⟨e, h⟩, _⟩ | ⟨_, _, hst, hu⟩ | ⟨_, ⟨e, h⟩, _⟩
    · rw [hst, h0]; omega
    · rw [ho, units_nil]
      have := eofRoom_le (twoByteFam lf tf astral) k (twoByteFeed lf tf s b).st
      omega
    · rw [he'] at h; cases h
    · rw [hst, h0]; omega
    · rw [he'] at h; cases h
  step_err := by
    intro (s : Option Nat) b e hi _ hb he
    have he' : (twoByteFeed lf tf s b).err = some e := he
    show unitsOfList k (twoByteFeed lf tf s b).out + replRoom k ≤ (if astral then needAstral k else needBmp k)
    have hr := replRoom_le_twoByteNeed astral k
    rcases twoByte_facts lf tf k a1 a2 hl h1 ht s b hi hb with
      ⟨_, h, _⟩ | ⟨_, h, _⟩ | ⟨_, _, _, ho, _⟩ | ⟨_, h, _⟩ | ⟨_, _, _, ho⟩
    · rw [he'] at h; cases h
    · rw [he'] at h; cases h
    · rw [ho, units_nil]; omega
    · rw [he'] at h; cases h
    · rw [ho, units_nil]; omega
  flush := by intro s o s' _ h; cases h

theorem big5_stopLaw (k : Sink) : StopLaw big5Fam k (fun s => ∀ l, s = some l → l < 256) := by
  cases k
  · exact twoByte_stopLaw big5Lead big5Trail true .utf8 big5_checks.1 big5_checks.2 1 4
      big5_units.2.1 (Nat.le_refl _) big5_units.2.2.2 (by decide) (by decide)
  · exact twoByte_stopLaw big5Lead big5Trail true .utf16 big5_checks.1 big5_checks.2 1 2
      big5_units.1 (Nat.le_refl _) big5_units.2.2.1 (by decide) (by decide)

theorem eucKr_stopLaw (k : Sink) : StopLaw eucKrFam k (fun s => ∀ l, s = some l → l < 256) := by
  cases k
  · exact twoByte_stopLaw eucKrLead eucKrTrail false .utf8 eucKr_checks.1 eucKr_checks.2 1 3
      eucKr_units.2.1 (Nat.le_refl _) eucKr_units.2.2.2 (by decide) (by decide)
  · exact twoByte_stopLaw eucKrLead eucKrTrail false .utf16 eucKr_checks.1 eucKr_checks.2 1 1
      eucKr_units.1 (Nat.le_refl _) eucKr_units.2.2.1 (by decide) (by decide)

theorem shiftJis_stopLaw (k : Sink) : StopLaw shiftJisFam k (fun s => ∀ l, s = some l → l < 256) := by
  cases k
  · exact twoByte_stopLaw shiftJisLead shiftJisTrail false .utf8 shiftJis_checks.1 shiftJis_checks.2 3 3
      shiftJis_units.2.1 (by decide) shiftJis_units.2.2.2 (by decide) (by decide)
  · exact twoByte_stopLaw shiftJisLead shiftJisTrail false .utf16 shiftJis_checks.1 shiftJis_checks.2 1 1
      shiftJis_units.1 (Nat.le_refl _) shiftJis_units.2.2.1 (by decide) (by decide)

/-! ### EUC-JP -/

theorem eucJp_eofRoom (k : Sink) (s : EucJpSt) (h : eucJpPending s = false) : eofRoom eucJpFam k s = 0 := by
  apply eofRoom_of_eof_none
  cases s <;> first | rfl | cases h

theorem eucJp_stopLaw (k : Sink) : StopLaw eucJpFam k eucJpInv where
  inv_step := fun s b hi hp hb => (eucJpScalar.step s b hi hp hb).1
  inv_pend := by intro s o s' _ h; cases h
  step_ok := by
    intro (s : EucJpSt) b hi _ hb he
    have he' : (eucJpFeed s b).err = none := he
    show unitsOfList k (eucJpFeed s b).out + eofRoom eucJpFam k (eucJpFeed s b).st ≤ needBmp k
    have hf := eucJp_facts k s b hi hb
    unfold EucJpFacts at hf
    simp only at hf
    have hpos := needBmp_pos k
    have hrl := eofRoom_le eucJpFam k (eucJpFeed s b).st
    rw [replRoom_eq_needBmp] at hrl
    rcases hf with ⟨_, _, hst, hu⟩ | ⟨_, _, _, ho⟩ | ⟨_, ⟨e, h⟩, _⟩ | ⟨_, _, hst, hu⟩ | ⟨_, ⟨e, h⟩, _⟩
      | ⟨_, _, _, ho⟩
    · rw [eucJp_eofRoom k _ hst]; omega
    · rw [ho, units_nil]; omega
    · rw [he'] at h; cases h
    · rw [eucJp_eofRoom k _ hst]; omega
    · rw [he'] at h; cases h
    · rw [ho, units_nil]; omega
  step_err := by
    intro (s : EucJpSt) b e hi _ hb he
    have he' : (eucJpFeed s b).err = some e := he
    show unitsOfList k (eucJpFeed s b).out + replRoom k ≤ needBmp k
    have hf := eucJp_facts k s b hi hb
    unfold EucJpFacts at hf
    simp only at hf
    rw [replRoom_eq_needBmp]
    rcases hf with ⟨_, h, _⟩ | ⟨_, h, _⟩ | ⟨_, _, _, ho, _⟩ | ⟨_, h, _⟩ | ⟨_, _, _, ho⟩ | ⟨_, h, _⟩
    · rw [he'] at h; cases h
    · rw [he'] at h; cases h
    · rw [ho, units_nil]; omega
    · rw [he'] at h; cases h
    · rw [ho, units_nil]; omega
    · rw [he'] at h; cases h
  flush := by intro s o s' _ h; cases h

/-! ### gb18030 / GBK: the delayed ASCII digit is flushed into a destination of at least `minCap`,
which leaves room for the U+FFFD of a pending lead byte -/

theorem gb_eofRoom (k : Sink) (s : GbSt) (h : gbW s = 0) : eofRoom gbFam k s = 0 := by
  apply eofRoom_of_eof_none
  obtain ⟨p, pa⟩ := s
  show (if p = GbPending.none then none else some ((gbCount p, 0), (⟨GbPending.none, pa⟩ : GbSt))) = none
  have hp : p = GbPending.none := by
    cases p <;> simp_all [gbW, gbCount] <;> omega
  simp [hp]

theorem gb_stopLaw (k : Sink) : StopLaw gbFam k gbInv where
  inv_step := fun s b hi hp hb => (gbScalar.step s b hi hp hb).1
  inv_pend := fun s o s' hi h => (gbScalar.pend s o s' hi h).1
  step_ok := by
    intro (s : GbSt) b hi hp hb he
    have hpa := gb_pend_none s hp
    obtain ⟨p, pa⟩ := s
    simp only at hpa; subst hpa
    have he' : (gbFeed ⟨p, none⟩ b).err = none := he
    show unitsOfList k (gbFeed ⟨p, none⟩ b).out + eofRoom gbFam k (gbFeed ⟨p, none⟩ b).st ≤ needAstral k
    have hba := needBmp_le_needAstral k
    have hrl := eofRoom_le gbFam k (gbFeed ⟨p, none⟩ b).st
    have hra := replRoom_le_needAstral k
    rcases gb_facts k p b hi hb with ⟨_, hw, hu⟩ | ⟨_, ho, _⟩ | ⟨_, _, hw, c, ho⟩ | ⟨⟨e, h⟩, _⟩ | ⟨⟨e, h⟩, _⟩
    · rw [gb_eofRoom k _ hw]; omega
    · rw [ho, units_nil]; omega
    · rw [gb_eofRoom k _ hw, ho, units_single]
      have := unitsOf_le_astral k c
      omega
    · rw [he'] at h; cases h
    · rw [he'] at h; cases h
  step_err := by
    intro (s : GbSt) b e hi hp hb he
    have hpa := gb_pend_none s hp
    obtain ⟨p, pa⟩ := s
    simp only at hpa; subst hpa
    have he' : (gbFeed ⟨p, none⟩ b).err = some e := he
    show unitsOfList k (gbFeed ⟨p, none⟩ b).out + replRoom k ≤ needAstral k
    have hra := replRoom_le_needAstral k
    rcases gb_facts k p b hi hb with ⟨h, _⟩ | ⟨h, _⟩ | ⟨h, _⟩ | ⟨_, ho, _⟩ | ⟨_, ho, _⟩
    · rw [he'] at h; cases h
    · rw [he'] at h; cases h
    · rw [he'] at h; cases h
    · rw [ho, units_nil]; omega
    · rw [ho, units_nil]; omega
  flush := by
    intro (s : GbSt) o (s' : GbSt) hi h
    obtain ⟨p, pa⟩ := s
    cases pa with
    | none => cases h
    | some a =>
      cases h
      have ha : a < 0x80 := hi.2 a rfl
      have hrl := eofRoom_le gbFam k (⟨p, none⟩ : GbSt)
      have := one_add_replRoom_le_minCap k
      show unitsOfList k [a] + eofRoom gbFam k (⟨p, none⟩ : GbSt) ≤ minCap k
      rw [units_single, unitsOf_ascii k a ha]
      omega

/-! ### ISO-2022-JP: the end-of-stream block checks for room itself (after the repair of finding F7) -/

theorem iso_eofRoom (k : Sink) (s : Iso2022JpSt) : eofRoom iso2022JpFam k s = 0 :=
  eofRoom_of_eofNeed _ _ _ (by
    show replRoom k ≤ needBmp k
    rw [replRoom_eq_needBmp]; exact Nat.le_refl _)

theorem iso_stopLaw (k : Sink) : StopLaw iso2022JpFam k isoInvB where
  inv_step := by
    intro (s : Iso2022JpSt) b hi hp hb
    have hpp : s.pendingPrepended = false := (iso_pend_none_iff s).mp hp
    obtain ⟨ds, os, l, f, p⟩ := s
    simp only at hpp; subst hpp
    exact (iso_facts k ds os l f b hi hb).1
  inv_pend := fun s o s' hi h => (iso_pend_facts k s o s' hi h).1
  step_ok := by
    intro (s : Iso2022JpSt) b hi hp hb he
    have hpp : s.pendingPrepended = false := (iso_pend_none_iff s).mp hp
    obtain ⟨ds, os, l, f, p⟩ := s
    simp only at hpp; subst hpp
    have he' : (isoFeed ⟨ds, os, l, f, false⟩ b).err = none := he
    show unitsOfList k (isoFeed ⟨ds, os, l, f, false⟩ b).out
      + eofRoom iso2022JpFam k (isoFeed ⟨ds, os, l, f, false⟩ b).st ≤ needBmp k
    rw [iso_eofRoom]
    rcases (iso_facts k ds os l f b hi hb).2 with ⟨_, _, hu⟩ | ⟨_, ho, _⟩ | ⟨⟨e, h⟩, _⟩ | ⟨⟨e, h⟩, _⟩
    · omega
    · rw [ho, units_nil]; omega
    · rw [he'] at h; cases h
    · rw [he'] at h; cases h
  step_err := by
    intro (s : Iso2022JpSt) b e hi hp hb he
    have hpp : s.pendingPrepended = false := (iso_pend_none_iff s).mp hp
    obtain ⟨ds, os, l, f, p⟩ := s
    simp only at hpp; subst hpp
    have he' : (isoFeed ⟨ds, os, l, f, false⟩ b).err = some e := he
    show unitsOfList k (isoFeed ⟨ds, os, l, f, false⟩ b).out + replRoom k ≤ needBmp k
    rw [replRoom_eq_needBmp]
    rcases (iso_facts k ds os l f b hi hb).2 with ⟨h, _⟩ | ⟨h, _⟩ | ⟨_, ho, _⟩ | ⟨_, ho, _⟩
    · rw [he'] at h; cases h
    · rw [he'] at h; cases h
    · rw [ho, units_nil]; omega
    · rw [ho, units_nil]; omega
  flush := by
    intro (s : Iso2022JpSt) o (s' : Iso2022JpSt) hi h
    rw [iso_eofRoom]
    have hm : needBmp k ≤ minCap k := by cases k <;> decide
    rcases (iso_pend_facts k s o s' hi h).2.2 with ⟨_, hu⟩ | ⟨_, ho⟩
    · omega
    · rw [ho, units_nil]; omega

/-! ## every variant -/

theorem variant_stopLaw (v : Gen.Variant) (k : Sink) : StopLaw (famOfVariant v) k (variantInv v) := by
  cases v with
  | singleByte t a b c => exact singleByte_stopLaw _ (gen_tables_bmp t) k
  | utf8 => exact utf8_stopLaw k
  | gbk => exact gb_stopLaw k
  | gb18030 => exact gb_stopLaw k
  | big5 => exact big5_stopLaw k
  | eucJp => exact eucJp_stopLaw k
  | iso2022Jp => exact iso_stopLaw k
  | shiftJis => exact shiftJis_stopLaw k
  | eucKr => exact eucKr_stopLaw k
  | replacement => exact replacement_stopLaw k
  | utf16Be => exact utf16_stopLaw true k
  | utf16Le => exact utf16_stopLaw false k
  | userDefined => exact userDefined_stopLaw k

/-- **C06, decoder side, non-vacuity of `Admissible`**: for every variant decoder, every state
satisfying the state invariant, every source, `last` flag and every capacity of at least the
documented minimum, some stop budget makes the raw call admissible. -/
theorem exists_admissible_variant (v : Gen.Variant) (k : Sink) (s : (famOfVariant v).σ) (hi : variantInv v s)
    (src : List Nat) (hb : ∀ b ∈ src, b < 256) (last : Bool) (cap : Nat) (hcap : minCap k ≤ cap) :
    ∃ budget, Admissible (famOfVariant v) k cap (Model.call (famOfVariant v) k s src last budget) :=
  exists_admissible (famOfVariant v) k (variantInv v) (famOfVariant_laws v) (variant_stopLaw v k) s hi src hb
    last cap hcap

/-- the same for every state reached by any history of raw calls from the initial state -/
theorem exists_admissible_reachable (v : Gen.Variant) (k : Sink) (s : (famOfVariant v).σ) (hr : Reach v s)
    (src : List Nat) (hb : ∀ b ∈ src, b < 256) (last : Bool) (cap : Nat) (hcap : minCap k ≤ cap) :
    ∃ budget, Admissible (famOfVariant v) k cap (Model.call (famOfVariant v) k s src last budget) :=
  exists_admissible_variant v k s (variant_inv_reachable v s hr) src hb last cap hcap

/-! ## Non-vacuity and sharpness -/

/-- EUC-KR into 4 bytes of UTF-8, `last = true`: after `A`, `B` two bytes are free; the scheme stops
before the lead byte `B0` (it asks for 3), and that stop is admissible.  Not stopping is *not*
admissible here: the lead byte would be consumed and the end of the stream reports `Malformed`
with only 2 bytes free for U+FFFD.  The theorem applies to this call. -/
example :
    let F := famOfVariant .eucKr
    let r := Model.call F .utf8 F.init [0x41, 0x42, 0xB0] true (.full 2)
    let u := Model.call F .utf8 F.init [0x41, 0x42, 0xB0] true .unlimited
    r.res = .outputFull ∧ r.out = [0x41, 0x42] ∧ r.read = 2 ∧ r.stopNeed = 3 ∧ Admissible F .utf8 4 r ∧
    u.res = .malformed 1 0 ∧ ¬ Admissible F .utf8 4 u ∧
    (∃ budget, Admissible F .utf8 4 (Model.call F .utf8 F.init [0x41, 0x42, 0xB0] true budget)) := by
  intro F r u
  have hres : r.res = .outputFull := by decide
  have hout : r.out = [0x41, 0x42] := by decide
  have hneed : r.stopNeed = 3 := by decide
  have hures : u.res = .malformed 1 0 := by decide
  have huout : u.out = [0x41, 0x42] := by decide
  refine ⟨hres, hout, by decide, hneed, ⟨by rw [hout]; decide, ?_, ?_⟩, hures, ?_, ?_⟩
  · intro _; rw [hout, hneed]; decide
  · intro l a h; rw [hres] at h; cases h
  · intro h
    have := h.2.2 1 0 hures
    rw [huout] at this
    revert this; decide
  · exact exists_admissible_variant .eucKr .utf8 F.init (variantInv_init .eucKr) _ (by decide) true 4 (by decide)

/-- **the hypothesis `minCap k ≤ cap` cannot be dropped**: gb18030 after `81 30 81 41` (the `41` is
not a fourth byte: `Malformed(1, 2)`, the digit `30` is delayed and `81` is pending again) — a
reachable state.  At the end of the stream, with a destination of 3 bytes of UTF-8, no stop
decision is admissible: the flush cannot be refused (`pendNeed` = 3 bytes are free), it writes one
byte, and then `Malformed` is reported with 2 bytes free (`eofNeed` = 0: no stop is justified). -/
theorem gb18030_cap3_none :
    let F := famOfVariant .gb18030
    let s : GbSt := (Model.call F .utf8 F.init [0x81, 0x30, 0x81, 0x41] false .unlimited).st
    s = ⟨.one 0, some 0x30⟩ ∧ Reach .gb18030 s ∧
    ∀ budget, ¬ Admissible F .utf8 3 (Model.call F .utf8 s [] true budget) := by
  intro F s
  have hs : s = ⟨.one 0, some 0x30⟩ := rfl
  refine ⟨hs, Reach.call .utf8 F.init [0x81, 0x30, 0x81, 0x41] false .unlimited Reach.init (by decide), ?_⟩
  rw [hs]
  have hmal : ∀ budget, budget.isZero = false → budget.dec.isZero = false →
      ¬ Admissible F .utf8 3 (Model.call F .utf8 (⟨.one 0, some 0x30⟩ : GbSt) [] true budget) := by
    intro budget h1 h2 h
    have hres : (Model.call F .utf8 (⟨.one 0, some 0x30⟩ : GbSt) [] true budget).res = .malformed 1 0 := by
      show (Model.call gbFam .utf8 (⟨.one 0, some 0x30⟩ : GbSt) [] true budget).res = .malformed 1 0
      simp [Model.call, gbFam, run, h1, h2, gbCount]
    have hout : (Model.call F .utf8 (⟨.one 0, some 0x30⟩ : GbSt) [] true budget).out = [0x30] := by
      show (Model.call gbFam .utf8 (⟨.one 0, some 0x30⟩ : GbSt) [] true budget).out = [0x30]
      simp [Model.call, gbFam, run, h1, h2]
    have := h.2.2 1 0 hres
    rw [hout] at this
    revert this; decide
  intro budget
  cases budget with
  | unlimited => exact hmal _ rfl rfl
  | altAny => exact hmal _ rfl rfl
  | full n =>
    match n with
    | 0 =>
      intro h
      have := h.2.1 (by decide)
      revert this; decide
    | 1 =>
      intro h
      have := h.2.1 (by decide)
      revert this; decide
    | n + 2 => exact hmal _ (by simp [Budget.isZero]) (by simp [Budget.isZero, Budget.dec])

/-! ## the BOM life cycle (`Decoder`): the leaves of `Decoder.rawCall`

Every result of `Decoder.rawCall` is one of the leaves of `Lemmas.LifeLeaf.rawCall_leaf`: a call of
some current decoder on the source (`checkingEnd`), or the replay of one / two withheld bytes
followed by the source (`afterOne`, `afterTwo`).  For each of these, budgets exist for which the
call does not reach the "output buffer must have been too small" panic and all its inner calls are
admissible in the sense the driver checks (`Thm.C07.InnerAdmissible`): the replay into a destination
of at least `minCap` is never stopped before its first byte, and the call on the source goes on in
what the replay left of the destination. -/

open EncodingRs.Thm.C07 EncodingRs.Thm.C08 EncodingRs.Thm.C10 EncodingRs.Lemmas.LifeLeaf EncodingRs.Lemmas.Core

/-- a `Decoder` call that does not panic and whose inner variant-decoder calls are all admissible -/
def DGood {F : Fam} (k : Sink) (cap : Nat) : DRes F → Prop
  | .panic => False
  | .ok _ _ _ _ inner => InnerAdmissible k cap inner

/-- a family `G` running as the current decoder of a `Decoder F` -/
structure Emb (F G : Fam) where
  e : G.σ → Cur F
  call_eq : ∀ k s src last b, (e s).call k src last b =
    ⟨(Model.call G k s src last b).res, (Model.call G k s src last b).read, (Model.call G k s src last b).out,
      e (Model.call G k s src last b).st, (Model.call G k s src last b).stopNeed⟩

def embNominal (F : Fam) : Emb F F := ⟨.nominal, fun _ _ _ _ _ => rfl⟩
def embUtf8 (F : Fam) : Emb F utf8Fam := ⟨.utf8, fun _ _ _ _ _ => rfl⟩
def embUtf16be (F : Fam) : Emb F (utf16Fam true) := ⟨.utf16be, fun _ _ _ _ _ => rfl⟩
def embUtf16le (F : Fam) : Emb F (utf16Fam false) := ⟨.utf16le, fun _ _ _ _ _ => rfl⟩

theorem admT_of {G : Fam} {k : Sink} {cap : Nat} {r : CallRes G.σ} {x : Res} (h : Admissible G k cap r)
    (hres : r.res = x) : AdmT k cap (r.out, x, r.stopNeed) := by
  subst hres; exact h

theorem checkingEnd_good {F G : Fam} (E : Emb F G) (k : Sink) (I : G.σ → Prop) (L : Laws G) (S : StopLaw G k I)
    (s : G.σ) (hi : I s) (src : List Nat) (hb : ∀ b ∈ src, b < 256) (last : Bool) (cap off : Nat)
    (hcap : minCap k ≤ cap) :
    ∃ b2, DGood k cap (checkingEnd k (E.e s) src last b2 off [] []) := by
  obtain ⟨b2, h, _⟩ := call_exists_x G k I L S s hi (src.drop off)
    (fun b hb' => hb b (List.mem_of_mem_drop hb')) last cap (Or.inl hcap)
  refine ⟨b2, ?_⟩
  unfold checkingEnd
  simp only [E.call_eq, List.nil_append, DGood, InnerAdmissible]
  exact ⟨h, trivial⟩

theorem afterOne_good {F G : Fam} (E : Emb F G) (k : Sink) (I : G.σ → Prop) (L : Laws G) (S : StopLaw G k I)
    (hnb : ∀ s b, G.need k s b ≤ minCap k)
    (s : G.σ) (hi : I s) (src : List Nat) (hb : ∀ b ∈ src, b < 256) (last : Bool) (cap : Nat)
    (fb : Nat) (hfb : fb < 256) (hcap : minCap k ≤ cap) (hp : fb = 0xBB ∨ G.pend s = none) :
    ∃ b1 b2, DGood k cap (afterOne k (E.e s) src last fb b1 b2) := by
  have hb1 : ∀ x ∈ [fb], x < 256 := by
    intro x hx; simp only [List.mem_singleton] at hx; rw [hx]; exact hfb
  obtain ⟨b1, h1, h2, h3⟩ := call_exists_x G k I L S s hi [fb] hb1 false cap (Or.inl hcap)
  cases hres : (Model.call G k s [fb] false b1).res with
  | inputEmpty =>
    obtain ⟨a, b, c⟩ := h2 hres rfl
    obtain ⟨b2, h4, _⟩ := call_exists_x G k I L S _ c src hb last
      (cap - unitsOfList k (Model.call G k s [fb] false b1).out) (Or.inr ⟨b, by omega⟩)
    refine ⟨b1, b2, ?_⟩
    unfold afterOne
    simp only [E.call_eq, hres]
    unfold checkingEnd
    simp only [E.call_eq, List.drop_zero, DGood, InnerAdmissible, List.cons_append, List.nil_append]
    exact ⟨admT_of h1 hres, h4, trivial⟩
  | malformed l a =>
    refine ⟨b1, .unlimited, ?_⟩
    unfold afterOne
    simp only [E.call_eq, hres, DGood, InnerAdmissible]
    exact ⟨admT_of h1 hres, trivial⟩
  | outputFull =>
    refine ⟨b1, .unlimited, ?_⟩
    rcases hp with hbb | hpn
    · subst hbb
      unfold afterOne
      simp only [E.call_eq, hres, if_true, DGood, InnerAdmissible]
      exact ⟨admT_of h1 hres, trivial⟩
    · exfalso
      have hlt := call_outputFull_lt G k [fb] s b1 hres (by simp)
      have hread : (Model.call G k s [fb] false b1).read = 0 := by
        simp only [List.length_singleton] at hlt; omega
      have := h3 hpn hres hread fb [] rfl
      have := hnb s fb
      omega

theorem afterTwo_good {F G : Fam} (E : Emb F G) (k : Sink) (I : G.σ → Prop) (L : Laws G) (S : StopLaw G k I)
    (hnb : ∀ s b, G.need k s b ≤ minCap k)
    (s : G.σ) (hi : I s) (src : List Nat) (hb : ∀ b ∈ src, b < 256) (last : Bool) (cap : Nat)
    (hcap : minCap k ≤ cap) (hpn : G.pend s = none) :
    ∃ b1 b2, DGood k cap (afterTwo k (E.e s) src last b1 b2) := by
  have hb1 : ∀ x ∈ [0xEF, 0xBB], x < 256 := by decide
  obtain ⟨b1, h1, h2, h3⟩ := call_exists_x G k I L S s hi [0xEF, 0xBB] hb1 false cap (Or.inl hcap)
  cases hres : (Model.call G k s [0xEF, 0xBB] false b1).res with
  | inputEmpty =>
    obtain ⟨a, b, c⟩ := h2 hres rfl
    obtain ⟨b2, h4, _⟩ := call_exists_x G k I L S _ c src hb last
      (cap - unitsOfList k (Model.call G k s [0xEF, 0xBB] false b1).out) (Or.inr ⟨b, by omega⟩)
    refine ⟨b1, b2, ?_⟩
    unfold afterTwo
    simp only [E.call_eq, hres]
    unfold checkingEnd
    simp only [E.call_eq, List.drop_zero, DGood, InnerAdmissible, List.cons_append, List.nil_append]
    exact ⟨admT_of h1 hres, h4, trivial⟩
  | malformed l a =>
    refine ⟨b1, .unlimited, ?_⟩
    unfold afterTwo
    simp only [E.call_eq, hres]
    split
    · simp only [DGood, InnerAdmissible]; exact ⟨admT_of h1 hres, trivial⟩
    · simp only [DGood, InnerAdmissible]; exact ⟨admT_of h1 hres, trivial⟩
  | outputFull =>
    refine ⟨b1, .unlimited, ?_⟩
    have hlt := call_outputFull_lt G k [0xEF, 0xBB] s b1 hres (by simp)
    by_cases hr1 : (Model.call G k s [0xEF, 0xBB] false b1).read = 1
    · unfold afterTwo
      simp only [E.call_eq, hres, hr1, if_true, DGood, InnerAdmissible]
      exact ⟨admT_of h1 hres, trivial⟩
    · exfalso
      have hread : (Model.call G k s [0xEF, 0xBB] false b1).read = 0 := by
        simp only [List.length_cons, List.length_nil] at hlt; omega
      have := h3 hpn hres hread 0xEF [0xBB] rfl
      have := hnb s 0xEF
      omega

/-- the current decoder has no delayed output -/
def curFlushed {F : Fam} : Cur F → Prop
  | .nominal s => F.pend s = none
  | .utf8 s => utf8Fam.pend s = none
  | .utf16be s => (utf16Fam true).pend s = none
  | .utf16le s => (utf16Fam false).pend s = none

theorem cur_checkingEnd_good (v : Gen.Variant) (k : Sink) (c : Cur (famOfVariant v)) (hi : curInv v c)
    (src : List Nat) (hb : ∀ b ∈ src, b < 256) (last : Bool) (cap off : Nat) (hcap : minCap k ≤ cap) :
    ∃ b2, DGood k cap (checkingEnd k c src last b2 off [] []) := by
  cases c with
  | nominal s =>
    exact checkingEnd_good (embNominal _) k _ (famOfVariant_laws v) (variant_stopLaw v k) s hi src hb last cap off hcap
  | utf8 s =>
    exact checkingEnd_good (embUtf8 _) k _ (famOfVariant_laws .utf8) (variant_stopLaw .utf8 k) s hi src hb last
      cap off hcap
  | utf16be s =>
    exact checkingEnd_good (embUtf16be _) k _ (famOfVariant_laws .utf16Be) (variant_stopLaw .utf16Be k) s hi src hb
      last cap off hcap
  | utf16le s =>
    exact checkingEnd_good (embUtf16le _) k _ (famOfVariant_laws .utf16Le) (variant_stopLaw .utf16Le k) s hi src hb
      last cap off hcap

theorem cur_afterOne_good (v : Gen.Variant) (k : Sink) (c : Cur (famOfVariant v)) (hi : curInv v c)
    (src : List Nat) (hb : ∀ b ∈ src, b < 256) (last : Bool) (cap : Nat) (fb : Nat) (hfb : fb < 256)
    (hcap : minCap k ≤ cap) (hp : fb = 0xBB ∨ curFlushed c) :
    ∃ b1 b2, DGood k cap (afterOne k c src last fb b1 b2) := by
  cases c with
  | nominal s =>
    exact afterOne_good (embNominal _) k _ (famOfVariant_laws v) (variant_stopLaw v k)
      ((famOfVariant_needsBounded v k).1) s hi src hb last cap fb hfb hcap hp
  | utf8 s =>
    exact afterOne_good (embUtf8 _) k _ (famOfVariant_laws .utf8) (variant_stopLaw .utf8 k)
      ((famOfVariant_needsBounded .utf8 k).1) s hi src hb last cap fb hfb hcap hp
  | utf16be s =>
    exact afterOne_good (embUtf16be _) k _ (famOfVariant_laws .utf16Be) (variant_stopLaw .utf16Be k)
      ((famOfVariant_needsBounded .utf16Be k).1) s hi src hb last cap fb hfb hcap hp
  | utf16le s =>
    exact afterOne_good (embUtf16le _) k _ (famOfVariant_laws .utf16Le) (variant_stopLaw .utf16Le k)
      ((famOfVariant_needsBounded .utf16Le k).1) s hi src hb last cap fb hfb hcap hp

theorem cur_afterTwo_good (v : Gen.Variant) (k : Sink) (c : Cur (famOfVariant v)) (hi : curInv v c)
    (src : List Nat) (hb : ∀ b ∈ src, b < 256) (last : Bool) (cap : Nat)
    (hcap : minCap k ≤ cap) (hp : curFlushed c) :
    ∃ b1 b2, DGood k cap (afterTwo k c src last b1 b2) := by
  cases c with
  | nominal s =>
    exact afterTwo_good (embNominal _) k _ (famOfVariant_laws v) (variant_stopLaw v k)
      ((famOfVariant_needsBounded v k).1) s hi src hb last cap hcap hp
  | utf8 s =>
    exact afterTwo_good (embUtf8 _) k _ (famOfVariant_laws .utf8) (variant_stopLaw .utf8 k)
      ((famOfVariant_needsBounded .utf8 k).1) s hi src hb last cap hcap hp
  | utf16be s =>
    exact afterTwo_good (embUtf16be _) k _ (famOfVariant_laws .utf16Be) (variant_stopLaw .utf16Be k)
      ((famOfVariant_needsBounded .utf16Be k).1) s hi src hb last cap hcap hp
  | utf16le s =>
    exact afterTwo_good (embUtf16le _) k _ (famOfVariant_laws .utf16Le) (variant_stopLaw .utf16Le k)
      ((famOfVariant_needsBounded .utf16Le k).1) s hi src hb last cap hcap hp

/-- **every leaf of `Decoder.rawCall` has good budgets** (decoders reachable from `Decoder.new`:
`LifeInv`; destination of at least `minCap`): the call of the current or of a fresh UTF-8 / UTF-16
decoder on the source minus a BOM, the replay of one withheld byte, the replay of two. -/
theorem leaf_exists (v : Gen.Variant) (k : Sink) (d : Decoder (famOfVariant v)) (hd : LifeInv v d)
    (src : List Nat) (hb : ∀ b ∈ src, b < 256) (last : Bool) (cap : Nat) (hcap : minCap k ≤ cap) :
    (∀ off, ∃ b2, DGood k cap (checkingEnd k d.cur src last b2 off [] [])) ∧
    (∀ off, ∃ b2, DGood k cap
      (checkingEnd k (.utf8 utf8Fam.init : Cur (famOfVariant v)) src last b2 off [] [])) ∧
    (∀ (be : Bool) off, ∃ b2, DGood k cap
      (checkingEnd k (if be then .utf16be (utf16Fam true).init else .utf16le (utf16Fam false).init :
        Cur (famOfVariant v)) src last b2 off [] [])) ∧
    (∀ fb, replayOne d.life = some fb → ∃ b1 b2, DGood k cap (afterOne k d.cur src last fb b1 b2)) ∧
    (d.life = .seenUtf8Second → ∃ b1 b2, DGood k cap (afterTwo k d.cur src last b1 b2)) := by
  have hfresh : sniffingLife d.life = true → curFlushed d.cur := by
    intro h
    rw [hd.fresh h]
    exact (famOfVariant_laws v).init_pend
  refine ⟨?_, ?_, ?_, ?_, ?_⟩
  · intro off
    exact cur_checkingEnd_good v k d.cur hd.cur src hb last cap off hcap
  · intro off
    exact cur_checkingEnd_good v k _ (curInv_utf8_init v) src hb last cap off hcap
  · intro be off
    exact cur_checkingEnd_good v k _ (curInv_utf16_init v be) src hb last cap off hcap
  · intro fb hfb
    refine cur_afterOne_good v k d.cur hd.cur src hb last cap fb (replayOne_lt _ _ hfb) hcap ?_
    by_cases hbb : fb = 0xBB
    · exact Or.inl hbb
    · refine Or.inr (hfresh ?_)
      revert hfb
      cases d.life <;> simp [replayOne, sniffingLife] <;> omega
  · intro hl
    exact cur_afterTwo_good v k d.cur hd.cur src hb last cap hcap (hfresh (by rw [hl]; rfl))

/-- **`Decoder.rawCall` of a decoder that is past BOM sniffing** (`Converting`, or
`ConvertingWithPendingBB` after a replay was cut short): budgets exist for which the call does not
panic and every inner call is admissible.  (Every decoder is in such a state after its first call
that reached a variant decoder — `Thm.C07.SettledInv` — and from `Decoder.new` without BOM
sniffing.)  For the sniffing states the statement per leaf is `leaf_exists`. -/
theorem rawCall_exists_settled (v : Gen.Variant) (k : Sink) (d : Decoder (famOfVariant v)) (hd : LifeInv v d)
    (hs : sniffingLife d.life = false) (hnf : d.life ≠ .finished)
    (src : List Nat) (hb : ∀ b ∈ src, b < 256) (last : Bool) (cap : Nat) (hcap : minCap k ≤ cap) :
    ∃ b1 b2, DGood k cap (d.rawCall k src last b1 b2) := by
  have hl := leaf_exists v k d hd src hb last cap hcap
  obtain ⟨life, c⟩ := d
  cases life
  case converting =>
    obtain ⟨b2, h⟩ := hl.1 0
    exact ⟨.unlimited, b2, h⟩
  case convertingWithPendingBB =>
    exact hl.2.2.2.1 0xBB rfl
  case finished => exact absurd rfl hnf
  all_goals cases hs

theorem dgood_quiet {F : Fam} (k : Sink) (cap n : Nat) (d : Decoder F) :
    DGood k cap (.ok .inputEmpty n [] d [] : DRes F) := trivial

theorem second_exists (v : Gen.Variant) (k : Sink) (d : Decoder (famOfVariant v)) (hd : LifeInv v d)
    (src : List Nat) (hb : ∀ b ∈ src, b < 256) (last : Bool) (cap : Nat) (hcap : minCap k ≤ cap)
    (offset : Nat) (rest : List Nat)
    (h : (offset = 1 ∧ d.life = .seenUtf8First) ∨ (offset ≠ 1 ∧ (d.life = .atStart ∨ d.life = .atUtf8Start))) :
    ∃ b1 b2, DGood k cap (Decoder.rawCall.seenUtf8Second k d src last b1 b2 offset rest) := by
  have hl := leaf_exists v k d hd src hb last cap hcap
  have hleaf : ∃ b1 b2, DGood k cap
      (if offset = 1 then afterOne k d.cur src last 0xEF b1 b2 else checkingEnd k d.cur src last b2 0 [] []) := by
    rcases h with ⟨h1, h2⟩ | ⟨h1, h2⟩
    · obtain ⟨b1, b2, hg⟩ := hl.2.2.2.1 0xEF (by rw [h2]; rfl)
      exact ⟨b1, b2, by simp only [h1, if_true]; exact hg⟩
    · obtain ⟨b2, hg⟩ := hl.1 0
      exact ⟨.unlimited, b2, by simp only [h1, if_false]; exact hg⟩
  rcases rest with _ | ⟨x, r⟩
  · cases last with
    | true =>
      obtain ⟨b1, b2, hg⟩ := hleaf
      exact ⟨b1, b2, hg⟩
    | false => exact ⟨.unlimited, .unlimited, dgood_quiet k cap _ _⟩
  · by_cases hx : x = 0xBF
    · subst hx
      obtain ⟨b2, hg⟩ := hl.2.1 (offset + 1)
      exact ⟨.unlimited, b2, hg⟩
    · obtain ⟨b1, b2, hg⟩ := hleaf
      refine ⟨b1, b2, ?_⟩
      unfold Decoder.rawCall.seenUtf8Second
      split
      · rename_i heq; cases heq
      · rename_i heq; injection heq with h1 _; exact absurd h1 hx
      · exact hg

theorem first_exists (v : Gen.Variant) (k : Sink) (d : Decoder (famOfVariant v)) (hd : LifeInv v d)
    (src : List Nat) (hb : ∀ b ∈ src, b < 256) (last : Bool) (cap : Nat) (hcap : minCap k ≤ cap)
    (rest : List Nat) (h : d.life = .atStart ∨ d.life = .atUtf8Start) :
    ∃ b1 b2, DGood k cap (Decoder.rawCall.seenUtf8First k d src last b1 b2 rest) := by
  have hl := leaf_exists v k d hd src hb last cap hcap
  rcases rest with _ | ⟨x, r⟩
  · cases last with
    | true =>
      obtain ⟨b2, hg⟩ := hl.1 0
      exact ⟨.unlimited, b2, hg⟩
    | false => exact ⟨.unlimited, .unlimited, dgood_quiet k cap _ _⟩
  · by_cases hx : x = 0xBB
    · subst hx
      exact second_exists v k d hd src hb last cap hcap 2 r (Or.inr ⟨by decide, h⟩)
    · obtain ⟨b2, hg⟩ := hl.1 0
      refine ⟨.unlimited, b2, ?_⟩
      unfold Decoder.rawCall.seenUtf8First
      split
      · rename_i heq; cases heq
      · rename_i heq; injection heq with h1 _; exact absurd h1 hx
      · exact hg

theorem first16_exists (v : Gen.Variant) (k : Sink) (d : Decoder (famOfVariant v)) (hd : LifeInv v d)
    (src : List Nat) (hb : ∀ b ∈ src, b < 256) (last : Bool) (cap : Nat) (hcap : minCap k ≤ cap)
    (be : Bool) (rest : List Nat) :
    ∃ b2, DGood k cap (Decoder.rawCall.seenUtf16First k d src last b2 be rest) := by
  have hl := leaf_exists v k d hd src hb last cap hcap
  rcases rest with _ | ⟨x, r⟩
  · cases last with
    | true => exact hl.1 0
    | false => exact ⟨.unlimited, dgood_quiet k cap _ _⟩
  · by_cases hx : x = (if be then 0xFF else 0xFE)
    · obtain ⟨b2, hg⟩ := hl.2.2.1 be 2
      refine ⟨b2, ?_⟩
      unfold Decoder.rawCall.seenUtf16First
      simp only []
      rw [if_pos hx]
      exact hg
    · obtain ⟨b2, hg⟩ := hl.1 0
      refine ⟨b2, ?_⟩
      unfold Decoder.rawCall.seenUtf16First
      simp only []
      rw [if_neg hx]
      exact hg

/-- **`Decoder.rawCall`, all life-cycle states**: for every decoder reachable from `Decoder.new`
(`LifeInv`) that is not finished, every source, `last` flag and every destination of at least
`minCap`, budgets exist for which the call does not reach the replay panic and every inner
variant-decoder call is admissible (`Thm.C07.InnerAdmissible`, what the driver checks). -/
theorem rawCall_exists (v : Gen.Variant) (k : Sink) (d : Decoder (famOfVariant v)) (hd : LifeInv v d)
    (hnf : d.life ≠ .finished)
    (src : List Nat) (hb : ∀ b ∈ src, b < 256) (last : Bool) (cap : Nat) (hcap : minCap k ≤ cap) :
    ∃ b1 b2, DGood k cap (d.rawCall k src last b1 b2) := by
  have hl := leaf_exists v k d hd src hb last cap hcap
  by_cases hs : sniffingLife d.life = false
  · exact rawCall_exists_settled v k d hd hs hnf src hb last cap hcap
  obtain ⟨life, c⟩ := d
  cases life
  case converting => exact absurd rfl hs
  case convertingWithPendingBB => exact absurd rfl hs
  case finished => exact absurd rfl hs
  case atStart =>
    rcases src with _ | ⟨x, r⟩
    · exact ⟨.unlimited, .unlimited, dgood_quiet k cap _ _⟩
    · by_cases h1 : x = 0xEF
      · subst h1
        exact first_exists v k _ hd _ hb last cap hcap r (Or.inl rfl)
      · by_cases h2 : x = 0xFE
        · subst h2
          obtain ⟨b2, hg⟩ := first16_exists v k _ hd _ hb last cap hcap true r
          exact ⟨.unlimited, b2, hg⟩
        · by_cases h3 : x = 0xFF
          · subst h3
            obtain ⟨b2, hg⟩ := first16_exists v k _ hd _ hb last cap hcap false r
            exact ⟨.unlimited, b2, hg⟩
          · obtain ⟨b2, hg⟩ := hl.1 0
            refine ⟨.unlimited, b2, ?_⟩
            unfold Decoder.rawCall
            simp only []
            split
            · rename_i heq; cases heq
            · rename_i heq; injection heq with h' _; exact absurd h' h1
            · rename_i heq; injection heq with h' _; exact absurd h' h2
            · rename_i heq; injection heq with h' _; exact absurd h' h3
            · exact hg
  case atUtf8Start =>
    rcases src with _ | ⟨x, r⟩
    · exact ⟨.unlimited, .unlimited, dgood_quiet k cap _ _⟩
    · by_cases h1 : x = 0xEF
      · subst h1
        exact first_exists v k _ hd _ hb last cap hcap r (Or.inr rfl)
      · obtain ⟨b2, hg⟩ := hl.1 0
        refine ⟨.unlimited, b2, ?_⟩
        unfold Decoder.rawCall
        simp only []
        split
        · rename_i heq; cases heq
        · rename_i heq; injection heq with h' _; exact absurd h' h1
        · exact hg
  case atUtf16BeStart =>
    rcases src with _ | ⟨x, r⟩
    · exact ⟨.unlimited, .unlimited, dgood_quiet k cap _ _⟩
    · by_cases h1 : x = 0xFE
      · subst h1
        obtain ⟨b2, hg⟩ := first16_exists v k _ hd _ hb last cap hcap true r
        exact ⟨.unlimited, b2, hg⟩
      · obtain ⟨b2, hg⟩ := hl.1 0
        refine ⟨.unlimited, b2, ?_⟩
        unfold Decoder.rawCall
        simp only []
        split
        · rename_i heq; cases heq
        · rename_i heq; injection heq with h' _; exact absurd h' h1
        · exact hg
  case atUtf16LeStart =>
    rcases src with _ | ⟨x, r⟩
    · exact ⟨.unlimited, .unlimited, dgood_quiet k cap _ _⟩
    · by_cases h1 : x = 0xFF
      · subst h1
        obtain ⟨b2, hg⟩ := first16_exists v k _ hd _ hb last cap hcap false r
        exact ⟨.unlimited, b2, hg⟩
      · obtain ⟨b2, hg⟩ := hl.1 0
        refine ⟨.unlimited, b2, ?_⟩
        unfold Decoder.rawCall
        simp only []
        split
        · rename_i heq; cases heq
        · rename_i heq; injection heq with h' _; exact absurd h' h1
        · exact hg
  case seenUtf8First =>
    have hone := hl.2.2.2.1 0xEF rfl
    rcases src with _ | ⟨x, r⟩
    · cases last with
      | true => exact hone
      | false => exact ⟨.unlimited, .unlimited, dgood_quiet k cap _ _⟩
    · by_cases h1 : x = 0xBB
      · subst h1
        exact second_exists v k _ hd _ hb last cap hcap 1 r (Or.inl ⟨rfl, rfl⟩)
      · obtain ⟨b1, b2, hg⟩ := hone
        refine ⟨b1, b2, ?_⟩
        unfold Decoder.rawCall
        simp only []
        split
        · rename_i heq; cases heq
        · rename_i heq; injection heq with h' _; exact absurd h' h1
        · exact hg
  case seenUtf8Second =>
    have htwo := hl.2.2.2.2 rfl
    rcases src with _ | ⟨x, r⟩
    · cases last with
      | true => exact htwo
      | false => exact ⟨.unlimited, .unlimited, dgood_quiet k cap _ _⟩
    · by_cases h1 : x = 0xBF
      · subst h1
        obtain ⟨b2, hg⟩ := hl.2.1 1
        exact ⟨.unlimited, b2, hg⟩
      · obtain ⟨b1, b2, hg⟩ := htwo
        refine ⟨b1, b2, ?_⟩
        unfold Decoder.rawCall
        simp only []
        split
        · rename_i heq; cases heq
        · rename_i heq; injection heq with h' _; exact absurd h' h1
        · exact hg
  case seenUtf16BeFirst =>
    have hone := hl.2.2.2.1 0xFE rfl
    rcases src with _ | ⟨x, r⟩
    · cases last with
      | true => exact hone
      | false => exact ⟨.unlimited, .unlimited, dgood_quiet k cap _ _⟩
    · by_cases h1 : x = 0xFF
      · subst h1
        obtain ⟨b2, hg⟩ := hl.2.2.1 true 1
        exact ⟨.unlimited, b2, hg⟩
      · obtain ⟨b1, b2, hg⟩ := hone
        refine ⟨b1, b2, ?_⟩
        unfold Decoder.rawCall
        simp only []
        split
        · rename_i heq; cases heq
        · rename_i heq; injection heq with h' _; exact absurd h' h1
        · exact hg
  case seenUtf16LeFirst =>
    have hone := hl.2.2.2.1 0xFF rfl
    rcases src with _ | ⟨x, r⟩
    · cases last with
      | true => exact hone
      | false => exact ⟨.unlimited, .unlimited, dgood_quiet k cap _ _⟩
    · by_cases h1 : x = 0xFE
      · subst h1
        obtain ⟨b2, hg⟩ := hl.2.2.1 false 1
        exact ⟨.unlimited, b2, hg⟩
      · obtain ⟨b1, b2, hg⟩ := hone
        refine ⟨b1, b2, ?_⟩
        unfold Decoder.rawCall
        simp only []
        split
        · rename_i heq; cases heq
        · rename_i heq; injection heq with h' _; exact absurd h' h1
        · exact hg

/-- for decoders reachable from `new_decoder*` by any history of calls -/
theorem rawCall_exists_reachable (v : Gen.Variant) (bom : BomHandling) (k : Sink) (d : Decoder (famOfVariant v))
    (hr : DReach v bom d) (hnf : d.life ≠ .finished)
    (src : List Nat) (hb : ∀ b ∈ src, b < 256) (last : Bool) (cap : Nat) (hcap : minCap k ≤ cap) :
    ∃ b1 b2, DGood k cap (d.rawCall k src last b1 b2) :=
  rawCall_exists v k d (lifeInv_reachable v bom d hr) hnf src hb last cap hcap

end EncodingRs.Thm.C06Exists
