import EncodingRs.Lemmas.Mem
/-!
# C15 — `mem` conversions are exact and respect their partial-output contracts

Property theorems only; helper lemmas live in `Lemmas/Mem.lean`, the hand
models of the Rust functions in `Model/Mem.lean`, the reference conversions
(Unicode ch. 3, `TextEncoder.encodeInto`) in `Spec/Conv.lean`.

All theorems hold for every source (induction, no length bound) and every
destination length `cap`. Sources are `List Nat`; the range hypotheses
(`< 65536` for UTF-16 code units, `< 256` for bytes) are the Rust types.
The UTF-8 → UTF-16 theorems (v) are in `Thm/C15Utf8.lean`.
-/
namespace EncodingRs.Thm.C15
open EncodingRs.Spec.Conv EncodingRs.Model.Mem EncodingRs.Lemmas.Mem

/-! ## (i) `convert_utf16_to_utf8_partial` -/

/-- The model of `convert_utf16_to_utf8_partial` (hot loop with its
"4 free bytes before any non-ASCII unit" rule, followed by the cold tail) is
exactly the greedy rule of `TextEncoder.encodeInto()`, for every source and
every destination length. -/
theorem convert_utf16_to_utf8_partial_eq_encodeInto (src : List Nat) (cap : Nat)
    (h16 : ∀ u ∈ src, u < 65536) :
    convertUtf16ToUtf8Partial src cap = encodeIntoUtf8 src cap :=
  partial_eq src cap h16

/-- **C15 (i)**. For `(read, written bytes) = convert_utf16_to_utf8_partial(src, dst)`
with `cap = dst.len()`:
1. `read ≤ src.len()` and `written ≤ dst.len()`;
2. the written bytes are exactly the UTF-8 encoding of the lossy decoding
   (unpaired surrogate ↦ U+FFFD) of the first `read` code units;
3. a surrogate pair is never split: the consumed prefix does not end between a
   high surrogate and a following low surrogate;
4. equivalently, what remains decodes independently of what was consumed;
5. maximality (`encodeInto` semantics): either everything was read, or the next
   character of the remaining input does not fit into the remaining bytes. -/
theorem convert_utf16_to_utf8_partial_spec (src : List Nat) (cap : Nat) (h16 : ∀ u ∈ src, u < 65536) :
    let r := convertUtf16ToUtf8Partial src cap
    r.1 ≤ src.length ∧ r.2.length ≤ cap ∧
    r.2 = utf8EncodeAll (decodeUtf16Lossy (src.take r.1)) ∧
    (∀ h l, 0 < r.1 → src[r.1 - 1]? = some h → src[r.1]? = some l →
      ¬ (isHighSurrogate h = true ∧ isLowSurrogate l = true)) ∧
    decodeUtf16Lossy src = decodeUtf16Lossy (src.take r.1) ++ decodeUtf16Lossy (src.drop r.1) ∧
    (r.1 = src.length ∨
      ∃ c, (decodeUtf16Lossy (src.drop r.1)).head? = some c ∧ cap < r.2.length + utf8Len c) := by
  intro r
  have h := encodeInto_spec src cap
  rw [← partial_eq src cap h16] at h
  exact ⟨h.read_le, h.written_le, h.exact, h.no_split, h.compositional, h.maximal⟩

/-- With the documented sufficient size (`3 * src.len()`) everything is read. -/
theorem convert_utf16_to_utf8_partial_sufficient (src : List Nat) (cap : Nat) (h16 : ∀ u ∈ src, u < 65536)
    (hcap : 3 * src.length ≤ cap) : (convertUtf16ToUtf8Partial src cap).1 = src.length := by
  rw [partial_eq src cap h16]; exact encodeInto_full src cap h16 hcap

/-- `convert_utf16_to_utf8`: panics exactly when the destination is shorter than
`3 * src.len()`, otherwise writes exactly the UTF-8 form of the lossy decoding
(in particular the `debug_assert_eq!(read, src.len())` never fires). -/
theorem convert_utf16_to_utf8_spec (src : List Nat) (cap : Nat) (h16 : ∀ u ∈ src, u < 65536) :
    convertUtf16ToUtf8 src cap =
      if cap < src.length * 3 then .panic else .ok (utf8EncodeAll (decodeUtf16Lossy src)) := by
  unfold convertUtf16ToUtf8
  by_cases hc : cap < src.length * 3
  · simp [hc]
  · have hfull := convert_utf16_to_utf8_partial_sufficient src cap h16 (by omega)
    have hex := (convert_utf16_to_utf8_partial_spec src cap h16).2.2.1
    simp only [hc, if_false, hfull, if_true]
    rw [hex, hfull, List.take_length]

/-! ## (ii) Latin1 -/

/-- **C15 (ii-a)** `convert_latin1_to_utf8_partial`: counts in range, the written
bytes are exactly the UTF-8 form of the first `read` bytes read as U+0000..U+00FF,
and it stops only at the end of the source or at a byte whose UTF-8 form does not fit. -/
theorem convert_latin1_to_utf8_partial_spec (src : List Nat) (cap : Nat) (h8 : ∀ b ∈ src, b < 256) :
    let r := convertLatin1ToUtf8Partial src cap
    r.1 ≤ src.length ∧ r.2.length ≤ cap ∧
    r.2 = utf8EncodeAll (latin1Decode (src.take r.1)) ∧
    (r.1 = src.length ∨ ∃ b, src[r.1]? = some b ∧ cap < r.2.length + utf8Len b) := by
  intro r
  have h := latin1Into_spec src cap
  rw [← latin1Partial_eq src cap h8] at h
  exact ⟨h.read_le, h.written_le, h.exact, h.maximal⟩

/-- `convert_latin1_to_utf8`: panics exactly when `dst.len() < 2 * src.len()`,
otherwise the exact UTF-8 form. -/
theorem convert_latin1_to_utf8_spec (src : List Nat) (cap : Nat) (h8 : ∀ b ∈ src, b < 256) :
    convertLatin1ToUtf8 src cap =
      if cap < src.length * 2 then .panic else .ok (utf8EncodeAll (latin1Decode src)) := by
  unfold convertLatin1ToUtf8
  by_cases hc : cap < src.length * 2
  · simp [hc]
  · have hfull : (convertLatin1ToUtf8Partial src cap).1 = src.length := by
      rw [latin1Partial_eq src cap h8]; exact latin1Into_full src cap h8 (by omega)
    have hex := (convert_latin1_to_utf8_partial_spec src cap h8).2.2.1
    simp only [hc, if_false, hfull, if_true]
    rw [hex, hfull, List.take_length]

/-- **C15 (ii-b)** `convert_latin1_to_utf16`: panics exactly when the destination
is too short, otherwise writes the UTF-16 form of the Latin1 text. -/
theorem convert_latin1_to_utf16_spec (src : List Nat) (cap : Nat) (h8 : ∀ b ∈ src, b < 256) :
    convertLatin1ToUtf16 src cap =
      if cap < src.length then .panic else .ok (utf16EncodeAll (latin1Decode src)) := by
  unfold convertLatin1ToUtf16 latin1Decode
  rw [utf16EncodeAll_bmp src (fun c hc => by have := h8 c hc; omega)]
  simp

/-- **C15 (ii-c)** `convert_utf16_to_latin1_lossy` on input in U+0000..U+00FF:
the output bytes, read as Latin1, are the decoded input. -/
theorem convert_utf16_to_latin1_lossy_spec (src : List Nat) (cap : Nat) (hl : ∀ u ∈ src, u ≤ 0xFF) :
    convertUtf16ToLatin1Lossy src cap =
      if cap < src.length then .panic else .ok (decodeUtf16Lossy src) := by
  unfold convertUtf16ToLatin1Lossy
  have h1 : src.map (fun u => u % 256) = src := by
    conv => rhs; rw [← List.map_id src]
    apply List.map_congr_left
    intro u hu; have := hl u hu; simp; omega
  have h2 : decodeUtf16Lossy src = src := decodeUtf16_nonsurr src (fun u hu => by
    have := hl u hu
    simp only [isSurrogate, Bool.and_eq_false_iff, decide_eq_false_iff_not]; omega)
  rw [h1, h2]

/-- **C15 (ii-d)** `convert_utf8_to_latin1_lossy` on valid UTF-8 restricted to
U+0000..U+00FF (the documented precondition): no panic when the destination is
long enough — including the debug assertion — and the output bytes, read as
Latin1, are the decoded input. -/
theorem convert_utf8_to_latin1_lossy_spec (dbg : Bool) (src : List Nat) (cap : Nat) (h8 : ∀ b ∈ src, b < 256)
    (hv : validUtf8Latin1 src = true) :
    convertUtf8ToLatin1Lossy dbg src cap =
      if cap < src.length then .panic else .ok (decodeUtf8Lossy src) := by
  unfold validUtf8Latin1 at hv
  rw [Bool.and_eq_true] at hv
  obtain ⟨h1, h2⟩ := utf8ToLatin1_ok src.length src (Nat.le_refl _) h8 hv.1 hv.2
  unfold convertUtf8ToLatin1Lossy
  simp [h1, h2]

/-- the crate's own Latin1 test (`is_utf8_latin1`, used by the debug assertion)
is exactly "valid UTF-8 with all scalar values ≤ U+00FF" -/
theorem is_utf8_latin1_spec (src : List Nat) (h8 : ∀ b ∈ src, b < 256) :
    isUtf8Latin1 src = validUtf8Latin1 src := by
  cases hv : validUtf8Latin1 src with
  | true =>
    unfold validUtf8Latin1 at hv
    rw [Bool.and_eq_true] at hv
    exact (utf8ToLatin1_ok src.length src (Nat.le_refl _) h8 hv.1 hv.2).1
  | false =>
    cases hm : isUtf8Latin1 src with
    | false => rfl
    | true =>
      have := isUtf8Latin1_sound src.length src (Nat.le_refl _) h8 hm
      rw [hv] at this; cases this

/-- with debug assertions on, `convert_utf8_to_latin1_lossy` panics exactly when
the destination is too short or the input is outside the documented domain -/
theorem convert_utf8_to_latin1_lossy_debug_spec (src : List Nat) (cap : Nat) (h8 : ∀ b ∈ src, b < 256) :
    convertUtf8ToLatin1Lossy true src cap =
      if cap < src.length ∨ validUtf8Latin1 src = false then .panic else .ok (decodeUtf8Lossy src) := by
  cases hv : validUtf8Latin1 src with
  | true => rw [convert_utf8_to_latin1_lossy_spec true src cap h8 hv]; simp
  | false =>
    unfold convertUtf8ToLatin1Lossy
    rw [is_utf8_latin1_spec src h8, hv]
    simp

/-- `decode_latin1`: borrows exactly when the input is ASCII-only; the result
is the UTF-8 form of the Latin1 text (never panics) -/
theorem decode_latin1_spec (src : List Nat) (h8 : ∀ b ∈ src, b < 256) :
    decodeLatin1 src = .ok (src.all (fun b => decide (b < 0x80)), utf8EncodeAll (latin1Decode src)) :=
  decode_latin1_ok src h8 (fun t ht => by
    rw [convert_latin1_to_utf8_spec t _ ht]; simp)

/-- `encode_latin1_lossy` on valid UTF-8 restricted to U+0000..U+00FF: borrows
exactly when the input is ASCII-only; the bytes, read as Latin1, are the input text -/
theorem encode_latin1_lossy_spec (dbg : Bool) (src : List Nat) (h8 : ∀ b ∈ src, b < 256)
    (hv : validUtf8Latin1 src = true) :
    encodeLatin1Lossy dbg src = .ok (src.all (fun b => decide (b < 0x80)), decodeUtf8Lossy src) :=
  encode_latin1_ok dbg src h8 hv (fun t ht hvt => by
    rw [convert_utf8_to_latin1_lossy_spec dbg t _ ht hvt]; simp)

/-! ## (iii) `ensure_utf16_validity` -/

/-- **C15 (iii)** `ensure_utf16_validity` replaces exactly the unpaired
surrogates (the positions marked by `unpairedMask`) by U+FFFD and leaves every
other code unit as it is. -/
theorem ensure_utf16_validity_spec (buf : List Nat) (h16 : ∀ u ∈ buf, u < 65536) :
    ensureUtf16Validity buf = replaceUnpaired buf :=
  ensureLoop_eq (buf.length + 1) buf (Nat.lt_succ_self _) h16

/-- the length is preserved, the result is well-formed UTF-16 and decodes to
the lossy decoding of the input -/
theorem ensure_utf16_validity_valid (buf : List Nat) (h16 : ∀ u ∈ buf, u < 65536) :
    (ensureUtf16Validity buf).length = buf.length ∧
    validUtf16 (ensureUtf16Validity buf) = true ∧
    decodeUtf16Lossy (ensureUtf16Validity buf) = decodeUtf16Lossy buf := by
  rw [ensure_utf16_validity_spec buf h16]
  exact ⟨(ru_props buf).1, (ru_props buf).2.1, (ru_props buf).2.2.1⟩

/-- valid input is left unchanged -/
theorem ensure_utf16_validity_noop (buf : List Nat) (h16 : ∀ u ∈ buf, u < 65536) (hv : validUtf16 buf = true) :
    ensureUtf16Validity buf = buf := by
  rw [ensure_utf16_validity_spec buf h16]; exact (ru_props buf).2.2.2 hv

/-- idempotent -/
theorem ensure_utf16_validity_idempotent (buf : List Nat) (h16 : ∀ u ∈ buf, u < 65536) :
    ensureUtf16Validity (ensureUtf16Validity buf) = ensureUtf16Validity buf := by
  have hr : ∀ u ∈ ensureUtf16Validity buf, u < 65536 := by
    rw [ensure_utf16_validity_spec buf h16]
    intro u hu
    unfold replaceUnpaired at hu
    rw [List.mem_iff_getElem] at hu
    obtain ⟨i, hi, rfl⟩ := hu
    simp only [List.getElem_zipWith]
    split
    · decide
    · exact h16 _ (List.getElem_mem _)
  exact ensure_utf16_validity_noop _ hr (ensure_utf16_validity_valid buf h16).2.1

/-! ## (iv) `copy_*` -/

/-- **C15 (iv)** `copy_ascii_to_ascii`, `copy_ascii_to_basic_latin`,
`copy_basic_latin_to_ascii` (one model, `copyAscii`): panic exactly when the
destination is shorter than the source; otherwise the returned count is the
index of the first unit `≥ 0x80` (or the length) and exactly that prefix was
copied. -/
theorem copy_ascii_spec (src : List Nat) (cap : Nat) :
    copyAscii src cap =
      if cap < src.length then .panic
      else .ok (asciiPrefixLen src, src.take (asciiPrefixLen src)) := by
  unfold copyAscii
  by_cases hc : cap < src.length
  · simp [hc]
  · simp only [hc, if_false]
    obtain ⟨h1, h2, h3⟩ := asciiCopy_spec src cap (by omega)
    generalize asciiCopy src cap = r at h1 h2 h3
    obtain ⟨o, w⟩ := r
    simp only at h1 h2 h3
    cases o with
    | none =>
      have := h2 rfl
      simp only [h1, this]
    | some p =>
      obtain ⟨c, i⟩ := p
      have := (h3 c i rfl).1
      simp only [h1, this]

theorem copy_ascii_to_ascii_spec (src : List Nat) (cap : Nat) :
    copyAsciiToAscii src cap =
      if cap < src.length then .panic else .ok (asciiPrefixLen src, src.take (asciiPrefixLen src)) :=
  copy_ascii_spec src cap

theorem copy_ascii_to_basic_latin_spec (src : List Nat) (cap : Nat) :
    copyAsciiToBasicLatin src cap =
      if cap < src.length then .panic else .ok (asciiPrefixLen src, src.take (asciiPrefixLen src)) :=
  copy_ascii_spec src cap

theorem copy_basic_latin_to_ascii_spec (src : List Nat) (cap : Nat) :
    copyBasicLatinToAscii src cap =
      if cap < src.length then .panic else .ok (asciiPrefixLen src, src.take (asciiPrefixLen src)) :=
  copy_ascii_spec src cap

/-! ## the `&mut str` forms

`convert_utf16_to_str_partial`, `convert_utf16_to_str`, `convert_latin1_to_str_partial`,
`convert_latin1_to_str` call the `&mut [u8]` forms and then zero trailing
continuation bytes beyond `written`; counts and written prefix are those of
the `&mut [u8]` forms (same model), so the theorems above apply verbatim. -/

theorem convert_utf16_to_str_partial_eq (src : List Nat) (cap : Nat) :
    convertUtf16ToStrPartial src cap = convertUtf16ToUtf8Partial src cap := rfl

theorem convert_utf16_to_str_spec (src : List Nat) (cap : Nat) (h16 : ∀ u ∈ src, u < 65536) :
    convertUtf16ToStr src cap =
      if cap < src.length * 3 then .panic else .ok (utf8EncodeAll (decodeUtf16Lossy src)) :=
  convert_utf16_to_utf8_spec src cap h16

theorem convert_latin1_to_str_partial_eq (src : List Nat) (cap : Nat) :
    convertLatin1ToStrPartial src cap = convertLatin1ToUtf8Partial src cap := rfl

theorem convert_latin1_to_str_spec (src : List Nat) (cap : Nat) (h8 : ∀ b ∈ src, b < 256) :
    convertLatin1ToStr src cap =
      if cap < src.length * 2 then .panic else .ok (utf8EncodeAll (latin1Decode src)) :=
  convert_latin1_to_utf8_spec src cap h8

/-- The 16-unit stride structure of the `ascii.rs` copy kernels (default build:
`is_ascii(stride)` ⇒ copy the whole stride, otherwise per-unit scan of that
stride; per-unit loop for the last `len % 16` units) is observationally the
per-unit loop used by all the models above — result and written units, for
every source and destination length. -/
theorem ascii_copy_kernel_eq (src : List Nat) (cap : Nat) : asciiCopyImpl src cap = asciiCopy src cap :=
  asciiCopyImpl_eq src cap

/-! ## Non-vacuity: concrete values (kernel-evaluated) -/

-- "aaaaa" + 5 × U+3042 into 16 bytes: 5 + 3·3 = 14 bytes, 8 units (the F5 input)
example : convertUtf16ToUtf8Partial [0x61, 0x61, 0x61, 0x61, 0x61, 0x3042, 0x3042, 0x3042, 0x3042, 0x3042] 16
    = (8, [0x61, 0x61, 0x61, 0x61, 0x61, 0xE3, 0x81, 0x82, 0xE3, 0x81, 0x82, 0xE3, 0x81, 0x82]) := by decide
-- a pair with exactly three free bytes is not split; an unpaired high surrogate uses them
example : convertUtf16ToUtf8Partial [0xD83D, 0xDCA9] 3 = (0, []) := by decide
example : convertUtf16ToUtf8Partial [0xD83D, 0x41] 3 = (1, [0xEF, 0xBF, 0xBD]) := by decide
example : convertUtf16ToUtf8Partial [0x41, 0xD83D, 0xDCA9, 0xE4] 6 = (3, [0x41, 0xF0, 0x9F, 0x92, 0xA9]) := by decide
-- the hot loop stops with 3 free bytes before U+00E4 although it would fit; the tail picks it up
example : utf16ToUtf8Inner [0xE4, 0x41] 3 = (0, []) := by decide
example : convertUtf16ToUtf8Partial [0xE4, 0x41] 3 = (2, [0xC3, 0xA4, 0x41]) := by decide
example : convertLatin1ToUtf8Partial [0x41, 0xE4, 0xFF] 4 = (2, [0x41, 0xC3, 0xA4]) := by decide
example : ensureUtf16Validity [0xD800, 0xD800, 0xDC00, 0xDC00, 0x41] = [0xFFFD, 0xD800, 0xDC00, 0xFFFD, 0x41] := by decide
example : copyAscii [0x41, 0x42, 0x80, 0x43] 4 = .ok (2, [0x41, 0x42]) := by decide
example : copyAscii [0x41, 0x42] 1 = .panic := by decide
example : convertUtf8ToLatin1Lossy true [0x41, 0xC3, 0xA4, 0xC2, 0x80] 5 = .ok [0x41, 0xE4, 0x80] := by decide
example : convertUtf8ToLatin1Lossy true [0xC4, 0x80] 2 = .panic := by decide
example : decodeLatin1 [0x41, 0xE4] = .ok (false, [0x41, 0xC3, 0xA4]) := by decide
example : decodeLatin1 [0x41, 0x42] = .ok (true, [0x41, 0x42]) := by decide
example : encodeLatin1Lossy true [0x41, 0xC3, 0xA4] = .ok (false, [0x41, 0xE4]) := by decide

end EncodingRs.Thm.C15
