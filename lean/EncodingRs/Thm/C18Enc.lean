import EncodingRs.Model.Encoder
/-!
# C18, encoder side — written output is fully determined by the input, never by the buffer's old bytes

As for decoders (`Thm/C18.lean`), a model call has no access to the destination's old contents; to
make that a real statement, memory-level wrappers thread an arbitrary old buffer through the calls.

* raw calls: `ecallMem` stores the model's output over the old contents (`store`);
  `ecall_independent_of_dst`, `prefix_fully_stored`, `beyond_written_unmodified`.
* with replacement: `encReplMem` is the loop of `Encoder::encode_from_utf8/16` *with the destination
  threaded through it*: every inner raw call stores its bytes at `dst[total_written..]`, `write_ncr`
  stores at the new `total_written`, and the result's output is read back from the buffer as
  `dst[..total_written]`.  `encReplMem_eq_encRepl`: that is exactly the result of the pure model
  `Model.encRepl` — all return values and the written prefix — whatever the buffer held before; so the
  stores at the offsets `total_written` tile the written prefix without gaps
  (`encReplMem_prefix_stored`) and nothing is computed from old contents
  (`encRepl_independent_of_dst`).

The implementation is *allowed* to write garbage beyond `written` ("Garbage may be written in the
output buffer beyond the point logically written to", lib.rs); `beyond_written_unmodified` is a fact
about the model's `store`, not a claim about the crate.  The weight of C18 is on the correspondence run
(every history executed with the destination pre-filled with 0x00, 0xFF and 0xA5).
-/
namespace EncodingRs.Thm.C18Enc
open EncodingRs EncodingRs.Model

/-- destination after a call that wrote `bytes` at its start: the written bytes, then what was there -/
def store (old bytes : List Nat) : List Nat := bytes ++ old.drop bytes.length

structure EMemRes (σ : Type) where
  r : ECallRes σ
  written : Nat
  dst : List Nat

def ecallMem (E : EFam) (old : List Nat) (utf16 : Bool) (s : E.σ) (src : List Nat) (last : Bool) (b : Budget) :
    EMemRes E.σ :=
  let r := ecall E utf16 s src last b
  ⟨r, r.out.length, store old r.out⟩

/-- all return values and the written prefix are the same whatever the destination held before -/
theorem ecall_independent_of_dst (E : EFam) (old₁ old₂ : List Nat) (utf16 : Bool) (s : E.σ) (src : List Nat)
    (last : Bool) (b : Budget) :
    (ecallMem E old₁ utf16 s src last b).r = (ecallMem E old₂ utf16 s src last b).r ∧
    (ecallMem E old₁ utf16 s src last b).written = (ecallMem E old₂ utf16 s src last b).written ∧
    (ecallMem E old₁ utf16 s src last b).dst.take (ecallMem E old₁ utf16 s src last b).written
      = (ecallMem E old₂ utf16 s src last b).dst.take (ecallMem E old₂ utf16 s src last b).written := by
  refine ⟨rfl, rfl, ?_⟩
  simp [ecallMem, store]

/-- the written prefix is the model's output -/
theorem ecallMem_prefix (E : EFam) (old : List Nat) (utf16 : Bool) (s : E.σ) (src : List Nat)
    (last : Bool) (b : Budget) :
    (ecallMem E old utf16 s src last b).dst.take (ecallMem E old utf16 s src last b).written
      = (ecall E utf16 s src last b).out := by
  simp [ecallMem, store]

/-- every unit of the written prefix is stored by the call -/
theorem prefix_fully_stored (old bytes : List Nat) (i : Nat) (h : i < bytes.length) :
    (store old bytes)[i]? = bytes[i]? := by
  unfold store
  rw [List.getElem?_append_left h]

/-- (model) bytes beyond `written` keep their old value -/
theorem beyond_written_unmodified (old bytes : List Nat) (i : Nat) (h : bytes.length ≤ i) :
    (store old bytes)[i]? = old[i]? := by
  unfold store
  rw [List.getElem?_append_right h, List.getElem?_drop]
  congr 1; omega

/-! ## with replacement: the destination threaded through the loop -/

/-- store `bytes` at offset `off` -/
def storeAt (dst : List Nat) (off : Nat) (bytes : List Nat) : List Nat :=
  dst.take off ++ bytes ++ dst.drop (off + bytes.length)

theorem storeAt_take (dst : List Nat) (off : Nat) (bytes : List Nat) (h : off ≤ dst.length) :
    (storeAt dst off bytes).take (off + bytes.length) = dst.take off ++ bytes := by
  unfold storeAt
  have hl : (dst.take off ++ bytes).length = off + bytes.length := by
    rw [List.length_append, List.length_take, Nat.min_eq_left h]
  rw [← hl, List.take_left]

theorem storeAt_length_ge (dst : List Nat) (off : Nat) (bytes : List Nat) (h : off ≤ dst.length) :
    off + bytes.length ≤ (storeAt dst off bytes).length := by
  unfold storeAt
  simp only [List.length_append, List.length_take, List.length_drop, Nat.min_eq_left h]
  omega

/-- a store inside the buffer does not change its length … -/
theorem storeAt_length (dst : List Nat) (off : Nat) (bytes : List Nat) (h : off + bytes.length ≤ dst.length) :
    (storeAt dst off bytes).length = dst.length := by
  unfold storeAt
  simp only [List.length_append, List.length_take, List.length_drop]
  omega

/-- … nor anything in front of the offset -/
theorem storeAt_before (dst : List Nat) (off : Nat) (bytes : List Nat) (h : off ≤ dst.length) :
    (storeAt dst off bytes).take off = dst.take off := by
  unfold storeAt
  have hl : (dst.take off).length = off := by rw [List.length_take, Nat.min_eq_left h]
  rw [List.append_assoc, List.take_append_of_le_length (by omega), List.take_of_length_le (by omega)]

variable (E : EFam)

/-- the loop of `encode_from_utf8/16` on a destination buffer: stores at `dst[total_written..]`, the
result's output read back from the buffer -/
def goMem (utf16 last : Bool) : Nat → E.σ → List Nat → List Budget → Nat → Nat → Nat → List Nat → Bool →
    List (Nat × Nat × ERes × Nat) → Option (EReplRes E.σ × List Nat)
  | 0, _, _, _, _, _, _, _, _, _ => none
  | fuel + 1, s, src, budgets, eff, tr, tw, dst, had, inner =>
    let r := ecall E utf16 s (src.drop tr) last (budgets.headD .unlimited)
    let inner' := inner ++ [(eff - tw, r.out.length, r.res, r.stopNeed)]
    let tr' := tr + r.read
    let dst' := storeAt dst tw r.out
    let tw' := tw + r.out.length
    match r.res with
    | .inputEmpty => some (⟨.inputEmpty, tr', dst'.take tw', had, r.st, inner'⟩, dst')
    | .outputFull => some (⟨.outputFull, tr', dst'.take tw', had, r.st, inner'⟩, dst')
    | .unmappable c =>
      let dst'' := storeAt dst' tw' (ncr c)
      let tw'' := tw' + (ncr c).length
      if tw'' ≥ eff then
        if tr' = src.length ∧ ¬ (last ∧ E.hasPending r.st) then
          some (⟨.inputEmpty, tr', dst''.take tw'', true, r.st, inner'⟩, dst'')
        else some (⟨.outputFull, tr', dst''.take tw'', true, r.st, inner'⟩, dst'')
      else goMem utf16 last fuel r.st src budgets.tail eff tr' tw'' dst'' true inner'

/-- `Encoder::encode_from_utf8/16` on a destination with old contents `old` -/
def encReplMem (canAll : Bool) (ncrExtra : Nat) (utf16 last : Bool) (cap : Nat) (old : List Nat) :
    Nat → E.σ → List Nat → List Budget → Option (EReplRes E.σ × List Nat)
  | 0, _, _, _ => none
  | fuel + 1, s, src, budgets =>
    if ¬ canAll ∧ cap < ncrExtra then
      if src.isEmpty ∧ ¬ (last ∧ E.hasPending s) then some (⟨.inputEmpty, 0, [], false, s, []⟩, old)
      else some (⟨.outputFull, 0, [], false, s, []⟩, old)
    else
      let eff := if canAll then cap else cap - ncrExtra
      goMem E utf16 last fuel s src budgets eff 0 0 old false []

/-- the memory-level loop computes what the pure loop computes when the latter's accumulated output
is the written prefix of the buffer -/
theorem goMem_eq_go (utf16 last : Bool) : ∀ (fuel : Nat) (s : E.σ) (src : List Nat) (budgets : List Budget)
    (eff tr tw : Nat) (dst : List Nat) (had : Bool) (inner : List (Nat × Nat × ERes × Nat)), tw ≤ dst.length →
    (goMem E utf16 last fuel s src budgets eff tr tw dst had inner).map Prod.fst
      = encRepl.go E utf16 last fuel s src budgets eff tr tw (dst.take tw) had inner := by
  intro fuel
  induction fuel with
  | zero => intro s src budgets eff tr tw dst had inner _; rfl
  | succ fuel ih =>
    intro s src budgets eff tr tw dst had inner hle
    rw [goMem, encRepl.go]
    simp only
    generalize ecall E utf16 s (List.drop tr src) last (budgets.headD Budget.unlimited) = r
    have h1 := storeAt_take dst tw r.out hle
    have h2 := storeAt_length_ge dst tw r.out hle
    cases hres : r.res with
    | inputEmpty => simp only [Option.map_some, h1]
    | outputFull => simp only [Option.map_some, h1]
    | unmappable c =>
      simp only
      have h3 := storeAt_take (storeAt dst tw r.out) (tw + r.out.length) (ncr c) h2
      have h4 := storeAt_length_ge (storeAt dst tw r.out) (tw + r.out.length) (ncr c) h2
      rw [h1] at h3
      split
      · split
        · simp only [Option.map_some, h3]
        · simp only [Option.map_some, h3]
      · rw [ih _ _ _ _ _ _ _ _ _ h4, h3]

/-- **the with-replacement call on a real destination returns exactly what the pure model returns** —
result, `read`, the written bytes `dst[..written]`, `had_unmappables`, state — whatever the
destination held before -/
theorem encReplMem_eq_encRepl (canAll : Bool) (ncrExtra : Nat) (utf16 last : Bool) (cap : Nat) (old : List Nat)
    (fuel : Nat) (s : E.σ) (src : List Nat) (budgets : List Budget) :
    (encReplMem E canAll ncrExtra utf16 last cap old fuel s src budgets).map Prod.fst
      = encRepl E canAll ncrExtra utf16 last cap fuel s src budgets := by
  cases fuel with
  | zero => rfl
  | succ fuel =>
    rw [encReplMem, encRepl]
    split
    · split <;> rfl
    · have := goMem_eq_go E utf16 last fuel s src budgets (if canAll = true then cap else cap - ncrExtra) 0 0 old
        false [] (Nat.zero_le _)
      simpa using this

/-- **nothing is computed from the destination's old contents**: two runs that differ only in what
the destination held before return the same values and report the same written bytes -/
theorem encRepl_independent_of_dst (canAll : Bool) (ncrExtra : Nat) (utf16 last : Bool) (cap : Nat)
    (old₁ old₂ : List Nat) (fuel : Nat) (s : E.σ) (src : List Nat) (budgets : List Budget) :
    (encReplMem E canAll ncrExtra utf16 last cap old₁ fuel s src budgets).map Prod.fst
      = (encReplMem E canAll ncrExtra utf16 last cap old₂ fuel s src budgets).map Prod.fst := by
  rw [encReplMem_eq_encRepl, encReplMem_eq_encRepl]

theorem goMem_prefix (utf16 last : Bool) : ∀ (fuel : Nat) (s : E.σ) (src : List Nat) (budgets : List Budget)
    (eff tr tw : Nat) (dst : List Nat) (had : Bool) (inner : List (Nat × Nat × ERes × Nat))
    (t : EReplRes E.σ) (dst' : List Nat), tw ≤ dst.length →
    goMem E utf16 last fuel s src budgets eff tr tw dst had inner = some (t, dst') →
    dst'.take t.out.length = t.out ∧ dst.take tw = dst'.take tw := by
  intro fuel
  induction fuel with
  | zero => intro s src budgets eff tr tw dst had inner t dst' _ h; simp [goMem] at h
  | succ fuel ih =>
    intro s src budgets eff tr tw dst had inner t dst' hle h
    rw [goMem] at h
    simp only at h
    generalize ecall E utf16 s (List.drop tr src) last (budgets.headD Budget.unlimited) = r at h
    have h2 := storeAt_length_ge dst tw r.out hle
    have h5 := storeAt_before dst tw r.out hle
    cases hres : r.res with
    | inputEmpty =>
      simp only [hres, Option.some.injEq, Prod.mk.injEq] at h
      obtain ⟨ht, hd⟩ := h
      subst ht; subst hd
      simp only [List.length_take, Nat.min_eq_left h2]
      exact ⟨trivial, h5.symm⟩
    | outputFull =>
      simp only [hres, Option.some.injEq, Prod.mk.injEq] at h
      obtain ⟨ht, hd⟩ := h
      subst ht; subst hd
      simp only [List.length_take, Nat.min_eq_left h2]
      exact ⟨trivial, h5.symm⟩
    | unmappable c =>
      simp only [hres] at h
      have h4 := storeAt_length_ge (storeAt dst tw r.out) (tw + r.out.length) (ncr c) h2
      have h6 := storeAt_before (storeAt dst tw r.out) (tw + r.out.length) (ncr c) h2
      have h7 : dst.take tw = (storeAt (storeAt dst tw r.out) (tw + r.out.length) (ncr c)).take tw := by
        have := congrArg (List.take tw) h6
        rw [List.take_take, List.take_take, Nat.min_eq_left (by omega)] at this
        rw [this, h5]
      split at h
      · split at h
        · simp only [Option.some.injEq, Prod.mk.injEq] at h
          obtain ⟨ht, hd⟩ := h
          subst ht; subst hd
          simp only [List.length_take, Nat.min_eq_left h4]
          exact ⟨trivial, h7⟩
        · simp only [Option.some.injEq, Prod.mk.injEq] at h
          obtain ⟨ht, hd⟩ := h
          subst ht; subst hd
          simp only [List.length_take, Nat.min_eq_left h4]
          exact ⟨trivial, h7⟩
      · obtain ⟨a, b⟩ := ih _ _ _ _ _ _ _ _ _ t dst' h4 h
        refine ⟨a, ?_⟩
        have := congrArg (List.take tw) b
        rw [List.take_take, List.take_take, Nat.min_eq_left (by omega)] at this
        rw [h7, this]

/-- **every unit of the written prefix is stored by the call**: the output the call reports is what
the destination holds in `dst[..written]` afterwards — the stores of the inner calls and of
`write_ncr` at the successive values of `total_written` leave no gap -/
theorem encReplMem_prefix_stored (canAll : Bool) (ncrExtra : Nat) (utf16 last : Bool) (cap : Nat) (old : List Nat)
    (fuel : Nat) (s : E.σ) (src : List Nat) (budgets : List Budget) (t : EReplRes E.σ) (dst' : List Nat)
    (h : encReplMem E canAll ncrExtra utf16 last cap old fuel s src budgets = some (t, dst')) :
    dst'.take t.out.length = t.out := by
  cases fuel with
  | zero => simp [encReplMem] at h
  | succ fuel =>
    rw [encReplMem] at h
    split at h
    · split at h <;>
      · simp only [Option.some.injEq, Prod.mk.injEq] at h
        obtain ⟨ht, _⟩ := h
        subst ht
        rfl
    · exact (goMem_prefix E utf16 last fuel s src budgets _ 0 0 old false [] t dst' (Nat.zero_le _) h).1

/-! Non-vacuity: Shift_JIS, `a` U+00E9 `b` into a 20-byte destination pre-filled with 0xA5:
`a&#233;b` is stored, the rest keeps the fill. -/
example : (encReplMem shiftJisEFam false Gen.ncrExtra true true 20 (List.replicate 20 0xA5) 6 ()
      [0x61, 0xE9, 0x62] []).map (fun p => (p.1.out, p.2))
    = some ([0x61, 38, 35, 50, 51, 51, 59, 0x62],
        [0x61, 38, 35, 50, 51, 51, 59, 0x62] ++ List.replicate 12 0xA5) := by
  decide +kernel

example : (ecallMem eucKrEFam [0xA5, 0xA5, 0xA5, 0xA5] true () [0x41] false .unlimited).dst
    = [0x41, 0xA5, 0xA5, 0xA5] := by decide +kernel

end EncodingRs.Thm.C18Enc
