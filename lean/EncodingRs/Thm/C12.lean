import EncodingRs.Lemmas.RoundTripAll
import EncodingRs.Lemmas.WithNeed
/-!
# C12 — encoder output is valid text of the target encoding and decodes back to the input

For each of the 40 encodings (`IsEnc v`): take any text of scalar values, run
the encoder model over it (`eref`: the chunk-free reference semantics that
every call history equals, Thm/C04), replace every `Unmappable(u)` by the
numeric character reference `ncr u` the way `Encoder::encode_from_*` does
(`subst`), and decode the bytes with the reference decoding semantics `ref` of
the decoder of the output encoding (`decFam v`; UTF-8 for UTF-16BE/LE and
replacement).  Then

* `enc_dec_roundtrip`: the result is, **without any error event**, the text
  with each unmappable character replaced by its NCR and every other character
  `c` replaced by `fold v c`;
* `prefix_decodes_clean` / `byte_prefix_decodes_clean`: the same for the bytes
  written for any prefix of the text — in fact for *every byte prefix* of the
  output, so also at a call boundary between an ISO-2022-JP escape sequence and
  its character — whatever follows;
* `final_ascii`, `has_pending_iff`: ISO-2022-JP — the encoder state is the escape
  state implied by the bytes emitted so far (`Corr`), `has_pending_state()`
  ⇔ that state is not ASCII, and the complete output ends in the ASCII state;
* `folds_exact`: `fold v c ≠ c` exactly on the documented set.

The per-character facts are finite obligations over all 1 112 064 scalar values
(× 3 encoder states for ISO-2022-JP), evaluated by `native_decide` over the
regenerated tables (`Lemmas/RT/*.lean`, 39 uses).
-/
namespace EncodingRs.Thm.C12
open EncodingRs EncodingRs.Model EncodingRs.Lemmas.Core EncodingRs.Lemmas.EncCore
open EncodingRs.Lemmas.RoundTrip EncodingRs.Lemmas.FamLaws EncodingRs.Lemmas.WithNeed

/-- `v` is the variant of one of the encodings of lib.rs -/
def IsEnc (v : Gen.Variant) : Prop := v ∈ Gen.encodings.map (·.variant)

/-- `Encoding::output_encoding` on variants -/
def outVariant : Gen.Variant → Gen.Variant
  | .replacement => .utf8
  | .utf16Be => .utf8
  | .utf16Le => .utf8
  | v => v

/-- the decoder of the encoding the encoder of `v` writes -/
def decFam (v : Gen.Variant) : Fam := famOfVariant (outVariant v)

/-- the `u` of `Unmappable(u)` that the encoder reports for `c` (`none`: `c` is written) -/
def unmapOf (E : EFam) (c : Nat) : Option Nat :=
  reportOf (processChar E (E.rank E.init c + 1) E.init c .unlimited [])

/-- what the character `c` of the input comes back as -/
def expectedChar (E : EFam) (f : Nat → Nat) (c : Nat) : List Nat :=
  match unmapOf E c with
  | some u => ncr u
  | none => [f c]

/-- the input text with each unmappable character replaced by the numeric character reference
the encoder writes for it and every other character folded -/
def expected (v : Gen.Variant) (text : List Nat) : List Nat :=
  text.flatMap (expectedChar (efamOfVariant v) (fold v))

/-- the complete byte output of `Encoder::encode_from_*` (with replacement) for `text` -/
def output (v : Gen.Variant) (text : List Nat) : List Nat :=
  subst (eref (efamOfVariant v) (efamOfVariant v).init text)

/-- the bytes written for the characters of a prefix `p` (no end-of-stream block) -/
def outputOpen (v : Gen.Variant) (p : List Nat) : List Nat :=
  subst (erefOpen (efamOfVariant v) (efamOfVariant v).init p).1

/-! ### the packaged per-encoding fact -/

structure RT (E : EFam) (F : Fam) (f : Nat → Nat) : Prop where
  init_pend : F.pend F.init = none
  open_ : ∀ p, (∀ c ∈ p, isScalar c = true) →
    ∃ d, feedAll F F.init (subst (erefOpen E E.init p).1) = some (p.flatMap (expectedChar E f), d) ∧
      F.pend d = none ∧ F.eof d = none ∧
      ∃ d', feedAll F d (E.eof (erefOpen E E.init p).2).1 = some ([], d') ∧ F.pend d' = none ∧ F.eof d' = none

theorem cout_eq (enc : Nat → Option (List Nat)) (need : Nat) (f : Nat → Nat) (c : Nat) :
    cout enc f c = expectedChar (statelessEFam enc need) f c := by
  unfold cout expectedChar unmapOf
  cases he : enc c with
  | some bs => rw [stateless_processChar_some enc need c bs _ he]; rfl
  | none => rw [stateless_processChar_none enc need c _ he]; rfl

theorem rt_stateless {F : Fam} {enc : Nat → Option (List Nat)} {f : Nat → Nat} (need : Nat)
    (h : StatelessOK F enc f) : RT (statelessEFam enc need) F f where
  init_pend := h.pend
  open_ := by
    intro p hp
    refine ⟨F.init, ?_, h.pend, h.eof, F.init, rfl, h.pend, h.eof⟩
    rw [stateless_erefOpen, stateless_feedAll h p hp]
    have : cout enc f = expectedChar (statelessEFam enc need) f := funext (cout_eq enc need f)
    rw [this]

/-! ### ISO-2022-JP -/

theorem iso_expected (c : Nat) (hs : isScalar c = true) :
    expectedChar iso2022JpEFam foldIso c = isoExpected c := by
  have := (iso_ok .ascii c hs).1
  show (match reportOf (isoChar .ascii c) with
    | some u => ncr u
    | none => [foldIso c]) = isoExpected c
  rw [this]
  rfl

theorem corr_pend (s : IsoEncSt) (d : Iso2022JpSt) (h : Corr s d) : iso2022JpFam.pend d = none :=
  (iso_pend_none_iff d).mpr h.2.2.2

theorem corr_eof (s : IsoEncSt) (d : Iso2022JpSt) (h : Corr s d) : iso2022JpFam.eof d = none := by
  show isoEof d = none
  unfold isoEof
  rw [h.1]
  cases s <;> rfl

/-- the invariant `Corr` is carried through any text: the bytes written for it are accepted and
decode to the expected characters -/
theorem iso_open : ∀ (p : List Nat) (s : IsoEncSt) (d : Iso2022JpSt), (∀ c ∈ p, isScalar c = true) → Corr s d →
    ∃ d', feedAll iso2022JpFam d (subst (erefOpen iso2022JpEFam s p).1)
        = some (p.flatMap (expectedChar iso2022JpEFam foldIso), d') ∧
      Corr (erefOpen iso2022JpEFam s p).2 d' := by
  intro p
  induction p with
  | nil => intro s d _ h; exact ⟨d, rfl, h⟩
  | cons c t ih =>
    intro s d hs h
    have hc := hs c (by simp)
    obtain ⟨_, H⟩ := iso_ok s c hc
    obtain ⟨d1, hf1, hc1⟩ := H d h
    obtain ⟨d', hf2, hc2⟩ := ih (charSt (isoChar s c)) d1 (fun x hx => hs x (by simp [hx])) hc1
    refine ⟨d', ?_, hc2⟩
    simp only [erefOpen, List.flatMap_cons, subst_append]
    rw [iso_expected c hc]
    exact feedAll_append_some _ _ _ _ _ _ _ _ hf1 hf2

theorem rt_iso : RT iso2022JpEFam iso2022JpFam foldIso where
  init_pend := rfl
  open_ := by
    intro p hp
    obtain ⟨d, hf, hc⟩ := iso_open p .ascii isoInit hp corr_init
    obtain ⟨d', hf', h1, _, h3, _⟩ := iso_eof_feed _ d hc
    refine ⟨d, hf, corr_pend _ d hc, corr_eof _ d hc, d', hf', (iso_pend_none_iff d').mpr h3, ?_⟩
    show isoEof d' = none
    unfold isoEof
    rw [h1]

/-! ### all encodings -/

theorem sb_mem (t a b l : Nat) (hv : IsEnc (.singleByte t a b l)) : (t, a, b, l) ∈ sbParams := by
  unfold IsEnc at hv
  obtain ⟨e, he, hev⟩ := List.mem_map.mp hv
  have hev' : e.variant = .singleByte t a b l := hev
  exact List.mem_filterMap.mpr ⟨e, he, by rw [hev']⟩

/-! `utf8EFam` is `statelessEFam utf8EncodeChar 4` with an exact `need` (C07); `RT` does not look at `need`. -/

theorem erefOpen_withNeed (E : EFam) (n : E.σ → Nat → Nat) : ∀ (p : List Nat) (s : E.σ),
    erefOpen (withNeed E n) s p = erefOpen E s p := by
  intro p
  induction p with
  | nil => intro s; rfl
  | cons c t ih =>
    intro s
    simp only [erefOpen]
    rw [show (withNeed E n).rank s c = E.rank s c from rfl, processChar_withNeed, ih]

theorem expectedChar_withNeed (E : EFam) (n : E.σ → Nat → Nat) (f : Nat → Nat) (c : Nat) :
    expectedChar (withNeed E n) f c = expectedChar E f c := by
  unfold expectedChar unmapOf
  rw [show (withNeed E n).rank (withNeed E n).init c = E.rank E.init c from rfl,
    show (withNeed E n).init = E.init from rfl, processChar_withNeed]

theorem rt_withNeed {E : EFam} {F : Fam} {f : Nat → Nat} (n : E.σ → Nat → Nat) (h : RT E F f) : RT (withNeed E n) F f where
  init_pend := h.init_pend
  open_ := by
    intro p hp
    have := h.open_ p hp
    rw [erefOpen_withNeed]
    have e : List.flatMap (expectedChar (withNeed E n) f) p = List.flatMap (expectedChar E f) p := by
      congr 1; exact funext (expectedChar_withNeed E n f)
    rw [e]
    exact this

theorem utf8_rt : RT utf8EFam utf8Fam id :=
  rt_withNeed (fun _ c => (encodeUtf8 c).length) (rt_stateless 4 utf8_ok)

theorem rt_all (v : Gen.Variant) (hv : IsEnc v) : RT (efamOfVariant v) (decFam v) (fold v) := by
  cases v with
  | singleByte t a b l => exact rt_stateless 1 (single_ok (t, a, b, l) (sb_mem t a b l hv))
  | utf8 => exact utf8_rt
  | gbk => exact rt_stateless 4 gbk_ok
  | gb18030 => exact rt_stateless 4 gb18030_ok
  | big5 => exact rt_stateless 2 big5_ok
  | eucJp => exact rt_stateless 2 eucJp_ok
  | iso2022Jp => exact rt_iso
  | shiftJis => exact rt_stateless 2 shiftJis_ok
  | eucKr => exact rt_stateless 2 eucKr_ok
  | replacement => exact utf8_rt
  | utf16Be => exact utf8_rt
  | utf16Le => exact utf8_rt
  | userDefined => exact rt_stateless 1 userDefined_ok

/-! ### consequences of `RT` -/

section
variable {E : EFam} {F : Fam} {f : Nat → Nat}

theorem eref_split (E : EFam) (text : List Nat) :
    subst (eref E E.init text) = subst (erefOpen E E.init text).1 ++ (E.eof (erefOpen E E.init text).2).1 := by
  have := eref_append E text [] E.init
  rw [List.append_nil] at this
  rw [this, subst_append, eref_nil, subst_bytes]

/-- the complete output is accepted byte by byte and yields the expected text; the decoder ends in
a state without delayed output in which the end of the stream is not an error -/
theorem RT.total (h : RT E F f) (text : List Nat) (hs : ∀ c ∈ text, isScalar c = true) :
    ∃ d', feedAll F F.init (subst (eref E E.init text)) = some (text.flatMap (expectedChar E f), d') ∧
      F.pend d' = none ∧ F.eof d' = none := by
  obtain ⟨d, hf, _, _, d', hf', hp', he'⟩ := h.open_ text hs
  refine ⟨d', ?_, hp', he'⟩
  rw [eref_split, feedAll_append_some F _ _ _ _ _ _ _ hf hf', List.append_nil]

theorem ref_done (F : Fam) (d : F.σ) (pos : Nat) (hp : F.pend d = none) (he : F.eof d = none) :
    ref F d [] pos = [] := by
  rw [ref_nil F d pos hp, he]

theorem RT.roundtrip (h : RT E F f) (text : List Nat) (hs : ∀ c ∈ text, isScalar c = true) :
    ref F F.init (subst (eref E E.init text)) 0 = (text.flatMap (expectedChar E f)).map Ev.cp := by
  obtain ⟨d', hf, hp', he'⟩ := h.total text hs
  have := (feedAll_ref F _ _ _ _ [] 0 hf h.init_pend).1
  rw [List.append_nil] at this
  rw [this, ref_done F d' _ hp' he', List.append_nil]

theorem RT.prefix_clean (h : RT E F f) (p : List Nat) (hs : ∀ c ∈ p, isScalar c = true) (rest : List Nat) :
    ∃ d, ref F F.init (subst (erefOpen E E.init p).1 ++ rest) 0
        = (p.flatMap (expectedChar E f)).map Ev.cp ++ ref F d rest (subst (erefOpen E E.init p).1).length ∧
      F.pend d = none ∧ F.eof d = none := by
  obtain ⟨d, hf, hp, he, _⟩ := h.open_ p hs
  refine ⟨d, ?_, hp, he⟩
  have := (feedAll_ref F _ _ _ _ rest 0 hf h.init_pend).1
  rw [this, Nat.zero_add]

theorem RT.byte_prefix_clean (h : RT E F f) (text : List Nat) (hs : ∀ c ∈ text, isScalar c = true)
    (a b : List Nat) (hab : subst (eref E E.init text) = a ++ b) (rest : List Nat) :
    ∃ o o2 d, ref F F.init (a ++ rest) 0 = o.map Ev.cp ++ ref F d rest a.length ∧
      text.flatMap (expectedChar E f) = o ++ o2 ∧ F.pend d = none := by
  obtain ⟨d', hf, _, _⟩ := h.total text hs
  rw [hab] at hf
  obtain ⟨o1, s1, o2, h1, _, ho⟩ := feedAll_prefix F a b _ _ _ hf
  obtain ⟨hr, hp⟩ := feedAll_ref F _ _ _ _ rest 0 h1 h.init_pend
  refine ⟨o1, o2, s1, ?_, ho, hp⟩
  rw [hr, Nat.zero_add]

end

/-! ### the theorems -/

/-- **C12 `enc_dec_roundtrip`**: decoding the complete output gives back — with no error event — the
input text with each unmappable character replaced by the numeric character reference the encoder
wrote for it and every other character `c` replaced by `fold v c`. -/
theorem enc_dec_roundtrip (v : Gen.Variant) (hv : IsEnc v) (text : List Nat)
    (h : ∀ c ∈ text, isScalar c = true) :
    ref (decFam v) (decFam v).init (output v text) 0 = (expected v text).map Ev.cp :=
  (rt_all v hv).roundtrip text h

/-- the bytes written for a prefix of the text are a prefix of the complete output -/
theorem output_prefix (v : Gen.Variant) (p q : List Nat) :
    ∃ tail, output v (p ++ q) = outputOpen v p ++ tail := by
  refine ⟨subst (eref (efamOfVariant v) (erefOpen (efamOfVariant v) (efamOfVariant v).init p).2 q), ?_⟩
  unfold output outputOpen
  rw [eref_append, subst_append]

/-- **C12 `prefix_decodes_clean`**: the bytes written for any prefix `p` of the text, followed by
anything (`rest`), decode to the expected characters of `p` without an error event, and `rest` is
decoded from a state without delayed output in which the end of the stream is not an error.
With `rest = []` (`prefix_decodes_clean_complete`): the output so far is, on its own, error-free text. -/
theorem prefix_decodes_clean (v : Gen.Variant) (hv : IsEnc v) (p : List Nat)
    (h : ∀ c ∈ p, isScalar c = true) (rest : List Nat) :
    ∃ d, ref (decFam v) (decFam v).init (outputOpen v p ++ rest) 0
        = (expected v p).map Ev.cp ++ ref (decFam v) d rest (outputOpen v p).length ∧
      (decFam v).pend d = none ∧ (decFam v).eof d = none :=
  (rt_all v hv).prefix_clean p h rest

theorem prefix_decodes_clean_complete (v : Gen.Variant) (hv : IsEnc v) (p : List Nat)
    (h : ∀ c ∈ p, isScalar c = true) :
    ref (decFam v) (decFam v).init (outputOpen v p) 0 = (expected v p).map Ev.cp := by
  obtain ⟨d, hr, hp, he⟩ := prefix_decodes_clean v hv p h []
  rw [List.append_nil] at hr
  rw [hr, ref_done _ d _ hp he, List.append_nil]

/-- **every byte prefix** `a` of the complete output (every possible call boundary, also the one
between an ISO-2022-JP escape sequence and its character), followed by anything, decodes without an
error event to a prefix `o` of the expected text -/
theorem byte_prefix_decodes_clean (v : Gen.Variant) (hv : IsEnc v) (text : List Nat)
    (h : ∀ c ∈ text, isScalar c = true) (a b : List Nat) (hab : output v text = a ++ b) (rest : List Nat) :
    ∃ o o2 d, ref (decFam v) (decFam v).init (a ++ rest) 0 = o.map Ev.cp ++ ref (decFam v) d rest a.length ∧
      expected v text = o ++ o2 ∧ (decFam v).pend d = none :=
  (rt_all v hv).byte_prefix_clean text h a b hab rest

/-! ### ISO-2022-JP: state invariant, `has_pending_state`, final state -/

/-- **`iso2022jp_state_inv`**: after any prefix `p`, the decoder that has read the bytes written so
far is in the state corresponding to the encoder's state (`Corr`: same escape state, an escape
sequence may follow, nothing pending). -/
theorem iso2022jp_state_inv (p : List Nat) (h : ∀ c ∈ p, isScalar c = true) :
    ∃ d, feedAll iso2022JpFam isoInit (outputOpen .iso2022Jp p) = some (expected .iso2022Jp p, d) ∧
      Corr (erefOpen iso2022JpEFam .ascii p).2 d :=
  iso_open p .ascii isoInit h corr_init

theorem hasPending_iff_ne_ascii (s : IsoEncSt) : iso2022JpEFam.hasPending s = true ↔ s ≠ .ascii := by
  cases s <;> simp [iso2022JpEFam, isoEncHasPending]

/-- **C12 `has_pending_iff`**: `has_pending_state()` tells exactly whether the stream written so far
is outside the ASCII state — i.e. whether the decoder that has read it is. -/
theorem has_pending_iff (p : List Nat) (h : ∀ c ∈ p, isScalar c = true) :
    ∃ d, feedAll iso2022JpFam isoInit (outputOpen .iso2022Jp p) = some (expected .iso2022Jp p, d) ∧
      (iso2022JpEFam.hasPending (erefOpen iso2022JpEFam .ascii p).2 = true ↔ d.decoderState ≠ .ascii) ∧
      d.outputState.toSt = d.decoderState := by
  obtain ⟨d, hf, hc⟩ := iso2022jp_state_inv p h
  have key : ∀ s : IsoEncSt, Corr s d →
      ((iso2022JpEFam.hasPending s = true ↔ d.decoderState ≠ .ascii) ∧ d.outputState.toSt = d.decoderState) := by
    intro s hc
    rw [hc.1, hc.2.1]
    cases s <;> simp [iso2022JpEFam, isoEncHasPending, isoSt, isoOut, IsoOut.toSt]
  exact ⟨d, hf, (key _ hc).1, (key _ hc).2⟩

/-- every other encoder never has pending state -/
theorem has_pending_stateless (v : Gen.Variant) (hv : v ≠ .iso2022Jp) (s : (efamOfVariant v).σ) :
    (efamOfVariant v).hasPending s = false := by
  cases v <;> first | rfl | exact absurd rfl hv

/-- **C12 `final_ascii`**: the complete output of the ISO-2022-JP encoder leaves the decoder in the
ASCII state (and the encoder itself is back in its ASCII state). -/
theorem final_ascii (text : List Nat) (h : ∀ c ∈ text, isScalar c = true) :
    (∃ d, feedAll iso2022JpFam isoInit (output .iso2022Jp text) = some (expected .iso2022Jp text, d) ∧
      d.decoderState = .ascii ∧ d.outputState = .ascii ∧ d.pendingPrepended = false) ∧
    (iso2022JpEFam.eof (erefOpen iso2022JpEFam .ascii text).2).2 = .ascii := by
  obtain ⟨d, hf, hc⟩ := iso2022jp_state_inv text h
  obtain ⟨d', hf', h1, h2, h3, h4⟩ := iso_eof_feed _ d hc
  refine ⟨⟨d', ?_, h1, h2, h3⟩, h4⟩
  unfold output
  rw [show (efamOfVariant .iso2022Jp) = iso2022JpEFam from rfl, eref_split]
  have := feedAll_append_some iso2022JpFam _ _ _ _ _ _ _ hf hf'
  rw [List.append_nil] at this
  exact this

/-! ### the fold set -/

/-- the documented set of characters the Standard's encoders fold on purpose -/
def FoldSet : Gen.Variant → Nat → Prop
  | .eucJp, c => c = 0xA5 ∨ c = 0x203E ∨ c = 0x2212
  | .shiftJis, c => c = 0xA5 ∨ c = 0x203E ∨ c = 0x2212
  | .iso2022Jp, c => c = 0x2212 ∨ (0xFF61 ≤ c ∧ c ≤ 0xFF9F)
  | .gbk, c => c ∈ Gen.gb180302022OverridePua.toList
  | .gb18030, c => c ∈ Gen.gb180302022OverridePua.toList
  | _, _ => False

theorem foldJis8_exact (c : Nat) : foldJis8 c ≠ c ↔ (c = 0xA5 ∨ c = 0x203E ∨ c = 0x2212) := by
  unfold foldJis8
  repeat' split
  all_goals omega

theorem kata_lt : ∀ i, i < 63 → halfWidthToFull.getD i 0 < 0xFF61 := by decide

theorem foldIso_exact (c : Nat) : foldIso c ≠ c ↔ (c = 0x2212 ∨ (0xFF61 ≤ c ∧ c ≤ 0xFF9F)) := by
  unfold foldIso
  split
  · omega
  · split
    · rename_i h1 h2
      have := kata_lt (c - 0xFF61) (by omega)
      constructor
      · intro _; exact Or.inr h2
      · intro _; omega
    · omega

theorem gb_pua_range : ∀ x ∈ Gen.gb180302022OverridePua.toList, 0xE78D ≤ x ∧ x ≤ 0xE864 := by decide

theorem gb_fold_range : ∀ i, i < 0xD8 →
    (decide (gb2022Fold (0xE78D + i) ≠ 0xE78D + i) = decide (0xE78D + i ∈ Gen.gb180302022OverridePua.toList)) := by
  decide +kernel

theorem gb2022Fold_exact (c : Nat) : gb2022Fold c ≠ c ↔ c ∈ Gen.gb180302022OverridePua.toList := by
  by_cases hr : 0xE78D ≤ c ∧ c ≤ 0xE864
  · have := gb_fold_range (c - 0xE78D) (by omega)
    rw [show 0xE78D + (c - 0xE78D) = c by omega] at this
    exact decide_eq_decide.mp this
  · constructor
    · intro h
      exfalso; apply h
      unfold gb2022Fold
      rw [if_neg hr]
    · intro h
      exact absurd (gb_pua_range c h) hr

/-- **C12 `folds_exact`**: the round trip changes a mappable character exactly on the documented set:
U+00A5, U+203E (EUC-JP, Shift_JIS), U+2212 (the three Japanese encodings), the 63 half-width
katakana (ISO-2022-JP), the eighteen GB18030-2022 private-use code points (GBK, gb18030). -/
theorem folds_exact (v : Gen.Variant) (c : Nat) : fold v c ≠ c ↔ FoldSet v c := by
  cases v
  case eucJp => exact foldJis8_exact c
  case shiftJis => exact foldJis8_exact c
  case iso2022Jp => exact foldIso_exact c
  case gbk => exact gb2022Fold_exact c
  case gb18030 => exact gb2022Fold_exact c
  all_goals simp [fold, FoldSet]

/- `history_output_prefix` — the lift from the reference run to call histories, formerly PENDING here —
   is proved in `Thm/C12Hist.lean` (`history_output_prefix`, `history_output_prefix_raw`,
   `complete_history_output`: what ANY history of raw / with-replacement calls has written so far is a
   byte prefix of `output v text`, hence decodes cleanly by `byte_prefix_decodes_clean`; after the final
   call it is `output v text`) and `Thm/C12State.lean` (`has_pending_iff_history`,
   `has_pending_iff_repl_history`: `has_pending_state()` ⇔ the decoder that has read the bytes so far is
   outside the ASCII state, after EVERY call — also one that stopped between an escape sequence and its
   character). -/

/-! ### non-vacuity -/

-- the sizes of the documented set
example : 0xFF9F - 0xFF61 + 1 = 63 := by decide
example : Gen.gb180302022OverridePua.size = 18 := by decide
-- 40 encodings, all of them covered
example : (Gen.encodings.map (·.variant)).length = 40 := by decide
example : IsEnc .iso2022Jp := by unfold IsEnc; decide
example : IsEnc (.singleByte 19 160 32 96) := by unfold IsEnc; decide
-- 'A', HIRAGANA A, YEN SIGN, U+1F600 (unmappable), ESC (unmappable as U+FFFD), half-width KA
example : output .iso2022Jp [0x41, 0x3042, 0xA5, 0x1F600, 0x1B, 0xFF76]
    = [0x41, 0x1B, 0x24, 0x42, 0x24, 0x22, 0x1B, 0x28, 0x4A, 0x5C,
       38, 35, 49, 50, 56, 53, 49, 50, 59, 38, 35, 54, 53, 53, 51, 51, 59,
       0x1B, 0x24, 0x42, 0x25, 0x2B, 0x1B, 0x28, 0x42] := by decide +kernel
example : expected .iso2022Jp [0x41, 0x3042, 0xA5, 0x1F600, 0x1B, 0xFF76]
    = [0x41, 0x3042, 0xA5] ++ ncr 0x1F600 ++ ncr 0xFFFD ++ [0x30AB] := by decide +kernel
example : expected .shiftJis [0xA5, 0x2212, 0xFF76] = [0x5C, 0xFF0D, 0xFF76] := by decide +kernel
example : expected .gb18030 [0xE78D, 0xE5E5, 0x20AC] = [0xFE10] ++ ncr 0xE5E5 ++ [0x20AC] := by decide +kernel
example : output .gbk [0xE78D, 0x20AC] = [0xA6, 0xD9, 0x80] := by decide +kernel

end EncodingRs.Thm.C12
