import EncodingRs.Lemmas.Valid
/-!
# C14 — validators return the exact length of the longest valid prefix

Property theorems only; helper lemmas live in `Lemmas/Valid.lean`.

* `Model.Valid.*` (`Model/Valid.lean`) is the hand model of the Rust control flow as
  written (`utf_8.rs` scalar validator over `Gen.utf8DataTable` — the
  **regenerated** `UTF8_DATA.table` —, `ascii.rs` stride kernels, `mem.rs`).
* `Spec.*` (`Spec/Utf8.lean`) is the Unicode definition of well-formed UTF-8
  (Table 3-7) / UTF-16 and the naive "index of the first offending unit" scans.

Every theorem holds for **all** lists (induction, no length bound); the
hypotheses `b < 256` / `u < 65536` only say that the elements are `u8` / `u16`
(needed because the model reproduces `wrapping_sub` and table indexing).

Assumption made explicit: the SIMD validator of the external crate `simdutf8`
(taken by `utf8_valid_up_to` for inputs of ≥ 64 bytes on CPUs with
SSE4.2/AVX2/NEON) is not modelled. It is the parameter `fast` of
`Model.Valid.utf8ValidUpToWith`; `utf8_valid_up_to_with_fast_spec` assumes that
whenever `fast` answers it answers `Spec.validUpTo`. That path is covered by
the correspondence run only (impl vs model vs `std`, fast path on and off).
-/
namespace EncodingRs.Thm.C14
open EncodingRs EncodingRs.Lemmas.Valid

/-- **The generated `UTF8_DATA` table classifies exactly like Table 3-7**
(finite; kernel-evaluated over all 128 leads `80..FF` × 256 second bytes of the
regenerated table, lifted to the third/fourth byte by `or3`/`or4`):
for a lead that is neither ASCII nor `C2..DF`,
* below `F0`: the three-byte test `(T[second] & T[lead+0x80]) | (third >> 6)`
  differs from 2 exactly when `lead second third` is **not** a row of Table 3-7
  (in particular always for the invalid leads `80..C1`);
* from `F0`: the four-byte test differs from `0x202` exactly when
  `lead second third fourth` is not a row of Table 3-7 (always for `F5..FF`). -/
theorem utf8_data_classifies (lead second third fourth : Nat)
    (hl : 0x80 ≤ lead ∧ lead < 256) (hs : second < 256) (ht : third < 256) (hf : fourth < 256)
    (hn2 : ¬(0xC2 ≤ lead ∧ lead ≤ 0xDF)) :
    (lead < 0xF0 → (Model.Valid.threeByteTest lead second third != 2) = !(Spec.wf3 lead second third)) ∧
    (0xF0 ≤ lead → (Model.Valid.fourByteTest lead second third fourth != 0x202) = !(Spec.wf4 lead second third fourth)) :=
  ⟨fun h => threeByteTest_ne lead second third hl.1 h hn2 hs ht,
   fun h => fourByteTest_ne lead second third fourth h hl.2 hs ht hf⟩

/-- the finite table obligation itself (what is re-evaluated when `utf_8.rs` changes) -/
theorem utf8_data_table_check : tableCheck = true := tableCheck_ok

/-- **C14 main theorem (UTF-8)**: for every byte list, the model of the crate's
scalar `utf8_valid_up_to` (ASCII skip through `validate_ascii`, `'inner` entered
only when `read + 4 <= src.len()`, the table tests, `'tail`) returns the length
of the longest prefix that is well-formed UTF-8 — the specification of
`std::str::from_utf8(..).valid_up_to()`. The fuel of the loop runner is proved
sufficient inside (`utf8Run_ok`). -/
theorem utf8_valid_up_to_spec (bs : List Nat) (hb : ∀ b ∈ bs, b < 256) :
    Model.Valid.utf8ValidUpTo bs = Spec.validUpTo bs :=
  utf8ValidUpTo_eq bs hb

/-- the whole `utf8_valid_up_to`, with the external SIMD validator as a
parameter assumed correct whenever it answers -/
theorem utf8_valid_up_to_with_fast_spec (fast : List Nat → Option Nat)
    (hfast : ∀ bs n, fast bs = some n → n = Spec.validUpTo bs)
    (bs : List Nat) (hb : ∀ b ∈ bs, b < 256) :
    Model.Valid.utf8ValidUpToWith fast bs = Spec.validUpTo bs := by
  unfold Model.Valid.utf8ValidUpToWith
  cases h : fast bs with
  | none => exact utf8ValidUpTo_eq bs hb
  | some n => exact hfast bs n h

/-- **Stride kernels**: whatever the block plan (16-unit strides, the
`16, 32, …, 32, 16` shape of the `simd-accel` build, anything else), testing
whole blocks and searching the first failing one is the plain linear search. -/
theorem stride_scan_any_plan (ok : Nat → Bool) (plan : List Nat) (consumed : Nat) (bs : List Nat) :
    Model.Valid.blockScan ok plan consumed bs = Model.Valid.locate ok bs consumed :=
  blockScan_eq_locate ok plan consumed bs

/-- `Encoding::ascii_valid_up_to` = index of the first byte ≥ 0x80 (or the length) -/
theorem ascii_valid_up_to_spec (bs : List Nat) : Model.Valid.asciiValidUpTo bs = Spec.firstNonAscii bs := by
  unfold Model.Valid.asciiValidUpTo Model.Valid.validateAscii Spec.firstNonAscii
  rw [blockScan_eq_locate]
  have hpos := locate_pos Model.Valid.isAsciiByte bs 0
  have hc : Spec.firstIdx (fun b => !Model.Valid.isAsciiByte b) bs = Spec.firstIdx (fun b => decide (0x80 ≤ b)) bs :=
    firstIdx_congr _ _ bs (fun b _ => by
      unfold Model.Valid.isAsciiByte
      by_cases h : b < 0x80
      · have : ¬ 0x80 ≤ b := by omega
        simp [h, this]
      · have : 0x80 ≤ b := by omega
        simp [h, this])
  cases h : Model.Valid.locate Model.Valid.isAsciiByte bs 0 with
  | none => rw [h] at hpos; simpa [hc] using hpos
  | some p => rw [h] at hpos; simpa [hc] using hpos

/-- the `simd-accel` shape of `ascii_valid_impl` (first stride, double strides, single stride, tail) -/
theorem ascii_valid_up_to_simd_spec (bs : List Nat) : Model.Valid.asciiValidUpToSimd bs = Spec.firstNonAscii bs := by
  unfold Model.Valid.asciiValidUpToSimd Model.Valid.validateAsciiSimd Spec.firstNonAscii
  rw [blockScan_eq_locate]
  have hpos := locate_pos Model.Valid.isAsciiByte bs 0
  have hc : Spec.firstIdx (fun b => !Model.Valid.isAsciiByte b) bs = Spec.firstIdx (fun b => decide (0x80 ≤ b)) bs :=
    firstIdx_congr _ _ bs (fun b _ => by
      unfold Model.Valid.isAsciiByte
      by_cases h : b < 0x80
      · have : ¬ 0x80 ≤ b := by omega
        simp [h, this]
      · have : 0x80 ≤ b := by omega
        simp [h, this])
  cases h : Model.Valid.locate Model.Valid.isAsciiByte bs 0 with
  | none => rw [h] at hpos; simpa [hc] using hpos
  | some p => rw [h] at hpos; simpa [hc] using hpos

/-- `Encoding::iso_2022_jp_ascii_valid_up_to` = index of the first byte that is
non-ASCII or one of `0E`, `0F`, `1B` -/
theorem iso2022jp_ascii_valid_up_to_spec (bs : List Nat) :
    Model.Valid.iso2022JpAsciiValidUpTo bs = Spec.firstIso2022JpNonAscii bs := by
  unfold Model.Valid.iso2022JpAsciiValidUpTo Spec.firstIso2022JpNonAscii
  rw [iso2022JpLoop_eq]; simp

/-- `mem::utf16_valid_up_to` = index of the first unpaired surrogate -/
theorem utf16_valid_up_to_spec (us : List Nat) (hu : ∀ u ∈ us, u < 65536) :
    Model.Valid.utf16ValidUpTo us = Spec.utf16ValidUpTo us :=
  utf16_model_eq us hu

/-- `mem::utf8_latin1_up_to` = index of the first byte that starts an invalid or
a non-Latin1 (≥ U+0100) sequence — for arbitrary bytes -/
theorem utf8_latin1_up_to_spec (bs : List Nat) (hb : ∀ b ∈ bs, b < 256) :
    Model.Valid.utf8Latin1UpTo bs = Spec.utf8Latin1UpTo bs :=
  utf8Latin1UpTo_eq bs hb

/-- `mem::str_latin1_up_to` on a `&str` (valid UTF-8): never panics (the
unchecked-looking `&bytes[offset + 2..]` is in range) and returns the index of
the first byte that starts a non-Latin1 sequence -/
theorem str_latin1_up_to_spec (bs : List Nat) (hv : Spec.validUtf8 bs = true) :
    Model.Valid.strLatin1UpTo bs = some (Spec.strLatin1UpTo bs) :=
  strLatin1UpTo_eq bs (by simpa [Spec.validUtf8] using hv)

/-- the `simd-accel` shape of `is_str_latin1_impl` (16-byte strides tested for
"no byte above `C3`", scalar tail `*slot > 0xC3`): on valid UTF-8 the first byte
above `C3` is exactly where the first non-Latin1 sequence starts -/
theorem str_latin1_up_to_simd_spec (bs : List Nat) (hv : Spec.validUtf8 bs = true) :
    Model.Valid.strLatin1UpToSimd bs = Spec.strLatin1UpTo bs :=
  strLatin1UpToSimd_eq bs (by simpa [Spec.validUtf8] using hv)

/-! ### The specification function is what its name says
`Spec.validUpTo` is defined as a greedy scan; these theorems tie it to the
declarative definition `Spec.WellFormedUtf8` (concatenation of Table 3-7
sequences): the prefix it delimits is well-formed, and no longer prefix is. -/

theorem validUpTo_le_length (bs : List Nat) : Spec.validUpTo bs ≤ bs.length := validUpTo_le bs

theorem validUpTo_prefix_wf (bs : List Nat) : Spec.WellFormedUtf8 (bs.take (Spec.validUpTo bs)) :=
  validUpTo_prefix_aux _ bs (Nat.le_refl _)

theorem validUpTo_maximal (bs : List Nat) (n : Nat) (h : Spec.WellFormedUtf8 (bs.take n)) :
    min n bs.length ≤ Spec.validUpTo bs := by
  have := validUpTo_maximal_aux (bs.take n) h (bs.drop n)
  rwa [List.take_append_drop, List.length_take] at this

/-- `validUtf8` (= "`validUpTo` returns the length") is exactly well-formedness -/
theorem validUtf8_iff (bs : List Nat) : Spec.validUtf8 bs = true ↔ Spec.WellFormedUtf8 bs := by
  constructor
  · intro h
    have h' : Spec.validUpTo bs = bs.length := by simpa [Spec.validUtf8] using h
    have := validUpTo_prefix_wf bs
    rwa [h', List.take_length] at this
  · intro h
    have h1 := validUpTo_maximal_aux bs h []
    rw [List.append_nil] at h1
    have h2 := validUpTo_le bs
    have : Spec.validUpTo bs = bs.length := by omega
    simp [Spec.validUtf8, this]

/-! Non-vacuity: the hypotheses are satisfiable and the functions compute
non-trivial values on inputs that reach each loop (`'inner`, `'three`, `'tail`,
strides of 16, surrogate pairing). -/
example : Model.Valid.utf8ValidUpTo [0x41, 0xC3, 0xA9, 0xE2, 0x82, 0xAC, 0xF0, 0x9F, 0x98, 0x80, 0xE2, 0x82] = 10 := by decide
example : Spec.validUpTo [0x41, 0xC3, 0xA9, 0xE2, 0x82, 0xAC, 0xF0, 0x9F, 0x98, 0x80, 0xE2, 0x82] = 10 := by decide
example : Model.Valid.utf8ValidUpTo [0xED, 0xA0, 0x80] = 0 ∧ Model.Valid.utf8ValidUpTo [0xF4, 0x90, 0x80, 0x80] = 0
    ∧ Model.Valid.utf8ValidUpTo [0xE0, 0x9F, 0xBF, 0x41] = 0 ∧ Model.Valid.utf8ValidUpTo [0xC0, 0x80] = 0 := by decide
example : Model.Valid.utf8ValidUpTo (List.replicate 20 0x61 ++ [0xE2, 0x82, 0xAC, 0xFF]) = 23 := by decide
example : ∀ b ∈ [0x41, 0xC3, 0xA9, 0xFF], b < 256 := by decide
example : Spec.validUtf8 [0x41, 0xC3, 0xA9, 0xC4, 0x80] = true := by decide
example : Model.Valid.strLatin1UpTo [0x41, 0xC3, 0xA9, 0xC4, 0x80] = some 3 := by decide
example : Model.Valid.strLatin1UpTo [0x41, 0xC3] = none := by decide  -- invalid UTF-8: the Rust would panic
example : Model.Valid.utf8Latin1UpTo [0x41, 0xC3, 0xA9, 0xC3, 0x41] = 3 := by decide
example : Model.Valid.asciiValidUpTo (List.replicate 35 0x20 ++ [0x80, 0x20]) = 35 := by decide
example : Model.Valid.asciiValidUpToSimd (List.replicate 70 0x20 ++ [0x80, 0x20]) = 70 := by decide
example : Model.Valid.strLatin1UpToSimd (List.replicate 17 0x20 ++ [0xC3, 0xA9, 0xC4, 0x80]) = 19 := by decide
example : Model.Valid.iso2022JpAsciiValidUpTo [0x61, 0x0D, 0x1B, 0x24] = 2 := by decide
example : Model.Valid.utf16ValidUpTo [0x41, 0xD83D, 0xDE00, 0x20, 0xDC00] = 4 := by decide
example : Model.Valid.utf16ValidUpTo (List.replicate 17 0x3042 ++ [0xD800]) = 17 := by decide
example : Model.Valid.threeByteTest 0xE0 0x9F 0x80 ≠ 2 ∧ Model.Valid.threeByteTest 0xE0 0xA0 0x80 = 2
    ∧ Model.Valid.fourByteTest 0xF4 0x8F 0xBF 0xBF = 0x202 ∧ Model.Valid.fourByteTest 0xF4 0x90 0x80 0x80 ≠ 0x202 := by decide

end EncodingRs.Thm.C14
