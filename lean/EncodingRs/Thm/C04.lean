import EncodingRs.Lemmas.EncCore
/-!
# C04 — encoder results do not depend on chunking or on UTF-8 vs UTF-16 input form

`EProto E s text evs`: a caller following the documented protocol observes the
events `evs` (bytes and unmappable reports, in order) for the text `text` — for
some way of cutting it into input buffers at character boundaries (each call
gets whole source items `(scalar, width)`), some stop decision per call
(capacities, fast paths) and either source form (the width of an item is the
only thing that differs between UTF-8 and UTF-16 input).
-/
namespace EncodingRs.Thm.C04
open EncodingRs EncodingRs.Model EncodingRs.Lemmas.EncCore

inductive EProto (E : EFam) : E.σ → List Nat → List EEv → Prop
  /-- the call that ends the stream -/
  | final (s : E.σ) (items : List (Nat × Nat)) (b : Budget) :
      (erunI E true s items b).1.res = .inputEmpty →
      EProto E s (items.map Prod.fst) (eevs (erunI E true s items b).1)
  /-- a `last` call that stopped early (`OutputFull` / `Unmappable`): the unconsumed items are pushed again -/
  | lastStep (s : E.σ) (items : List (Nat × Nat)) (b : Budget) (evs' : List EEv) :
      (erunI E true s items b).1.res ≠ .inputEmpty →
      EProto E (erunI E true s items b).1.st ((erunI E true s items b).2.map Prod.fst) evs' →
      EProto E s (items.map Prod.fst) (eevs (erunI E true s items b).1 ++ evs')
  /-- a non-`last` call on a prefix of the remaining text; the same characters may come back with
  different widths (`items'`) — e.g. the caller switched between UTF-8 and UTF-16 input -/
  | chunkStep (s : E.σ) (items : List (Nat × Nat)) (rest : List Nat) (b : Budget) (evs' : List EEv) :
      EProto E (erunI E false s items b).1.st ((erunI E false s items b).2.map Prod.fst ++ rest) evs' →
      EProto E s (items.map Prod.fst ++ rest) (eevs (erunI E false s items b).1 ++ evs')

/-- a `last` call that returned `InputEmpty` consumed everything and ran the end-of-stream block -/
theorem final_nothing_left (E : EFam) (L : ELaws E) :
    ∀ (items : List (Nat × Nat)) (s : E.σ) (b : Budget),
      (erunI E true s items b).1.res = .inputEmpty →
      (erunI E true s items b).2 = [] ∧ eref E (erunI E true s items b).1.st [] = [] := by
  intro items
  induction items with
  | nil =>
    intro s b h
    refine ⟨rfl, ?_⟩
    show eref E (erun E true s [] b).st [] = []
    have h' : (erun E true s [] b).res = .inputEmpty := h
    simp only [erun, if_true] at h' ⊢
    by_cases he : (E.eof s).1.isEmpty = true
    · simp only [he, if_true]
      rw [eref, L.eof_idem]; rfl
    · simp only [he, Bool.false_eq_true, if_false] at h' ⊢
      by_cases hz : b.isZero = true
      · simp [hz] at h'
      · simp only [hz, Bool.false_eq_true, if_false]
        rw [eref, L.eof_idem]; rfl
  | cons it tl ih =>
    intro s b h
    obtain ⟨c, w⟩ := it
    simp only [erunI] at h ⊢
    cases hres : processChar E (E.rank s c + 1) s c b [] with
    | full st out need => simp [hres] at h
    | unmappable st out u => simp [hres] at h
    | done st out b' =>
      simp only [hres] at h ⊢
      exact ih st b' h

/-- **E2 `enc_history_eq_ref`**: every protocol-following history yields exactly the bytes and
unmappable reports of the chunk-free reference run of the text. -/
theorem enc_history_eq_ref (E : EFam) (L : ELaws E) (s : E.σ) (text : List Nat) (e : List EEv)
    (h : EProto E s text e) : e = eref E s text := by
  induction h with
  | final s items b hres =>
    have hs := erunI_sound E L true items s b [] (fun _ => rfl)
    obtain ⟨h1, h2⟩ := final_nothing_left E L items s b hres
    rw [h1] at hs
    simp only [List.map_nil, List.append_nil] at hs
    rw [h2, List.append_nil] at hs
    exact hs
  | lastStep s items b evs' _ _ ih =>
    have hs := erunI_sound E L true items s b [] (fun _ => rfl)
    simp only [List.append_nil] at hs
    rw [ih, hs]
  | chunkStep s items rest b evs' _ ih =>
    have hs := erunI_sound E L false items s b rest (fun h => by cases h)
    rw [ih, hs]

/-- two histories of the same text — different cut points, capacities, source forms — produce the
same bytes and the same unmappable reports in the same order -/
theorem enc_histories_agree (E : EFam) (L : ELaws E) (text : List Nat) (e₁ e₂ : List EEv)
    (h₁ : EProto E E.init text e₁) (h₂ : EProto E E.init text e₂) : e₁ = e₂ := by
  rw [enc_history_eq_ref E L _ _ _ h₁, enc_history_eq_ref E L _ _ _ h₂]

/-- the laws hold for every variant encoder -/
theorem variant_elaws (v : Gen.Variant) : ELaws (efamOfVariant v) := by
  constructor
  cases v
  case iso2022Jp => intro s; cases s <;> rfl
  all_goals (intro s; rfl)

theorem all_encoders (v : Gen.Variant) (text : List Nat) (e₁ e₂ : List EEv)
    (h₁ : EProto (efamOfVariant v) (efamOfVariant v).init text e₁)
    (h₂ : EProto (efamOfVariant v) (efamOfVariant v).init text e₂) : e₁ = e₂ :=
  enc_histories_agree _ (variant_elaws v) text e₁ e₂ h₁ h₂

/-- **a valid surrogate pair is never treated as two unpaired surrogates**: how a UTF-16 buffer is
read into characters depends on the buffer alone (the output capacity is not an argument of the
source model; the implementation is held to this by the correspondence run — finding F1) -/
theorem pair_read_as_one (hi lo : Nat) (rest : List Nat) (h1 : 0xD800 ≤ hi ∧ hi ≤ 0xDBFF)
    (h2 : 0xDC00 ≤ lo ∧ lo ≤ 0xDFFF) :
    read16 (hi :: lo :: rest) = some (0x10000 + (hi - 0xD800) * 0x400 + (lo - 0xDC00), 2) := by
  simp only [read16]
  have : ¬ (hi < 0xD800 ∨ 0xDFFF < hi) := by omega
  simp [this, h1.2, h2.1, h2.2]

/-- an unpaired surrogate reads as U+FFFD -/
theorem lone_surrogate_fffd (u : Nat) (rest : List Nat) (hu : 0xD800 ≤ u ∧ u ≤ 0xDFFF)
    (hn : ∀ lo t, rest = lo :: t → u ≤ 0xDBFF → ¬ (0xDC00 ≤ lo ∧ lo ≤ 0xDFFF)) :
    read16 (u :: rest) = some (0xFFFD, 1) := by
  simp only [read16]
  have : ¬ (u < 0xD800 ∨ 0xDFFF < u) := by omega
  simp only [this, if_false]
  split
  · rename_i hhi
    cases rest with
    | nil => rfl
    | cons lo t =>
      simp only
      have := hn lo t rfl hhi
      simp [this]
  · rfl

/-! Non-vacuity: ISO-2022-JP, text "a¥": two calls with a stop after the escape sequence. -/
example : (erunI iso2022JpEFam true .ascii [(0x61, 1), (0xA5, 2)] (.full 2)).1.res = .outputFull
    ∧ (erunI iso2022JpEFam true .ascii [(0x61, 1), (0xA5, 2)] (.full 2)).1.out = [0x61, 0x1B, 0x28, 0x4A] := by
  decide +kernel

end EncodingRs.Thm.C04
