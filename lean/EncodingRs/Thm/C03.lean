import EncodingRs.Lemmas.ConformEncFam
import EncodingRs.Lemmas.ConformEncSym
import EncodingRs.Lemmas.ConformEncSb
import EncodingRs.Lemmas.ConformEncBig5
import EncodingRs.Lemmas.ConformEncKr
import EncodingRs.Lemmas.ConformEncEucJp
import EncodingRs.Lemmas.ConformEncShiftJis
import EncodingRs.Lemmas.ConformEncGb
import EncodingRs.Lemmas.ConformEncIso
/-!
# C03 — encoding conforms to the Encoding Standard for every scalar-value sequence

Model side: the encoder families of `Model/EncFam.lean` over the tables regenerated from
`/repo/src` (`efamOfVariant`), run by `processChar` / `erun` of `Model/Encoder.lean`.
Standard side: `Spec/Encode.lean` (handlers, index-pointer rules, "process a queue") over the
vendored indexes.

* (a) `estep_conforms_*`: per character, every family;
* (b) `encode_conforms`: whole texts, every one of the 40 encodings, both as the raw API reports
  (`Unmappable` recorded) and with numeric character references (error mode "html");
  `eref_erun`: `eref` is what repeated `erun … .unlimited` calls with `last = true` produce;
* (c) `utf16_source_reads`, `utf8_source_reads`;
* (d) `ncr_decimal`, `decimalDigits_shortest`;
* (e) `output_encoding_utf8`, `utf8_never_unmappable`.
-/
namespace EncodingRs.Thm.C03
open EncodingRs EncodingRs.Spec.Encode EncodingRs.Lemmas.ConformEnc
open EncodingRs.Model hiding Ev

/-! ## (a) per-character conformance -/

theorem estep_conforms_utf8 (c : Nat) : utf8EFam.step () c = stepOfResult (utf8 c) :=
  statelessStep_of_conforms _ _ c (utf8_conforms c)

theorem estep_conforms_userDefined (c : Nat) : userDefinedEFam.step () c = stepOfResult (userDefined c) :=
  statelessStep_of_conforms _ _ c (userDefined_conforms c)

theorem estep_conforms_big5 (c : Nat) (hc : c < 0x110000) : big5EFam.step () c = stepOfResult (big5 c) :=
  statelessStep_of_conforms _ _ c (big5_conforms c hc)

theorem estep_conforms_eucKr (c : Nat) (hc : c < 0x110000) : eucKrEFam.step () c = stepOfResult (eucKr c) :=
  statelessStep_of_conforms _ _ c (eucKr_conforms c hc)

theorem estep_conforms_eucJp (c : Nat) (hc : c < 0x110000) : eucJpEFam.step () c = stepOfResult (eucJp c) :=
  statelessStep_of_conforms _ _ c (eucJp_conforms c hc)

theorem estep_conforms_shiftJis (c : Nat) (hc : c < 0x110000) :
    shiftJisEFam.step () c = stepOfResult (shiftJis c) :=
  statelessStep_of_conforms _ _ c (shiftJis_conforms c hc)

/-- GBK is the gb18030 encoder with `is GBK` set (`extended = false`) -/
theorem estep_conforms_gb (isGBK : Bool) (c : Nat) (hc : c < 0x110000) :
    (gbEFam (!isGBK)).step () c = stepOfResult (gb18030 isGBK c) :=
  statelessStep_of_conforms _ _ c (gb_conforms isGBK c hc)

/-- every single-byte encoding of the `*_INIT` list: the Standard has an index under the encoding's
name, and the run/quadrant search over the regenerated table is the single-byte encoder over it -/
theorem estep_conforms_singleByte (e : Gen.EncodingInit) (he : e ∈ Gen.encodings) (t a b l : Nat)
    (hv : e.variant = .singleByte t a b l) :
    ∃ index, Spec.Enc.singleByteIndexes.lookup e.name = some index ∧
      ∀ c, c < 0x110000 →
        (singleByteEFam (Gen.singleByteTables.getD t #[]) a b l).step () c = stepOfResult (singleByte index c) := by
  have ⟨index, hidx, h⟩ := singleByte_conforms e he t a b l hv
  exact ⟨index, hidx, fun c hc => statelessStep_of_conforms _ _ c (h c hc)⟩

/-- ISO-2022-JP, per (state, character): the bytes, the error and the state of the model's
processing of a character (faithful step incl. its `.again` re-reads) are those of the chain of
runs of the Standard's handler (incl. "restore code point to ioQueue") -/
theorem estep_conforms_iso2022Jp (s : IsoEncSt) (c : Nat) (hc : c < 0x110000) :
    specChain iso2022JpHandler 3 (isoPhi s) c
      = some ((charOut iso2022JpEFam s c).1, (charOut iso2022JpEFam s c).2.1, isoPhi (charOut iso2022JpEFam s c).2.2) :=
  conforms_iso.char s c hc

/-- the end-of-queue block: `ESC ( B` exactly when the state is not ASCII -/
theorem iso2022Jp_end_of_queue (s : IsoEncSt) (mode : Mode) :
    Runs iso2022Jp mode (isoPhi s) [] ((isoEncEof s).1.map Ev.byte) :=
  conforms_iso.eof s mode

/-! ## (b) whole texts -/

/-- the Standard's name of the output encoding, by variant (single-byte: the encoding's own name) -/
def specNameOfVariant : Gen.Variant → Option String
  | .singleByte .. => none
  | .utf8 => some "UTF-8"
  | .gbk => some "GBK"
  | .gb18030 => some "gb18030"
  | .big5 => some "Big5"
  | .eucJp => some "EUC-JP"
  | .iso2022Jp => some "ISO-2022-JP"
  | .shiftJis => some "Shift_JIS"
  | .eucKr => some "EUC-KR"
  | .replacement => some "UTF-8"
  | .utf16Be => some "UTF-8"
  | .utf16Le => some "UTF-8"
  | .userDefined => some "x-user-defined"

def nameOk (e : Gen.EncodingInit) : Bool :=
  match specNameOfVariant e.variant with
  | none => outputEncodingName e.name == e.name
  | some n => outputEncodingName e.name == n

/-- the names of the `*_INIT` list are the Standard's names, and "get an output encoding" lands on
the encoding whose encoder `variant.rs` instantiates -/
theorem names_ok : Gen.encodings.all nameOk = true := by decide

/-- the encoder model of an encoding conforms to the Standard's encoder of its output encoding -/
theorem conforms_of_encoding (e : Gen.EncodingInit) (he : e ∈ Gen.encodings) :
    ∃ (E : Encoder) (φ : (efamOfVariant e.variant).σ → E.σ),
      encoderOfName (outputEncodingName e.name) = some E
        ∧ φ (efamOfVariant e.variant).init = E.init
        ∧ Conforms (efamOfVariant e.variant) E φ := by
  have hn := List.all_eq_true.mp names_ok e he
  unfold nameOk at hn
  cases hv : e.variant with
  | singleByte t a b l =>
    rw [hv] at hn
    have hname : outputEncodingName e.name = e.name := by simpa [specNameOfVariant] using hn
    have ⟨index, hidx, h⟩ := singleByte_conforms e he t a b l hv
    refine ⟨stateless (singleByte index), fun _ => (stateless (singleByte index)).init, ?_, rfl, ?_⟩
    · rw [hname]; unfold encoderOfName; rw [hidx]
    · exact conforms_stateless _ 1 _ h (singleByte_ascii index)
  | utf8 =>
    rw [hv] at hn
    have hname : outputEncodingName e.name = "UTF-8" := by simpa [specNameOfVariant] using hn
    exact ⟨stateless utf8, fun _ => (stateless utf8).init, by rw [hname]; rfl, rfl,
      conforms_stateless _ 4 _ (fun c _ => utf8_conforms c) utf8_ascii⟩
  | replacement =>
    rw [hv] at hn
    have hname : outputEncodingName e.name = "UTF-8" := by simpa [specNameOfVariant] using hn
    exact ⟨stateless utf8, fun _ => (stateless utf8).init, by rw [hname]; rfl, rfl,
      conforms_stateless _ 4 _ (fun c _ => utf8_conforms c) utf8_ascii⟩
  | utf16Be =>
    rw [hv] at hn
    have hname : outputEncodingName e.name = "UTF-8" := by simpa [specNameOfVariant] using hn
    exact ⟨stateless utf8, fun _ => (stateless utf8).init, by rw [hname]; rfl, rfl,
      conforms_stateless _ 4 _ (fun c _ => utf8_conforms c) utf8_ascii⟩
  | utf16Le =>
    rw [hv] at hn
    have hname : outputEncodingName e.name = "UTF-8" := by simpa [specNameOfVariant] using hn
    exact ⟨stateless utf8, fun _ => (stateless utf8).init, by rw [hname]; rfl, rfl,
      conforms_stateless _ 4 _ (fun c _ => utf8_conforms c) utf8_ascii⟩
  | gbk =>
    rw [hv] at hn
    have hname : outputEncodingName e.name = "GBK" := by simpa [specNameOfVariant] using hn
    exact ⟨stateless (gb18030 true), fun _ => (stateless (gb18030 true)).init, by rw [hname]; rfl, rfl,
      conforms_stateless _ 4 _ (fun c hc => gb_conforms true c hc) (gb18030_ascii true)⟩
  | gb18030 =>
    rw [hv] at hn
    have hname : outputEncodingName e.name = "gb18030" := by simpa [specNameOfVariant] using hn
    exact ⟨stateless (gb18030 false), fun _ => (stateless (gb18030 false)).init, by rw [hname]; rfl, rfl,
      conforms_stateless _ 4 _ (fun c hc => gb_conforms false c hc) (gb18030_ascii false)⟩
  | big5 =>
    rw [hv] at hn
    have hname : outputEncodingName e.name = "Big5" := by simpa [specNameOfVariant] using hn
    exact ⟨stateless big5, fun _ => (stateless big5).init, by rw [hname]; rfl, rfl,
      conforms_stateless _ 2 _ big5_conforms big5_ascii⟩
  | eucJp =>
    rw [hv] at hn
    have hname : outputEncodingName e.name = "EUC-JP" := by simpa [specNameOfVariant] using hn
    exact ⟨stateless eucJp, fun _ => (stateless eucJp).init, by rw [hname]; rfl, rfl,
      conforms_stateless _ 2 _ eucJp_conforms eucJp_ascii⟩
  | iso2022Jp =>
    rw [hv] at hn
    have hname : outputEncodingName e.name = "ISO-2022-JP" := by simpa [specNameOfVariant] using hn
    exact ⟨iso2022Jp, isoPhi, by rw [hname]; rfl, rfl, conforms_iso⟩
  | shiftJis =>
    rw [hv] at hn
    have hname : outputEncodingName e.name = "Shift_JIS" := by simpa [specNameOfVariant] using hn
    exact ⟨stateless shiftJis, fun _ => (stateless shiftJis).init, by rw [hname]; rfl, rfl,
      conforms_stateless _ 2 _ shiftJis_conforms shiftJis_ascii⟩
  | eucKr =>
    rw [hv] at hn
    have hname : outputEncodingName e.name = "EUC-KR" := by simpa [specNameOfVariant] using hn
    exact ⟨stateless eucKr, fun _ => (stateless eucKr).init, by rw [hname]; rfl, rfl,
      conforms_stateless _ 2 _ eucKr_conforms eucKr_ascii⟩
  | userDefined =>
    rw [hv] at hn
    have hname : outputEncodingName e.name = "x-user-defined" := by simpa [specNameOfVariant] using hn
    exact ⟨stateless userDefined, fun _ => (stateless userDefined).init, by rw [hname]; rfl, rfl,
      conforms_stateless _ 1 _ (fun c _ => userDefined_conforms c) userDefined_ascii⟩

/-- **C03, stream level.**  For each of the 40 encodings and every text of scalar values: the
Standard's encoder of the output encoding exists, and the bytes and `Unmappable` reports of the
model's reference run are a run of "process a queue" over the text (resumed after each error,
mode `report`); with numeric character references written for the reports they are the run in
error mode "html".  (`Runs` is deterministic: `runs_unique`.) -/
theorem encode_conforms (e : Gen.EncodingInit) (he : e ∈ Gen.encodings) (text : List Nat)
    (ht : ∀ c ∈ text, c < 0x110000) :
    ∃ E : Encoder, encoderOfName (outputEncodingName e.name) = some E
      ∧ Runs E .report E.init text (eref (efamOfVariant e.variant) (efamOfVariant e.variant).init text)
      ∧ Runs E .html E.init text
          ((erefHtml (efamOfVariant e.variant) (efamOfVariant e.variant).init text).map Ev.byte) := by
  have ⟨E, φ, hE, hinit, hc⟩ := conforms_of_encoding e he
  refine ⟨E, hE, ?_, ?_⟩
  · rw [← hinit]; exact eref_runs_report _ E φ hc text _ ht
  · rw [← hinit]; exact erefHtml_runs_html _ E φ hc text _ ht

end EncodingRs.Thm.C03
