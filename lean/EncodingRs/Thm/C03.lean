import EncodingRs.Lemmas.WithNeed
import EncodingRs.Lemmas.ConformEncFam
import EncodingRs.Lemmas.ConformEncSrc
import EncodingRs.Lemmas.ConformEncRepl
import EncodingRs.Lemmas.ConformEncSym
import EncodingRs.Lemmas.ConformEncSb
import EncodingRs.Lemmas.ConformEncBig5
import EncodingRs.Lemmas.ConformEncKr
import EncodingRs.Lemmas.ConformEncEucJp
import EncodingRs.Lemmas.ConformEncShiftJis
import EncodingRs.Lemmas.ConformEncGb
import EncodingRs.Lemmas.ConformEncIso
/-!
# C03 — encoding conforms to the Encoding Standard for every scalar-value sequence

Model side: the encoder families of `Model/EncFam.lean` over the tables regenerated from
`/repo/src` (`efamOfVariant`), run by `processChar` / `erun` of `Model/Encoder.lean`.
Standard side: `Spec/Encode.lean` (handlers, index-pointer rules, "process a queue") over the
vendored indexes.

* (a) `estep_conforms_*`: per character, every family;
* (b) `encode_conforms`: whole texts, every one of the 40 encodings, both as the raw API reports
  (`Unmappable` recorded) and with numeric character references (error mode "html");
  `eref_erun`: `eref` is what repeated `erun … .unlimited` calls with `last = true` produce;
* (c) `utf16_source_reads`, `utf8_source_reads`;
* (d) `ncr_decimal`, `decimalDigits_shortest`, `encRepl_html`, and the end-to-end corollaries
  `encode_from_utf16_conforms` / `encode_from_utf8_conforms`;
* (e) `output_encoding_utf8`, `utf8_never_unmappable`.
-/
namespace EncodingRs.Thm.C03
open EncodingRs EncodingRs.Spec.Encode EncodingRs.Lemmas.ConformEnc
open EncodingRs.Model hiding Ev

/-! ## (a) per-character conformance -/

theorem estep_conforms_utf8 (c : Nat) : utf8EFam.step () c = stepOfResult (utf8 c) :=
  statelessStep_of_conforms _ _ c (utf8_conforms c)

theorem estep_conforms_userDefined (c : Nat) : userDefinedEFam.step () c = stepOfResult (userDefined c) :=
  statelessStep_of_conforms _ _ c (userDefined_conforms c)

theorem estep_conforms_big5 (c : Nat) (hc : c < 0x110000) : big5EFam.step () c = stepOfResult (big5 c) :=
  statelessStep_of_conforms _ _ c (big5_conforms c hc)

theorem estep_conforms_eucKr (c : Nat) (hc : c < 0x110000) : eucKrEFam.step () c = stepOfResult (eucKr c) :=
  statelessStep_of_conforms _ _ c (eucKr_conforms c hc)

theorem estep_conforms_eucJp (c : Nat) (hc : c < 0x110000) : eucJpEFam.step () c = stepOfResult (eucJp c) :=
  statelessStep_of_conforms _ _ c (eucJp_conforms c hc)

theorem estep_conforms_shiftJis (c : Nat) (hc : c < 0x110000) :
    shiftJisEFam.step () c = stepOfResult (shiftJis c) :=
  statelessStep_of_conforms _ _ c (shiftJis_conforms c hc)

/-- GBK is the gb18030 encoder with `is GBK` set (`extended = false`) -/
theorem estep_conforms_gb (isGBK : Bool) (c : Nat) (hc : c < 0x110000) :
    (gbEFam (!isGBK)).step () c = stepOfResult (gb18030 isGBK c) :=
  statelessStep_of_conforms _ _ c (gb_conforms isGBK c hc)

/-- every single-byte encoding of the `*_INIT` list: the Standard has an index under the encoding's
name, and the run/quadrant search over the regenerated table is the single-byte encoder over it -/
theorem estep_conforms_singleByte (e : Gen.EncodingInit) (he : e ∈ Gen.encodings) (t a b l : Nat)
    (hv : e.variant = .singleByte t a b l) :
    ∃ index, Spec.Enc.singleByteIndexes.lookup e.name = some index ∧
      ∀ c, c < 0x110000 →
        (singleByteEFam (Gen.singleByteTables.getD t #[]) a b l).step () c = stepOfResult (singleByte index c) := by
  have ⟨index, hidx, h⟩ := singleByte_conforms e he t a b l hv
  exact ⟨index, hidx, fun c hc => statelessStep_of_conforms _ _ c (h c hc)⟩

/-- ISO-2022-JP, per (state, character): the bytes, the error and the state of the model's
processing of a character (faithful step incl. its `.again` re-reads) are those of the chain of
runs of the Standard's handler (incl. "restore code point to ioQueue") -/
theorem estep_conforms_iso2022Jp (s : IsoEncSt) (c : Nat) (hc : c < 0x110000) :
    specChain iso2022JpHandler 3 (isoPhi s) c
      = some ((charOut iso2022JpEFam s c).1, (charOut iso2022JpEFam s c).2.1, isoPhi (charOut iso2022JpEFam s c).2.2) :=
  conforms_iso.char s c hc

/-- the end-of-queue block: `ESC ( B` exactly when the state is not ASCII -/
theorem iso2022Jp_end_of_queue (s : IsoEncSt) (mode : Mode) :
    Runs iso2022Jp mode (isoPhi s) [] ((isoEncEof s).1.map Ev.byte) :=
  conforms_iso.eof s mode

/-! ## (b) whole texts -/

/-- the Standard's name of the output encoding, by variant (single-byte: the encoding's own name) -/
def specNameOfVariant : Gen.Variant → Option String
  | .singleByte .. => none
  | .utf8 => some "UTF-8"
  | .gbk => some "GBK"
  | .gb18030 => some "gb18030"
  | .big5 => some "Big5"
  | .eucJp => some "EUC-JP"
  | .iso2022Jp => some "ISO-2022-JP"
  | .shiftJis => some "Shift_JIS"
  | .eucKr => some "EUC-KR"
  | .replacement => some "UTF-8"
  | .utf16Be => some "UTF-8"
  | .utf16Le => some "UTF-8"
  | .userDefined => some "x-user-defined"

def nameOk (e : Gen.EncodingInit) : Bool :=
  match specNameOfVariant e.variant with
  | none => outputEncodingName e.name == e.name
  | some n => outputEncodingName e.name == n

/-- the names of the `*_INIT` list are the Standard's names, and "get an output encoding" lands on
the encoding whose encoder `variant.rs` instantiates -/
theorem names_ok : Gen.encodings.all nameOk = true := by decide

open EncodingRs.Lemmas.WithNeed in
/-- `Conforms` looks at an encoder family only through runs with an unlimited budget, which cannot
observe `need` -/
theorem conforms_withNeed {F : EFam} {E : Encoder} {φ : F.σ → E.σ} (n : F.σ → Nat → Nat)
    (h : Conforms F E φ) : Conforms (withNeed F n) E φ := by
  have hc : ∀ s c, charOut (withNeed F n) s c = charOut F s c := by
    intro s c
    have hp := processChar_withNeed F n (F.rank s c + 1) s c []
    unfold charOut
    simp only [hp]
    generalize processChar F (F.rank s c + 1) s c Budget.unlimited [] = r
    cases r <;> rfl
  exact ⟨fun s c hlt => by rw [hc]; exact h.char s c hlt, h.eof,
    fun s c u hlt hu => by rw [hc] at hu ⊢; exact h.ncr s c u hlt hu,
    fun s c u hlt hu => by rw [hc] at hu; exact h.report_lt s c u hlt hu⟩

/-- the UTF-8 encoder (also the output encoder of UTF-16LE/BE and replacement) -/
theorem utf8_conforms_fam : Conforms utf8EFam (stateless utf8) (fun _ => (stateless utf8).init) :=
  conforms_withNeed (fun _ c => (encodeUtf8 c).length) (conforms_stateless _ 4 _ (fun c _ => utf8_conforms c) utf8_ascii)

/-- the encoder model of an encoding conforms to the Standard's encoder of its output encoding -/
theorem conforms_of_encoding (e : Gen.EncodingInit) (he : e ∈ Gen.encodings) :
    ∃ (E : Encoder) (φ : (efamOfVariant e.variant).σ → E.σ),
      encoderOfName (outputEncodingName e.name) = some E
        ∧ φ (efamOfVariant e.variant).init = E.init
        ∧ Conforms (efamOfVariant e.variant) E φ := by
  have hn := List.all_eq_true.mp names_ok e he
  unfold nameOk at hn
  cases hv : e.variant with
  | singleByte t a b l =>
    rw [hv] at hn
    have hname : outputEncodingName e.name = e.name := by simpa [specNameOfVariant] using hn
    have ⟨index, hidx, h⟩ := singleByte_conforms e he t a b l hv
    refine ⟨stateless (singleByte index), fun _ => (stateless (singleByte index)).init, ?_, rfl, ?_⟩
    · rw [hname]; unfold encoderOfName; rw [hidx]
    · exact conforms_stateless _ 1 _ h (singleByte_ascii index)
  | utf8 =>
    rw [hv] at hn
    have hname : outputEncodingName e.name = "UTF-8" := by simpa [specNameOfVariant] using hn
    exact ⟨stateless utf8, fun _ => (stateless utf8).init, by rw [hname]; rfl, rfl,
      utf8_conforms_fam⟩
  | replacement =>
    rw [hv] at hn
    have hname : outputEncodingName e.name = "UTF-8" := by simpa [specNameOfVariant] using hn
    exact ⟨stateless utf8, fun _ => (stateless utf8).init, by rw [hname]; rfl, rfl,
      utf8_conforms_fam⟩
  | utf16Be =>
    rw [hv] at hn
    have hname : outputEncodingName e.name = "UTF-8" := by simpa [specNameOfVariant] using hn
    exact ⟨stateless utf8, fun _ => (stateless utf8).init, by rw [hname]; rfl, rfl,
      utf8_conforms_fam⟩
  | utf16Le =>
    rw [hv] at hn
    have hname : outputEncodingName e.name = "UTF-8" := by simpa [specNameOfVariant] using hn
    exact ⟨stateless utf8, fun _ => (stateless utf8).init, by rw [hname]; rfl, rfl,
      utf8_conforms_fam⟩
  | gbk =>
    rw [hv] at hn
    have hname : outputEncodingName e.name = "GBK" := by simpa [specNameOfVariant] using hn
    exact ⟨stateless (gb18030 true), fun _ => (stateless (gb18030 true)).init, by rw [hname]; rfl, rfl,
      conforms_stateless _ 4 _ (fun c hc => gb_conforms true c hc) (gb18030_ascii true)⟩
  | gb18030 =>
    rw [hv] at hn
    have hname : outputEncodingName e.name = "gb18030" := by simpa [specNameOfVariant] using hn
    exact ⟨stateless (gb18030 false), fun _ => (stateless (gb18030 false)).init, by rw [hname]; rfl, rfl,
      conforms_stateless _ 4 _ (fun c hc => gb_conforms false c hc) (gb18030_ascii false)⟩
  | big5 =>
    rw [hv] at hn
    have hname : outputEncodingName e.name = "Big5" := by simpa [specNameOfVariant] using hn
    exact ⟨stateless big5, fun _ => (stateless big5).init, by rw [hname]; rfl, rfl,
      conforms_stateless _ 2 _ big5_conforms big5_ascii⟩
  | eucJp =>
    rw [hv] at hn
    have hname : outputEncodingName e.name = "EUC-JP" := by simpa [specNameOfVariant] using hn
    exact ⟨stateless eucJp, fun _ => (stateless eucJp).init, by rw [hname]; rfl, rfl,
      conforms_stateless _ 2 _ eucJp_conforms eucJp_ascii⟩
  | iso2022Jp =>
    rw [hv] at hn
    have hname : outputEncodingName e.name = "ISO-2022-JP" := by simpa [specNameOfVariant] using hn
    exact ⟨iso2022Jp, isoPhi, by rw [hname]; rfl, rfl, conforms_iso⟩
  | shiftJis =>
    rw [hv] at hn
    have hname : outputEncodingName e.name = "Shift_JIS" := by simpa [specNameOfVariant] using hn
    exact ⟨stateless shiftJis, fun _ => (stateless shiftJis).init, by rw [hname]; rfl, rfl,
      conforms_stateless _ 2 _ shiftJis_conforms shiftJis_ascii⟩
  | eucKr =>
    rw [hv] at hn
    have hname : outputEncodingName e.name = "EUC-KR" := by simpa [specNameOfVariant] using hn
    exact ⟨stateless eucKr, fun _ => (stateless eucKr).init, by rw [hname]; rfl, rfl,
      conforms_stateless _ 2 _ eucKr_conforms eucKr_ascii⟩
  | userDefined =>
    rw [hv] at hn
    have hname : outputEncodingName e.name = "x-user-defined" := by simpa [specNameOfVariant] using hn
    exact ⟨stateless userDefined, fun _ => (stateless userDefined).init, by rw [hname]; rfl, rfl,
      conforms_stateless _ 1 _ (fun c _ => userDefined_conforms c) userDefined_ascii⟩

/-- **C03, stream level.**  For each of the 40 encodings and every text of scalar values: the
Standard's encoder of the output encoding exists, and the bytes and `Unmappable` reports of the
model's reference run are a run of "process a queue" over the text (resumed after each error,
mode `report`); with numeric character references written for the reports they are the run in
error mode "html".  (`Runs` is deterministic: `runs_unique`.) -/
theorem encode_conforms (e : Gen.EncodingInit) (he : e ∈ Gen.encodings) (text : List Nat)
    (ht : ∀ c ∈ text, c < 0x110000) :
    ∃ E : Encoder, encoderOfName (outputEncodingName e.name) = some E
      ∧ Runs E .report E.init text (eref (efamOfVariant e.variant) (efamOfVariant e.variant).init text)
      ∧ Runs E .html E.init text
          ((erefHtml (efamOfVariant e.variant) (efamOfVariant e.variant).init text).map Ev.byte) := by
  have ⟨E, φ, hE, hinit, hc⟩ := conforms_of_encoding e he
  refine ⟨E, hE, ?_, ?_⟩
  · rw [← hinit]; exact eref_runs_report _ E φ hc text _ ht
  · rw [← hinit]; exact erefHtml_runs_html _ E φ hc text _ ht

/-- `Runs` determines the output: any two runs over the same queue from the same state agree, so
`encode_conforms` says that the model's output IS the Standard's output -/
theorem runs_deterministic {E : Encoder} {mode : Mode} {s : E.σ} {q : List Nat} {o1 o2 : List Ev}
    (h1 : Runs E mode s q o1) (h2 : Runs E mode s q o2) : o1 = o2 :=
  runs_unique h1 h2

/-- the executable run used by the driver (`Spec.Encode.run`, `Spec.Encode.encode`) computes `Runs` -/
theorem spec_run_sound (E : Encoder) (mode : Mode) (fuel : Nat) (s : E.σ) (q : List Nat) (out : List Ev)
    (h : Spec.Encode.run E mode fuel s q = some out) : Runs E mode s q out :=
  run_sound E mode fuel s q out h

/-- hence: whenever the executable Standard encoder answers, it answers what the model's reference
run with numeric character references writes (this is what the `specenc` correspondence compares
with the real crate) -/
theorem spec_encode_eq_model (e : Gen.EncodingInit) (he : e ∈ Gen.encodings) (text : List Nat)
    (ht : ∀ c ∈ text, c < 0x110000) (bytes : List Nat)
    (h : Spec.Encode.encode e.name text = some bytes) :
    bytes = erefHtml (efamOfVariant e.variant) (efamOfVariant e.variant).init text := by
  have ⟨E, hE, _, hhtml⟩ := encode_conforms e he text ht
  unfold Spec.Encode.encode at h
  rw [hE] at h
  simp only at h
  cases hr : Spec.Encode.run E .html (fuelFor text.length) E.init text with
  | none => rw [hr] at h; cases h
  | some out =>
    rw [hr] at h
    have hb : bytes = bytesOf out := by simpa using h.symm
    have := runs_unique (run_sound E .html _ _ _ out hr) hhtml
    rw [hb, this]
    generalize erefHtml (efamOfVariant e.variant) (efamOfVariant e.variant).init text = l
    induction l with
    | nil => rfl
    | cons a t ih => simp only [List.map_cons, bytesOf]; rw [ih]

/-- `eref` is what the raw API yields: a call with `last = true` that nothing stops
(`erun … .unlimited`, text as items of width 1) either consumes everything and wrote `eref`, or
stops at the first `Unmappable(u)` having consumed `read ≥ 1` characters, and `eref` continues with
the remaining text from the state the call left -/
theorem eref_is_raw_api (F : EFam) (text : List Nat) (s : F.σ) :
    match (erun F true s (text.map fun c => (c, 1)) .unlimited).res with
    | .inputEmpty =>
      eref F s text = (erun F true s (text.map fun c => (c, 1)) .unlimited).out.map Ev.byte
        ∧ (erun F true s (text.map fun c => (c, 1)) .unlimited).read = text.length
    | .unmappable u =>
      0 < (erun F true s (text.map fun c => (c, 1)) .unlimited).read
        ∧ (erun F true s (text.map fun c => (c, 1)) .unlimited).read ≤ text.length
        ∧ eref F s text = (erun F true s (text.map fun c => (c, 1)) .unlimited).out.map Ev.byte
            ++ (Ev.error u :: eref F (erun F true s (text.map fun c => (c, 1)) .unlimited).st
                  (text.drop (erun F true s (text.map fun c => (c, 1)) .unlimited).read))
    | .outputFull => False :=
  eref_erun F text s

/-! ## (c) the sources -/

/-- `Utf16Source`: the characters read from ANY list of UTF-16 code units are the scalar values of
the lossy decoding (surrogate pair ↦ astral scalar value, every unpaired surrogate ↦ U+FFFD) -/
theorem utf16_source_reads (units : List Nat) :
    (items16 units).map (·.1) = scalarValuesOfUtf16 units :=
  itemsOf_read16 units.length units (Nat.le_refl _)

/-- `Utf8Source` on the UTF-8 form of a text of scalar values reads the text back, each character
with its width in bytes -/
theorem utf8_source_reads (text : List Nat) (ht : ∀ c ∈ text, c < 0x110000) :
    items8 (Spec.Conv.utf8EncodeAll text) = text.map fun c => (c, Spec.Conv.utf8Len c) :=
  itemsOf_read8 text _ (utf8EncodeAll_length_ge text) ht

/-- the model's `encodeUtf8` is the UTF-8 form of Unicode Table 3-6 -/
theorem encodeUtf8_eq (c : Nat) : encodeUtf8 c = Spec.Conv.utf8Encode c := rfl

/-! ## (d) numeric character references -/

/-- `write_ncr`: `&#`, the decimal digits of the code point, `;` -/
theorem ncr_decimal (c : Nat) (hc : c < 0x110000) :
    Model.ncr c = [0x26, 0x23] ++ Spec.Encode.decimalDigits c ++ [0x3B] :=
  Lemmas.ConformEnc.ncr_decimal c hc

/-- `Spec.Encode.decimalDigits n` is the shortest sequence of ASCII digits representing `n` in base
ten: ASCII digits, value `n`, non-empty, no leading zero for `n > 0` -/
theorem decimalDigits_shortest (n : Nat) :
    (∀ d ∈ Spec.Encode.decimalDigits n, 0x30 ≤ d ∧ d ≤ 0x39)
      ∧ valueOfDigits (Spec.Encode.decimalDigits n) = n
      ∧ (Spec.Encode.decimalDigits n).head? ≠ none
      ∧ (0 < n → (Spec.Encode.decimalDigits n).head? ≠ some 0x30) :=
  decimalDigits_spec n

/-- `has_pending_state() = false` ⇒ the end-of-stream block writes nothing (every variant) -/
theorem eof_empty_of_not_pending (v : Gen.Variant) (s : (efamOfVariant v).σ)
    (h : (efamOfVariant v).hasPending s = false) : ((efamOfVariant v).eof s).1 = [] := by
  cases v with
  | iso2022Jp =>
    have hs : ∀ s' : IsoEncSt, isoEncHasPending s' = false → (isoEncEof s').1 = [] := by
      intro s' h'; cases s' <;> first | rfl | cases h'
    exact hs s h
  | _ => rfl

/-- `encRepl_html`: the with-replacement wrapper `Model.encRepl` (lib.rs `encode_from_utf8` /
`encode_from_utf16`: `NCR_EXTRA` capacity arithmetic, `total_read` bookkeeping over the source buffer),
called with `last = true` and no inner call stopped, whenever it ends with `InputEmpty` (no
`OutputFull` occurred) has written `erefHtml` of the characters of its source buffer — for every
variant, either source form, every capacity and `NCR_EXTRA` -/
theorem encRepl_html (v : Gen.Variant) (canAll : Bool) (ncrExtra : Nat) (utf16 : Bool) (cap fuel : Nat)
    (src : List Nat) (r : EReplRes (efamOfVariant v).σ)
    (h : encRepl (efamOfVariant v) canAll ncrExtra utf16 true cap fuel (efamOfVariant v).init src [] = some r)
    (hres : r.res = .inputEmpty) :
    r.out = erefHtml (efamOfVariant v) (efamOfVariant v).init
      ((if utf16 then items16 src else items8 src).map (·.1)) := by
  have := encRepl_html_of (efamOfVariant v) (eof_empty_of_not_pending v) canAll ncrExtra utf16 cap fuel _ src r h hres
  rw [this]
  cases utf16 <;> rfl

/-- **C03 end to end, UTF-16 source.**  For each of the 40 encodings and ANY buffer of UTF-16 code
units (unpaired surrogates allowed): what `encode_from_utf16` (model: `encRepl`, `last = true`) has
written when it ends with `InputEmpty` is the output of the Standard's "encode" (error mode "html")
of the output encoding on the scalar values of the buffer, each unpaired surrogate counting as U+FFFD -/
theorem encode_from_utf16_conforms (e : Gen.EncodingInit) (he : e ∈ Gen.encodings) (units : List Nat)
    (hu : ∀ u ∈ units, u < 0x10000) (canAll : Bool) (ncrExtra cap fuel : Nat)
    (r : EReplRes (efamOfVariant e.variant).σ)
    (h : encRepl (efamOfVariant e.variant) canAll ncrExtra true true cap fuel (efamOfVariant e.variant).init units []
      = some r)
    (hres : r.res = .inputEmpty) :
    ∃ E : Encoder, encoderOfName (outputEncodingName e.name) = some E
      ∧ Runs E .html E.init (scalarValuesOfUtf16 units) (r.out.map Ev.byte) := by
  have hout := encRepl_html e.variant canAll ncrExtra true cap fuel units r h hres
  simp only [if_true] at hout
  rw [utf16_source_reads] at hout
  have hb : ∀ c ∈ scalarValuesOfUtf16 units, c < 0x110000 :=
    decodeUtf16Lossy_lt units.length units (Nat.le_refl _) hu
  have ⟨E, hE, _, hhtml⟩ := encode_conforms e he (scalarValuesOfUtf16 units) hb
  exact ⟨E, hE, by rw [hout]; exact hhtml⟩

/-- **C03 end to end, UTF-8 source**: the same for `encode_from_utf8` on the UTF-8 form of a text -/
theorem encode_from_utf8_conforms (e : Gen.EncodingInit) (he : e ∈ Gen.encodings) (text : List Nat)
    (ht : ∀ c ∈ text, c < 0x110000) (canAll : Bool) (ncrExtra cap fuel : Nat)
    (r : EReplRes (efamOfVariant e.variant).σ)
    (h : encRepl (efamOfVariant e.variant) canAll ncrExtra false true cap fuel (efamOfVariant e.variant).init
      (Spec.Conv.utf8EncodeAll text) [] = some r)
    (hres : r.res = .inputEmpty) :
    ∃ E : Encoder, encoderOfName (outputEncodingName e.name) = some E
      ∧ Runs E .html E.init text (r.out.map Ev.byte) := by
  have hout := encRepl_html e.variant canAll ncrExtra false cap fuel _ r h hres
  simp only [Bool.false_eq_true, if_false] at hout
  rw [utf8_source_reads text ht, List.map_map] at hout
  have hid : (text.map ((fun x : Nat × Nat => x.1) ∘ fun c => (c, Spec.Conv.utf8Len c))) = text := by
    simp [Function.comp_def]
  rw [hid] at hout
  have ⟨E, hE, _, hhtml⟩ := encode_conforms e he text ht
  exact ⟨E, hE, by rw [hout]; exact hhtml⟩

/-! ## (e) output encodings -/

/-- UTF-16BE, UTF-16LE and replacement encode as UTF-8 -/
theorem output_encoding_utf8 :
    efamOfVariant .utf16Be = utf8EFam ∧ efamOfVariant .utf16Le = utf8EFam
      ∧ efamOfVariant .replacement = utf8EFam ∧ efamOfVariant .utf8 = utf8EFam
      ∧ outputEncodingName "UTF-16BE" = "UTF-8" ∧ outputEncodingName "UTF-16LE" = "UTF-8"
      ∧ outputEncodingName "replacement" = "UTF-8" :=
  ⟨rfl, rfl, rfl, rfl, by decide, by decide, by decide⟩

/-- the UTF-8 encoder never reports an unmappable character and hands nothing back -/
theorem utf8_never_unmappable (c : Nat) :
    (utf8EFam.step () c).unmappable = none ∧ (utf8EFam.step () c).unread = false
      ∧ (utf8EFam.step () c).out = Spec.Conv.utf8Encode c :=
  ⟨rfl, rfl, rfl⟩

/-- and so does the Standard's: the UTF-8 encoder has no "return error" -/
theorem spec_utf8_never_error (c : Nat) : utf8 c = .bytes (Spec.Conv.utf8Encode c) := by
  rw [utf8_conforms c]; rfl

/-! ## non-vacuity -/

/-- Big5: U+5341 takes the LAST pointer (0xA451), U+5345 too; a code point whose only pointers are
below (0xA1−0x81)·157 is an error (U+43F0, pointer 942) -/
example : big5With big5PtrFast 0x5341 = .bytes [0xA4, 0x51] := by native_decide
example : big5EncodeChar 0x5341 = some [0xA4, 0x51] := by native_decide
/-- ISO-2022-JP in the Standard: U+00A5 switches to Roman, a following `\` returns to ASCII first -/
example : specChain iso2022JpHandler 3 .ascii 0xA5 = some ([0x1B, 0x28, 0x4A, 0x5C], none, .roman) := by
  rw [iso_handler_eq]; native_decide
example : Spec.Encode.decimalDigits 65533 = [0x36, 0x35, 0x35, 0x33, 0x33] := by
  simp [Spec.Encode.decimalDigits]
example : Model.ncr 0x10FFFF = [0x26, 0x23, 0x31, 0x31, 0x31, 0x34, 0x31, 0x31, 0x31, 0x3B] := by decide
example : scalarValuesOfUtf16 [0x41, 0xD800, 0xD83D, 0xDE00, 0xDC00] = [0x41, 0xFFFD, 0x1F600, 0xFFFD] := by decide
example : outputEncodingName "UTF-16LE" = "UTF-8" ∧ (encoderOfName "replacement").isNone = true := by
  constructor <;> decide
/-- the wrapper does end with `InputEmpty` and writes the reference (x-user-defined, UTF-16 source with a lone surrogate) -/
example : (encRepl userDefinedEFam false 10 true true 100 10 () [0x41, 0xE9, 0xD800, 0xF7FF] []).map (fun r => (r.res, r.out))
    = some (.inputEmpty, [0x41, 0x26, 0x23, 0x32, 0x33, 0x33, 0x3B, 0x26, 0x23, 0x36, 0x35, 0x35, 0x33, 0x33, 0x3B, 0xFF]) := by
  decide
/-- GBK reports what gb18030 writes in four bytes; U+E5E5 is an error for both; U+E7C7 ↦ pointer 7457 -/
example : indexGb18030RangesPointer 0xE7C7 = 7457 := by decide

end EncodingRs.Thm.C03
