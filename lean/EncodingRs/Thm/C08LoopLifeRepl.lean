import EncodingRs.Thm.C08LoopLife
import EncodingRs.Thm.C07LifeRepl
/-!
# C08, decoder side — the caller loop over the public with-replacement methods (BOM life cycle)

`Thm.C07.Decoder.replCall` models `Decoder::decode_to_utf8` / `decode_to_utf16`: the loop around
`Decoder.rawCall` that writes U+FFFD for every `Malformed`.  Here:

* `rawCall_step`: one `Decoder.rawCall` of a decoder with the invariants of `Decoder.new`
  (`LoopInv`) preserves them and accounts for the events of `dref` (`C10.rawCall_sound_full`);
* `replCall_events`: what a with-replacement call wrote, plus what `dref` says about the rest, is what
  `dref` said about the stream (lengths; U+FFFD for an error); it returns `InputEmpty` or `OutputFull`;
* `replCall_outputFull_wrote`: with a destination of at least the documented minimum and admissible
  inner calls (`C07.DReplAdmissible`), an `OutputFull` return wrote at least one character;
* `DLifeReplLoop`, **`life_repl_caller_loop_bound`**: from `Decoder.new`, all 40 encodings, three
  BOM modes, the documented caller loop over `decode_to_utf{8,16}` makes at most
  `bytes + chunks + 6` calls.  (A panic of the model — `some none` — ends no loop: the relation only
  contains calls that returned.)
* `DLifeReplLoopPre` (every prefix of a run), `life_repl_prefix_calls_le_events`,
  **`life_repl_caller_loop_prefix_bound`**, **`life_repl_caller_loop_terminates`**: no prefix of a run has
  more than `bytes + chunks + 6` calls.  That each single with-replacement call returns (the fuelled
  `Decoder.replCall` is not `none`) is `Thm/C08ReplTerm.lean`.
* Non-vacuity: a three-call run (Shift_JIS, sniffing, `FE 41 42 43 B1`) and a proper prefix of it.
-/
namespace EncodingRs.Thm.C08Loop
open EncodingRs EncodingRs.Model EncodingRs.Lemmas.Core EncodingRs.Lemmas.FamLaws EncodingRs.Lemmas.Life
open EncodingRs.Lemmas.LifeLeaf EncodingRs.Lemmas.MaxLenVariant EncodingRs.Lemmas.Potential
open EncodingRs.Thm.C08 EncodingRs.Thm.C10 EncodingRs.Thm.C07

/-- the invariants of a decoder made by `Decoder.new` that has consumed `pos` bytes -/
structure LoopInv (v : Gen.Variant) (d : Decoder (famOfVariant v)) (pos : Nat) : Prop where
  w : withheld d.life ≤ pos
  life : LifeInv v d
  pend : PendInv d

theorem loopInv_new (v : Gen.Variant) (bom : BomHandling) :
    LoopInv v (Decoder.new (famOfVariant v) (nominalOf v) bom) 0 :=
  ⟨by rw [withheld_new]; exact Nat.le_refl _, lifeInv_new v bom, pendInv_new _ bom⟩

/-- one raw call: invariants preserved, events accounted for -/
theorem rawCall_step (v : Gen.Variant) (k : Sink) (d : Decoder (famOfVariant v)) (pos : Nat) (src rest : List Nat)
    (last : Bool) (b1 b2 : Budget) (hl : last = true → rest = []) (hd : LoopInv v d pos)
    (hb : ∀ x ∈ src, x < 256) (res : Res) (read : Nat) (out : List Nat) (d' : Decoder (famOfVariant v))
    (inner : List (List Nat × Res × Nat)) (h : d.rawCall k src last b1 b2 = .ok res read out d' inner) :
    LoopInv v d' (pos + read) ∧
    out.length + (resEv (pos + read) res).length + (dref d' (src.drop read ++ rest) (pos + read)).length
      = (dref d (src ++ rest) pos).length := by
  have H := famBB_variant v
  have hs := rawCall_sound_full H k d src rest pos last b1 b2 hl hd.w hd.life.fresh hd.pend
  rw [h] at hs
  simp only [DSound] at hs
  refine ⟨⟨hs.2, rawCall_lifeInv v k d src last b1 b2 res read out d' inner hd.life hb h,
    rawCall_pendInv H k d src last b1 b2 res read out d' inner hd.life.fresh hd.pend h⟩, ?_⟩
  rw [← hs.1]
  simp only [List.length_append, List.length_map]

/-- **what a with-replacement call wrote accounts for the events of the documented semantics** -/
theorem replCall_events (v : Gen.Variant) (k : Sink) (last : Bool) (rest : List Nat) (hl : last = true → rest = []) :
    ∀ (fuel : Nat) (d : Decoder (famOfVariant v)) (src : List Nat) (bs : List (Budget × Budget)) (pos : Nat)
      (t : DReplRes (famOfVariant v)), LoopInv v d pos → (∀ x ∈ src, x < 256) →
      Decoder.replCall k last fuel d src bs = some (some t) →
      LoopInv v t.d (pos + t.read) ∧
      t.out.length + (dref t.d (src.drop t.read ++ rest) (pos + t.read)).length
        = (dref d (src ++ rest) pos).length ∧
      (t.res = .inputEmpty ∨ t.res = .outputFull) := by
  intro fuel
  induction fuel with
  | zero => intro d src bs pos t _ _ h; simp [Decoder.replCall] at h
  | succ fuel ih =>
    intro d src bs pos t hd hb h
    rw [Decoder.replCall] at h
    cases hcall : d.rawCall k src last (bs.headD (.unlimited, .unlimited)).1 (bs.headD (.unlimited, .unlimited)).2 with
    | panic => rw [hcall] at h; simp at h
    | ok res read out d' inner =>
      rw [hcall] at h
      simp only at h
      have hstep := rawCall_step v k d pos src rest last _ _ hl hd hb res read out d' inner hcall
      cases res with
      | malformed l a =>
        simp only at h
        cases hrec : Decoder.replCall k last fuel d' (src.drop read) bs.tail with
        | none => rw [hrec] at h; simp at h
        | some o =>
          cases o with
          | none => rw [hrec] at h; simp at h
          | some t' =>
            rw [hrec] at h
            simp only [Option.some.injEq] at h
            subst h
            have IH := ih d' (src.drop read) bs.tail (pos + read) t' hstep.1
              (fun x hx => hb x (List.mem_of_mem_drop hx)) hrec
            have e1 : pos + (read + t'.read) = pos + read + t'.read := by omega
            have e2 : src.drop (read + t'.read) = (src.drop read).drop t'.read := by
              rw [List.drop_drop]
            simp only
            rw [e1, e2]
            refine ⟨IH.1, ?_, IH.2.2⟩
            have h1 := hstep.2
            have h2 := IH.2.1
            simp only [resEv, List.length_cons, List.length_nil, List.length_append] at h1 h2 ⊢
            omega
      | inputEmpty =>
        simp only [Option.some.injEq] at h
        subst h
        have h1 := hstep.2
        simp only [resEv, List.length_nil, Nat.add_zero] at h1
        exact ⟨hstep.1, h1, Or.inl rfl⟩
      | outputFull =>
        simp only [Option.some.injEq] at h
        subst h
        have h1 := hstep.2
        simp only [resEv, List.length_nil, Nat.add_zero] at h1
        exact ⟨hstep.1, h1, Or.inr rfl⟩

/-- with a destination of at least the documented minimum and admissible inner calls, a
with-replacement `Decoder` call that returns `OutputFull` wrote at least one character -/
theorem replCall_outputFull_wrote {F : Fam} (hnb : NeedsBounded F) (k : Sink) (last : Bool) (fuel : Nat)
    (d : Decoder F) (src : List Nat) (bs : List (Budget × Budget)) (cap : Nat) (t : DReplRes F)
    (hcap : minCap k ≤ cap) (hadm : DReplAdmissible k last fuel d src bs cap)
    (h : Decoder.replCall k last fuel d src bs = some (some t)) (hres : t.res = .outputFull) :
    1 ≤ t.out.length := by
  cases fuel with
  | zero => simp [Decoder.replCall] at h
  | succ fuel =>
    rw [Decoder.replCall] at h
    rw [DReplAdmissible] at hadm
    have hw := rawCall_outputFull_wrote hnb k d src last (bs.headD (.unlimited, .unlimited)).1
      (bs.headD (.unlimited, .unlimited)).2 cap hcap
    cases hcall : d.rawCall k src last (bs.headD (.unlimited, .unlimited)).1 (bs.headD (.unlimited, .unlimited)).2 with
    | panic => rw [hcall] at h; simp at h
    | ok res read out d' inner =>
      rw [hcall] at h hadm hw
      simp only at h hadm
      cases res with
      | malformed l a =>
        simp only at h
        cases hrec : Decoder.replCall k last fuel d' (src.drop read) bs.tail with
        | none => rw [hrec] at h; simp at h
        | some o =>
          cases o with
          | none => rw [hrec] at h; simp at h
          | some t' =>
            rw [hrec] at h
            simp only [Option.some.injEq] at h
            subst h
            simp only [List.length_append, List.length_cons]; omega
      | inputEmpty => simp only [Option.some.injEq] at h; subst h; cases hres
      | outputFull =>
        simp only [Option.some.injEq] at h
        subst h
        exact hw rfl hadm.1

/-- **the documented caller loop over the public with-replacement methods**: `n` calls, `c` of them
non-`last` calls that returned `InputEmpty` -/
inductive DLifeReplLoop {F : Fam} : Decoder F → List Nat → Nat → Nat → Prop
  | final (k : Sink) (d : Decoder F) (rem : List Nat) (fuel : Nat) (bs : List (Budget × Budget)) (t : DReplRes F) :
      Decoder.replCall k true fuel d rem bs = some (some t) → t.res = .inputEmpty → DLifeReplLoop d rem 1 0
  | lastStep (k : Sink) (d : Decoder F) (rem : List Nat) (fuel : Nat) (bs : List (Budget × Budget)) (t : DReplRes F)
      (cap n c : Nat) :
      Decoder.replCall k true fuel d rem bs = some (some t) → t.res ≠ .inputEmpty → minCap k ≤ cap →
      DReplAdmissible k true fuel d rem bs cap →
      DLifeReplLoop t.d (rem.drop t.read) n c → DLifeReplLoop d rem (n + 1) c
  | chunkDone (k : Sink) (d : Decoder F) (src rest : List Nat) (fuel : Nat) (bs : List (Budget × Budget))
      (t : DReplRes F) (n c : Nat) :
      Decoder.replCall k false fuel d src bs = some (some t) → t.res = .inputEmpty →
      DLifeReplLoop t.d (src.drop t.read ++ rest) n c → DLifeReplLoop d (src ++ rest) (n + 1) (c + 1)
  | chunkStep (k : Sink) (d : Decoder F) (src rest : List Nat) (fuel : Nat) (bs : List (Budget × Budget))
      (t : DReplRes F) (cap n c : Nat) :
      Decoder.replCall k false fuel d src bs = some (some t) → t.res ≠ .inputEmpty → minCap k ≤ cap →
      DReplAdmissible k false fuel d src bs cap →
      DLifeReplLoop t.d (src.drop t.read ++ rest) n c → DLifeReplLoop d (src ++ rest) (n + 1) c

/-- **every prefix of a run of the caller loop over the public with-replacement methods**:
`DLifeReplLoop` without the requirement that the run is complete (`start` ends a derivation anywhere) -/
inductive DLifeReplLoopPre {F : Fam} : Decoder F → List Nat → Nat → Nat → Prop
  | start (d : Decoder F) (stream : List Nat) : DLifeReplLoopPre d stream 0 0
  | final (k : Sink) (d : Decoder F) (rem : List Nat) (fuel : Nat) (bs : List (Budget × Budget)) (t : DReplRes F) :
      Decoder.replCall k true fuel d rem bs = some (some t) → t.res = .inputEmpty → DLifeReplLoopPre d rem 1 0
  | lastStep (k : Sink) (d : Decoder F) (rem : List Nat) (fuel : Nat) (bs : List (Budget × Budget)) (t : DReplRes F)
      (cap n c : Nat) :
      Decoder.replCall k true fuel d rem bs = some (some t) → t.res ≠ .inputEmpty → minCap k ≤ cap →
      DReplAdmissible k true fuel d rem bs cap →
      DLifeReplLoopPre t.d (rem.drop t.read) n c → DLifeReplLoopPre d rem (n + 1) c
  | chunkDone (k : Sink) (d : Decoder F) (src rest : List Nat) (fuel : Nat) (bs : List (Budget × Budget))
      (t : DReplRes F) (n c : Nat) :
      Decoder.replCall k false fuel d src bs = some (some t) → t.res = .inputEmpty →
      DLifeReplLoopPre t.d (src.drop t.read ++ rest) n c → DLifeReplLoopPre d (src ++ rest) (n + 1) (c + 1)
  | chunkStep (k : Sink) (d : Decoder F) (src rest : List Nat) (fuel : Nat) (bs : List (Budget × Budget))
      (t : DReplRes F) (cap n c : Nat) :
      Decoder.replCall k false fuel d src bs = some (some t) → t.res ≠ .inputEmpty → minCap k ≤ cap →
      DReplAdmissible k false fuel d src bs cap →
      DLifeReplLoopPre t.d (src.drop t.read ++ rest) n c → DLifeReplLoopPre d (src ++ rest) (n + 1) c

theorem DLifeReplLoop.toPre {F : Fam} {d : Decoder F} {stream : List Nat} {n c : Nat}
    (h : DLifeReplLoop d stream n c) : DLifeReplLoopPre d stream n c := by
  induction h with
  | final k d rem fuel bs t hrun hres => exact .final k d rem fuel bs t hrun hres
  | lastStep k d rem fuel bs t cap n c hrun hres hcap hadm _ ih =>
    exact .lastStep k d rem fuel bs t cap n c hrun hres hcap hadm ih
  | chunkDone k d src rest fuel bs t n c hrun hres _ ih => exact .chunkDone k d src rest fuel bs t n c hrun hres ih
  | chunkStep k d src rest fuel bs t cap n c hrun hres hcap hadm _ ih =>
    exact .chunkStep k d src rest fuel bs t cap n c hrun hres hcap hadm ih

theorem DLifeReplLoopPre.prefix_closed {F : Fam} {d : Decoder F} {stream : List Nat} {n c : Nat}
    (h : DLifeReplLoopPre d stream n c) : ∀ m, m ≤ n → ∃ c', c' ≤ c ∧ DLifeReplLoopPre d stream m c' := by
  induction h with
  | start d stream => intro m hm; exact ⟨0, Nat.le_refl _, by have : m = 0 := by omega
                                                              subst this; exact .start d stream⟩
  | final k d rem fuel bs t hrun hres =>
    intro m hm
    cases m with
    | zero => exact ⟨0, Nat.le_refl _, .start d rem⟩
    | succ m => have : m = 0 := by omega
                subst this; exact ⟨0, Nat.le_refl _, .final k d rem fuel bs t hrun hres⟩
  | lastStep k d rem fuel bs t cap n c hrun hres hcap hadm _ ih =>
    intro m hm
    cases m with
    | zero => exact ⟨0, Nat.zero_le _, .start d rem⟩
    | succ m =>
      obtain ⟨c', hc', h'⟩ := ih m (by omega)
      exact ⟨c', hc', .lastStep k d rem fuel bs t cap m c' hrun hres hcap hadm h'⟩
  | chunkDone k d src rest fuel bs t n c hrun hres _ ih =>
    intro m hm
    cases m with
    | zero => exact ⟨0, Nat.zero_le _, .start d (src ++ rest)⟩
    | succ m =>
      obtain ⟨c', hc', h'⟩ := ih m (by omega)
      exact ⟨c' + 1, by omega, .chunkDone k d src rest fuel bs t m c' hrun hres h'⟩
  | chunkStep k d src rest fuel bs t cap n c hrun hres hcap hadm _ ih =>
    intro m hm
    cases m with
    | zero => exact ⟨0, Nat.zero_le _, .start d (src ++ rest)⟩
    | succ m =>
      obtain ⟨c', hc', h'⟩ := ih m (by omega)
      exact ⟨c', hc', .chunkStep k d src rest fuel bs t cap m c' hrun hres hcap hadm h'⟩

theorem life_repl_prefix_calls_le_events (v : Gen.Variant) (d : Decoder (famOfVariant v)) (stream : List Nat)
    (n c : Nat) (h : DLifeReplLoopPre d stream n c) :
    ∀ pos, LoopInv v d pos → (∀ x ∈ stream, x < 256) → n ≤ (dref d stream pos).length + c + 1 := by
  have hnb := famOfVariant_needsBounded v
  induction h with
  | start d stream => intro pos _ _; omega
  | final k d rem fuel bs t hrun hres => intro pos _ _; omega
  | lastStep k d rem fuel bs t cap n c hrun hres hcap hadm _ ih =>
    intro pos hd hb
    have he := replCall_events v k true [] (fun _ => rfl) fuel d rem bs pos t hd hb hrun
    simp only [List.append_nil] at he
    have hfull : t.res = .outputFull := by
      rcases he.2.2 with h' | h'
      · exact absurd h' hres
      · exact h'
    have hw := replCall_outputFull_wrote hnb k true fuel d rem bs cap t hcap hadm hrun hfull
    have := ih (pos + t.read) he.1 (fun x hx => hb x (List.mem_of_mem_drop hx))
    have := he.2.1
    omega
  | chunkDone k d src rest fuel bs t n c hrun hres _ ih =>
    intro pos hd hb
    have hbs : ∀ x ∈ src, x < 256 := fun x hx => hb x (List.mem_append_left _ hx)
    have he := replCall_events v k false rest (fun h => by cases h) fuel d src bs pos t hd hbs hrun
    have := ih (pos + t.read) he.1 (by
      intro x hx
      rcases List.mem_append.mp hx with hx | hx
      · exact hbs x (List.mem_of_mem_drop hx)
      · exact hb x (List.mem_append_right _ hx))
    have := he.2.1
    omega
  | chunkStep k d src rest fuel bs t cap n c hrun hres hcap hadm _ ih =>
    intro pos hd hb
    have hbs : ∀ x ∈ src, x < 256 := fun x hx => hb x (List.mem_append_left _ hx)
    have he := replCall_events v k false rest (fun h => by cases h) fuel d src bs pos t hd hbs hrun
    have hfull : t.res = .outputFull := by
      rcases he.2.2 with h' | h'
      · exact absurd h' hres
      · exact h'
    have hw := replCall_outputFull_wrote hnb k false fuel d src bs cap t hcap hadm hrun hfull
    have := ih (pos + t.read) he.1 (by
      intro x hx
      rcases List.mem_append.mp hx with hx | hx
      · exact hbs x (List.mem_of_mem_drop hx)
      · exact hb x (List.mem_append_right _ hx))
    have := he.2.1
    omega

theorem life_repl_calls_le_events (v : Gen.Variant) (d : Decoder (famOfVariant v)) (stream : List Nat) (n c : Nat)
    (h : DLifeReplLoop d stream n c) :
    ∀ pos, LoopInv v d pos → (∀ x ∈ stream, x < 256) → n ≤ (dref d stream pos).length + c + 1 :=
  life_repl_prefix_calls_le_events v d stream n c h.toPre

/-- **C08, all 40 encodings, the three BOM modes, with replacement, from `new_decoder*`**: the
documented caller loop over `decode_to_utf{8,16}`, with destinations of at least 4 bytes / 2 units
and admissible inner calls, makes at most `bytes + chunks + 6` calls -/
theorem life_repl_caller_loop_bound (v : Gen.Variant) (bom : BomHandling) (stream : List Nat)
    (hb : ∀ x ∈ stream, x < 256) (n c : Nat)
    (h : DLifeReplLoop (Decoder.new (famOfVariant v) (nominalOf v) bom) stream n c) :
    n ≤ stream.length + c + 6 := by
  have h1 := life_repl_calls_le_events v _ stream n c h 0 (loopInv_new v bom) hb
  have h2 := dref_length_le v _ (lifeInv_new v bom).cur stream hb 0
  rw [withheld_new] at h2
  omega

/-- **C08, with replacement, prefixes of runs, from `new_decoder*`**: at no point of the caller loop
over `decode_to_utf{8,16}` has it made more than `bytes + chunks + 6` calls.  (Each call of a prefix is
one that returned; that a call does return — `Decoder.replCall … ≠ none` with `fuel ≥ src.len() + 8`,
and `= some (some t)` under the no-panic hypotheses — is `Thm/C08ReplTerm.lean`.) -/
theorem life_repl_caller_loop_prefix_bound (v : Gen.Variant) (bom : BomHandling) (stream : List Nat)
    (hb : ∀ x ∈ stream, x < 256) (n c : Nat)
    (h : DLifeReplLoopPre (Decoder.new (famOfVariant v) (nominalOf v) bom) stream n c) :
    n ≤ stream.length + c + 6 := by
  have h1 := life_repl_prefix_calls_le_events v _ stream n c h 0 (loopInv_new v bom) hb
  have h2 := dref_length_le v _ (lifeInv_new v bom).cur stream hb 0
  rw [withheld_new] at h2
  omega

/-- **termination**: no prefix of a run has more than `bytes + chunks + 6` calls -/
theorem life_repl_caller_loop_terminates (v : Gen.Variant) (bom : BomHandling) (stream : List Nat)
    (hb : ∀ x ∈ stream, x < 256) :
    ¬ ∃ n c, stream.length + c + 6 < n ∧
      DLifeReplLoopPre (Decoder.new (famOfVariant v) (nominalOf v) bom) stream n c := by
  intro ⟨n, c, hlt, h⟩
  have := life_repl_caller_loop_prefix_bound v bom stream hb n c h
  omega

/-! ### Non-vacuity

Shift_JIS with BOM sniffing, stream `FE 41 42 43 B1`, four-byte UTF-8 destinations, with replacement,
three calls:

1. `[FE]`, not last → `InputEmpty`, `read = 1` (the byte is withheld);
2. `[41 42 43 B1]`, last, destination of 6 bytes: the replay of `FE` is `Malformed` → U+FFFD (3 bytes),
   then the second inner raw call is stopped by an admissible `OutputFull` after `A B C` (3 more bytes
   written, 3 asked for, 3 left): `OutputFull`, `read = 3`, `had_errors`;
3. `[B1]`, last → `InputEmpty`.

The `replCall` equations hold by `rfl`. -/
section demoRepl
private def vR : Gen.Variant := .shiftJis
private def dR0 : Decoder (famOfVariant vR) := Decoder.new (famOfVariant vR) (nominalOf vR) .sniff
private def dR1 : Decoder (famOfVariant vR) := ⟨.seenUtf16BeFirst, .nominal none⟩
private def dR2 : Decoder (famOfVariant vR) := ⟨.converting, .nominal none⟩
private def dR3 : Decoder (famOfVariant vR) := ⟨.finished, .nominal none⟩

private theorem hR1 : Decoder.replCall .utf8 false 9 dR0 [0xFE] [] = some (some ⟨.inputEmpty, 1, [], false, dR1⟩) := rfl
private theorem hR2 : Decoder.replCall .utf8 true 12 dR1 [0x41, 0x42, 0x43, 0xB1]
      [(.unlimited, .unlimited), (.unlimited, .full 3)]
    = some (some ⟨.outputFull, 3, [0xFFFD, 0x41, 0x42, 0x43], true, dR2⟩) := rfl
private theorem hR3 : Decoder.replCall .utf8 true 9 dR2 [0xB1] [] = some (some ⟨.inputEmpty, 1, [0xFF71], false, dR3⟩) := rfl

private theorem admR2 : DReplAdmissible .utf8 true 12 dR1 [0x41, 0x42, 0x43, 0xB1]
    [(.unlimited, .unlimited), (.unlimited, .full 3)] 6 := by
  have e1 : dR1.rawCall .utf8 [0x41, 0x42, 0x43, 0xB1] true .unlimited .unlimited
      = .ok (.malformed 1 0) 0 [] dR2 [([], .malformed 1 0, 0)] := rfl
  have e2 : dR2.rawCall .utf8 [0x41, 0x42, 0x43, 0xB1] true .unlimited (.full 3)
      = .ok .outputFull 3 [0x41, 0x42, 0x43] dR2 [([0x41, 0x42, 0x43], .outputFull, 3)] := rfl
  rw [DReplAdmissible]
  simp only [List.headD_cons, List.tail_cons]
  rw [e1]
  refine ⟨(innerAdmissibleB_iff .utf8 _ 6).1 (by decide), ?_⟩
  intro l a _
  simp only [List.drop_zero]
  rw [DReplAdmissible]
  simp only [List.headD_cons, List.tail_cons]
  rw [e2]
  refine ⟨(innerAdmissibleB_iff .utf8 _ _).1 (by decide), ?_⟩
  intro l a h; cases h

/-- the complete run -/
example : DLifeReplLoop dR0 [0xFE, 0x41, 0x42, 0x43, 0xB1] 3 1 :=
  DLifeReplLoop.chunkDone .utf8 dR0 [0xFE] [0x41, 0x42, 0x43, 0xB1] 9 [] _ 2 0 hR1 rfl
    (DLifeReplLoop.lastStep .utf8 dR1 [0x41, 0x42, 0x43, 0xB1] 12 _ _ 6 1 0 hR2 (by intro h; cases h) (by decide)
      admR2 (DLifeReplLoop.final .utf8 dR2 [0xB1] 9 [] _ hR3 rfl))

/-- a proper prefix of it: two calls made, the stream not finished -/
example : DLifeReplLoopPre dR0 [0xFE, 0x41, 0x42, 0x43, 0xB1] 2 1 :=
  DLifeReplLoopPre.chunkDone .utf8 dR0 [0xFE] [0x41, 0x42, 0x43, 0xB1] 9 [] _ 1 0 hR1 rfl
    (DLifeReplLoopPre.lastStep .utf8 dR1 [0x41, 0x42, 0x43, 0xB1] 12 _ _ 6 0 0 hR2 (by intro h; cases h) (by decide)
      admR2 (DLifeReplLoopPre.start _ _))
end demoRepl

end EncodingRs.Thm.C08Loop
