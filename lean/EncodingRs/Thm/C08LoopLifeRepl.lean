import EncodingRs.Thm.C08LoopLife
import EncodingRs.Thm.C07LifeRepl
/-!
# C08, decoder side — the caller loop over the public with-replacement methods (BOM life cycle)

`Thm.C07.Decoder.replCall` models `Decoder::decode_to_utf8` / `decode_to_utf16`: the loop around
`Decoder.rawCall` that writes U+FFFD for every `Malformed`.  Here:

* `rawCall_step`: one `Decoder.rawCall` of a decoder with the invariants of `Decoder.new`
  (`LoopInv`) preserves them and accounts for the events of `dref` (`C10.rawCall_sound_full`);
* `replCall_events`: what a with-replacement call wrote, plus what `dref` says about the rest, is what
  `dref` said about the stream (lengths; U+FFFD for an error); it returns `InputEmpty` or `OutputFull`;
* `replCall_outputFull_wrote`: with a destination of at least the documented minimum and admissible
  inner calls (`C07.DReplAdmissible`), an `OutputFull` return wrote at least one character;
* `DLifeReplLoop`, **`life_repl_caller_loop_bound`**: from `Decoder.new`, all 40 encodings, three
  BOM modes, the documented caller loop over `decode_to_utf{8,16}` makes at most
  `bytes + chunks + 6` calls.  (A panic of the model — `some none` — ends no loop: the relation only
  contains calls that returned.)
-/
namespace EncodingRs.Thm.C08Loop
open EncodingRs EncodingRs.Model EncodingRs.Lemmas.Core EncodingRs.Lemmas.FamLaws EncodingRs.Lemmas.Life
open EncodingRs.Lemmas.LifeLeaf EncodingRs.Lemmas.MaxLenVariant EncodingRs.Lemmas.Potential
open EncodingRs.Thm.C08 EncodingRs.Thm.C10 EncodingRs.Thm.C07

/-- the invariants of a decoder made by `Decoder.new` that has consumed `pos` bytes -/
structure LoopInv (v : Gen.Variant) (d : Decoder (famOfVariant v)) (pos : Nat) : Prop where
  w : withheld d.life ≤ pos
  life : LifeInv v d
  pend : PendInv d

theorem loopInv_new (v : Gen.Variant) (bom : BomHandling) :
    LoopInv v (Decoder.new (famOfVariant v) (nominalOf v) bom) 0 :=
  ⟨by rw [withheld_new]; exact Nat.le_refl _, lifeInv_new v bom, pendInv_new _ bom⟩

/-- one raw call: invariants preserved, events accounted for -/
theorem rawCall_step (v : Gen.Variant) (k : Sink) (d : Decoder (famOfVariant v)) (pos : Nat) (src rest : List Nat)
    (last : Bool) (b1 b2 : Budget) (hl : last = true → rest = []) (hd : LoopInv v d pos)
    (hb : ∀ x ∈ src, x < 256) (res : Res) (read : Nat) (out : List Nat) (d' : Decoder (famOfVariant v))
    (inner : List (List Nat × Res × Nat)) (h : d.rawCall k src last b1 b2 = .ok res read out d' inner) :
    LoopInv v d' (pos + read) ∧
    out.length + (resEv (pos + read) res).length + (dref d' (src.drop read ++ rest) (pos + read)).length
      = (dref d (src ++ rest) pos).length := by
  have H := famBB_variant v
  have hs := rawCall_sound_full H k d src rest pos last b1 b2 hl hd.w hd.life.fresh hd.pend
  rw [h] at hs
  simp only [DSound] at hs
  refine ⟨⟨hs.2, rawCall_lifeInv v k d src last b1 b2 res read out d' inner hd.life hb h,
    rawCall_pendInv H k d src last b1 b2 res read out d' inner hd.life.fresh hd.pend h⟩, ?_⟩
  rw [← hs.1]
  simp only [List.length_append, List.length_map]

/-- **what a with-replacement call wrote accounts for the events of the documented semantics** -/
theorem replCall_events (v : Gen.Variant) (k : Sink) (last : Bool) (rest : List Nat) (hl : last = true → rest = []) :
    ∀ (fuel : Nat) (d : Decoder (famOfVariant v)) (src : List Nat) (bs : List (Budget × Budget)) (pos : Nat)
      (t : DReplRes (famOfVariant v)), LoopInv v d pos → (∀ x ∈ src, x < 256) →
      Decoder.replCall k last fuel d src bs = some (some t) →
      LoopInv v t.d (pos + t.read) ∧
      t.out.length + (dref t.d (src.drop t.read ++ rest) (pos + t.read)).length
        = (dref d (src ++ rest) pos).length ∧
      (t.res = .inputEmpty ∨ t.res = .outputFull) := by
  intro fuel
  induction fuel with
  | zero => intro d src bs pos t _ _ h; simp [Decoder.replCall] at h
  | succ fuel ih =>
    intro d src bs pos t hd hb h
    rw [Decoder.replCall] at h
    cases hcall : d.rawCall k src last (bs.headD (.unlimited, .unlimited)).1 (bs.headD (.unlimited, .unlimited)).2 with
    | panic => rw [hcall] at h; simp at h
    | ok res read out d' inner =>
      rw [hcall] at h
      simp only at h
      have hstep := rawCall_step v k d pos src rest last _ _ hl hd hb res read out d' inner hcall
      cases res with
      | malformed l a =>
        simp only at h
        cases hrec : Decoder.replCall k last fuel d' (src.drop read) bs.tail with
        | none => rw [hrec] at h; simp at h
        | some o =>
          cases o with
          | none => rw [hrec] at h; simp at h
          | some t' =>
            rw [hrec] at h
            simp only [Option.some.injEq] at h
            subst h
            have IH := ih d' (src.drop read) bs.tail (pos + read) t' hstep.1
              (fun x hx => hb x (List.mem_of_mem_drop hx)) hrec
            have e1 : pos + (read + t'.read) = pos + read + t'.read := by omega
            have e2 : src.drop (read + t'.read) = (src.drop read).drop t'.read := by
              rw [List.drop_drop]
            simp only
            rw [e1, e2]
            refine ⟨IH.1, ?_, IH.2.2⟩
            have h1 := hstep.2
            have h2 := IH.2.1
            simp only [resEv, List.length_cons, List.length_nil, List.length_append] at h1 h2 ⊢
            omega
      | inputEmpty =>
        simp only [Option.some.injEq] at h
        subst h
        have h1 := hstep.2
        simp only [resEv, List.length_nil, Nat.add_zero] at h1
        exact ⟨hstep.1, h1, Or.inl rfl⟩
      | outputFull =>
        simp only [Option.some.injEq] at h
        subst h
        have h1 := hstep.2
        simp only [resEv, List.length_nil, Nat.add_zero] at h1
        exact ⟨hstep.1, h1, Or.inr rfl⟩

/-- with a destination of at least the documented minimum and admissible inner calls, a
with-replacement `Decoder` call that returns `OutputFull` wrote at least one character -/
theorem replCall_outputFull_wrote {F : Fam} (hnb : NeedsBounded F) (k : Sink) (last : Bool) (fuel : Nat)
    (d : Decoder F) (src : List Nat) (bs : List (Budget × Budget)) (cap : Nat) (t : DReplRes F)
    (hcap : minCap k ≤ cap) (hadm : DReplAdmissible k last fuel d src bs cap)
    (h : Decoder.replCall k last fuel d src bs = some (some t)) (hres : t.res = .outputFull) :
    1 ≤ t.out.length := by
  cases fuel with
  | zero => simp [Decoder.replCall] at h
  | succ fuel =>
    rw [Decoder.replCall] at h
    rw [DReplAdmissible] at hadm
    have hw := rawCall_outputFull_wrote hnb k d src last (bs.headD (.unlimited, .unlimited)).1
      (bs.headD (.unlimited, .unlimited)).2 cap hcap
    cases hcall : d.rawCall k src last (bs.headD (.unlimited, .unlimited)).1 (bs.headD (.unlimited, .unlimited)).2 with
    | panic => rw [hcall] at h; simp at h
    | ok res read out d' inner =>
      rw [hcall] at h hadm hw
      simp only at h hadm
      cases res with
      | malformed l a =>
        simp only at h
        cases hrec : Decoder.replCall k last fuel d' (src.drop read) bs.tail with
        | none => rw [hrec] at h; simp at h
        | some o =>
          cases o with
          | none => rw [hrec] at h; simp at h
          | some t' =>
            rw [hrec] at h
            simp only [Option.some.injEq] at h
            subst h
            simp only [List.length_append, List.length_cons]; omega
      | inputEmpty => simp only [Option.some.injEq] at h; subst h; cases hres
      | outputFull =>
        simp only [Option.some.injEq] at h
        subst h
        exact hw rfl hadm.1

/-- **the documented caller loop over the public with-replacement methods**: `n` calls, `c` of them
non-`last` calls that returned `InputEmpty` -/
inductive DLifeReplLoop {F : Fam} : Decoder F → List Nat → Nat → Nat → Prop
  | final (k : Sink) (d : Decoder F) (rem : List Nat) (fuel : Nat) (bs : List (Budget × Budget)) (t : DReplRes F) :
      Decoder.replCall k true fuel d rem bs = some (some t) → t.res = .inputEmpty → DLifeReplLoop d rem 1 0
  | lastStep (k : Sink) (d : Decoder F) (rem : List Nat) (fuel : Nat) (bs : List (Budget × Budget)) (t : DReplRes F)
      (cap n c : Nat) :
      Decoder.replCall k true fuel d rem bs = some (some t) → t.res ≠ .inputEmpty → minCap k ≤ cap →
      DReplAdmissible k true fuel d rem bs cap →
      DLifeReplLoop t.d (rem.drop t.read) n c → DLifeReplLoop d rem (n + 1) c
  | chunkDone (k : Sink) (d : Decoder F) (src rest : List Nat) (fuel : Nat) (bs : List (Budget × Budget))
      (t : DReplRes F) (n c : Nat) :
      Decoder.replCall k false fuel d src bs = some (some t) → t.res = .inputEmpty →
      DLifeReplLoop t.d (src.drop t.read ++ rest) n c → DLifeReplLoop d (src ++ rest) (n + 1) (c + 1)
  | chunkStep (k : Sink) (d : Decoder F) (src rest : List Nat) (fuel : Nat) (bs : List (Budget × Budget))
      (t : DReplRes F) (cap n c : Nat) :
      Decoder.replCall k false fuel d src bs = some (some t) → t.res ≠ .inputEmpty → minCap k ≤ cap →
      DReplAdmissible k false fuel d src bs cap →
      DLifeReplLoop t.d (src.drop t.read ++ rest) n c → DLifeReplLoop d (src ++ rest) (n + 1) c

theorem life_repl_calls_le_events (v : Gen.Variant) (d : Decoder (famOfVariant v)) (stream : List Nat) (n c : Nat)
    (h : DLifeReplLoop d stream n c) :
    ∀ pos, LoopInv v d pos → (∀ x ∈ stream, x < 256) → n ≤ (dref d stream pos).length + c + 1 := by
  have hnb := famOfVariant_needsBounded v
  induction h with
  | final k d rem fuel bs t hrun hres => intro pos _ _; omega
  | lastStep k d rem fuel bs t cap n c hrun hres hcap hadm _ ih =>
    intro pos hd hb
    have he := replCall_events v k true [] (fun _ => rfl) fuel d rem bs pos t hd hb hrun
    simp only [List.append_nil] at he
    have hfull : t.res = .outputFull := by
      rcases he.2.2 with h' | h'
      · exact absurd h' hres
      · exact h'
    have hw := replCall_outputFull_wrote hnb k true fuel d rem bs cap t hcap hadm hrun hfull
    have := ih (pos + t.read) he.1 (fun x hx => hb x (List.mem_of_mem_drop hx))
    have := he.2.1
    omega
  | chunkDone k d src rest fuel bs t n c hrun hres _ ih =>
    intro pos hd hb
    have hbs : ∀ x ∈ src, x < 256 := fun x hx => hb x (List.mem_append_left _ hx)
    have he := replCall_events v k false rest (fun h => by cases h) fuel d src bs pos t hd hbs hrun
    have := ih (pos + t.read) he.1 (by
      intro x hx
      rcases List.mem_append.mp hx with hx | hx
      · exact hbs x (List.mem_of_mem_drop hx)
      · exact hb x (List.mem_append_right _ hx))
    have := he.2.1
    omega
  | chunkStep k d src rest fuel bs t cap n c hrun hres hcap hadm _ ih =>
    intro pos hd hb
    have hbs : ∀ x ∈ src, x < 256 := fun x hx => hb x (List.mem_append_left _ hx)
    have he := replCall_events v k false rest (fun h => by cases h) fuel d src bs pos t hd hbs hrun
    have hfull : t.res = .outputFull := by
      rcases he.2.2 with h' | h'
      · exact absurd h' hres
      · exact h'
    have hw := replCall_outputFull_wrote hnb k false fuel d src bs cap t hcap hadm hrun hfull
    have := ih (pos + t.read) he.1 (by
      intro x hx
      rcases List.mem_append.mp hx with hx | hx
      · exact hbs x (List.mem_of_mem_drop hx)
      · exact hb x (List.mem_append_right _ hx))
    have := he.2.1
    omega

/-- **C08, all 40 encodings, the three BOM modes, with replacement, from `new_decoder*`**: the
documented caller loop over `decode_to_utf{8,16}`, with destinations of at least 4 bytes / 2 units
and admissible inner calls, makes at most `bytes + chunks + 6` calls -/
theorem life_repl_caller_loop_bound (v : Gen.Variant) (bom : BomHandling) (stream : List Nat)
    (hb : ∀ x ∈ stream, x < 256) (n c : Nat)
    (h : DLifeReplLoop (Decoder.new (famOfVariant v) (nominalOf v) bom) stream n c) :
    n ≤ stream.length + c + 6 := by
  have h1 := life_repl_calls_le_events v _ stream n c h 0 (loopInv_new v bom) hb
  have h2 := dref_length_le v _ (lifeInv_new v bom).cur stream hb 0
  rw [withheld_new] at h2
  omega

end EncodingRs.Thm.C08Loop
