import EncodingRs.Lemmas.FamLaws
/-!
# C08 — conversion loops always make progress and terminate (decoder side)

A call is *admissible* for capacity `cap` (`Model.Admissible`): its output fits,
an `OutputFull` stop happens only when less than the asked-for space (`stopNeed`,
bounded by the family's `need`/`pendNeed`/`eofNeed`) is free, a `Malformed`
return leaves room for U+FFFD.  The correspondence run checks that every call
of the implementation is admissible.
-/
namespace EncodingRs.Thm.C08
open EncodingRs EncodingRs.Model EncodingRs.Lemmas.Core EncodingRs.Lemmas.FamLaws

/-- what the implementation may ask for never exceeds the documented minimum -/
def NeedsBounded (F : Fam) : Prop :=
  ∀ k, (∀ s b, F.need k s b ≤ minCap k) ∧ F.pendNeed k ≤ minCap k ∧ F.eofNeed k ≤ minCap k

theorem run_stopNeed_le (F : Fam) (k : Sink) (hb : NeedsBounded F) (last : Bool) :
    ∀ (src : List Nat) (s : F.σ) (budget : Budget), (run F k last s src budget).stopNeed ≤ minCap k := by
  intro src
  induction src with
  | nil =>
    intro s budget
    simp only [run]
    repeat' split
    all_goals first | exact (hb k).2.2 | exact Nat.zero_le _
  | cons b tl ih =>
    intro s budget
    rw [run]
    cases hstop : stopHere F k s b tl budget with
    | some r =>
      simp only
      cases budget with
      | unlimited => simp [stopHere] at hstop
      | full n =>
        simp only [stopHere] at hstop
        split at hstop
        · cases hstop; exact (hb k).1 s b
        · cases hstop
      | altAny =>
        simp only [stopHere] at hstop
        cases ha : F.alt s (b :: tl) with
        | none => simp [ha] at hstop
        | some p =>
          obtain ⟨m, r'⟩ := p
          simp only [ha] at hstop
          split at hstop
          · cases hstop; exact Nat.zero_le _
          · cases hstop
    | none =>
      simp only
      cases hE : (F.feed s b).err with
      | none => exact ih _ _
      | some e => exact Nat.zero_le _

theorem call_stopNeed_le (F : Fam) (k : Sink) (hb : NeedsBounded F) (s : F.σ) (src : List Nat)
    (last : Bool) (budget : Budget) : (call F k s src last budget).stopNeed ≤ minCap k := by
  unfold call
  cases F.pend s with
  | none => exact run_stopNeed_le F k hb last src s budget
  | some p =>
    obtain ⟨o, s'⟩ := p
    simp only
    split
    · exact (hb k).2.1
    · exact run_stopNeed_le F k hb last src s' budget.dec

/-- **Progress**: with a buffer of at least the documented minimum, an admissible
call that returns `OutputFull` has written at least one unit. -/
theorem outputFull_progress (F : Fam) (k : Sink) (hb : NeedsBounded F) (s : F.σ) (src : List Nat)
    (last : Bool) (budget : Budget) (cap : Nat) (hcap : minCap k ≤ cap)
    (hadm : Admissible F k cap (call F k s src last budget))
    (hres : (call F k s src last budget).res = .outputFull) :
    1 ≤ unitsOfList k (call F k s src last budget).out := by
  have h1 := hadm.2.1 hres
  have h2 := call_stopNeed_le F k hb s src last budget
  omega

/-- **Progress of error returns**: a `Malformed` return of the main loop either
consumed input or strictly decreased the family's rank (handing a byte back
happens only while a partial sequence is given up). -/
theorem malformed_progress (F : Fam) (k : Sink) (last : Bool)
    (halt : ∀ s src m r, F.alt s src = some (m, r) → 1 ≤ m) :
    ∀ (src : List Nat) (s : F.σ) (budget : Budget) (l a : Nat),
      (run F k last s src budget).res = .malformed l a →
      1 ≤ (run F k last s src budget).read ∨ F.rank (run F k last s src budget).st < F.rank s := by
  intro src
  induction src with
  | nil =>
    intro s budget l a h
    simp only [run] at h ⊢
    cases last with
    | false => simp at h
    | true =>
      simp only [if_true] at h ⊢
      cases he : F.eof s with
      | none => simp [he] at h
      | some p =>
        obtain ⟨e, s'⟩ := p
        simp only [he] at h ⊢
        split at h
        · cases h
        · right; rename_i hz; simp only [hz]; exact F.eof_rank s e s' he
  | cons b tl ih =>
    intro s budget l a h
    rw [run] at h ⊢
    cases hstop : stopHere F k s b tl budget with
    | some r =>
      simp only [hstop] at h ⊢
      cases budget with
      | unlimited => simp [stopHere] at hstop
      | full n =>
        simp only [stopHere] at hstop
        split at hstop
        · cases hstop; cases h
        · cases hstop
      | altAny =>
        simp only [stopHere] at hstop
        cases ha : F.alt s (b :: tl) with
        | none => simp [ha] at hstop
        | some p =>
          obtain ⟨m, r'⟩ := p
          simp only [ha] at hstop
          split at hstop
          · cases hstop; left; exact halt s (b :: tl) m r' ha
          · cases hstop
    | none =>
      simp only [hstop] at h ⊢
      cases hE : (F.feed s b).err with
      | none => simp only [hE] at h ⊢; left; omega
      | some e =>
        simp only [hE] at h ⊢
        cases hu : (F.feed s b).unread with
        | false => left; simp
        | true => right; exact F.unread_rank s b hu

/-- every variant decoder asks for at most the documented minimum (4 bytes / 2 units) -/
theorem famOfVariant_needsBounded (v : Gen.Variant) : NeedsBounded (famOfVariant v) := by
  intro k
  cases v <;> cases k <;> refine ⟨?_, ?_, ?_⟩ <;>
    first
      | (intro s b; simp only [famOfVariant, singleByteFam, utf8Fam, gbFam, big5Fam, eucJpFam, iso2022JpFam,
          shiftJisFam, eucKrFam, replacementFam, utf16Fam, userDefinedFam, twoByteFam, needBmp, needAstral, minCap]
         <;> (try split) <;> decide)
      | (simp only [famOfVariant, singleByteFam, utf8Fam, gbFam, big5Fam, eucJpFam, iso2022JpFam,
          shiftJisFam, eucKrFam, replacementFam, utf16Fam, userDefinedFam, twoByteFam, needBmp, needAstral, minCap]
         <;> decide)

/-- C08 for each of the 40 encodings -/
theorem progress_all_encodings (v : Gen.Variant) (k : Sink) (s : (famOfVariant v).σ) (src : List Nat)
    (last : Bool) (budget : Budget) (cap : Nat) (hcap : minCap k ≤ cap)
    (hadm : Admissible (famOfVariant v) k cap (call (famOfVariant v) k s src last budget))
    (hres : (call (famOfVariant v) k s src last budget).res = .outputFull) :
    1 ≤ unitsOfList k (call (famOfVariant v) k s src last budget).out :=
  outputFull_progress _ k (famOfVariant_needsBounded v) s src last budget cap hcap hadm hres

/-! Non-vacuity: an admissible `OutputFull` call with the minimum capacity. -/
example : Admissible big5Fam .utf8 4 (call big5Fam .utf8 big5Fam.init [0x41, 0x42] false (.full 1))
    ∧ (call big5Fam .utf8 big5Fam.init [0x41, 0x42] false (.full 1)).res = .outputFull := by
  have h1 : (call big5Fam .utf8 big5Fam.init [0x41, 0x42] false (.full 1)).res = .outputFull := by decide +kernel
  have h2 : (call big5Fam .utf8 big5Fam.init [0x41, 0x42] false (.full 1)).out = [0x41] := by decide +kernel
  have h3 : (call big5Fam .utf8 big5Fam.init [0x41, 0x42] false (.full 1)).stopNeed = 4 := by decide +kernel
  refine ⟨⟨?_, ?_, ?_⟩, h1⟩
  · rw [h2]; decide
  · intro _; rw [h2, h3]; decide
  · intro l a h; rw [h1] at h; cases h

end EncodingRs.Thm.C08
