import EncodingRs.Thm.C12
import EncodingRs.Thm.C09Enc
/-!
# C12, lifted to call histories

`Thm/C12.lean` is about the reference output `output v text` (`subst` of the chunk-free reference run
`eref`).  This module shows that what ANY history of encoder calls has written — at EVERY call
boundary, not only at the end — is a byte prefix of `output v text`, hence (C12
`byte_prefix_decodes_clean`) decodes without an error event to a prefix of `expected v text`, and
that after the call that ends the stream it is exactly `output v text`, which decodes to
`expected v text` (`enc_dec_roundtrip`).

* `EHist` / `EReplHist`: the calls made SO FAR (raw API / with-replacement wrapper): any chunks at
  character boundaries, any source form, any capacities and stop decisions, `last` or not; the
  history may stop anywhere — also right after a call that ended `OutputFull` between an ISO-2022-JP
  escape sequence and the character it precedes;
* `hist_sound`, `repl_hist_sound`: events so far ++ reference run of what is left = reference run;
* `manualBytes_eq_subst`, `output_eq_manual`, `output_eq_erefHtml`: C12's `output` is C09's manual
  procedure over the reference run and C03's `erefHtml`;
* **`history_output_prefix`** (with replacement), `history_output_prefix_raw` (raw API, the caller
  writing `&#…;` at each `Unmappable` — the documented manual procedure), `…_no_unmappable` (raw API,
  nothing reported so far: the bytes themselves);
* `complete_history_output`, `complete_history_output_raw`: after the final call.

A caller of the raw API who writes NOTHING for `Unmappable` does not produce a prefix of
`output v text` once a character was unmappable (`output` contains the reference `&#…;`), and for
ISO-2022-JP not even an error-free stream (doubled escape sequence): see the examples at the end; that
reading of the property is false by construction (the documentation of `EncoderResult::Unmappable`
obliges the caller to append a placeholder), not a defect.
-/
namespace EncodingRs.Thm.C12Hist
open EncodingRs EncodingRs.Model EncodingRs.Lemmas.Core EncodingRs.Lemmas.EncCore
open EncodingRs.Lemmas.RoundTrip EncodingRs.Lemmas.EncPotential EncodingRs.Lemmas.EncSide
open EncodingRs.Thm.C04 EncodingRs.Thm.C09Enc EncodingRs.Thm.C12

/-! ## `output` = the manual procedure = `erefHtml` -/

/-- C09's manual procedure and C12's `subst` are the same function -/
theorem manualBytes_eq_subst : ∀ (e : List EEv), manualBytes e = subst e
  | [] => rfl
  | .byte b :: t => by
    rw [manualBytes, manualBytes_eq_subst t]
    simp [subst, substEv]
  | .unmap u :: t => by
    rw [manualBytes, manualBytes_eq_subst t, subst_unmap]

theorem output_eq_manual (v : Gen.Variant) (text : List Nat) :
    output v text = manualBytes (eref (efamOfVariant v) (efamOfVariant v).init text) := by
  rw [manualBytes_eq_subst]; rfl

/-- C12's reference output is C03's `erefHtml` — by `Thm.C03.encode_conforms` the output of the
Encoding Standard's "encode" in error mode "html" -/
theorem output_eq_erefHtml (v : Gen.Variant) (text : List Nat) :
    output v text = Lemmas.ConformEnc.erefHtml (efamOfVariant v) (efamOfVariant v).init text := by
  rw [output_eq_manual, manualBytes_eref_eq_erefHtml]

/-! ## the calls made so far -/

/-- **Raw API, the calls made so far.**  `EHist E s text evs s' text'`: starting in state `s` with
`text` to encode, the caller has made some calls (each on whole source items `(scalar, width)` of
either source form, with any stop decision `b`; `last` calls get everything that is left), has seen
the events `evs` (bytes and `Unmappable` reports), the encoder is now in state `s'` and `text'` is
still to be pushed.  No condition on where the history stops. -/
inductive EHist (E : EFam) : E.σ → List Nat → List EEv → E.σ → List Nat → Prop
  | nil (s : E.σ) (text : List Nat) : EHist E s text [] s text
  | call (s : E.σ) (items : List (Nat × Nat)) (rest : List Nat) (last : Bool) (b : Budget) (evs' : List EEv)
      (s' : E.σ) (text' : List Nat) :
      (last = true → rest = []) →
      EHist E (erunI E last s items b).1.st ((erunI E last s items b).2.map Prod.fst ++ rest) evs' s' text' →
      EHist E s (items.map Prod.fst ++ rest) (eevs (erunI E last s items b).1 ++ evs') s' text'

/-- the events seen so far, followed by the reference run of what is left, are the reference run -/
theorem hist_sound (E : EFam) (L : ELaws E) (s : E.σ) (text : List Nat) (evs : List EEv) (s' : E.σ)
    (text' : List Nat) (h : EHist E s text evs s' text') : evs ++ eref E s' text' = eref E s text := by
  induction h with
  | nil s text => rfl
  | call s items rest last b evs' s' text' hl _ ih =>
    rw [List.append_assoc, ih]
    exact erunI_sound E L last items s b rest hl

/-- **With replacement, the calls made so far** (`Model.encRepl` = `Encoder::encode_from_utf8/16`):
`bytes` is everything written, `had` the disjunction of the `had_unmappables` flags. -/
inductive EReplHist (E : EFam) (canAll : Bool) (ncrExtra : Nat) :
    E.σ → List Nat → List Nat → Bool → E.σ → List Nat → Prop
  | nil (s : E.σ) (text : List Nat) : EReplHist E canAll ncrExtra s text [] false s text
  | call (s : E.σ) (utf16 last : Bool) (cap fuel : Nat) (src : List Nat) (budgets : List Budget)
      (t : EReplRes E.σ) (rest bytes' : List Nat) (had' : Bool) (s' : E.σ) (text' : List Nat) :
      encRepl E canAll ncrExtra utf16 last cap fuel s src budgets = some t → (last = true → rest = []) →
      EReplHist E canAll ncrExtra t.st ((itemsOfSrc utf16 (src.drop t.read)).map Prod.fst ++ rest) bytes' had'
        s' text' →
      EReplHist E canAll ncrExtra s ((itemsOfSrc utf16 src).map Prod.fst ++ rest) (t.out ++ bytes')
        (t.hadUnmappables || had') s' text'

/-- what the with-replacement calls wrote so far is the manual procedure over events `evs` that,
followed by the reference run of what is left, are the reference run -/
theorem repl_hist_sound (E : EFam) (L : ELaws E) (canAll : Bool) (ncrExtra : Nat) (s : E.σ) (text bytes : List Nat)
    (had : Bool) (s' : E.σ) (text' : List Nat) (h : EReplHist E canAll ncrExtra s text bytes had s' text') :
    ∃ evs, bytes = manualBytes evs ∧ had = hasUnmap evs ∧ evs ++ eref E s' text' = eref E s text := by
  induction h with
  | nil s text => exact ⟨[], rfl, rfl, rfl⟩
  | call s utf16 last cap fuel src budgets t rest bytes' had' s' text' hrun hl _ ih =>
    obtain ⟨evs', i1, i2, i3⟩ := ih
    obtain ⟨evs, h1, h2, h3⟩ := encRepl_sound E L canAll ncrExtra utf16 last cap fuel s src budgets t hrun rest hl
    refine ⟨evs ++ evs', ?_, ?_, ?_⟩
    · rw [manualBytes_append, h1, i1]
    · rw [hasUnmap_append, h2, i2]
    · rw [List.append_assoc, i3, h3]

/-- a complete protocol-following history (`Thm.C09Enc.EReplProto`) is a history in the sense of
`EReplHist` after which nothing is left -/
theorem replProto_is_hist (E : EFam) (L : ELaws E) (hpend : ∀ s, E.hasPending s = false → (E.eof s).1 = [])
    (canAll : Bool) (ncrExtra : Nat) (s : E.σ) (text bytes : List Nat) (had : Bool)
    (h : EReplProto E canAll ncrExtra s text bytes had) :
    ∃ s', EReplHist E canAll ncrExtra s text bytes had s' [] ∧ eref E s' [] = [] := by
  induction h with
  | final s utf16 cap fuel src budgets t hrun hres =>
    obtain ⟨h4, h5⟩ := encRepl_complete E L hpend canAll ncrExtra utf16 cap fuel s src budgets t hrun hres
    refine ⟨t.st, ?_, h5⟩
    have := EReplHist.call (E := E) (canAll := canAll) (ncrExtra := ncrExtra) s utf16 true cap fuel src budgets t
      [] [] false t.st [] hrun (fun _ => rfl) (by rw [h4]; exact EReplHist.nil t.st [])
    simpa using this
  | lastStep s utf16 cap fuel src budgets t bytes' had' hrun _ _ ih =>
    obtain ⟨s', i1, i2⟩ := ih
    refine ⟨s', ?_, i2⟩
    have := EReplHist.call (E := E) (canAll := canAll) (ncrExtra := ncrExtra) s utf16 true cap fuel src budgets t
      [] bytes' had' s' [] hrun (fun _ => rfl) (by simpa using i1)
    simpa using this
  | chunkStep s utf16 cap fuel src budgets t rest bytes' had' hrun _ ih =>
    obtain ⟨s', i1, i2⟩ := ih
    exact ⟨s', EReplHist.call (E := E) (canAll := canAll) (ncrExtra := ncrExtra) s utf16 false cap fuel src budgets t
      rest bytes' had' s' [] hrun (fun h => by cases h) i1, i2⟩

/-- likewise for the raw API (`Thm.C04.EProto`) -/
theorem proto_is_hist (E : EFam) (L : ELaws E) (s : E.σ) (text : List Nat) (e : List EEv)
    (h : EProto E s text e) : ∃ s', EHist E s text e s' [] ∧ eref E s' [] = [] := by
  induction h with
  | final s items b hres =>
    obtain ⟨h1, h2⟩ := final_nothing_left E L items s b hres
    refine ⟨(erunI E true s items b).1.st, ?_, h2⟩
    have := EHist.call (E := E) s items [] true b [] (erunI E true s items b).1.st [] (fun _ => rfl)
      (by rw [h1]; exact EHist.nil _ _)
    simpa using this
  | lastStep s items b evs' _ _ ih =>
    obtain ⟨s', i1, i2⟩ := ih
    refine ⟨s', ?_, i2⟩
    have := EHist.call (E := E) s items [] true b evs' s' [] (fun _ => rfl) (by simpa using i1)
    simpa using this
  | chunkStep s items rest b evs' _ ih =>
    obtain ⟨s', i1, i2⟩ := ih
    exact ⟨s', EHist.call (E := E) s items rest false b evs' s' [] (fun h => by cases h) i1, i2⟩

/-! ## `history_output_prefix` -/

/-- the clean-decoding statement of `byte_prefix_decodes_clean` for a byte string `a` -/
def DecodesCleanPrefix (v : Gen.Variant) (text a : List Nat) : Prop :=
  ∀ rest : List Nat, ∃ o o2 d,
    ref (decFam v) (decFam v).init (a ++ rest) 0 = o.map Ev.cp ++ ref (decFam v) d rest a.length ∧
    expected v text = o ++ o2 ∧ (decFam v).pend d = none

theorem decodesCleanPrefix_of_prefix (v : Gen.Variant) (hv : IsEnc v) (text : List Nat)
    (h : ∀ c ∈ text, isScalar c = true) (a b : List Nat) (hab : output v text = a ++ b) :
    DecodesCleanPrefix v text a :=
  fun rest => byte_prefix_decodes_clean v hv text h a b hab rest

/-- **C12 `history_output_prefix`** (with replacement).  For each of the 40 encodings, every text of
scalar values and every history of `encode_from_utf8` / `encode_from_utf16` calls so far (any chunks,
source forms, capacities, stop decisions of the inner calls; the history may end after ANY call, e.g.
one that returned `OutputFull` between an ISO-2022-JP escape sequence and its character): the bytes
written so far are a byte prefix of the reference output `output v text` — the rest being the
reference output of what is left, from the state the encoder is in — and therefore decode, followed
by anything, without an error event to a prefix of `expected v text`. -/
theorem history_output_prefix (v : Gen.Variant) (hv : IsEnc v) (text : List Nat)
    (h : ∀ c ∈ text, isScalar c = true) (canAll : Bool) (ncrExtra : Nat) (bytes : List Nat) (had : Bool)
    (s' : (efamOfVariant v).σ) (text' : List Nat)
    (hist : EReplHist (efamOfVariant v) canAll ncrExtra (efamOfVariant v).init text bytes had s' text') :
    output v text = bytes ++ subst (eref (efamOfVariant v) s' text') ∧ DecodesCleanPrefix v text bytes := by
  obtain ⟨evs, h1, _, h3⟩ := repl_hist_sound _ (Lemmas.EncSide.variant_elaws v) canAll ncrExtra _ text bytes had s'
    text' hist
  have hp : output v text = bytes ++ subst (eref (efamOfVariant v) s' text') := by
    unfold output
    rw [← h3, subst_append, h1, manualBytes_eq_subst]
  exact ⟨hp, decodesCleanPrefix_of_prefix v hv text h _ _ hp⟩

/-- **C12 `history_output_prefix`, raw API**: the caller follows the documented manual procedure —
keeps the bytes and appends `&#…;` for each `Unmappable` (`subst evs` = `manualBytes evs`) -/
theorem history_output_prefix_raw (v : Gen.Variant) (hv : IsEnc v) (text : List Nat)
    (h : ∀ c ∈ text, isScalar c = true) (evs : List EEv) (s' : (efamOfVariant v).σ) (text' : List Nat)
    (hist : EHist (efamOfVariant v) (efamOfVariant v).init text evs s' text') :
    output v text = subst evs ++ subst (eref (efamOfVariant v) s' text') ∧ DecodesCleanPrefix v text (subst evs) := by
  have h3 := hist_sound _ (Lemmas.EncSide.variant_elaws v) _ text evs s' text' hist
  have hp : output v text = subst evs ++ subst (eref (efamOfVariant v) s' text') := by
    unfold output
    rw [← h3, subst_append]
  exact ⟨hp, decodesCleanPrefix_of_prefix v hv text h _ _ hp⟩

/-- the bytes of an event list, `Unmappable` reports dropped -/
def bytesOnly : List EEv → List Nat
  | [] => []
  | .byte b :: t => b :: bytesOnly t
  | .unmap _ :: t => bytesOnly t

theorem bytesOnly_eq_subst : ∀ (e : List EEv), hasUnmap e = false → bytesOnly e = subst e
  | [], _ => rfl
  | .byte b :: t, h => by
    have : hasUnmap t = false := by simpa [hasUnmap] using h
    rw [bytesOnly, bytesOnly_eq_subst t this]
    simp [subst, substEv]
  | .unmap u :: t, h => by simp [hasUnmap] at h

/-- raw API, nothing reported unmappable so far: the bytes written so far are themselves a byte
prefix of the reference output and decode cleanly -/
theorem history_output_prefix_no_unmappable (v : Gen.Variant) (hv : IsEnc v) (text : List Nat)
    (h : ∀ c ∈ text, isScalar c = true) (evs : List EEv) (s' : (efamOfVariant v).σ) (text' : List Nat)
    (hist : EHist (efamOfVariant v) (efamOfVariant v).init text evs s' text') (hno : hasUnmap evs = false) :
    output v text = bytesOnly evs ++ subst (eref (efamOfVariant v) s' text')
      ∧ DecodesCleanPrefix v text (bytesOnly evs) := by
  rw [bytesOnly_eq_subst evs hno]
  exact history_output_prefix_raw v hv text h evs s' text' hist

/-! ## after the final call -/

/-- **after the final call** (`last`, `InputEmpty`) of a protocol-following with-replacement history
the bytes written are exactly `output v text`; they decode, without an error event, to
`expected v text` (`enc_dec_roundtrip`) -/
theorem complete_history_output (v : Gen.Variant) (hv : IsEnc v) (text : List Nat)
    (h : ∀ c ∈ text, isScalar c = true) (canAll : Bool) (ncrExtra : Nat) (bytes : List Nat) (had : Bool)
    (hist : EReplProto (efamOfVariant v) canAll ncrExtra (efamOfVariant v).init text bytes had) :
    bytes = output v text ∧
      ref (decFam v) (decFam v).init bytes 0 = (expected v text).map Ev.cp := by
  obtain ⟨h1, _⟩ := repl_history_eq_ref _ (Lemmas.EncSide.variant_elaws v) (eof_empty_of_not_pending v) canAll
    ncrExtra _ text bytes had hist
  have hb : bytes = output v text := by rw [h1, output_eq_manual]
  exact ⟨hb, by rw [hb]; exact enc_dec_roundtrip v hv text h⟩

/-- the same for the raw API with the manual procedure -/
theorem complete_history_output_raw (v : Gen.Variant) (hv : IsEnc v) (text : List Nat)
    (h : ∀ c ∈ text, isScalar c = true) (e : List EEv)
    (hist : EProto (efamOfVariant v) (efamOfVariant v).init text e) :
    subst e = output v text ∧
      ref (decFam v) (decFam v).init (subst e) 0 = (expected v text).map Ev.cp := by
  have hb : subst e = output v text := by
    rw [enc_history_eq_ref _ (Lemmas.EncSide.variant_elaws v) _ _ _ hist]; rfl
  exact ⟨hb, by rw [hb]; exact enc_dec_roundtrip v hv text h⟩

/-- every call boundary of a complete with-replacement history: `bytes₁` written by the calls so
far, `bytes₂` by the remaining ones — `bytes₁` decodes cleanly, `bytes₁ ++ bytes₂` is the output -/
theorem boundary_of_complete_history (v : Gen.Variant) (hv : IsEnc v) (text : List Nat)
    (h : ∀ c ∈ text, isScalar c = true) (canAll : Bool) (ncrExtra : Nat) (bytes₁ bytes₂ : List Nat)
    (had₁ had₂ : Bool) (s' : (efamOfVariant v).σ) (text' : List Nat)
    (sofar : EReplHist (efamOfVariant v) canAll ncrExtra (efamOfVariant v).init text bytes₁ had₁ s' text')
    (later : EReplProto (efamOfVariant v) canAll ncrExtra s' text' bytes₂ had₂) :
    bytes₁ ++ bytes₂ = output v text ∧ DecodesCleanPrefix v text bytes₁ ∧
      ref (decFam v) (decFam v).init (bytes₁ ++ bytes₂) 0 = (expected v text).map Ev.cp := by
  obtain ⟨hp, hc⟩ := history_output_prefix v hv text h canAll ncrExtra bytes₁ had₁ s' text' sofar
  obtain ⟨h1, _⟩ := repl_history_eq_ref _ (Lemmas.EncSide.variant_elaws v) (eof_empty_of_not_pending v) canAll
    ncrExtra s' text' bytes₂ had₂ later
  have hb : bytes₁ ++ bytes₂ = output v text := by rw [hp, h1, manualBytes_eq_subst]
  exact ⟨hb, hc, by rw [hb]; exact enc_dec_roundtrip v hv text h⟩

/-! ## Non-vacuity

ISO-2022-JP, text `a` U+00A5: a `last` call whose stop policy lets it write `a` and the escape sequence
`ESC ( J` and then stops (`OutputFull`) in front of the character: the history so far has written
`61 1B 28 4A`, the encoder is in the Roman state with U+00A5 still to be pushed; these four bytes are
a prefix of the output `61 1B 28 4A 5C 1B 28 42` and the decoder accepts them. -/

example : EHist iso2022JpEFam .ascii [0x61, 0xA5] [.byte 0x61, .byte 0x1B, .byte 0x28, .byte 0x4A] .roman [0xA5] := by
  have := EHist.call (E := iso2022JpEFam) .ascii [(0x61, 1), (0xA5, 2)] [] true (.full 2) [] .roman [0xA5]
    (fun _ => rfl) (EHist.nil _ _)
  exact this

example : output .iso2022Jp [0x61, 0xA5] = [0x61, 0x1B, 0x28, 0x4A, 0x5C, 0x1B, 0x28, 0x42] := by decide +kernel

example : (feedAll iso2022JpFam isoInit [0x61, 0x1B, 0x28, 0x4A]).map (·.1) = some [0x61] := by decide +kernel

/-- with replacement: x-user-defined, `a` U+00E9 `b` from UTF-16, destination of 11 bytes: the first
call returns `OutputFull` after `a&#233;`; that is a history so far -/
example : EReplHist userDefinedEFam false Gen.ncrExtra () [0x61, 0xE9, 0x62]
    [0x61, 38, 35, 50, 51, 51, 59] true () [0x62] := by
  have h1 : encRepl userDefinedEFam false Gen.ncrExtra true true 11 6 () [0x61, 0xE9, 0x62] []
      = some ⟨.outputFull, 2, [0x61, 38, 35, 50, 51, 51, 59], true, (), [(1, 1, .unmappable 0xE9, 0)]⟩ := by rfl
  have := EReplHist.call (E := userDefinedEFam) (canAll := false) (ncrExtra := Gen.ncrExtra) () true true 11 6
    [0x61, 0xE9, 0x62] [] _ [] [] false () [0x62] h1 (fun _ => rfl) (EReplHist.nil _ _)
  exact this

/-- a raw-API caller who writes nothing for `Unmappable` has, after `a` U+00E9 `b`, the bytes `ab` —
not a prefix of the reference output `a&#233;b` (which is what C12's `output` / `expected` are about) -/
example : bytesOnly [.byte 0x61, .unmap 0xE9, .byte 0x62] = [0x61, 0x62]
    ∧ output .eucKr [0x61, 0xE9, 0x62] = [0x61, 38, 35, 50, 51, 51, 59, 0x62] := by
  constructor <;> decide +kernel

/-- … and for ISO-2022-JP such a stream is not even error-free: HIRAGANA A, U+1F600 (unmappable),
HIRAGANA I — before reporting `Unmappable` from the JIS0208 state the encoder returns to ASCII
(`ESC ( B`) so that the reference is legal there; with nothing written the next `ESC $ B` follows
immediately and the decoder reports the doubled escape sequence (`feedAll … = none`; `#eval ref …` gives
`[cp 3042, err 5 3, cp 3044]`).  The real crate does the
same (bytes `1b 24 42 24 22 1b 28 42 1b 24 42 24 24 1b 28 42`, `had_errors = true`, text `あ\u{FFFD}い`):
the documentation of `EncoderResult::Unmappable` obliges the caller to append a placeholder. -/
example : bytesOnly (eref iso2022JpEFam .ascii [0x3042, 0x1F600, 0x3044])
      = [0x1B, 0x24, 0x42, 0x24, 0x22, 0x1B, 0x28, 0x42, 0x1B, 0x24, 0x42, 0x24, 0x24, 0x1B, 0x28, 0x42]
    ∧ feedAll iso2022JpFam isoInit (bytesOnly (eref iso2022JpEFam .ascii [0x3042, 0x1F600, 0x3044])) = none := by
  refine ⟨by decide +kernel, by decide +kernel⟩

end EncodingRs.Thm.C12Hist
