import EncodingRs.Model.StrSink
import EncodingRs.Thm.C15
/-!
# C15, memory level — "bytes beyond `written` are left unmodified" (default kernels)

`Model/StrSink.lean` threads a real destination (a byte list `old`) through
`mem::convert_utf16_to_utf8_partial` and `mem::convert_latin1_to_utf8_partial`: every
`dst[written] = b; written += 1;` is a `List.set`.  Here:

* `convert_utf16_to_utf8_partial_mem` / `convert_latin1_to_utf8_partial_mem`: the memory-level
  function returns exactly the counts of the pure model of `Model/Mem.lean` (to which the spec
  theorems of `Thm/C15.lean` apply) and leaves the destination as
  `written prefix ++ old.drop written` — for every source and every old destination contents;
* `…_beyond_written_unmodified`: every index `≥ written` holds its old byte (the documented guarantee
  of `convert_utf16_to_utf8_partial`);
* `…_prefix_stored`: `dst[..written]` is the pure model's output (every byte of it is stored by the call);
* `…_independent_of_dst`: counts and written prefix do not depend on the old contents (C18 for `mem`).

**Scope.** These are theorems about the model of the **default (non-SIMD) kernels**: the ALU stride
functions of `ascii.rs` store exactly the units they count.  The `simd-accel` kernels
(`simd_funcs.rs`: `basic_latin_to_ascii_stride`, `ascii_to_ascii_stride`, …) store a whole 16-byte
stride before validating it, so the real `convert_utf16_to_utf8_partial` of that build **does** modify
bytes beyond `written` — open finding F5 (DESIGN.md section 7), printed as KNOWN-FINDING by
`./check C15` in the simd configuration.  Those kernels are not modelled; no theorem here is about
them.  The models are tied to the code by the driver operation `zerotail` (whole destination after the
`&mut str` forms) and by the guard-band oracle of `harness/src/memconv.rs` (`&mut [u8]` forms).
-/
namespace EncodingRs.Thm.C15Mem
open EncodingRs.Model.Mem EncodingRs.Model.StrSink EncodingRs.Lemmas.Mem

/-- the destination after `bs` has been stored at `off`: what was before `off`, `bs`, what was after -/
def splice (dst : List Nat) (off : Nat) (bs : List Nat) : List Nat := dst.take off ++ bs ++ dst.drop (off + bs.length)

theorem set_take_succ (dst : List Nat) (off b : Nat) (h : off < dst.length) :
    (dst.set off b).take (off + 1) = dst.take off ++ [b] := by
  rw [List.take_set, List.take_succ_eq_append_getElem h, List.set_append_right _ _ (by simp; omega)]
  simp [Nat.min_eq_left (Nat.le_of_lt h)]

theorem storeBytes_eq : ∀ (bs dst : List Nat) (off : Nat), off + bs.length ≤ dst.length →
    storeBytes dst off bs = splice dst off bs := by
  intro bs
  induction bs with
  | nil => intro dst off _; simp [storeBytes, splice]
  | cons b bs ih =>
    intro dst off h
    simp only [List.length_cons] at h
    rw [storeBytes, ih _ _ (by rw [List.length_set]; omega)]
    unfold splice
    rw [set_take_succ dst off b (by omega), List.drop_set, if_pos (by omega)]
    simp only [List.length_cons, List.append_assoc, List.cons_append, List.nil_append]
    rw [Nat.add_assoc, Nat.add_comm 1]

theorem splice_length (dst : List Nat) (off : Nat) (bs : List Nat) (h : off + bs.length ≤ dst.length) :
    (splice dst off bs).length = dst.length := by
  simp only [splice, List.length_append, List.length_take, List.length_drop]
  omega

theorem splice_splice (dst : List Nat) (off : Nat) (a b : List Nat) (h : off + a.length ≤ dst.length) :
    splice (splice dst off a) (off + a.length) b = splice dst off (a ++ b) := by
  have hl : (dst.take off ++ a).length = off + a.length := by
    rw [List.length_append, List.length_take, Nat.min_eq_left (by omega)]
  unfold splice
  rw [← hl, List.take_left, List.drop_append, List.drop_eq_nil_of_le (by omega), hl]
  simp only [List.nil_append, List.length_append, List.drop_drop, List.append_assoc]
  have : off + a.length + (off + a.length + b.length - (off + a.length)) = off + (a.length + b.length) := by omega
  rw [this]

/-- the memory-level result that corresponds to the pure result `r` of a loop started at `written` -/
def memOf (dst : List Nat) (written : Nat) (r : Nat × List Nat) : Nat × Nat × List Nat :=
  (r.1, written + r.2.length, splice dst written r.2)

theorem memOf_step (dst : List Nat) (off k : Nat) (bs : List Nat) (r : Nat × List Nat)
    (h : off + bs.length ≤ dst.length) :
    rd k (memOf (splice dst off bs) (off + bs.length) r) = memOf dst off (step k bs r) := by
  simp only [rd, memOf, step, splice_splice dst off bs r.2 h, List.length_append, Nat.add_assoc]

theorem memOf_stop (dst : List Nat) (off : Nat) (_h : off ≤ dst.length) : (0, off, dst) = memOf dst off (0, []) := by
  simp [memOf, splice]

/-- one store step of a loop: the bytes `bs` fit, the rest of the loop is handled by `ih` -/
theorem store_step (f : List Nat → Nat → Nat × Nat × List Nat) (g : Nat → Nat × List Nat)
    (dst : List Nat) (off k : Nat) (bs : List Nat) (h : off + bs.length ≤ dst.length)
    (ih : ∀ d w, w ≤ d.length → f d w = memOf d w (g (d.length - w))) :
    rd k (f (storeBytes dst off bs) (off + bs.length)) = memOf dst off (step k bs (g (dst.length - off - bs.length))) := by
  rw [storeBytes_eq bs dst off h, ih _ _ (by rw [splice_length _ _ _ h]; exact h), splice_length _ _ _ h,
    memOf_step _ _ _ _ _ h, Nat.sub_sub]

theorem innerMem_eq (n : Nat) : ∀ (src dst : List Nat) (written : Nat), src.length ≤ n → written ≤ dst.length →
    utf16ToUtf8InnerMem src dst written = memOf dst written (utf16ToUtf8Inner src (dst.length - written)) := by
  induction n with
  | zero =>
    intro src dst written hn hw
    have : src = [] := List.eq_nil_of_length_eq_zero (by omega)
    subst this
    rw [utf16ToUtf8InnerMem, utf16ToUtf8Inner]; exact memOf_stop dst written hw
  | succ n ih =>
    intro src dst written hn hw
    cases src with
    | nil => rw [utf16ToUtf8InnerMem, utf16ToUtf8Inner]; exact memOf_stop dst written hw
    | cons u rest =>
      simp only [List.length_cons] at hn
      have ihr := fun d w (h : w ≤ d.length) => ih rest d w (by omega) h
      rw [utf16ToUtf8InnerMem.eq_def, utf16ToUtf8Inner.eq_def]
      simp only []
      have l2 : ∀ x, (enc2 x).length = 2 := fun _ => rfl
      have l3 : ∀ x, (enc3 x).length = 3 := fun _ => rfl
      have l4 : ∀ x, (enc4 x).length = 4 := fun _ => rfl
      have lf : fffd8.length = 3 := rfl
      by_cases h1 : u < 0x80
      · simp only [h1, if_true]
        by_cases h2 : written ≥ dst.length
        · have h2' : dst.length - written = 0 := by omega
          simp only [h2, h2', if_true]; exact memOf_stop dst written hw
        · have h2' : ¬ dst.length - written = 0 := by omega
          simp only [h2, h2', if_false]
          exact store_step (utf16ToUtf8InnerMem rest) (utf16ToUtf8Inner rest) dst written 1 [u] (by simp; omega) ihr
      · simp only [h1, if_false]
        by_cases h2 : written + 4 > dst.length
        · have h2' : dst.length - written < 4 := by omega
          simp only [h2, h2', if_true]; exact memOf_stop dst written hw
        · have h2' : ¬ dst.length - written < 4 := by omega
          simp only [h2, h2', if_false]
          by_cases h3 : u < 0x800
          · simp only [h3, if_true]
            exact store_step (utf16ToUtf8InnerMem rest) (utf16ToUtf8Inner rest) dst written 1 (enc2 u) (by rw [l2]; omega) ihr
          · simp only [h3, if_false]
            by_cases h4 : wsub16 u 0xD800 > 0xDFFF - 0xD800
            · simp only [h4, if_true]
              exact store_step (utf16ToUtf8InnerMem rest) (utf16ToUtf8Inner rest) dst written 1 (enc3 u) (by rw [l3]; omega) ihr
            · simp only [h4, if_false]
              by_cases h5 : wsub16 u 0xD800 ≤ 0xDBFF - 0xD800
              · simp only [h5, if_true]
                cases rest with
                | nil =>
                  simp only []
                  rw [storeBytes_eq _ _ _ (by rw [lf]; omega)]
                  simp [memOf, lf]
                | cons second rest' =>
                  simp only []
                  by_cases h6 : wsub16 second 0xDC00 ≤ 0xDFFF - 0xDC00
                  · simp only [h6, if_true]
                    exact store_step (utf16ToUtf8InnerMem rest') (utf16ToUtf8Inner rest') dst written 2 (enc4 (astralOf u second))
                      (by rw [l4]; omega) (fun d w h => ih rest' d w (by simp at hn; omega) h)
                  · simp only [h6, if_false]
                    exact store_step (utf16ToUtf8InnerMem (second :: rest')) (utf16ToUtf8Inner (second :: rest')) dst written 1 fffd8
                      (by rw [lf]; omega) ihr
              · simp only [h5, if_false]
                exact store_step (utf16ToUtf8InnerMem rest) (utf16ToUtf8Inner rest) dst written 1 fffd8 (by rw [lf]; omega) ihr

theorem tailLowMem_eq : ∀ (src dst : List Nat) (written : Nat), written ≤ dst.length →
    utf16ToUtf8TailLowMem src dst written = memOf dst written (utf16ToUtf8TailLow src (dst.length - written)) := by
  intro src
  induction src with
  | nil => intro dst written hw; rw [utf16ToUtf8TailLowMem, utf16ToUtf8TailLow]; exact memOf_stop dst written hw
  | cons u rest ih =>
    intro dst written hw
    rw [utf16ToUtf8TailLowMem, utf16ToUtf8TailLow]
    by_cases h1 : u < 0x80
    · simp only [h1, if_true]
      by_cases h2 : written ≥ dst.length
      · have h2' : dst.length - written = 0 := by omega
        simp only [h2, h2', if_true]; exact memOf_stop dst written hw
      · have h2' : ¬ dst.length - written = 0 := by omega
        simp only [h2, h2', if_false]
        exact store_step (utf16ToUtf8TailLowMem rest) (utf16ToUtf8TailLow rest) dst written 1 [u] (by simp; omega) ih
    · simp only [h1, if_false]
      by_cases h3 : u < 0x800
      · simp only [h3, if_true]
        by_cases h2 : written + 2 > dst.length
        · have h2' : dst.length - written < 2 := by omega
          simp only [h2, h2', if_true]; exact memOf_stop dst written hw
        · have h2' : ¬ dst.length - written < 2 := by omega
          simp only [h2, h2', if_false]
          exact store_step (utf16ToUtf8TailLowMem rest) (utf16ToUtf8TailLow rest) dst written 1 (enc2 u)
            (by show written + 2 ≤ dst.length; omega) ih
      · simp only [h3, if_false]; exact memOf_stop dst written hw

theorem memOf_one (dst : List Nat) (off k : Nat) (bs : List Nat) (h : off + bs.length ≤ dst.length) (n : Nat) (hn : bs.length = n) :
    (k, off + n, storeBytes dst off bs) = memOf dst off (k, bs) := by
  subst hn
  rw [storeBytes_eq _ _ _ h]; rfl

theorem tailMem_eq (src dst : List Nat) (written : Nat) (hw : written ≤ dst.length) :
    utf16ToUtf8TailMem src dst written = memOf dst written (utf16ToUtf8Tail src (dst.length - written)) := by
  unfold utf16ToUtf8TailMem utf16ToUtf8Tail
  cases src with
  | nil => exact memOf_stop dst written hw
  | cons u rest =>
    simp only []
    by_cases h1 : u < 0x800
    · simp only [h1, if_true]; exact tailLowMem_eq _ _ _ hw
    · simp only [h1, if_false]
      by_cases h2 : written + 3 > dst.length
      · have h2' : dst.length - written < 3 := by omega
        simp only [h2, h2', if_true]; exact memOf_stop dst written hw
      · have h2' : ¬ dst.length - written < 3 := by omega
        simp only [h2, h2', if_false]
        have hfit : ∀ x, written + (enc3 x).length ≤ dst.length := fun x => by show written + 3 ≤ dst.length; omega
        split
        · split
          · cases rest with
            | nil => exact memOf_one dst written 1 _ (hfit _) 3 rfl
            | cons second rest' =>
              simp only []
              split
              · exact memOf_stop dst written hw
              · exact memOf_one dst written 1 _ (hfit _) 3 rfl
          · exact memOf_one dst written 1 _ (hfit _) 3 rfl
        · exact memOf_one dst written 1 _ (hfit _) 3 rfl

theorem utf16ToUtf8PartialMem_eq (src old : List Nat) (h16 : ∀ u ∈ src, u < 65536) :
    utf16ToUtf8PartialMem src old = memOf old 0 (convertUtf16ToUtf8Partial src old.length) := by
  have hrun := inner_run src.length src old.length (Nat.le_refl _) h16
  unfold utf16ToUtf8PartialMem convertUtf16ToUtf8Partial
  simp only []
  rw [innerMem_eq src.length src old 0 (Nat.le_refl _) (Nat.zero_le _), Nat.sub_zero]
  generalize utf16ToUtf8Inner src old.length = r at hrun ⊢
  obtain ⟨r1, r2⟩ := r
  obtain ⟨h1, _, _, _⟩ := hrun
  simp only at h1
  simp only [memOf]
  by_cases he : r1 = src.length
  · simp only [he, if_true]
  · simp only [he, if_false]
    have hfit : 0 + r2.length ≤ old.length := by omega
    rw [tailMem_eq _ _ _ (by rw [splice_length _ _ _ hfit]; exact hfit), splice_length _ _ _ hfit]
    have hs := splice_splice old 0 r2 (utf16ToUtf8Tail (List.drop r1 src) (old.length - r2.length)).2 hfit
    rw [Nat.zero_add] at hs
    simp only [memOf, List.length_append, Nat.zero_add, hs]

theorem latin1Mem_eq : ∀ (src dst : List Nat) (written : Nat), written ≤ dst.length →
    latin1ToUtf8Mem src dst written = memOf dst written (convertLatin1ToUtf8Partial src (dst.length - written)) := by
  intro src
  induction src with
  | nil => intro dst written hw; rw [latin1ToUtf8Mem, convertLatin1ToUtf8Partial]; exact memOf_stop dst written hw
  | cons b rest ih =>
    intro dst written hw
    rw [latin1ToUtf8Mem, convertLatin1ToUtf8Partial]
    by_cases h1 : b < 0x80
    · simp only [h1, if_true]
      by_cases h2 : written ≥ dst.length
      · have h2' : dst.length - written = 0 := by omega
        simp only [h2, h2', if_true]; exact memOf_stop dst written hw
      · have h2' : ¬ dst.length - written = 0 := by omega
        simp only [h2, h2', if_false]
        exact store_step (latin1ToUtf8Mem rest) (convertLatin1ToUtf8Partial rest) dst written 1 [b] (by simp; omega) ih
    · simp only [h1, if_false]
      by_cases h2 : written + 2 > dst.length
      · have h2' : dst.length - written < 2 := by omega
        simp only [h2, h2', if_true]; exact memOf_stop dst written hw
      · have h2' : ¬ dst.length - written < 2 := by omega
        simp only [h2, h2', if_false]
        exact store_step (latin1ToUtf8Mem rest) (convertLatin1ToUtf8Partial rest) dst written 1 _
          (by show written + 2 ≤ dst.length; omega) ih

/-! ## headline statements -/

/-- destination after a call that wrote `bytes` at its start (as in `Thm/C18.lean`) -/
def store (old bytes : List Nat) : List Nat := bytes ++ old.drop bytes.length

theorem memOf_zero (old : List Nat) (r : Nat × List Nat) : memOf old 0 r = (r.1, r.2.length, store old r.2) := by
  simp [memOf, splice, store]

/-- **`convert_utf16_to_utf8_partial` at memory level (default kernels)**: for every source and every
old destination contents, the call returns the counts of the pure model and leaves the destination as
the written prefix followed by the untouched old bytes. -/
theorem convert_utf16_to_utf8_partial_mem (src old : List Nat) (h16 : ∀ u ∈ src, u < 65536) :
    utf16ToUtf8PartialMem src old =
      ((convertUtf16ToUtf8Partial src old.length).1, (convertUtf16ToUtf8Partial src old.length).2.length,
        store old (convertUtf16ToUtf8Partial src old.length).2) := by
  rw [utf16ToUtf8PartialMem_eq src old h16, memOf_zero]

/-- **`convert_latin1_to_utf8_partial` at memory level (default kernels)** -/
theorem convert_latin1_to_utf8_partial_mem (src old : List Nat) :
    latin1ToUtf8PartialMem src old =
      ((convertLatin1ToUtf8Partial src old.length).1, (convertLatin1ToUtf8Partial src old.length).2.length,
        store old (convertLatin1ToUtf8Partial src old.length).2) := by
  unfold latin1ToUtf8PartialMem
  rw [latin1Mem_eq src old 0 (Nat.zero_le _), Nat.sub_zero, memOf_zero]

theorem store_beyond (old bytes : List Nat) (i : Nat) (h : bytes.length ≤ i) : (store old bytes)[i]? = old[i]? := by
  unfold store
  rw [List.getElem?_append_right h, List.getElem?_drop]
  congr 1; omega

theorem store_length (old bytes : List Nat) (h : bytes.length ≤ old.length) : (store old bytes).length = old.length := by
  simp only [store, List.length_append, List.length_drop]; omega

theorem store_take (old bytes : List Nat) : (store old bytes).take bytes.length = bytes := by
  simp [store]

theorem store_drop (old bytes : List Nat) : (store old bytes).drop bytes.length = old.drop bytes.length := by
  simp [store]

/-- **C15 "beyond written unmodified"** (doc of `convert_utf16_to_utf8_partial`), default kernels:
every destination byte at an index `≥ written` is the byte that was there before the call. -/
theorem convert_utf16_to_utf8_partial_beyond_written_unmodified (src old : List Nat)
    (h16 : ∀ u ∈ src, u < 65536) (i : Nat) (h : (utf16ToUtf8PartialMem src old).2.1 ≤ i) :
    (utf16ToUtf8PartialMem src old).2.2[i]? = old[i]? := by
  rw [convert_utf16_to_utf8_partial_mem src old h16] at h ⊢
  exact store_beyond _ _ i h

theorem convert_latin1_to_utf8_partial_beyond_written_unmodified (src old : List Nat)
    (i : Nat) (h : (latin1ToUtf8PartialMem src old).2.1 ≤ i) :
    (latin1ToUtf8PartialMem src old).2.2[i]? = old[i]? := by
  rw [convert_latin1_to_utf8_partial_mem src old] at h ⊢
  exact store_beyond _ _ i h

/-- the length of the destination does not change and `written ≤ dst.len()` -/
theorem convert_utf16_to_utf8_partial_mem_length (src old : List Nat) (h16 : ∀ u ∈ src, u < 65536) :
    (utf16ToUtf8PartialMem src old).2.1 ≤ old.length ∧ (utf16ToUtf8PartialMem src old).2.2.length = old.length := by
  have hle := (EncodingRs.Thm.C15.convert_utf16_to_utf8_partial_spec src old.length h16).2.1
  rw [convert_utf16_to_utf8_partial_mem src old h16]
  exact ⟨hle, store_length _ _ hle⟩

theorem convert_latin1_to_utf8_partial_mem_length (src old : List Nat) (h8 : ∀ b ∈ src, b < 256) :
    (latin1ToUtf8PartialMem src old).2.1 ≤ old.length ∧ (latin1ToUtf8PartialMem src old).2.2.length = old.length := by
  have hle := (EncodingRs.Thm.C15.convert_latin1_to_utf8_partial_spec src old.length h8).2.1
  rw [convert_latin1_to_utf8_partial_mem src old]
  exact ⟨hle, store_length _ _ hle⟩

/-- every byte of the written prefix is stored by the call: `dst[..written]` is the pure model's output -/
theorem convert_utf16_to_utf8_partial_prefix_stored (src old : List Nat) (h16 : ∀ u ∈ src, u < 65536) :
    (utf16ToUtf8PartialMem src old).2.2.take (utf16ToUtf8PartialMem src old).2.1
      = (convertUtf16ToUtf8Partial src old.length).2 := by
  rw [convert_utf16_to_utf8_partial_mem src old h16]; exact store_take _ _

theorem convert_latin1_to_utf8_partial_prefix_stored (src old : List Nat) :
    (latin1ToUtf8PartialMem src old).2.2.take (latin1ToUtf8PartialMem src old).2.1
      = (convertLatin1ToUtf8Partial src old.length).2 := by
  rw [convert_latin1_to_utf8_partial_mem src old]; exact store_take _ _

/-- counts and written prefix do not depend on what the destination held before (C18 for these two
`mem` functions): two destinations of the same length -/
theorem convert_utf16_to_utf8_partial_independent_of_dst (src old₁ old₂ : List Nat) (h16 : ∀ u ∈ src, u < 65536)
    (hl : old₁.length = old₂.length) :
    (utf16ToUtf8PartialMem src old₁).1 = (utf16ToUtf8PartialMem src old₂).1 ∧
    (utf16ToUtf8PartialMem src old₁).2.1 = (utf16ToUtf8PartialMem src old₂).2.1 ∧
    (utf16ToUtf8PartialMem src old₁).2.2.take (utf16ToUtf8PartialMem src old₁).2.1
      = (utf16ToUtf8PartialMem src old₂).2.2.take (utf16ToUtf8PartialMem src old₂).2.1 := by
  rw [convert_utf16_to_utf8_partial_prefix_stored src old₁ h16, convert_utf16_to_utf8_partial_prefix_stored src old₂ h16,
    convert_utf16_to_utf8_partial_mem src old₁ h16, convert_utf16_to_utf8_partial_mem src old₂ h16, hl]
  exact ⟨rfl, rfl, rfl⟩

theorem convert_latin1_to_utf8_partial_independent_of_dst (src old₁ old₂ : List Nat) (hl : old₁.length = old₂.length) :
    (latin1ToUtf8PartialMem src old₁).1 = (latin1ToUtf8PartialMem src old₂).1 ∧
    (latin1ToUtf8PartialMem src old₁).2.1 = (latin1ToUtf8PartialMem src old₂).2.1 ∧
    (latin1ToUtf8PartialMem src old₁).2.2.take (latin1ToUtf8PartialMem src old₁).2.1
      = (latin1ToUtf8PartialMem src old₂).2.2.take (latin1ToUtf8PartialMem src old₂).2.1 := by
  rw [convert_latin1_to_utf8_partial_prefix_stored src old₁, convert_latin1_to_utf8_partial_prefix_stored src old₂,
    convert_latin1_to_utf8_partial_mem src old₁, convert_latin1_to_utf8_partial_mem src old₂, hl]
  exact ⟨rfl, rfl, rfl⟩

/-! ## Non-vacuity (kernel-evaluated) -/

-- the F5 input ("aaaaa" + 5 × U+3042 into 16 bytes pre-filled with 0xA5): the default kernels leave the
-- last two bytes alone (the simd-accel build overwrites them: finding F5)
example : utf16ToUtf8PartialMem [0x61, 0x61, 0x61, 0x61, 0x61, 0x3042, 0x3042, 0x3042, 0x3042, 0x3042] (List.replicate 16 0xA5)
    = (8, 14, [0x61, 0x61, 0x61, 0x61, 0x61, 0xE3, 0x81, 0x82, 0xE3, 0x81, 0x82, 0xE3, 0x81, 0x82, 0xA5, 0xA5]) := by
  decide +kernel
-- the hot loop stops with 3 free bytes, the cold tail stores at the absolute offset
example : utf16ToUtf8PartialMem [0x41, 0xE4, 0x41, 0x3042] [1, 2, 3, 4, 5, 6] = (3, 4, [0x41, 0xC3, 0xA4, 0x41, 5, 6]) := by
  decide +kernel
example : latin1ToUtf8PartialMem [0x41, 0xE4, 0xFF] [9, 9, 9, 9] = (2, 3, [0x41, 0xC3, 0xA4, 9]) := by decide +kernel

end EncodingRs.Thm.C15Mem
