import EncodingRs.Thm.C10Enc
import EncodingRs.Lemmas.LifeLeaf
import EncodingRs.Lemmas.PotMono
/-!
# C10 / C02 — the last side condition of the `Decoder` history theorems discharged

`Thm/C10Final.lean` left one hypothesis in a history (`DHist`): in `ConvertingWithPendingBB` the
pending `BB` must be replayable (`ReplayOk`), proved only under rank 0 of the variant state
(`replayOk_of_rank_zero`) — not for the states Big5, Shift_JIS, EUC-KR, EUC-JP, gbk/gb18030 are in
after `EF` (a lead byte there: rank 1).  Here:

* `Lemmas.Life.rawCall_sound''` (the generalisation made for this module) needs in
  `ConvertingWithPendingBB` only `ReplayBB`: a `Malformed` answer to the replay **of `BB`** consumed it.
* `NoUnreadBB F s`: the step on `BB` from (the flushed) state `s` does not hand the byte back;
  `replayBB_of_noUnread`: it implies `ReplayBB`.
* `FamBB F`: the basic facts `FamOk`, "the look-ahead error path needs four bytes" and
  **`NoUnreadBB` in the state reached from `init` by `EF`** — `famBB_variant`: all 13 variant
  decoders (in Big5 / Shift_JIS / EUC-KR / EUC-JP / gb18030 `EF` is a lead byte and `BB` is a trail
  byte or a non-ASCII non-trail, which is consumed with the error; in UTF-8 `BB` continues `EF`; in
  UTF-16 no byte is ever handed back; in the others `EF` leaves the initial state).
* `PendInv d`: in `ConvertingWithPendingBB` the current decoder is the nominal one in a state with
  `NoUnreadBB`; `pendInv_new`, **`rawCall_pendInv`** (invariant of every call of a fresh decoder: the
  state is entered only by `afterTwo` — from `init` through `EF` — and re-entered only by an
  `OutputFull` answer to the replay of `BB`, which leaves the state or flushes it).
* `DHistFull` = `DHist` without the side condition; **`dhist_full_eq_dref`**,
  **`new_decoder_history_full`**, `dhist_full_tag`, **`dhistory_eq_dref''`**: for histories from
  `Decoder.new` no side condition is left.  (C02: `decoder_histories_agree_full` in Thm/C02Full.lean.)
-/
namespace EncodingRs.Thm.C10
open EncodingRs EncodingRs.Model EncodingRs.Lemmas.Core EncodingRs.Lemmas.FamLaws EncodingRs.Lemmas.Life
open EncodingRs.Lemmas.LifeLeaf

variable {F : Fam}

/-! ### `BB` is not handed back -/

/-- the per-byte step on `BB` from the flushed state does not hand the byte back -/
def NoUnreadBB (F : Fam) (s : F.σ) : Prop := (F.feed (flushSt F s) 0xBB).unread = false

theorem flushSt_idem (L : Laws F) (s : F.σ) : flushSt F (flushSt F s) = flushSt F s := by
  cases hp : F.pend s with
  | none => have := (flush_none F hp).1; rw [this, this]
  | some p =>
    obtain ⟨o, s'⟩ := p
    have e : flushSt F s = s' := by simp [flushSt, hp]
    rw [e]
    exact (flush_none F (L.pend_once s o s' hp)).1

theorem noUnreadBB_flush (L : Laws F) (s : F.σ) (h : NoUnreadBB F s) : NoUnreadBB F (flushSt F s) := by
  unfold NoUnreadBB at h ⊢
  rw [flushSt_idem L]; exact h

/-- a `Malformed` answer of the main loop to the single byte `BB` consumed it -/
theorem run_bb_read (H : FamOk F) (k : Sink) (s : F.σ) (b : Budget) (l a : Nat)
    (hu : (F.feed s 0xBB).unread = false)
    (h : (run F k false s [0xBB] b).res = .malformed l a) : (run F k false s [0xBB] b).read = 1 := by
  rw [run] at h ⊢
  cases hstop : stopHere F k s 0xBB [] b with
  | some r =>
    simp only [hstop] at h ⊢
    cases b with
    | unlimited => simp [stopHere] at hstop
    | full n =>
      simp only [stopHere] at hstop
      split at hstop
      · cases hstop; cases h
      · cases hstop
    | altAny =>
      simp only [stopHere] at hstop
      cases ha : F.alt s [0xBB] with
      | none => simp [ha] at hstop
      | some p =>
        obtain ⟨m, r'⟩ := p
        have h1 := H.alt_le s [0xBB] m r' ha
        have h2 := H.alt_pos s [0xBB] m r' ha
        simp only [ha] at hstop
        split at hstop
        · cases hstop
          simp only [List.length_singleton] at h1
          exact Nat.le_antisymm h1 h2
        · cases hstop
  | none =>
    simp only [hstop] at h ⊢
    cases hE : (F.feed s 0xBB).err with
    | none =>
      simp only [hE] at h
      simp [run] at h
    | some e => simp [hu]

theorem call_bb_read (H : FamOk F) (k : Sink) (s : F.σ) (b : Budget) (l a : Nat) (hn : NoUnreadBB F s)
    (h : (call F k s [0xBB] false b).res = .malformed l a) : (call F k s [0xBB] false b).read = 1 := by
  unfold NoUnreadBB at hn
  unfold call at h ⊢
  cases hp : F.pend s with
  | none =>
    simp only [hp] at h ⊢
    rw [(flush_none F hp).1] at hn
    exact run_bb_read H k s b l a hn h
  | some p =>
    obtain ⟨o, s'⟩ := p
    have e : flushSt F s = s' := by simp [flushSt, hp]
    rw [e] at hn
    simp only [hp] at h ⊢
    split at h
    · cases h
    · rename_i hz
      simp only [hz]
      exact run_bb_read H k s' b.dec l a hn h

/-- `NoUnreadBB` gives the replay hypothesis of `ConvertingWithPendingBB` -/
theorem replayBB_of_noUnread (H : FamOk F) (k : Sink) (s : F.σ) (hn : NoUnreadBB F s) :
    ReplayBB k (.nominal s : Cur F) :=
  fun b1 l a h => call_bb_read H k s b1 l a hn h

/-- what the theorems of this module need to know about the nominal family -/
structure FamBB (F : Fam) : Prop where
  ok : FamOk F
  /-- the look-ahead error path (UTF-16 bulk path) needs four bytes -/
  alt_short : ∀ s src, src.length < 4 → F.alt s src = none
  /-- from the state reached from `init` by `EF`, `BB` is not handed back -/
  ef_bb : NoUnreadBB F (F.feed F.init 0xEF).st

/-! ### the state an interrupted replay leaves -/

/-- an `OutputFull` answer to a one-byte source leaves the state or the flushed state -/
theorem call_one_outputFull_st (k : Sink) (s : F.σ) (x : Nat) (b : Budget)
    (h : (call F k s [x] false b).res = .outputFull) :
    (call F k s [x] false b).st = s ∨ (call F k s [x] false b).st = flushSt F s := by
  have key : ∀ (s0 : F.σ) (b0 : Budget), (run F k false s0 [x] b0).res = .outputFull →
      (run F k false s0 [x] b0).st = s0 := by
    intro s0 b0 h0
    rw [run] at h0 ⊢
    cases hstop : stopHere F k s0 x [] b0 with
    | some r =>
      simp only [hstop] at h0 ⊢
      cases b0 with
      | unlimited => simp [stopHere] at hstop
      | full n =>
        simp only [stopHere] at hstop
        split at hstop
        · cases hstop; rfl
        · cases hstop
      | altAny =>
        simp only [stopHere] at hstop
        cases ha : F.alt s0 [x] with
        | none => simp [ha] at hstop
        | some p =>
          obtain ⟨m, r'⟩ := p
          simp only [ha] at hstop
          split at hstop
          · cases hstop; cases h0
          · cases hstop
    | none =>
      simp only [hstop] at h0 ⊢
      cases hE : (F.feed s0 x).err with
      | none => simp only [hE] at h0; simp [run] at h0
      | some e => simp only [hE] at h0; cases h0
  unfold call at h ⊢
  cases hp : F.pend s with
  | none => simp only [hp] at h ⊢; exact Or.inl (key s b h)
  | some p =>
    obtain ⟨o, s'⟩ := p
    have e : flushSt F s = s' := by simp [flushSt, hp]
    simp only [hp] at h ⊢
    split
    · exact Or.inl rfl
    · rename_i hz
      simp only [hz] at h
      right; rw [e]; exact key s' b.dec h

/-- the replay of `EF BB` into a fresh nominal decoder that stopped after `EF` (`OutputFull` before
`BB`, or `Malformed` with one byte read) leaves a state from which `BB` is not handed back -/
theorem call_efbb_state (H : FamBB F) (k : Sink) (b : Budget)
    (hread : (call F k F.init [0xEF, 0xBB] false b).read = 1)
    (hres : (call F k F.init [0xEF, 0xBB] false b).res ≠ .inputEmpty) :
    NoUnreadBB F (call F k F.init [0xEF, 0xBB] false b).st := by
  have L := H.ok.laws
  have hp0 := L.init_pend
  unfold call at hread hres ⊢
  simp only [hp0] at hread hres ⊢
  rw [run] at hread hres ⊢
  have hstop : stopHere F k F.init 0xEF [0xBB] b = none ∨
      ∃ r, stopHere F k F.init 0xEF [0xBB] b = some r ∧ r.read = 0 := by
    cases b with
    | unlimited => left; rfl
    | full n =>
      simp only [stopHere]
      split
      · right; exact ⟨_, rfl, rfl⟩
      · left; rfl
    | altAny =>
      left
      simp only [stopHere, H.alt_short F.init [0xEF, 0xBB] (by simp)]
  rcases hstop with hstop | ⟨r, hstop, hr0⟩
  · simp only [hstop] at hread hres ⊢
    cases hE : (F.feed F.init 0xEF).err with
    | some e => exact H.ef_bb
    | none =>
      simp only [hE] at hread hres ⊢
      have hp1 : F.pend (F.feed F.init 0xEF).st = none := L.pend_err F.init 0xEF hp0 hE
      have hn1 : (F.feed (F.feed F.init 0xEF).st 0xBB).unread = false := by
        have := H.ef_bb
        unfold NoUnreadBB at this
        rwa [(flush_none F hp1).1] at this
      generalize (F.feed F.init 0xEF).st = s1 at hread hres hp1 hn1 ⊢
      have hgoal : NoUnreadBB F s1 := by
        unfold NoUnreadBB; rw [(flush_none F hp1).1]; exact hn1
      rw [run] at hread hres ⊢
      cases hstop1 : stopHere F k s1 0xBB [] b.dec with
      | some r1 =>
        simp only [hstop1] at hread hres ⊢
        cases hb : b.dec with
        | unlimited => rw [hb] at hstop1; simp [stopHere] at hstop1
        | full n =>
          rw [hb] at hstop1
          simp only [stopHere] at hstop1
          split at hstop1
          · cases hstop1; exact hgoal
          · cases hstop1
        | altAny =>
          rw [hb] at hstop1
          simp only [stopHere, H.alt_short s1 [0xBB] (by simp)] at hstop1
          cases hstop1
      | none =>
        simp only [hstop1] at hread hres ⊢
        cases hE1 : (F.feed s1 0xBB).err with
        | none =>
          simp only [hE1] at hread
          simp at hread
        | some e1 =>
          simp only [hE1, hn1, Bool.false_eq_true, if_false] at hread
          omega
  · simp only [hstop] at hread
    omega

/-! ### the invariant -/

/-- in `ConvertingWithPendingBB` the nominal decoder is in a state from which `BB` is not handed back -/
def PendInv (d : Decoder F) : Prop :=
  d.life = .convertingWithPendingBB → ∃ s, d.cur = .nominal s ∧ NoUnreadBB F s

theorem pendInv_new (nom : Nominal) (bom : BomHandling) : PendInv (Decoder.new F nom bom) := by
  intro h
  cases bom <;> cases nom <;> simp [Decoder.new] at h

theorem checkingEnd_not_pending (k : Sink) (c : Cur F) (src : List Nat) (last : Bool) (b : Budget) (off : Nat)
    (pre : List (List Nat × Res × Nat)) (preOut : List Nat) (res : Res) (read : Nat) (out : List Nat)
    (d' : Decoder F) (inner : List (List Nat × Res × Nat))
    (h : checkingEnd k c src last b off pre preOut = .ok res read out d' inner) :
    d'.life ≠ .convertingWithPendingBB := by
  unfold checkingEnd at h
  simp only [DRes.ok.injEq] at h
  obtain ⟨_, _, _, hd, _⟩ := h
  rw [← hd]
  simp only
  split <;> (intro hc; cases hc)

/-- **`PendInv` is preserved by every call of a fresh decoder** -/
theorem rawCall_pendInv (H : FamBB F) (k : Sink) (d : Decoder F) (src : List Nat) (last : Bool)
    (b1 b2 : Budget) (res : Res) (read : Nat) (out : List Nat) (d' : Decoder F)
    (inner : List (List Nat × Res × Nat)) (hf : Fresh d) (hp : PendInv d)
    (h : d.rawCall k src last b1 b2 = .ok res read out d' inner) : PendInv d' := by
  have hleaf := rawCall_leaf k d src last b1 b2
  rw [h] at hleaf
  generalize hr : DRes.ok res read out d' inner = r at hleaf
  cases hleaf with
  | finished _ => cases hr
  | idle _ _ => cases hr; exact hp
  | wait n life' _ hseen _ =>
    cases hr
    intro hl
    simp only at hl
    rw [hl] at hseen; cases hseen
  | direct _ => intro hl; exact absurd hl (checkingEnd_not_pending _ _ _ _ _ _ _ _ _ _ _ _ _ hr.symm)
  | bom8 off _ => intro hl; exact absurd hl (checkingEnd_not_pending _ _ _ _ _ _ _ _ _ _ _ _ _ hr.symm)
  | bom16 be off _ => intro hl; exact absurd hl (checkingEnd_not_pending _ _ _ _ _ _ _ _ _ _ _ _ _ hr.symm)
  | one fb hfb =>
    unfold afterOne at hr
    simp only at hr
    split at hr
    · intro hl; exact absurd hl (checkingEnd_not_pending _ _ _ _ _ _ _ _ _ _ _ _ _ hr.symm)
    · simp only [DRes.ok.injEq] at hr
      obtain ⟨_, _, _, hd, _⟩ := hr
      intro hl; rw [hd] at hl; cases hl
    · rename_i hres
      by_cases hbb : fb = 0xBB
      · rw [if_pos hbb] at hr
        simp only [DRes.ok.injEq] at hr
        obtain ⟨_, _, _, hd, _⟩ := hr
        have hlife : d.life = .convertingWithPendingBB := by
          obtain ⟨life, c⟩ := d
          cases life <;> simp [replayOne] at hfb <;> first | rfl | omega
        obtain ⟨s, hc, hn⟩ := hp hlife
        intro _
        subst hd
        rw [hc, hbb] at hres
        rw [hc, hbb]
        simp only [Cur.call] at hres ⊢
        refine ⟨_, rfl, ?_⟩
        rcases call_one_outputFull_st k s 0xBB b1 hres with e | e
        · rw [e]; exact hn
        · rw [e]; exact noUnreadBB_flush H.ok.laws s hn
      · rw [if_neg hbb] at hr; cases hr
  | two hl2 =>
    have hc : d.cur = .nominal F.init := hf (by rw [hl2]; rfl)
    have hfact : (Cur.call k (Cur.nominal F.init : Cur F) [0xEF, 0xBB] false b1).read = 1 →
        (Cur.call k (Cur.nominal F.init : Cur F) [0xEF, 0xBB] false b1).res ≠ .inputEmpty →
        ∃ s, (Cur.call k (Cur.nominal F.init : Cur F) [0xEF, 0xBB] false b1).cur = .nominal s ∧ NoUnreadBB F s :=
      fun hread hne => ⟨_, rfl, call_efbb_state H k b1 hread hne⟩
    unfold afterTwo at hr
    rw [hc] at hr
    generalize Cur.call k (Cur.nominal F.init : Cur F) [0xEF, 0xBB] false b1 = r1 at hr hfact
    simp only at hr
    split at hr
    · intro hl; exact absurd hl (checkingEnd_not_pending _ _ _ _ _ _ _ _ _ _ _ _ _ hr.symm)
    · rename_i l a hres
      by_cases hread : r1.read = 1
      · rw [if_pos hread] at hr
        simp only [DRes.ok.injEq] at hr
        obtain ⟨_, _, _, hd, _⟩ := hr
        intro _
        rw [hd]
        exact hfact hread (by rw [hres]; intro hc; cases hc)
      · rw [if_neg hread] at hr
        simp only [DRes.ok.injEq] at hr
        obtain ⟨_, _, _, hd, _⟩ := hr
        intro hl; rw [hd] at hl; cases hl
    · rename_i hres
      by_cases hread : r1.read = 1
      · rw [if_pos hread] at hr
        simp only [DRes.ok.injEq] at hr
        obtain ⟨_, _, _, hd, _⟩ := hr
        intro _
        rw [hd]
        exact hfact hread (by rw [hres]; intro hc; cases hc)
      · rw [if_neg hread] at hr; cases hr

/-- the replay hypothesis of `rawCall_sound''` in `ConvertingWithPendingBB`, from the invariant -/
theorem replayBB_of_pendInv (H : FamBB F) (k : Sink) (d : Decoder F) (hp : PendInv d)
    (hl : d.life = .convertingWithPendingBB) : ReplayBB k d.cur := by
  obtain ⟨s, hc, hn⟩ := hp hl
  rw [hc]; exact replayBB_of_noUnread H.ok k s hn

/-- **soundness of every call of a decoder that satisfies the two invariants of `Decoder.new`**
(`Fresh`, `PendInv`): no replay hypothesis is left -/
theorem rawCall_sound_full (H : FamBB F) (k : Sink) (d : Decoder F) (src rest : List Nat) (pos : Nat)
    (last : Bool) (b1 b2 : Budget) (hl : last = true → rest = []) (hw : withheld d.life ≤ pos)
    (hf : Fresh d) (hp : PendInv d) :
    DSound src rest pos (dref d (src ++ rest) pos) (d.rawCall k src last b1 b2) := by
  refine rawCall_sound'' k H.ok.laws H.ok.alt_le d src rest pos last b1 b2 hl hw ?_
    (replayBB_of_pendInv H k d hp)
  intro hw0 hne
  exact replayOk_fresh H.ok k d hf (fun h => absurd h hne) hw0

/-! ### all 13 variant decoders -/

theorem twoByteFeed_unread_lt (lf : Nat → LeadRes) (tf : Nat → Nat → TrailRes) (s : Option Nat) (b : Nat)
    (hb : 0x80 ≤ b) : (twoByteFeed lf tf s b).unread = false := by
  cases s with
  | none => exact twoByteFeed_none_unread lf tf b
  | some l =>
    simp only [twoByteFeed]
    cases tf l b with
    | out cs => rfl
    | bad =>
      simp only []
      split
      · omega
      · rfl

theorem singleByteFeed_unread (t : Array Nat) (s : Unit) (b : Nat) : (singleByteFeed t s b).unread = false := by
  simp only [singleByteFeed]
  split
  · rfl
  · split <;> rfl

theorem eucJpFeed_unread_lt (s : EucJpSt) (b : Nat) (hb : 0x80 ≤ b) : (eucJpFeed s b).unread = false := by
  cases hu : (eucJpFeed s b).unread with
  | false => rfl
  | true =>
    exfalso
    cases s with
    | none => exact (eucJpFeed_unread _ b hu).2 rfl
    | jis0208Lead l =>
      unfold eucJpFeed at hu; simp only at hu
      cases ht : eucJpJis0208Trail l b with
      | out cs => simp [ht, FeedRes.ok] at hu
      | bad =>
        simp only [ht] at hu
        split at hu
        · omega
        · simp [FeedRes.bad] at hu
    | jis0212Shift =>
      unfold eucJpFeed at hu; simp only at hu
      split at hu
      · split at hu
        · omega
        · simp [FeedRes.bad] at hu
      · simp [FeedRes.ok] at hu
    | jis0212Lead l =>
      unfold eucJpFeed at hu; simp only at hu
      cases ht : eucJpJis0212Trail l b with
      | out cs => simp [ht, FeedRes.ok] at hu
      | bad =>
        simp only [ht] at hu
        split at hu
        · omega
        · simp [FeedRes.bad] at hu
    | halfWidthKatakana =>
      unfold eucJpFeed at hu; simp only at hu
      split at hu
      · split at hu
        · omega
        · simp [FeedRes.bad] at hu
      · simp [FeedRes.ok] at hu

/-- gb18030 with one byte pending: a non-ASCII second byte is never handed back -/
theorem gbFeed_one_unread_lt (a : Nat) (pa : Option Nat) (b : Nat) (hb : 0x80 ≤ b) :
    (gbFeed ⟨.one a, pa⟩ b).unread = false := by
  unfold gbFeed
  simp only
  split
  · cases gbSecond a b with
    | out cs => rfl
    | bad =>
      simp only []
      split
      · omega
      · rfl
  · rfl

theorem noPend_flushSt {F : Fam} (hp : ∀ s, F.pend s = none) (s : F.σ) : flushSt F s = s := (flush_none F (hp s)).1

theorem gb_ef_bb : NoUnreadBB gbFam (gbFam.feed gbFam.init 0xEF).st := by
  have e : (gbFam.feed gbFam.init 0xEF).st = (⟨.one 0x6E, none⟩ : GbSt) := rfl
  unfold NoUnreadBB
  rw [e]
  have hf : flushSt gbFam ⟨.one 0x6E, none⟩ = ⟨.one 0x6E, none⟩ := (flush_none gbFam rfl).1
  rw [hf]
  exact gbFeed_one_unread_lt 0x6E none 0xBB (by omega)

theorem twoByte_ef_bb (lf : Nat → LeadRes) (tf : Nat → Nat → TrailRes) (a : Bool) :
    NoUnreadBB (twoByteFam lf tf a) ((twoByteFam lf tf a).feed (twoByteFam lf tf a).init 0xEF).st := by
  unfold NoUnreadBB
  generalize flushSt (twoByteFam lf tf a) ((twoByteFam lf tf a).feed (twoByteFam lf tf a).init 0xEF).st = s
  exact twoByteFeed_unread_lt lf tf s 187 (by omega)

theorem eucJp_ef_bb : NoUnreadBB eucJpFam (eucJpFam.feed eucJpFam.init 0xEF).st := by
  unfold NoUnreadBB
  generalize flushSt eucJpFam (eucJpFam.feed eucJpFam.init 0xEF).st = s
  exact eucJpFeed_unread_lt s 187 (by omega)

/-- **in every variant decoder, `BB` is not handed back from the state `EF` leaves** -/
theorem variant_ef_bb (v : Gen.Variant) :
    NoUnreadBB (famOfVariant v) ((famOfVariant v).feed (famOfVariant v).init 0xEF).st := by
  cases v with
  | singleByte t a b c => exact singleByteFeed_unread _ _ _
  | utf8 => unfold NoUnreadBB; decide
  | gbk => exact gb_ef_bb
  | gb18030 => exact gb_ef_bb
  | big5 => exact twoByte_ef_bb big5Lead big5Trail true
  | eucJp => exact eucJp_ef_bb
  | iso2022Jp => unfold NoUnreadBB; decide
  | shiftJis => exact twoByte_ef_bb shiftJisLead shiftJisTrail false
  | eucKr => exact twoByte_ef_bb eucKrLead eucKrTrail false
  | replacement => unfold NoUnreadBB; decide
  | utf16Be => exact utf16Feed_unread true _ _
  | utf16Le => exact utf16Feed_unread false _ _
  | userDefined => unfold NoUnreadBB; decide

theorem famBB_variant (v : Gen.Variant) : FamBB (famOfVariant v) :=
  ⟨famOk_variant v, fun s src h => Lemmas.PotMono.variant_alt_short v s src h, variant_ef_bb v⟩

/-! ### histories without side condition -/

/-- a protocol-following history of `Decoder` calls — any split of the stream (also inside the
potential BOM), any stop policies, either sink *per call* — together with the decoder it leaves
behind.  No side condition (compare `DHist`). -/
inductive DHistFull : Decoder F → Nat → List Nat → List Ev → Decoder F → Prop
  /-- the call that ends the stream -/
  | final (k : Sink) (d : Decoder F) (pos : Nat) (rem : List Nat) (b1 b2 : Budget) (read : Nat) (out : List Nat)
      (d' : Decoder F) (inner : List (List Nat × Res × Nat)) :
      d.rawCall k rem true b1 b2 = .ok .inputEmpty read out d' inner →
      DHistFull d pos rem (out.map Ev.cp) d'
  | lastStep (k : Sink) (d : Decoder F) (pos : Nat) (rem : List Nat) (b1 b2 : Budget) (res : Res) (read : Nat)
      (out : List Nat) (d' : Decoder F) (inner : List (List Nat × Res × Nat)) (evs' : List Ev) (dfin : Decoder F) :
      d.rawCall k rem true b1 b2 = .ok res read out d' inner → res ≠ .inputEmpty →
      DHistFull d' (pos + read) (rem.drop read) evs' dfin →
      DHistFull d pos rem (out.map Ev.cp ++ resEv (pos + read) res ++ evs') dfin
  | chunkStep (k : Sink) (d : Decoder F) (pos : Nat) (src rest : List Nat) (b1 b2 : Budget) (res : Res) (read : Nat)
      (out : List Nat) (d' : Decoder F) (inner : List (List Nat × Res × Nat)) (evs' : List Ev) (dfin : Decoder F) :
      d.rawCall k src false b1 b2 = .ok res read out d' inner →
      DHistFull d' (pos + read) (src.drop read ++ rest) evs' dfin →
      DHistFull d pos (src ++ rest) (out.map Ev.cp ++ resEv (pos + read) res ++ evs') dfin

/-- a history with the side condition is a history -/
theorem DHist.toFull {d : Decoder F} {pos : Nat} {rem : List Nat} {e : List Ev} {dfin : Decoder F}
    (h : DHist d pos rem e dfin) : DHistFull d pos rem e dfin := by
  induction h with
  | final k d pos rem b1 b2 read out d' inner _ hcall => exact .final k d pos rem b1 b2 read out d' inner hcall
  | lastStep k d pos rem b1 b2 res read out d' inner evs' dfin _ hcall hne _ ih =>
    exact .lastStep k d pos rem b1 b2 res read out d' inner evs' dfin hcall hne ih
  | chunkStep k d pos src rest b1 b2 res read out d' inner evs' dfin _ hcall _ ih =>
    exact .chunkStep k d pos src rest b1 b2 res read out d' inner evs' dfin hcall ih

/-- **C10 / C02 for the `Decoder`, no side condition**: every protocol-following history of calls
on a decoder satisfying the invariants of `Decoder.new` says exactly what the documented BOM
semantics `dref d` says about the stream -/
theorem dhist_full_eq_dref (H : FamBB F) (d : Decoder F) (pos : Nat) (rem : List Nat) (e : List Ev)
    (dfin : Decoder F) (hw : withheld d.life ≤ pos) (hf : Fresh d) (hp : PendInv d)
    (h : DHistFull d pos rem e dfin) : e = dref d rem pos := by
  induction h with
  | final k d pos rem b1 b2 read out d' inner hcall =>
    have hs := rawCall_sound_full H k d rem [] pos true b1 b2 (fun _ => rfl) hw hf hp
    rw [hcall] at hs
    simp only [DSound, resEv, List.append_nil] at hs
    rw [rawCall_final_nothing H.ok k d d' pos rem b1 b2 read out inner hf hcall, List.append_nil] at hs
    exact hs.1
  | lastStep k d pos rem b1 b2 res read out d' inner evs' dfin hcall _ _ ih =>
    have hs := rawCall_sound_full H k d rem [] pos true b1 b2 (fun _ => rfl) hw hf hp
    rw [hcall] at hs
    simp only [DSound, List.append_nil] at hs
    rw [ih hs.2 (rawCall_fresh k d rem true b1 b2 res read out d' inner hf hcall)
      (rawCall_pendInv H k d rem true b1 b2 res read out d' inner hf hp hcall), hs.1]
  | chunkStep k d pos src rest b1 b2 res read out d' inner evs' dfin hcall _ ih =>
    have hs := rawCall_sound_full H k d src rest pos false b1 b2 (fun h => by cases h) hw hf hp
    rw [hcall] at hs
    simp only [DSound] at hs
    rw [ih hs.2 (rawCall_fresh k d src false b1 b2 res read out d' inner hf hcall)
      (rawCall_pendInv H k d src false b1 b2 res read out d' inner hf hp hcall), hs.1]

/-- `dhistory_eq_dref'` without any side condition (neither `hfin` nor `ReplayOk`), histories in the
general form `DHistFull` (sink per call) -/
theorem dhistory_eq_dref'' (H : FamBB F) (d : Decoder F) (pos : Nat) (rem : List Nat) (e : List Ev)
    (dfin : Decoder F) (hw : withheld d.life ≤ pos) (hf : Fresh d) (hp : PendInv d)
    (h : DHistFull d pos rem e dfin) : e = dref d rem pos :=
  dhist_full_eq_dref H d pos rem e dfin hw hf hp h

/-- **for a decoder as made by `Encoding::new_decoder*`** (all 40 encodings, the three BOM modes):
any history, no side condition -/
theorem new_decoder_history_full (v : Gen.Variant) (nom : Nominal) (bom : BomHandling) (stream : List Nat)
    (e : List Ev) (dfin : Decoder (famOfVariant v))
    (h : DHistFull (Decoder.new (famOfVariant v) nom bom) 0 stream e dfin) :
    e = dref (Decoder.new (famOfVariant v) nom bom) stream 0 :=
  dhist_full_eq_dref (famBB_variant v) _ 0 stream e dfin (by rw [withheld_new]; exact Nat.le_refl _)
    (fresh_new nom bom) (pendInv_new nom bom) h

/-- `encoding()` at the end of any history is the documented one (`dhist_tag` for `DHistFull`) -/
theorem dhist_full_tag (d : Decoder F) (pos : Nat) (rem : List Nat) (e : List Ev) (dfin : Decoder F)
    (h : DHistFull d pos rem e dfin) : curTag dfin.cur = drefTag d rem := by
  induction h with
  | final k d pos rem b1 b2 read out d' inner hcall =>
    have hs := rawCall_tsound k d rem [] true b1 b2 (fun _ => rfl)
    rw [hcall] at hs
    simp only [TSound, List.append_nil] at hs
    rw [← hs, drefTag_final k d d' rem b1 b2 read out inner hcall]
  | lastStep k d pos rem b1 b2 res read out d' inner evs' dfin hcall _ _ ih =>
    have hs := rawCall_tsound k d rem [] true b1 b2 (fun _ => rfl)
    rw [hcall] at hs
    simp only [TSound, List.append_nil] at hs
    rw [ih, hs]
  | chunkStep k d pos src rest b1 b2 res read out d' inner evs' dfin hcall _ ih =>
    have hs := rawCall_tsound k d src rest false b1 b2 (fun h => by cases h)
    rw [hcall] at hs
    simp only [TSound] at hs
    rw [ih, hs]

/-! Non-vacuity: Big5, sniffing, `EF`, `BB`, then `41` with a replay that stops after `EF` (a Big5 lead
byte; nothing written, `OutputFull` — a stop only a destination below the documented minimum allows,
but one the model and the theorems cover): `BB` stays pending in a variant state of **rank 1**, where
`replayOk_of_rank_zero` does not apply.  The state is reached by three calls from `Decoder.new`, the
invariant `PendInv` follows by `rawCall_pendInv`, and with it the replay hypothesis `ReplayBB`. -/
section demo
private def dB0 : Decoder big5Fam := Decoder.new big5Fam .other .sniff
private def dB3 : Decoder big5Fam := ⟨.convertingWithPendingBB, .nominal (some 0x6E)⟩

set_option maxRecDepth 8192 in
example : big5Fam.rank (some 0x6E : Option Nat) = 1 ∧ PendInv dB3 ∧ ReplayBB .utf8 dB3.cur := by
  have h1 : dB0.rawCall .utf8 [0xEF] false .unlimited .unlimited =
      .ok .inputEmpty 1 [] ⟨.seenUtf8First, .nominal none⟩ [] := rfl
  have h2 : (⟨.seenUtf8First, .nominal none⟩ : Decoder big5Fam).rawCall .utf8 [0xBB] false .unlimited .unlimited =
      .ok .inputEmpty 1 [] ⟨.seenUtf8Second, .nominal none⟩ [] := rfl
  have h3 : (⟨.seenUtf8Second, .nominal none⟩ : Decoder big5Fam).rawCall .utf8 [0x41] false (.full 1) .unlimited =
      .ok .outputFull 0 [] dB3 [([], .outputFull, 4)] := rfl
  have H : FamBB big5Fam := famBB_variant .big5
  have f0 : Fresh dB0 := fresh_new _ _
  have p0 : PendInv dB0 := pendInv_new _ _
  have f1 := rawCall_fresh .utf8 dB0 _ _ _ _ _ _ _ _ _ f0 h1
  have p1 := rawCall_pendInv H .utf8 dB0 _ _ _ _ _ _ _ _ _ f0 p0 h1
  have f2 := rawCall_fresh .utf8 _ _ _ _ _ _ _ _ _ _ f1 h2
  have p2 := rawCall_pendInv H .utf8 _ _ _ _ _ _ _ _ _ _ f1 p1 h2
  have p3 := rawCall_pendInv H .utf8 _ _ _ _ _ _ _ _ _ _ f2 p2 h3
  exact ⟨rfl, p3, replayBB_of_pendInv H .utf8 dB3 p3 rfl⟩
end demo

end EncodingRs.Thm.C10
