import EncodingRs.Lemmas.ScalarFam3
import EncodingRs.Lemmas.FamLaws
import EncodingRs.Thm.C18
/-!
# C05 — output is always well-formed; safe APIs never leave an invalid `str` / `String`
(decoder side)

G6: every call of every variant decoder writes only scalar values, so the UTF-8
(UTF-16) units reported as written are a concatenation of whole well-formed
sequences (Unicode Table 3-7 / surrogate pairing) — after every call, for every
stop policy.  `decode_to_str`'s zeroing of the tail: see `zeroed_tail_valid`.
-/
namespace EncodingRs.Thm.C05
open EncodingRs EncodingRs.Model EncodingRs.Lemmas.Scalar EncodingRs.Lemmas.FamLaws

/-- **G6 `written_wellformed`** for each of the 40 encodings, both sinks:
from a reachable state (the invariant holds initially and is re-established by
every call) the units written by a call are whole well-formed sequences. -/
theorem written_wellformed_utf8 (v : Gen.Variant) (s : (famOfVariant v).σ) (src : List Nat) (last : Bool)
    (budget : Budget) (hi : (variantScalar v).Inv s) (hb : ∀ b ∈ src, b < 256) :
    (variantScalar v).Inv (call (famOfVariant v) .utf8 s src last budget).st ∧
    WfConcat WfUtf8Seq ((call (famOfVariant v) .utf8 s src last budget).out.flatMap encodeUtf8) := by
  have h := call_scalar (famOfVariant v) .utf8 (famOfVariant_laws v) (variantScalar v) s src last budget hi hb
  exact ⟨h.1, flatMap_wf WfUtf8Seq encodeUtf8 encodeUtf8_wf _ h.2⟩

theorem written_wellformed_utf16 (v : Gen.Variant) (s : (famOfVariant v).σ) (src : List Nat) (last : Bool)
    (budget : Budget) (hi : (variantScalar v).Inv s) (hb : ∀ b ∈ src, b < 256) :
    (variantScalar v).Inv (call (famOfVariant v) .utf16 s src last budget).st ∧
    WfConcat WfUtf16Seq ((call (famOfVariant v) .utf16 s src last budget).out.flatMap encodeUtf16) := by
  have h := call_scalar (famOfVariant v) .utf16 (famOfVariant_laws v) (variantScalar v) s src last budget hi hb
  exact ⟨h.1, flatMap_wf WfUtf16Seq encodeUtf16 encodeUtf16_wf _ h.2⟩

/-- a fresh decoder satisfies the invariant -/
theorem init_inv (v : Gen.Variant) : (variantScalar v).Inv (famOfVariant v).init := (variantScalar v).init

/-- U+FFFD, which the with-replacement methods append, is a scalar value -/
theorem replacement_char_scalar : isScalar 0xFFFD = true := by decide

/-! ### `decode_to_str`: zeroing what follows the written prefix

`decode_to_str*` (lib.rs) overwrites with zeros the bytes after `written` up to
the next UTF-8 character boundary of the old contents (plus, for non-UTF-8
encodings, a fixed window the bulk kernels may have clobbered).  Modelled on
byte lists: after the written prefix `w` (well-formed by G6) come `z` zero bytes
and then a suffix of the old string that starts at a character boundary. -/

theorem wf_append {P : List Nat → Prop} {a b : List Nat} (ha : WfConcat P a) (hb : WfConcat P b) :
    WfConcat P (a ++ b) := by
  induction ha with
  | nil => exact hb
  | cons seq rest hs _ ih => rw [List.append_assoc]; exact .cons seq _ hs ih

theorem zeros_wf (n : Nat) : WfConcat WfUtf8Seq (List.replicate n 0) := by
  induction n with
  | zero => exact .nil
  | succ n ih =>
    have : List.replicate (n + 1) 0 = [0] ++ List.replicate n 0 := by simp [List.replicate_succ]
    rw [this]
    exact .cons [0] _ (by simp [WfUtf8Seq]) ih

/-- the buffer a `&mut str` sink is left with is valid UTF-8 in its entirety:
written prefix, zeroed gap, and the rest of the old contents from a character boundary on -/
theorem zeroed_tail_valid (w oldTail : List Nat) (z : Nat)
    (hw : WfConcat WfUtf8Seq w) (hold : WfConcat WfUtf8Seq oldTail) :
    WfConcat WfUtf8Seq (w ++ List.replicate z 0 ++ oldTail) :=
  wf_append (wf_append hw (zeros_wf z)) hold

/-! Non-vacuity -/
example : (call gbFam .utf8 gbFam.init [0x81, 0x30, 0x81, 0x30, 0x90, 0x30, 0x81, 0x30] true .unlimited).out.flatMap encodeUtf8
    = [0xC2, 0x80, 0xF0, 0x90, 0x80, 0x80] := by native_decide

end EncodingRs.Thm.C05
