import EncodingRs.Lemmas.Bidi
/-!
# C16 — mem classification and bidi checks equal their per-character definitions

Property theorems only; helper lemmas live in `Lemmas/Bidi.lean`.
`Model.Bidi.*` are the hand models of the functions of `mem.rs` (default, non-SIMD
code paths, `UTF8_DATA.table` regenerated from utf_8.rs); `Spec.Bidi.*` is the
documented right-to-left block list, the naive per-unit definitions and
well-formed UTF-8 (Unicode Table 3-7). Bytes / code units / scalar values are
`Nat`; where the Rust type's range matters (wrapping subtraction, table index)
it is a hypothesis (`c < 2^32`, `u < 2^16`, `b < 2^8`).
-/
namespace EncodingRs.Thm.C16
open EncodingRs EncodingRs.Model.Bidi EncodingRs.Spec.Bidi EncodingRs.Lemmas.Bidi

/-! ## the two per-character predicates equal the documented block list -/

/-- `is_char_bidi` = documented list, for every `u32` (a fortiori every `char`) -/
theorem is_char_bidi_spec (c : Nat) (h : c < 0x100000000) : isCharBidi c = isRtlScalar c :=
  isCharBidi_eq c h

/-- `is_utf16_code_unit_bidi` = documented list, for every `u16` -/
theorem is_utf16_code_unit_bidi_spec (u : Nat) (h : u < 0x10000) : isUtf16CodeUnitBidi u = isRtlUnit u :=
  isUtf16CodeUnitBidi_eq u h

/-! ## all-units checks -/

/-- `is_ascii`: strides of any positive length, OR-reduced tail -/
theorem is_ascii_spec (bs : List Nat) : isAscii bs = allAscii bs :=
  unitCheck_eq STRIDE 7 (by decide) _ _ (Nat.le_refl _)

theorem is_basic_latin_spec (us : List Nat) : isBasicLatin us = allBasicLatin us :=
  unitCheck_eq STRIDE 7 (by decide) _ _ (Nat.le_refl _)

theorem is_utf16_latin1_spec (us : List Nat) : isUtf16Latin1 us = allLatin1 us := by
  have h := unitCheck_eq STRIDE 8 (by decide) us.length us (Nat.le_refl _)
  unfold isUtf16Latin1 allLatin1
  rw [show (0x100 : Nat) = 2 ^ 8 from rfl, h]
  congr 1
  funext u
  rw [decide_eq_decide]
  omega

/-- the stride length is immaterial (any positive stride, enough fuel) -/
theorem unit_check_any_stride (stride k fuel : Nat) (hs : 0 < stride) (buf : List Nat) (hf : buf.length ≤ fuel) :
    unitCheck stride (2 ^ k) fuel buf = buf.all (fun b => decide (b < 2 ^ k)) :=
  unitCheck_eq stride k hs fuel buf hf

/-! ## UTF-16 bidi -/

/-- `is_utf16_bidi` is true exactly when some code unit is in the documented list -/
theorem is_utf16_bidi_spec (us : List Nat) (h : ∀ u ∈ us, u < 0x10000) : isUtf16Bidi us = anyRtlUnit us :=
  isUtf16Bidi_eq us h

/-- `check_utf16_for_latin1_and_bidi` answers exactly as the two separate checks would -/
theorem check_utf16_for_latin1_and_bidi_spec (us : List Nat) (h : ∀ u ∈ us, u < 0x10000) :
    toSpec (checkUtf16 us) = combine (allLatin1 us) (anyRtlUnit us) := by
  rw [checkUtf16_eq, ← is_utf16_bidi_spec us h, ← is_utf16_latin1_spec]
  have : isUtf16Latin1 us = us.all (fun u => decide (u < 0x100)) :=
    unitCheck_eq STRIDE 8 (by decide) us.length us (Nat.le_refl _)
  rw [this]
  unfold combine
  cases us.all (fun u => decide (u < 0x100)) <;> cases isUtf16Bidi us <;> rfl

/-- the same at the level of the models of the three functions -/
theorem check_utf16_for_latin1_and_bidi_eq_separate (us : List Nat) :
    toSpec (checkUtf16 us) = combine (isUtf16Latin1 us) (isUtf16Bidi us) := by
  have : isUtf16Latin1 us = us.all (fun u => decide (u < 0x100)) :=
    unitCheck_eq STRIDE 8 (by decide) us.length us (Nat.le_refl _)
  rw [checkUtf16_eq, this]
  unfold combine
  cases us.all (fun u => decide (u < 0x100)) <;> cases isUtf16Bidi us <;> rfl

/-! ## UTF-8 bidi -/

/-- `is_utf8_bidi` (byte automaton with four-byte look-ahead loop and tail match) is true
exactly when the input is not well-formed UTF-8 or some decoded scalar value is in the
documented right-to-left list — for every byte string. -/
theorem is_utf8_bidi_spec (bs : List Nat) (hb : ∀ b ∈ bs, b < 256) :
    isUtf8Bidi bs = (match decodeUtf8 bs with
      | none => true
      | some cs => cs.any isRtlScalar) := by
  rw [isUtf8Bidi_eq bs hb]; rfl

/-- `is_utf8_latin1` is true exactly when the input is well-formed UTF-8 and every decoded
scalar value is at most U+00FF — for every byte string. -/
theorem is_utf8_latin1_spec (bs : List Nat) (hb : ∀ b ∈ bs, b < 256) :
    isUtf8Latin1 bs = (match decodeUtf8 bs with
      | none => false
      | some cs => allLatin1 cs) := by
  rw [isUtf8Latin1_eq bs hb]; rfl

/-- `check_utf8_for_latin1_and_bidi` (Latin1 scan, then the bidi automaton restarted at the
offset where the scan stopped) answers exactly as the two separate checks would. -/
theorem check_utf8_for_latin1_and_bidi_spec (bs : List Nat) (hb : ∀ b ∈ bs, b < 256) :
    toSpec (checkUtf8 bs) = combine (utf8Latin1 bs) (utf8Bidi bs) :=
  checkUtf8_eq bs hb

/-- the same at the level of the models of the three functions -/
theorem check_utf8_for_latin1_and_bidi_eq_separate (bs : List Nat) (hb : ∀ b ∈ bs, b < 256) :
    toSpec (checkUtf8 bs) = combine (isUtf8Latin1 bs) (isUtf8Bidi bs) := by
  rw [checkUtf8_eq bs hb, isUtf8Latin1_eq bs hb, isUtf8Bidi_eq bs hb]

/-! ## `&str` forms (precondition: the bytes are well-formed UTF-8, decoding to `cs`)

The models return `Option` (`none` = an index/slice panic); the theorems therefore also
say that no panic occurs on well-formed input. -/

/-- `is_str_latin1`: every scalar value of the string is at most U+00FF -/
theorem is_str_latin1_spec (bs cs : List Nat) (h : decodeUtf8 bs = some cs) :
    isStrLatin1 bs = some (allLatin1 cs) := by
  rw [isStrLatin1_eq bs (by unfold validUtf8; rw [h]; rfl)]
  unfold utf8Latin1; rw [h]

/-- `is_str_bidi`: some scalar value of the string is in the documented right-to-left list -/
theorem is_str_bidi_spec (bs cs : List Nat) (h : decodeUtf8 bs = some cs) :
    isStrBidi bs = some (cs.any isRtlScalar) := by
  rw [isStrBidi_eq bs (by unfold validUtf8; rw [h]; rfl)]
  unfold utf8Bidi; rw [h]; rfl

/-- `check_str_for_latin1_and_bidi` answers exactly as the two separate checks would -/
theorem check_str_for_latin1_and_bidi_spec (bs cs : List Nat) (h : decodeUtf8 bs = some cs) :
    (checkStr bs).map toSpec = some (combine (allLatin1 cs) (anyRtlScalar cs)) := by
  rw [checkStr_eq bs (by unfold validUtf8; rw [h]; rfl)]
  unfold utf8Latin1 utf8Bidi; rw [h]

/-- the same at the level of the models of the three functions -/
theorem check_str_for_latin1_and_bidi_eq_separate (bs : List Nat) (hV : validUtf8 bs = true) :
    ∃ l b, isStrLatin1 bs = some l ∧ isStrBidi bs = some b ∧ (checkStr bs).map toSpec = some (combine l b) :=
  ⟨_, _, isStrLatin1_eq bs hV, isStrBidi_eq bs hV, checkStr_eq bs hV⟩

/-- on well-formed input the `&str` and the potentially-invalid-UTF-8 forms agree -/
theorem str_forms_agree_with_utf8_forms (bs : List Nat) (hb : ∀ b ∈ bs, b < 256) (hV : validUtf8 bs = true) :
    isStrBidi bs = some (isUtf8Bidi bs) ∧ isStrLatin1 bs = some (isUtf8Latin1 bs) := by
  rw [isStrBidi_eq bs hV, isStrLatin1_eq bs hV, isUtf8Bidi_eq bs hb, isUtf8Latin1_eq bs hb]
  exact ⟨rfl, rfl⟩

/-- Sanity of the specification: `decodeUtf8` inverts the UTF-8 encoding form on every list of
scalar values, so "the bytes of a `&str`" are exactly the inputs the `&str` theorems cover. -/
theorem spec_decode_encode (cs : List Nat) (h : ∀ c ∈ cs, isScalar c = true) :
    decodeUtf8 (encodeUtf8 cs) = some cs :=
  decode_encode cs h

/-- `is_str_bidi` / `is_str_latin1` / `check_str_for_latin1_and_bidi` on the UTF-8 encoding of any
list of scalar values (i.e. on any `&str`) -/
theorem str_checks_on_every_str (cs : List Nat) (h : ∀ c ∈ cs, isScalar c = true) :
    isStrBidi (encodeUtf8 cs) = some (cs.any isRtlScalar)
    ∧ isStrLatin1 (encodeUtf8 cs) = some (allLatin1 cs)
    ∧ (checkStr (encodeUtf8 cs)).map toSpec = some (combine (allLatin1 cs) (anyRtlScalar cs)) :=
  ⟨is_str_bidi_spec _ cs (decode_encode cs h), is_str_latin1_spec _ cs (decode_encode cs h),
   check_str_for_latin1_and_bidi_spec _ cs (decode_encode cs h)⟩

/-! Non-vacuity: concrete values. -/
example : isCharBidi 0x058F = false ∧ isCharBidi 0x0590 = true ∧ isCharBidi 0xFEFE = true
    ∧ isCharBidi 0xFEFF = false ∧ isCharBidi 0x1E800 = true ∧ isCharBidi 0x1F000 = false := by decide
example : isUtf16CodeUnitBidi 0xD802 = true ∧ isUtf16CodeUnitBidi 0xD804 = false
    ∧ isUtf16CodeUnitBidi 0xD83B = true ∧ isUtf16CodeUnitBidi 0x2067 = true := by decide
example : isAscii (List.replicate 16 0x61 ++ [0x80]) = false ∧ isAscii (List.replicate 17 0x61) = true := by decide
example : isUtf16Latin1 [0x61, 0xFF] = true ∧ isUtf16Latin1 [0x61, 0x100] = false := by decide
example : checkUtf16 [0x61, 0x100, 0x05D0] = .bidi ∧ checkUtf16 [0x61, 0x3042] = .leftToRight
    ∧ checkUtf16 [0x61, 0xE9] = .latin1 := by decide

example : isUtf8Bidi [0x61, 0xD6, 0x8F, 0x62] = false ∧ isUtf8Bidi [0x61, 0xD6, 0x90, 0x62] = true
    ∧ isUtf8Bidi [0xF0, 0x9F, 0x92, 0xA9] = false ∧ isUtf8Bidi [0xF0, 0x90, 0xA0, 0x80] = true
    ∧ isUtf8Bidi [0xE2, 0x80] = true ∧ isUtf8Bidi [0x61, 0x62, 0xED, 0xA0, 0x80] = true := by decide

example : isUtf8Latin1 [0x61, 0xC3, 0xBF] = true ∧ isUtf8Latin1 [0x61, 0xC4, 0x80] = false
    ∧ isUtf8Latin1 [0x61, 0xC3] = false ∧ isUtf8Latin1 [0xC3, 0x41] = false := by decide
example : checkUtf8 [0x61, 0xC3, 0xBF] = .latin1 ∧ checkUtf8 [0xC3, 0xBF, 0xE3, 0x81, 0x82] = .leftToRight
    ∧ checkUtf8 [0xC3, 0xBF, 0xD7, 0x90] = .bidi ∧ checkUtf8 [0xC3] = .bidi := by decide

example : isStrBidi [0x61, 0xEF, 0xAC, 0x9C] = some false ∧ isStrBidi [0x61, 0xEF, 0xAC, 0x9D] = some true
    ∧ isStrBidi [0xF0, 0x9E, 0xA0, 0x80] = some true ∧ isStrBidi [0xEF, 0xBB, 0xBF] = some false
    ∧ isStrBidi [0xE2] = none := by decide
example : isStrLatin1 [0xC3, 0xBF, 0x61] = some true ∧ isStrLatin1 [0xC4, 0x80] = some false := by decide
example : checkStr [0xC3, 0xBF, 0xE2, 0x81, 0xA7] = some .bidi ∧ checkStr [0xC3, 0xBF] = some .latin1
    ∧ checkStr [0x61, 0xE3, 0x81, 0x82] = some .leftToRight := by decide

end EncodingRs.Thm.C16
