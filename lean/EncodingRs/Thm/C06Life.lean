import EncodingRs.Thm.C18
import EncodingRs.Lemmas.LifeLift
/-!
# C06 through the BOM life cycle — the read/written contract of the public `Decoder`

`Thm/C06.lean` states `read ≤ src.len()`, `InputEmpty ⇒ read = src.len()`, `written ≤ dst.len()` and
"`Malformed` leaves room for U+FFFD" for one call of a *variant* decoder (`Model.call`).  Here they are
statements about what a user calls: `Model.Decoder.rawCall`
(`decode_to_utf8/16_without_replacement`, BOM life cycle included) and `Thm.C07.Decoder.replCall`
(`decode_to_utf8/16`).

* **`decoder_read_le_src`**, **`decoder_inputEmpty_consumed_all`**: for *every* life-cycle state (no
  reachability needed), source and stop policy, `read ≤ src.len()`, and `InputEmpty` is returned only
  when the whole source was consumed — also when some of the source's first bytes were swallowed as a
  BOM or withheld as a potential BOM (they count as read).
* **`decoder_written_le_cap`**, **`decoder_malformed_room`**: when the inner variant-decoder calls of
  the `Decoder` call are admissible for a destination of `cap` units (`Thm.C07.InnerAdmissible`: the
  replay of withheld bytes first, the call on the source with what is left — what the driver checks
  for every call of the implementation), everything the call wrote fits into `cap`, and a `Malformed`
  return leaves room for U+FFFD behind it.  `written_units`: the number of units is
  `(encodeUnits k out).length`, i.e. `written` as the API reports it.
* with replacement: **`decoder_repl_read_le_src`**, **`decoder_repl_inputEmpty_consumed_all`**,
  **`decoder_repl_written_le_cap`** (total output incl. every U+FFFD fits whenever the inner calls
  were admissible for what was left, `Thm.C07.DReplAdmissible`), `decoder_repl_res` (never
  `Malformed`), **`decoder_repl_never_panics`** (the loop adds no panic to those of the raw method:
  after a `Malformed` the decoder is in `Converting` / `ConvertingWithPendingBB`, from which the
  model's panic value is unreachable).
* **`decoder_call_contract`** / **`decoder_repl_call_contract`**: the summary — for a decoder
  reachable from `Decoder.new` that is not `Finished`, a destination of at least the documented minimum
  and admissible inner calls, the call does not panic (`Thm.C06.decoder_never_panics`), honours the
  read/written contract, reports `Malformed(len, after)` only within the documented ranges
  (`Thm.C06.rawCall_malformed_ranges`), and leaves a reachable decoder.

What is *not* said: memory safety of the `unsafe` code (guard bands, runtime); panics the model does
not represent; that the real inner calls are admissible (the correspondence run).
-/
namespace EncodingRs.Thm.C06Life
open EncodingRs EncodingRs.Model EncodingRs.Lemmas.Core EncodingRs.Lemmas.FamLaws EncodingRs.Lemmas.Life
open EncodingRs.Lemmas.LifeLeaf EncodingRs.Lemmas.LifeLift EncodingRs.Thm.C10 EncodingRs.Thm.C07 EncodingRs.Thm.C06

variable {F : Fam}

/-! ### `read` -/

/-- **`read ≤ src.len()`** for every `Decoder` call (any family whose look-ahead stays inside the source) -/
theorem decoder_read_le_src_fam (halt : ∀ s src m r, F.alt s src = some (m, r) → m ≤ src.length)
    (k : Sink) (d : Decoder F) (src : List Nat) (last : Bool) (b1 b2 : Budget) (res : Res) (read : Nat)
    (out : List Nat) (d' : Decoder F) (inner : List (List Nat × Res × Nat))
    (h : d.rawCall k src last b1 b2 = .ok res read out d' inner) : read ≤ src.length := by
  have hr := rawCall_readOk halt k d src last b1 b2
  rw [h] at hr
  exact hr.1

/-- **`InputEmpty` only when the whole source was consumed** -/
theorem decoder_inputEmpty_consumed_all_fam (halt : ∀ s src m r, F.alt s src = some (m, r) → m ≤ src.length)
    (k : Sink) (d : Decoder F) (src : List Nat) (last : Bool) (b1 b2 : Budget) (read : Nat)
    (out : List Nat) (d' : Decoder F) (inner : List (List Nat × Res × Nat))
    (h : d.rawCall k src last b1 b2 = .ok .inputEmpty read out d' inner) : read = src.length := by
  have hr := rawCall_readOk halt k d src last b1 b2
  rw [h] at hr
  exact hr.2 rfl

/-- for each of the 40 encodings, every life-cycle state -/
theorem decoder_read_le_src (v : Gen.Variant) (k : Sink) (d : Decoder (famOfVariant v)) (src : List Nat)
    (last : Bool) (b1 b2 : Budget) (res : Res) (read : Nat) (out : List Nat) (d' : Decoder (famOfVariant v))
    (inner : List (List Nat × Res × Nat)) (h : d.rawCall k src last b1 b2 = .ok res read out d' inner) :
    read ≤ src.length :=
  decoder_read_le_src_fam (variant_alt_le v) k d src last b1 b2 res read out d' inner h

theorem decoder_inputEmpty_consumed_all (v : Gen.Variant) (k : Sink) (d : Decoder (famOfVariant v))
    (src : List Nat) (last : Bool) (b1 b2 : Budget) (read : Nat) (out : List Nat)
    (d' : Decoder (famOfVariant v)) (inner : List (List Nat × Res × Nat))
    (h : d.rawCall k src last b1 b2 = .ok .inputEmpty read out d' inner) : read = src.length :=
  decoder_inputEmpty_consumed_all_fam (variant_alt_le v) k d src last b1 b2 read out d' inner h

/-! ### `written` -/

/-- **`written ≤ dst.len()`**: admissible inner calls ⇒ everything the `Decoder` call wrote fits -/
theorem decoder_written_le_cap (k : Sink) (d : Decoder F) (src : List Nat) (last : Bool) (b1 b2 : Budget)
    (cap : Nat) (res : Res) (read : Nat) (out : List Nat) (d' : Decoder F) (inner : List (List Nat × Res × Nat))
    (h : d.rawCall k src last b1 b2 = .ok res read out d' inner) (hadm : InnerAdmissible k cap inner) :
    unitsOfList k out ≤ cap := by
  have hc := rawCall_coh k d src last b1 b2
  rw [h] at hc
  rw [hc.1]
  exact innerAdmissible_units k inner cap hadm

/-- **a `Malformed` return leaves room for U+FFFD** behind what the call wrote (what
`decode_to_utf8` / `decode_to_utf16` rely on when they store the replacement character unchecked) -/
theorem decoder_malformed_room (k : Sink) (d : Decoder F) (src : List Nat) (last : Bool) (b1 b2 : Budget)
    (cap : Nat) (l a read : Nat) (out : List Nat) (d' : Decoder F) (inner : List (List Nat × Res × Nat))
    (h : d.rawCall k src last b1 b2 = .ok (.malformed l a) read out d' inner) (hadm : InnerAdmissible k cap inner) :
    unitsOfList k out + replRoom k ≤ cap := by
  have hc := rawCall_coh k d src last b1 b2
  rw [h] at hc
  obtain ⟨pre, o, l', a', n, hi⟩ := hc.2 l a rfl
  rw [hc.1, hi]
  rw [hi] at hadm
  exact innerAdmissible_room k o l' a' n pre cap hadm

/-- `unitsOfList` is the number of code units of the UTF-8 / UTF-16 form: `written` as the API reports it -/
theorem written_units (k : Sink) (cs : List Nat) : (C18.encodeUnits k cs).length = unitsOfList k cs := by
  have h8 : ∀ c, (encodeUtf8 c).length = unitsOf .utf8 c := by
    intro c
    unfold encodeUtf8
    simp only [unitsOf]
    by_cases h1 : c < 0x80
    · simp [h1]
    · by_cases h2 : c < 0x800
      · simp [h1, h2]
      · by_cases h3 : c < 0x10000
        · simp [h1, h2, h3]
        · simp [h1, h2, h3]
  have h16 : ∀ c, (encodeUtf16 c).length = unitsOf .utf16 c := by
    intro c
    unfold encodeUtf16
    simp only [unitsOf]
    by_cases h1 : c < 0x10000
    · simp [h1]
    · simp [h1]
  induction cs with
  | nil => cases k <;> rfl
  | cons c t ih =>
    cases k with
    | utf8 =>
      simp only [C18.encodeUnits, List.flatMap_cons, List.length_append, unitsOfList, List.map_cons,
        List.sum_cons] at ih ⊢
      rw [ih, h8]
    | utf16 =>
      simp only [C18.encodeUnits, List.flatMap_cons, List.length_append, unitsOfList, List.map_cons,
        List.sum_cons] at ih ⊢
      rw [ih, h16]

theorem units_replacement (k : Sink) (l : List Nat) : unitsOfList k (0xFFFD :: l) = replRoom k + unitsOfList k l := by
  cases k <;> simp [unitsOfList, unitsOf, replRoom]

/-! ### with replacement -/

theorem replChain_read (halt : ∀ s src m r, F.alt s src = some (m, r) → m ≤ src.length)
    {k : Sink} {last : Bool} {A : Nat → List (List Nat × Res × Nat) → Prop} {cap : Nat} {d : Decoder F}
    {src : List Nat} {t : DReplRes F} (h : ReplChain k last A cap d src t) :
    t.read ≤ src.length ∧ (t.res = .inputEmpty → t.read = src.length) := by
  induction h with
  | stop cap d src b1 b2 res read out d' inner hcall _ _ =>
    have hr := rawCall_readOk halt k d src last b1 b2
    rw [hcall] at hr
    exact hr
  | step cap d src b1 b2 l a read out d' inner t hcall _ _ ih =>
    have hr := rawCall_readOk halt k d src last b1 b2
    rw [hcall] at hr
    have h1 := hr.1
    rw [List.length_drop] at ih
    simp only
    exact ⟨by have := ih.1; omega, fun he => by have := ih.2 he; omega⟩

theorem replChain_written_le_cap {k : Sink} {last : Bool} {cap : Nat} {d : Decoder F} {src : List Nat}
    {t : DReplRes F} (h : ReplChain k last (InnerAdmissible k) cap d src t) : unitsOfList k t.out ≤ cap := by
  induction h with
  | stop cap d src b1 b2 res read out d' inner hcall _ hadm =>
    exact decoder_written_le_cap k d src last b1 b2 cap res read out d' inner hcall hadm
  | step cap d src b1 b2 l a read out d' inner t hcall hadm _ ih =>
    have hroom := decoder_malformed_room k d src last b1 b2 cap l a read out d' inner hcall hadm
    simp only
    rw [Lemmas.Potential.unitsOfList_append, units_replacement]
    omega

/-- **`read ≤ src.len()`** for `decode_to_utf8` / `decode_to_utf16` -/
theorem decoder_repl_read_le_src (v : Gen.Variant) (k : Sink) (last : Bool) (fuel : Nat)
    (d : Decoder (famOfVariant v)) (src : List Nat) (bs : List (Budget × Budget)) (t : DReplRes (famOfVariant v))
    (hrun : Decoder.replCall k last fuel d src bs = some (some t)) : t.read ≤ src.length :=
  (replChain_read (variant_alt_le v) (replCall_chain k last fuel d src bs t 0 hrun)).1

/-- **`InputEmpty` only when the whole source was consumed**, with replacement -/
theorem decoder_repl_inputEmpty_consumed_all (v : Gen.Variant) (k : Sink) (last : Bool) (fuel : Nat)
    (d : Decoder (famOfVariant v)) (src : List Nat) (bs : List (Budget × Budget)) (t : DReplRes (famOfVariant v))
    (hrun : Decoder.replCall k last fuel d src bs = some (some t)) (hres : t.res = .inputEmpty) :
    t.read = src.length :=
  (replChain_read (variant_alt_le v) (replCall_chain k last fuel d src bs t 0 hrun)).2 hres

/-- the with-replacement methods never report `Malformed` -/
theorem decoder_repl_res (k : Sink) (last : Bool) (fuel : Nat) (d : Decoder F) (src : List Nat)
    (bs : List (Budget × Budget)) (t : DReplRes F)
    (hrun : Decoder.replCall k last fuel d src bs = some (some t)) : t.res = .inputEmpty ∨ t.res = .outputFull :=
  replChain_res (replCall_chain k last fuel d src bs t 0 hrun)

/-- **`written ≤ dst.len()`** for `decode_to_utf8` / `decode_to_utf16`: the total output, every
U+FFFD included, fits whenever every inner variant-decoder call was admissible for what was left of
the destination -/
theorem decoder_repl_written_le_cap (k : Sink) (last : Bool) (fuel : Nat) (d : Decoder F) (src : List Nat)
    (bs : List (Budget × Budget)) (cap : Nat) (t : DReplRes F)
    (hadm : DReplAdmissible k last fuel d src bs cap)
    (hrun : Decoder.replCall k last fuel d src bs = some (some t)) : unitsOfList k t.out ≤ cap :=
  replChain_written_le_cap (replCall_chain_adm k last fuel d src bs t cap hadm hrun)

/-- from `Converting` / `ConvertingWithPendingBB` the loop cannot reach the panic value -/
theorem settled_replCall_ne_panic (k : Sink) (last : Bool) :
    ∀ (fuel : Nat) (d : Decoder F) (src : List Nat) (bs : List (Budget × Budget)),
      settledLife d.life = true → Decoder.replCall k last fuel d src bs ≠ some none := by
  intro fuel
  induction fuel with
  | zero => intro d src bs _ h; simp [Decoder.replCall] at h
  | succ fuel ih =>
    intro d src bs hl h
    rw [Decoder.replCall] at h
    have hnp := settled_ne_panic k d hl src last (bs.headD (.unlimited, .unlimited)).1 (bs.headD (.unlimited, .unlimited)).2
    cases hcall : d.rawCall k src last (bs.headD (.unlimited, .unlimited)).1 (bs.headD (.unlimited, .unlimited)).2 with
    | panic => exact hnp hcall
    | ok res read out d' inner =>
      rw [hcall] at h
      simp only at h
      cases res with
      | malformed l a =>
        simp only at h
        have hs := rawCall_malformed_settled k d src last _ _ l a read out d' inner hcall
        have IH := ih d' (src.drop read) bs.tail hs
        cases hrec : Decoder.replCall k last fuel d' (src.drop read) bs.tail with
        | none => rw [hrec] at h; simp at h
        | some o =>
          cases o with
          | none => exact IH hrec
          | some t' => rw [hrec] at h; simp at h
      | inputEmpty => simp at h
      | outputFull => simp at h

/-- **the with-replacement methods add no panic**: under the hypotheses of
`Thm.C06.decoder_never_panics` for the *first* raw call of the loop (decoder with the freshness
invariant of `Decoder.new`, not `Finished`, destination of at least the documented minimum, an
`OutputFull` stop of the replay of withheld bytes is admissible), `decode_to_utf8` / `decode_to_utf16`
does not reach the model's panic value, however many malformed sequences it replaces -/
theorem decoder_repl_never_panics (H : FamOk F) (hnb : C08.NeedsBounded F) (k : Sink) (d : Decoder F)
    (hf : Fresh d) (hfin : d.life ≠ .finished) (src : List Nat) (last : Bool) (fuel : Nat)
    (bs : List (Budget × Budget)) (cap : Nat) (hcap : minCap k ≤ cap)
    (hrep : (d.cur.call k (replayBytes d.life) false (bs.headD (.unlimited, .unlimited)).1).res = .outputFull →
      cap < unitsOfList k (d.cur.call k (replayBytes d.life) false (bs.headD (.unlimited, .unlimited)).1).out
        + (d.cur.call k (replayBytes d.life) false (bs.headD (.unlimited, .unlimited)).1).stopNeed) :
    Decoder.replCall k last fuel d src bs ≠ some none := by
  cases fuel with
  | zero => intro h; simp [Decoder.replCall] at h
  | succ fuel =>
    intro h
    rw [Decoder.replCall] at h
    have hnp := decoder_never_panics H hnb k d hf hfin src last (bs.headD (.unlimited, .unlimited)).1
      (bs.headD (.unlimited, .unlimited)).2 cap hcap hrep
    cases hcall : d.rawCall k src last (bs.headD (.unlimited, .unlimited)).1 (bs.headD (.unlimited, .unlimited)).2 with
    | panic => exact hnp hcall
    | ok res read out d' inner =>
      rw [hcall] at h
      simp only at h
      cases res with
      | malformed l a =>
        simp only at h
        have hs := rawCall_malformed_settled k d src last _ _ l a read out d' inner hcall
        have hne := settled_replCall_ne_panic k last fuel d' (src.drop read) bs.tail hs
        cases hrec : Decoder.replCall k last fuel d' (src.drop read) bs.tail with
        | none => rw [hrec] at h; simp at h
        | some o =>
          cases o with
          | none => exact hne hrec
          | some t' => rw [hrec] at h; simp at h
      | inputEmpty => simp at h
      | outputFull => simp at h

/-! ### the summary -/

/-- **C06, the contract of `decode_to_utf8_without_replacement` / `decode_to_utf16_without_replacement`**
(all 40 encodings, the three BOM modes).  For a decoder reachable from `Decoder.new` by any history of
calls that consumed `pos` bytes and is not `Finished`, any source of bytes, any stop policies, a
destination of `cap ≥` the documented minimum, with admissible inner variant-decoder calls (`hadm`; and
`hrep` for the replay call on the path that would panic):

* the call does not panic;
* `read ≤ src.len()`, and `InputEmpty` ⇒ `read = src.len()`;
* `written ≤ dst.len()` (`written` = the number of code units of the output);
* `Malformed(len, after)` ⇒ room for U+FFFD is left behind `written`, `1 ≤ len ≤ 4`, `after ≤ 3`,
  `len + after ≤ 6`, and the error span lies inside what has been read so far;
* the decoder left behind is reachable again (so the contract holds for the next call). -/
theorem decoder_call_contract (v : Gen.Variant) (nom : Nominal) (bom : BomHandling)
    (d : Decoder (famOfVariant v)) (pos : Nat) (hr : DReachAt v nom bom d pos) (hfin : d.life ≠ .finished)
    (k : Sink) (src : List Nat) (last : Bool) (b1 b2 : Budget) (cap : Nat) (hb : ∀ x ∈ src, x < 256)
    (hcap : minCap k ≤ cap)
    (hrep : (d.cur.call k (replayBytes d.life) false b1).res = .outputFull →
      cap < unitsOfList k (d.cur.call k (replayBytes d.life) false b1).out
        + (d.cur.call k (replayBytes d.life) false b1).stopNeed)
    (hadm : DAdmissible k cap (d.rawCall k src last b1 b2)) :
    ∃ res read out d' inner, d.rawCall k src last b1 b2 = .ok res read out d' inner ∧
      read ≤ src.length ∧ (res = .inputEmpty → read = src.length) ∧
      (C18.encodeUnits k out).length ≤ cap ∧
      (∀ l a, res = .malformed l a →
        (C18.encodeUnits k out).length + replRoom k ≤ cap ∧
        1 ≤ l ∧ l ≤ 4 ∧ a ≤ 3 ∧ l + a ≤ 6 ∧ l + a ≤ pos + read) ∧
      DReachAt v nom bom d' (pos + read) := by
  have hnp := decoder_never_panics (famOk_variant v) (C08.famOfVariant_needsBounded v) k d
    (lifeSpan_reachable v nom bom d pos hr).fresh hfin src last b1 b2 cap hcap hrep
  cases hcall : d.rawCall k src last b1 b2 with
  | panic => exact absurd hcall hnp
  | ok res read out d' inner =>
    rw [hcall] at hadm
    refine ⟨res, read, out, d', inner, rfl,
      decoder_read_le_src v k d src last b1 b2 res read out d' inner hcall, ?_, ?_, ?_,
      .call k d pos src last b1 b2 res read out d' inner hr hb hcall⟩
    · intro he; subst he
      exact decoder_inputEmpty_consumed_all v k d src last b1 b2 read out d' inner hcall
    · rw [written_units]
      exact decoder_written_le_cap k d src last b1 b2 cap res read out d' inner hcall hadm
    · intro l a he; subst he
      rw [written_units]
      exact ⟨decoder_malformed_room k d src last b1 b2 cap l a read out d' inner hcall hadm,
        rawCall_malformed_ranges v nom bom d pos hr k src last b1 b2 hb l a read out d' inner hcall⟩

/-- **C06, the contract of `decode_to_utf8` / `decode_to_utf16`** (with replacement), same setting:
a call that completes (`fuel` suffices: termination is C08) does not panic, returns `InputEmpty` or
`OutputFull`, has `read ≤ src.len()` (`= src.len()` for `InputEmpty`), `written ≤ dst.len()` with every
U+FFFD included, and leaves a reachable decoder. -/
theorem decoder_repl_call_contract (v : Gen.Variant) (nom : Nominal) (bom : BomHandling)
    (d : Decoder (famOfVariant v)) (pos : Nat) (hr : DReachAt v nom bom d pos) (hfin : d.life ≠ .finished)
    (k : Sink) (src : List Nat) (last : Bool) (fuel : Nat) (bs : List (Budget × Budget)) (cap : Nat)
    (hb : ∀ x ∈ src, x < 256) (hcap : minCap k ≤ cap)
    (hrep : (d.cur.call k (replayBytes d.life) false (bs.headD (.unlimited, .unlimited)).1).res = .outputFull →
      cap < unitsOfList k (d.cur.call k (replayBytes d.life) false (bs.headD (.unlimited, .unlimited)).1).out
        + (d.cur.call k (replayBytes d.life) false (bs.headD (.unlimited, .unlimited)).1).stopNeed)
    (hadm : DReplAdmissible k last fuel d src bs cap)
    (r : Option (DReplRes (famOfVariant v))) (hrun : Decoder.replCall k last fuel d src bs = some r) :
    ∃ t, r = some t ∧ (t.res = .inputEmpty ∨ t.res = .outputFull) ∧
      t.read ≤ src.length ∧ (t.res = .inputEmpty → t.read = src.length) ∧
      (C18.encodeUnits k t.out).length ≤ cap ∧
      DReachAt v nom bom t.d (pos + t.read) := by
  have hnp := decoder_repl_never_panics (famOk_variant v) (C08.famOfVariant_needsBounded v) k d
    (lifeSpan_reachable v nom bom d pos hr).fresh hfin src last fuel bs cap hcap hrep
  cases r with
  | none => exact absurd hrun hnp
  | some t =>
    have hch := replCall_chain k last fuel d src bs t 0 hrun
    have hrd := replChain_read (variant_alt_le v) hch
    refine ⟨t, rfl, replChain_res hch, hrd.1, hrd.2, ?_, replChain_reachAt v nom bom hch pos hr hb⟩
    rw [written_units]
    exact decoder_repl_written_le_cap k last fuel d src bs cap t hadm hrun

/-! ### Non-vacuity

windows-1252 with BOM sniffing, `EF BB` withheld, a four-byte UTF-8 destination (the documented
minimum), source `41`, not last: the replay of `EF BB` stops with an admissible `OutputFull` after `EF`
(2 bytes written, 3 asked for, 2 left) — every hypothesis of `decoder_call_contract` holds; the call
returns `OutputFull` with `read = 0`, `written = 2 ≤ 4` and leaves `BB` pending. -/
section demo
private def vW : Gen.Variant := .singleByte 19 160 32 96
private def dW0 : Decoder (famOfVariant vW) := Decoder.new (famOfVariant vW) .other .sniff
private def dW2 : Decoder (famOfVariant vW) := ⟨.seenUtf8Second, .nominal ()⟩

/-- result, `read`, output, life-cycle state afterwards -/
private def summ {F : Fam} : DRes F → Option (Res × Nat × List Nat × Life)
  | .panic => none
  | .ok res read out d' _ => some (res, read, out, d'.life)

/-- the inner variant-decoder calls -/
private def innerOf {F : Fam} : DRes F → List (List Nat × Res × Nat)
  | .panic => []
  | .ok _ _ _ _ inner => inner

private theorem dadm_of_inner {F : Fam} (k : Sink) (cap : Nat) (r : DRes F)
    (ha : innerAdmissibleB k cap (innerOf r) = true) : DAdmissible k cap r := by
  cases r with
  | panic => trivial
  | ok res read out d' inner => exact (innerAdmissibleB_iff k _ cap).1 ha

set_option maxRecDepth 8192 in
example :
    DReachAt vW .other .sniff dW2 2 ∧ dW2.life ≠ .finished ∧
    DAdmissible .utf8 4 (dW2.rawCall .utf8 [0x41] false (.full 1) .unlimited) ∧
    summ (dW2.rawCall .utf8 [0x41] false (.full 1) .unlimited) =
      some (.outputFull, 0, [0xEF], .convertingWithPendingBB) ∧
    innerOf (dW2.rawCall .utf8 [0x41] false (.full 1) .unlimited) = [([0xEF], .outputFull, 3)] ∧
    (C18.encodeUnits .utf8 [0xEF]).length = 2 := by
  have hi : innerOf (dW2.rawCall .utf8 [0x41] false (.full 1) .unlimited) = [([0xEF], .outputFull, 3)] := by
    decide +kernel
  have ha : innerAdmissibleB .utf8 4 (innerOf (dW2.rawCall .utf8 [0x41] false (.full 1) .unlimited)) = true := by
    rw [hi]; decide
  have hadm : DAdmissible .utf8 4 (dW2.rawCall .utf8 [0x41] false (.full 1) .unlimited) :=
    dadm_of_inner .utf8 4 (dW2.rawCall .utf8 [0x41] false (.full 1) .unlimited) ha
  have hne : dW2.life ≠ .finished := by intro h; cases h
  refine ⟨?_, hne, hadm, by decide +kernel, hi, by decide⟩
  have h1 : dW0.rawCall .utf8 [0xEF, 0xBB] false .unlimited .unlimited = .ok .inputEmpty 2 [] dW2 [] := rfl
  exact DReachAt.call .utf8 dW0 0 [0xEF, 0xBB] false .unlimited .unlimited _ _ _ _ _ DReachAt.new (by decide) h1
end demo

end EncodingRs.Thm.C06Life
