import EncodingRs.Thm.C05
import EncodingRs.Thm.C15Mem
import EncodingRs.Model.Repl
import EncodingRs.Spec.Utf8
/-!
# C05 — the `&mut str` and `String` sinks stay valid UTF-8 in their entirety

`Decoder::decode_to_str*` (lib.rs), `mem::convert_utf16_to_str*` and `mem::convert_latin1_to_str*`
(mem.rs) take a `&mut str`, view it as bytes, run the `&mut [u8]` conversion and then re-establish the
`str` invariant with two loops (`Model.StrSink.zeroTrail`): zero `MAX_STRIDE_SIZE` bytes after `written`
(not in `decode_to_str*` when `self.encoding == UTF_8`), then zero the continuation bytes that follow.

What is proved here, for every valid old contents `old` of the destination:

* `zeroTrail_eq`: the two index loops in closed form — `dst[..written]`, then (if a stride is zeroed)
  `min(MAX_STRIDE_SIZE, rest)` zeros, then the following run of continuation bytes zeroed, then the
  untouched rest;
* `boundary_after_continuations` / `skipConts_drop_wf`: in valid UTF-8, the first byte at or after any
  position that is not a continuation byte starts a character: the rest from there is valid;
* `str_sink_valid` (stride zeroed) and `str_sink_valid_no_stride`: the whole destination is valid
  afterwards, under the **stride-garbage hypothesis** — beyond `written` the conversion modified at most
  the window `[written, written + MAX_STRIDE_SIZE)` (resp. nothing at all, for the no-stride form);
* corollaries named after the functions; for the `mem` functions also `…_valid_default` about the
  memory-level model of the default kernels, where the hypothesis is discharged (`Thm/C15Mem.lean`);
* `string_sink_valid`, `decode_to_string*_valid`: `set_len(old_len + written)` over spare capacity.

## The stride-garbage hypothesis

It is an explicit assumption about the conversion kernels, not a theorem:

* default build: the ALU kernels of `ascii.rs` store exactly the units they count; nothing beyond
  `written` is modified (proved for the models of the two `mem` conversions in `Thm/C15Mem.lean`,
  observed for the decoders by the driver operation `zerotail`);
* `simd-accel` build: `simd_funcs.rs` stores a whole stride of `STRIDE = MAX_STRIDE_SIZE = 16` bytes and
  *then* validates it (`ascii_to_ascii_stride`, `basic_latin_to_ascii_stride`; the `*_double_stride`
  forms store the second stride only after the first one validated).  A stride that turns out to
  contain a non-ASCII unit at offset `k` starts at `written_then - k` where `written_then ≤ written` is
  the count at that moment, so its garbage ends before `written + 16`.  That is the design the zeroing
  relies on; it is not modelled, hence a hypothesis.
* why `decode_to_str*` needs no stride zeroing for the UTF-8 decoder: `Utf8Decoder` writes through
  `Utf8Destination::copy_utf8_up_to_invalid_from`, which validates first (`utf8_valid_up_to`) and then
  copies exactly the valid length (`copy_from_slice`), and through the `write_*` functions of
  handles.rs, which store only counted bytes — no stride kernel is involved.  `self.encoding` is read
  after the conversion and equals the encoding of the variant decoder that did all the writing of the
  call (before a BOM decision nothing is written).  Recorded as the hypothesis `hexact` /
  `isUtf8 = true` and checked on the real code by `zerotail`.

The hypotheses about `buf` (`hpre`: it starts with the model's output; `hfit`: `written ≤ dst.len()`)
are what the correspondence runs `dec` / `mem` / `zerotail` check on every generated call.
-/
namespace EncodingRs.Thm.C05Str
open EncodingRs EncodingRs.Model EncodingRs.Model.StrSink EncodingRs.Lemmas.Scalar EncodingRs.Thm.C05

/-- valid UTF-8: a concatenation of whole well-formed sequences (Unicode Table 3-7), as in `Thm/C05.lean` -/
abbrev Wf (l : List Nat) : Prop := WfConcat WfUtf8Seq l

/-! ## the loops of `zeroTrail` in closed form -/

/-- the continuation-byte loop on the tail `bytes[trail..]` -/
def zeroConts : List Nat → List Nat
  | [] => []
  | b :: t => if isContByte b then 0 :: zeroConts t else b :: t

/-- the tail from the first byte on that is not a continuation byte -/
def skipConts : List Nat → List Nat
  | [] => []
  | b :: t => if isContByte b then skipConts t else b :: t

/-- what the two loops make of `bytes[written..]`; `n` = `MAX_STRIDE_SIZE` -/
def zeroTailN (stride : Bool) (n : Nat) (t : List Nat) : List Nat :=
  if stride then List.replicate (min n t.length) 0 ++ zeroConts (t.drop n) else zeroConts t

theorem set_take_succ (dst : List Nat) (off b : Nat) (h : off < dst.length) :
    (dst.set off b).take (off + 1) = dst.take off ++ [b] := C15Mem.set_take_succ dst off b h

theorem contLoop_eq : ∀ (fuel : Nat) (bytes : List Nat) (trail : Nat), bytes.length - trail ≤ fuel →
    contLoop fuel bytes trail = bytes.take trail ++ zeroConts (bytes.drop trail) := by
  intro fuel
  induction fuel with
  | zero =>
    intro bytes trail h
    rw [contLoop, List.drop_eq_nil_of_le (by omega), List.take_of_length_le (by omega)]; simp [zeroConts]
  | succ fuel ih =>
    intro bytes trail h
    rw [contLoop]
    by_cases hlt : trail < bytes.length
    · rw [List.drop_eq_getElem_cons hlt, zeroConts]
      have hg : bytes.getD trail 0 = bytes[trail] := by simp [List.getD, List.getElem?_eq_getElem hlt]
      rw [hg]
      by_cases hc : isContByte bytes[trail] = true
      · simp only [hlt, hc, decide_true, Bool.and_self, if_true]
        rw [ih _ _ (by rw [List.length_set]; omega), set_take_succ _ _ _ hlt, List.drop_set, if_pos (by omega)]
        simp
      · simp only [hc, Bool.and_false, Bool.false_eq_true, if_false]
        rw [← List.drop_eq_getElem_cons hlt, List.take_append_drop]
    · simp only [hlt, decide_false, Bool.false_and, Bool.false_eq_true, if_false]
      rw [List.drop_eq_nil_of_le (by omega), List.take_of_length_le (by omega)]; simp [zeroConts]

theorem zeroLoop_eq : ∀ (fuel : Nat) (bytes : List Nat) (trail max : Nat), trail ≤ max → max ≤ bytes.length →
    max - trail ≤ fuel →
    zeroLoop fuel bytes trail max = (bytes.take trail ++ List.replicate (max - trail) 0 ++ bytes.drop max, max) := by
  intro fuel
  induction fuel with
  | zero =>
    intro bytes trail max h1 h2 h3
    have : trail = max := by omega
    subst this
    simp [zeroLoop]
  | succ fuel ih =>
    intro bytes trail max h1 h2 h3
    rw [zeroLoop]
    by_cases hlt : trail < max
    · rw [if_pos hlt, ih _ _ _ (by omega) (by rw [List.length_set]; exact h2) (by omega),
        set_take_succ _ _ _ (by omega), List.drop_set, if_pos hlt]
      have : max - trail = (max - (trail + 1)) + 1 := by omega
      rw [this, List.replicate_succ]
      simp
    · have : trail = max := by omega
      subst this
      simp

theorem zeroTrail_eq (stride : Bool) (buf : List Nat) (written : Nat) (h : written ≤ buf.length) :
    zeroTrail stride buf written = buf.take written ++ zeroTailN stride Gen.maxStrideSize (buf.drop written) := by
  unfold zeroTrail zeroTailN
  generalize Gen.maxStrideSize = n
  cases stride with
  | false =>
    simp only [Bool.false_eq_true, if_false]
    exact contLoop_eq _ _ _ (by omega)
  | true =>
    simp only [if_true]
    rw [zeroLoop_eq _ _ _ _ (by omega) (by omega) (by omega)]
    simp only []
    generalize hm : min buf.length (written + n) = m
    have hm1 : written ≤ m := by omega
    have hm2 : m ≤ buf.length := by omega
    have hl : (buf.take written ++ List.replicate (m - written) 0).length = m := by
      simp only [List.length_append, List.length_take, List.length_replicate]; omega
    rw [contLoop_eq _ _ _ (by simp; omega), List.take_left' hl, List.drop_left' hl, List.append_assoc]
    congr 1
    have h1 : m - written = min n (buf.drop written).length := by
      rw [List.length_drop]; omega
    rw [h1]
    congr 2
    rw [List.drop_drop]
    by_cases hc : written + n ≤ buf.length
    · have : m = written + n := by omega
      rw [this]
    · have : m = buf.length := by omega
      rw [this, List.drop_eq_nil_of_le (Nat.le_refl _), List.drop_eq_nil_of_le (by omega)]

/-! ## continuation bytes and character boundaries -/

/-- on bytes, `(b & 0xC0) == 0x80` is the range `80..BF` -/
theorem isContByte_iff : ∀ b, b < 256 → (isContByte b = true ↔ (0x80 ≤ b ∧ b ≤ 0xBF)) := by
  decide +kernel

theorem zeroConts_eq (t : List Nat) :
    zeroConts t = List.replicate (t.length - (skipConts t).length) 0 ++ skipConts t := by
  induction t with
  | nil => simp [zeroConts, skipConts]
  | cons b t ih =>
    rw [zeroConts, skipConts]
    by_cases hc : isContByte b = true
    · simp only [hc, if_true]
      have hle : (skipConts t).length ≤ t.length := by
        have := congrArg List.length ih
        simp only [List.length_append, List.length_replicate] at this
        have h2 : (zeroConts t).length = t.length := by
          clear ih this
          induction t with
          | nil => rfl
          | cons c t ih2 => rw [zeroConts]; split <;> simp [ih2]
        omega
      rw [ih, List.length_cons, show t.length + 1 - (skipConts t).length = (t.length - (skipConts t).length) + 1 by omega,
        List.replicate_succ, List.cons_append]
    · simp only [hc, Bool.false_eq_true, if_false]; simp

theorem skipConts_append (cs rest : List Nat) (h : ∀ b ∈ cs, isContByte b = true) :
    skipConts (cs ++ rest) = skipConts rest := by
  induction cs with
  | nil => rfl
  | cons c cs ih =>
    rw [List.cons_append, skipConts, if_pos (h c List.mem_cons_self)]
    exact ih (fun b hb => h b (List.mem_cons_of_mem _ hb))

/-- a well-formed sequence is a byte that is not a continuation byte followed by continuation bytes only -/
theorem seq_shape (seq : List Nat) (h : WfUtf8Seq seq) :
    ∃ a t, seq = a :: t ∧ isContByte a = false ∧ ∀ b ∈ t, isContByte b = true := by
  have nc : ∀ a, a < 256 → ¬ (0x80 ≤ a ∧ a ≤ 0xBF) → isContByte a = false := by
    intro a ha hn
    cases hc : isContByte a with
    | false => rfl
    | true => exact absurd ((isContByte_iff a ha).mp hc) hn
  have ic : ∀ a, 0x80 ≤ a → a ≤ 0xBF → isContByte a = true := fun a h1 h2 => (isContByte_iff a (by omega)).mpr ⟨h1, h2⟩
  match seq, h with
  | [a], h =>
    simp only [WfUtf8Seq] at h
    exact ⟨a, [], rfl, nc a (by omega) (by omega), by simp⟩
  | [a, b], h =>
    simp only [WfUtf8Seq] at h
    refine ⟨a, [b], rfl, nc a (by omega) (by omega), ?_⟩
    intro x hx; simp only [List.mem_singleton] at hx; subst hx; exact ic x (by omega) (by omega)
  | [a, b, c], h =>
    simp only [WfUtf8Seq] at h
    refine ⟨a, [b, c], rfl, nc a (by omega) (by omega), ?_⟩
    intro x hx
    simp only [List.mem_cons, List.not_mem_nil, or_false] at hx
    rcases hx with hx | hx <;> subst hx <;> exact ic x (by omega) (by omega)
  | [a, b, c, d], h =>
    simp only [WfUtf8Seq] at h
    refine ⟨a, [b, c, d], rfl, nc a (by omega) (by omega), ?_⟩
    intro x hx
    simp only [List.mem_cons, List.not_mem_nil, or_false] at hx
    rcases hx with hx | hx | hx <;> subst hx <;> exact ic x (by omega) (by omega)

/-- **the character boundary after a run of continuation bytes**: in valid UTF-8, from any position,
skipping the continuation bytes that follow leads to a character boundary — what remains is valid -/
theorem skipConts_drop_wf (old : List Nat) (hold : Wf old) : ∀ p, Wf (skipConts (old.drop p)) := by
  induction hold with
  | nil => intro p; simp only [List.drop_nil, skipConts]; exact .nil
  | cons seq rest hs hrest ih =>
    intro p
    obtain ⟨a, t, rfl, ha, ht⟩ := seq_shape seq hs
    cases p with
    | zero =>
      rw [List.drop_zero, List.cons_append, skipConts, if_neg (by simp [ha]), ← List.cons_append]
      exact .cons _ _ hs hrest
    | succ p =>
      rw [List.cons_append, List.drop_succ_cons, List.drop_append,
        skipConts_append _ _ (fun b hb => ht b (List.mem_of_mem_drop hb))]
      exact ih _

theorem skipConts_eq_drop : ∀ (t : List Nat) (k : Nat), k ≤ t.length →
    (∀ i, i < k → ∃ b, t[i]? = some b ∧ isContByte b = true) →
    (k = t.length ∨ ∃ b, t[k]? = some b ∧ isContByte b = false) → skipConts t = t.drop k := by
  intro t
  induction t with
  | nil => intro k hk _ _; simp at hk; subst hk; rfl
  | cons c t ih =>
    intro k hk hc hs
    cases k with
    | zero =>
      rcases hs with hs | ⟨b, hb, hnb⟩
      · simp at hs
      · simp only [List.getElem?_cons_zero, Option.some.injEq] at hb
        subst hb
        rw [skipConts, if_neg (by simp [hnb]), List.drop_zero]
    | succ k =>
      obtain ⟨b, hb, hcb⟩ := hc 0 (by omega)
      simp only [List.getElem?_cons_zero, Option.some.injEq] at hb
      subst hb
      rw [skipConts, if_pos hcb, List.drop_succ_cons]
      refine ih k (by simpa using hk) (fun i hi => ?_) ?_
      · have := hc (i + 1) (by omega)
        simpa using this
      · rcases hs with hs | hs
        · left; simpa using hs
        · right; simpa using hs

/-- **`boundary_after_continuations`**: `old` valid UTF-8, `p ≤ q ≤ old.len()`, every byte in `[p, q)` is
a continuation byte and `q` is the end or holds a byte that is not one (i.e. `q` is where the loop
`while trail < len && (bytes[trail] & 0xC0) == 0x80` started at `p` stops): then `old[q..]` is valid
UTF-8 — `q` is a character boundary. -/
theorem boundary_after_continuations (old : List Nat) (hold : Wf old) (p q : Nat) (hpq : p ≤ q) (hq : q ≤ old.length)
    (hconts : ∀ i, p ≤ i → i < q → ∃ b, old[i]? = some b ∧ isContByte b = true)
    (hstop : q = old.length ∨ ∃ b, old[q]? = some b ∧ isContByte b = false) :
    Wf (old.drop q) := by
  have h := skipConts_drop_wf old hold p
  rw [skipConts_eq_drop (old.drop p) (q - p) (by rw [List.length_drop]; omega) ?_ ?_, List.drop_drop] at h
  · rwa [show p + (q - p) = q by omega] at h
  · intro i hi
    obtain ⟨b, hb, hc⟩ := hconts (p + i) (by omega) (by omega)
    exact ⟨b, by rw [List.getElem?_drop]; exact hb, hc⟩
  · rcases hstop with hs | ⟨b, hb, hc⟩
    · left; rw [List.length_drop]; omega
    · right; exact ⟨b, by rw [List.getElem?_drop, show p + (q - p) = q by omega]; exact hb, hc⟩

/-- the zeroed continuation run followed by the rest of a valid string from any position on is valid -/
theorem zeroConts_drop_wf (old : List Nat) (hold : Wf old) (p : Nat) : Wf (zeroConts (old.drop p)) := by
  rw [zeroConts_eq]
  exact wf_append (zeros_wf _) (skipConts_drop_wf old hold p)

/-! ## the whole destination is valid afterwards -/

/-- General form (`n` = size of the window the kernels may have clobbered, zeroed iff `stride`):
`old` valid, the written prefix `w` valid, the destination `buf` after the conversion starts with `w`,
has the old length and agrees with `old` from `w.len() + (if stride then n else 0)` on. -/
theorem zeroTail_valid (stride : Bool) (n : Nat) (old w buf : List Nat) (hold : Wf old) (hw : Wf w)
    (hpre : buf.take w.length = w)
    (hrest : buf.drop (w.length + (if stride then n else 0)) = old.drop (w.length + (if stride then n else 0))) :
    Wf (buf.take w.length ++ zeroTailN stride n (buf.drop w.length)) := by
  rw [hpre]
  refine wf_append hw ?_
  unfold zeroTailN
  cases stride with
  | false =>
    simp only [Bool.false_eq_true, if_false, Nat.add_zero] at hrest ⊢
    rw [hrest]; exact zeroConts_drop_wf old hold _
  | true =>
    simp only [if_true] at hrest ⊢
    rw [List.drop_drop, hrest]
    exact wf_append (zeros_wf _) (zeroConts_drop_wf old hold _)

/-- **`str_sink_valid`** (the functions that zero a stride: `mem::convert_*_to_str_partial`, and
`Decoder::decode_to_str*` of every decoder but UTF-8).

* `old`: the destination's contents before the call — valid UTF-8 (it is a `&mut str`);
* `w`: the bytes the conversion reports as written — valid UTF-8, `w.len() ≤ dst.len()`;
* `buf`: the destination when the conversion returns: same length, starts with `w`;
* **stride-garbage hypothesis** `hgarbage`: beyond `written`, `buf` differs from `old` at most inside the
  window `[written, written + MAX_STRIDE_SIZE)`.  This is an assumption about the conversion kernels: it
  holds trivially for the default ALU kernels, which modify nothing beyond `written`
  (`convert_utf16_to_str_partial_valid_default`), and it is what the accelerated kernels are designed to
  satisfy (a stride store is at most `MAX_STRIDE_SIZE` bytes and starts at or before `written`).

Then the destination after the two zeroing loops is valid UTF-8 in its entirety. -/
theorem str_sink_valid (old w buf : List Nat) (hold : Wf old) (hw : Wf w) (hlen : buf.length = old.length)
    (hfit : w.length ≤ old.length) (hpre : buf.take w.length = w)
    (hgarbage : ∀ i, w.length + Gen.maxStrideSize ≤ i → buf[i]? = old[i]?) :
    Wf (zeroTrail true buf w.length) := by
  rw [zeroTrail_eq true buf w.length (by omega)]
  refine zeroTail_valid true Gen.maxStrideSize old w buf hold hw hpre ?_
  simp only [if_true]
  apply List.ext_getElem?
  intro i
  rw [List.getElem?_drop, List.getElem?_drop]
  exact hgarbage _ (by omega)

/-- **`str_sink_valid`, no stride zeroing** (`Decoder::decode_to_str*` when `self.encoding == UTF_8`):
under the stronger hypothesis that the conversion modified nothing beyond `written`, the
continuation-byte loop alone leaves the destination valid. -/
theorem str_sink_valid_no_stride (old w buf : List Nat) (hold : Wf old) (hw : Wf w) (hlen : buf.length = old.length)
    (hfit : w.length ≤ old.length) (hpre : buf.take w.length = w)
    (hexact : ∀ i, w.length ≤ i → buf[i]? = old[i]?) :
    Wf (zeroTrail false buf w.length) := by
  rw [zeroTrail_eq false buf w.length (by omega)]
  refine zeroTail_valid false Gen.maxStrideSize old w buf hold hw hpre ?_
  simp only [Bool.false_eq_true, if_false, Nat.add_zero]
  apply List.ext_getElem?
  intro i
  rw [List.getElem?_drop, List.getElem?_drop]
  exact hexact _ (by omega)

/-- the zeroing leaves `dst[..written]` and the length alone (so the return values stay truthful) -/
theorem zeroTrail_prefix (stride : Bool) (buf : List Nat) (written : Nat) (h : written ≤ buf.length) :
    (zeroTrail stride buf written).take written = buf.take written := by
  rw [zeroTrail_eq stride buf written h]
  have : (buf.take written).length = written := by rw [List.length_take]; omega
  rw [List.take_left' this]

theorem zeroConts_length (t : List Nat) : (zeroConts t).length = t.length := by
  induction t with
  | nil => rfl
  | cons c t ih => rw [zeroConts]; split <;> simp [ih]

theorem zeroTrail_length (stride : Bool) (buf : List Nat) (written : Nat) (h : written ≤ buf.length) :
    (zeroTrail stride buf written).length = buf.length := by
  rw [zeroTrail_eq stride buf written h]
  unfold zeroTailN
  cases stride <;>
    simp only [Bool.false_eq_true, if_false, if_true, List.length_append, List.length_take, List.length_replicate,
      zeroConts_length, List.length_drop] <;> omega

/-- **what the accelerated kernels leave in the window does not matter**: two destinations that agree
on `[..written]` and from `written + MAX_STRIDE_SIZE` on are indistinguishable after the zeroing — the
reason the driver operation `zerotail` can compare the real destination of the `simd-accel` build with
the model of the default kernels -/
theorem zeroTrail_window_irrelevant (buf₁ buf₂ : List Nat) (written : Nat) (h1 : written ≤ buf₁.length)
    (hlen : buf₁.length = buf₂.length) (hpre : buf₁.take written = buf₂.take written)
    (hrest : buf₁.drop (written + Gen.maxStrideSize) = buf₂.drop (written + Gen.maxStrideSize)) :
    zeroTrail true buf₁ written = zeroTrail true buf₂ written := by
  rw [zeroTrail_eq true buf₁ written h1, zeroTrail_eq true buf₂ written (by omega), hpre]
  unfold zeroTailN
  simp only [if_true, List.drop_drop, hrest, List.length_drop, hlen]

/-! ## what the conversions write is valid UTF-8 -/

theorem utf8EncodeAll_eq (cs : List Nat) : Spec.Conv.utf8EncodeAll cs = cs.flatMap encodeUtf8 := by
  induction cs with
  | nil => rfl
  | cons c cs ih => rw [Spec.Conv.utf8EncodeAll, ih, List.flatMap_cons]; rfl

theorem decodeUtf16Lossy_scalar (n : Nat) : ∀ src : List Nat, src.length ≤ n → (∀ u ∈ src, u < 65536) →
    ∀ c ∈ Spec.Conv.decodeUtf16Lossy src, isScalar c = true := by
  induction n with
  | zero =>
    intro src hn _ c hc
    have : src = [] := List.eq_nil_of_length_eq_zero (by omega)
    subst this; simp [Spec.Conv.decodeUtf16Lossy] at hc
  | succ n ih =>
    intro src hn h16 c hc
    cases src with
    | nil => simp [Spec.Conv.decodeUtf16Lossy] at hc
    | cons u rest =>
      have hu := h16 u List.mem_cons_self
      have h16r : ∀ x ∈ rest, x < 65536 := fun x hx => h16 x (List.mem_cons_of_mem _ hx)
      simp only [List.length_cons] at hn
      have hrepl : isScalar Spec.Conv.replacement = true := by decide
      rw [Spec.Conv.decodeUtf16Lossy.eq_def] at hc
      simp only [] at hc
      split at hc
      · rename_i hh
        cases rest with
        | nil => simp only [List.mem_singleton] at hc; subst hc; exact hrepl
        | cons l rest' =>
          simp only [] at hc
          split at hc
          · rename_i hl
            simp only [List.mem_cons] at hc
            rcases hc with hc | hc
            · have := Lemmas.Mem.pairValue_range u l hh hl
              rw [hc, isScalar_iff]; omega
            · exact ih rest' (by simp at hn; omega) (fun x hx => h16r x (List.mem_cons_of_mem _ hx)) c hc
          · simp only [List.mem_cons] at hc
            rcases hc with hc | hc
            · subst hc; exact hrepl
            · exact ih (l :: rest') (by omega) h16r c hc
      · split at hc
        · simp only [List.mem_cons] at hc
          rcases hc with hc | hc
          · subst hc; exact hrepl
          · exact ih rest (by omega) h16r c hc
        · rename_i hh hl
          simp only [List.mem_cons] at hc
          rcases hc with hc | hc
          · subst hc
            simp only [Spec.Conv.isHighSurrogate, Spec.Conv.isLowSurrogate, Bool.and_eq_true, decide_eq_true_eq] at hh hl
            rw [isScalar_iff]; omega
          · exact ih rest (by omega) h16r c hc

/-- the bytes `convert_utf16_to_utf8_partial` / `convert_utf16_to_str_partial` report as written are valid UTF-8 -/
theorem convert_utf16_written_wf (src : List Nat) (cap : Nat) (h16 : ∀ u ∈ src, u < 65536) :
    Wf (Mem.convertUtf16ToUtf8Partial src cap).2 := by
  rw [(C15.convert_utf16_to_utf8_partial_spec src cap h16).2.2.1, utf8EncodeAll_eq]
  exact flatMap_wf WfUtf8Seq encodeUtf8 encodeUtf8_wf _
    (decodeUtf16Lossy_scalar _ _ (Nat.le_refl _) (fun u hu => h16 u (List.mem_of_mem_take hu)))

theorem convert_latin1_written_wf (src : List Nat) (cap : Nat) (h8 : ∀ b ∈ src, b < 256) :
    Wf (Mem.convertLatin1ToUtf8Partial src cap).2 := by
  rw [(C15.convert_latin1_to_utf8_partial_spec src cap h8).2.2.1, utf8EncodeAll_eq]
  refine flatMap_wf WfUtf8Seq encodeUtf8 encodeUtf8_wf _ (fun c hc => ?_)
  have := h8 c (List.mem_of_mem_take hc)
  rw [isScalar_iff]; omega

/-! ## corollaries named after the functions: `mem`

General form: any kernels, under the stride-garbage hypothesis.  `_default` form: the memory-level model
of the default kernels (`Model/StrSink.lean`), no hypothesis about the kernels left. -/

/-- **`mem::convert_utf16_to_str_partial`**: `old` = the `&mut str` before the call (valid), `buf` = the
destination when `convert_utf16_to_utf8_partial` returns (its first `written` bytes are the model's, the
rest differs from `old` at most in the stride window): the `&mut str` is valid UTF-8 in its entirety
when the function returns. -/
theorem convert_utf16_to_str_partial_valid (src old buf : List Nat) (h16 : ∀ u ∈ src, u < 65536) (hold : Wf old)
    (hlen : buf.length = old.length)
    (hpre : buf.take (Mem.convertUtf16ToStrPartial src old.length).2.length = (Mem.convertUtf16ToStrPartial src old.length).2)
    (hgarbage : ∀ i, (Mem.convertUtf16ToStrPartial src old.length).2.length + Gen.maxStrideSize ≤ i → buf[i]? = old[i]?) :
    Wf (zeroTrail true buf (Mem.convertUtf16ToStrPartial src old.length).2.length) :=
  str_sink_valid old _ buf hold (convert_utf16_written_wf src old.length h16) hlen
    (C15.convert_utf16_to_utf8_partial_spec src old.length h16).2.1 hpre hgarbage

/-- **`mem::convert_latin1_to_str_partial`** -/
theorem convert_latin1_to_str_partial_valid (src old buf : List Nat) (h8 : ∀ b ∈ src, b < 256) (hold : Wf old)
    (hlen : buf.length = old.length)
    (hpre : buf.take (Mem.convertLatin1ToStrPartial src old.length).2.length = (Mem.convertLatin1ToStrPartial src old.length).2)
    (hgarbage : ∀ i, (Mem.convertLatin1ToStrPartial src old.length).2.length + Gen.maxStrideSize ≤ i → buf[i]? = old[i]?) :
    Wf (zeroTrail true buf (Mem.convertLatin1ToStrPartial src old.length).2.length) :=
  str_sink_valid old _ buf hold (convert_latin1_written_wf src old.length h8) hlen
    (C15.convert_latin1_to_utf8_partial_spec src old.length h8).2.1 hpre hgarbage

/-- **`mem::convert_utf16_to_str_partial`, default kernels, end to end**: for every source and every valid
old contents, the memory-level function returns the counts of the pure model, `dst[..written]` is the
model's output, the length is unchanged and the whole destination is valid UTF-8 afterwards. -/
theorem convert_utf16_to_str_partial_valid_default (src old : List Nat) (h16 : ∀ u ∈ src, u < 65536) (hold : Wf old) :
    (convertUtf16ToStrPartialMem src old).1 = (Mem.convertUtf16ToStrPartial src old.length).1 ∧
    (convertUtf16ToStrPartialMem src old).2.1 = (Mem.convertUtf16ToStrPartial src old.length).2.length ∧
    (convertUtf16ToStrPartialMem src old).2.2.take (convertUtf16ToStrPartialMem src old).2.1
      = (Mem.convertUtf16ToStrPartial src old.length).2 ∧
    (convertUtf16ToStrPartialMem src old).2.2.length = old.length ∧
    Wf (convertUtf16ToStrPartialMem src old).2.2 := by
  have hle := (C15.convert_utf16_to_utf8_partial_spec src old.length h16).2.1
  unfold convertUtf16ToStrPartialMem
  simp only [C15Mem.convert_utf16_to_utf8_partial_mem src old h16]
  have hsl := C15Mem.store_length old _ hle
  refine ⟨rfl, rfl, ?_, ?_, ?_⟩
  · rw [zeroTrail_prefix _ _ _ (by rw [hsl]; exact hle)]; exact C15Mem.store_take _ _
  · rw [zeroTrail_length _ _ _ (by rw [hsl]; exact hle)]; exact hsl
  · exact convert_utf16_to_str_partial_valid src old _ h16 hold hsl (C15Mem.store_take _ _)
      (fun i hi => C15Mem.store_beyond _ _ i
        (by have : (Mem.convertUtf16ToUtf8Partial src old.length).2.length + Gen.maxStrideSize ≤ i := hi; omega))

/-- **`mem::convert_latin1_to_str_partial`, default kernels, end to end** -/
theorem convert_latin1_to_str_partial_valid_default (src old : List Nat) (h8 : ∀ b ∈ src, b < 256) (hold : Wf old) :
    (convertLatin1ToStrPartialMem src old).1 = (Mem.convertLatin1ToStrPartial src old.length).1 ∧
    (convertLatin1ToStrPartialMem src old).2.1 = (Mem.convertLatin1ToStrPartial src old.length).2.length ∧
    (convertLatin1ToStrPartialMem src old).2.2.take (convertLatin1ToStrPartialMem src old).2.1
      = (Mem.convertLatin1ToStrPartial src old.length).2 ∧
    (convertLatin1ToStrPartialMem src old).2.2.length = old.length ∧
    Wf (convertLatin1ToStrPartialMem src old).2.2 := by
  have hle := (C15.convert_latin1_to_utf8_partial_spec src old.length h8).2.1
  unfold convertLatin1ToStrPartialMem
  simp only [C15Mem.convert_latin1_to_utf8_partial_mem src old]
  have hsl := C15Mem.store_length old _ hle
  refine ⟨rfl, rfl, ?_, ?_, ?_⟩
  · rw [zeroTrail_prefix _ _ _ (by rw [hsl]; exact hle)]; exact C15Mem.store_take _ _
  · rw [zeroTrail_length _ _ _ (by rw [hsl]; exact hle)]; exact hsl
  · exact convert_latin1_to_str_partial_valid src old _ h8 hold hsl (C15Mem.store_take _ _)
      (fun i hi => C15Mem.store_beyond _ _ i
        (by have : (Mem.convertLatin1ToUtf8Partial src old.length).2.length + Gen.maxStrideSize ≤ i := hi; omega))

/-- **`mem::convert_utf16_to_str`** (non-partial wrapper, default kernels): when it returns, the whole
destination is valid UTF-8 and the returned count is that of `Model.Mem.convertUtf16ToStr` -/
theorem convert_utf16_to_str_valid (src old : List Nat) (h16 : ∀ u ∈ src, u < 65536) (hold : Wf old)
    (written : Nat) (dst : List Nat) (h : convertUtf16ToStrMem src old = .ok (written, dst)) :
    Wf dst ∧ dst.length = old.length ∧ Mem.convertUtf16ToStr src old.length = .ok (dst.take written) := by
  obtain ⟨h1, h2, h3, h4, h5⟩ := convert_utf16_to_str_partial_valid_default src old h16 hold
  unfold convertUtf16ToStrMem at h
  unfold Mem.convertUtf16ToStr Mem.convertUtf16ToUtf8
  split at h
  · cases h
  · rename_i hc
    simp only [] at h
    split at h
    · rename_i hr
      simp only [Mem.Res.ok.injEq] at h
      rw [h1] at hr
      have hw : written = (convertUtf16ToStrPartialMem src old).2.1 := by rw [h]
      have hd : dst = (convertUtf16ToStrPartialMem src old).2.2 := by rw [h]
      subst hw; subst hd
      refine ⟨h5, h4, ?_⟩
      change (Mem.convertUtf16ToUtf8Partial src old.length).1 = src.length at hr
      rw [if_neg hc, if_pos hr, h3]; rfl
    · cases h

/-- **`mem::convert_latin1_to_str`** (non-partial wrapper, default kernels) -/
theorem convert_latin1_to_str_valid (src old : List Nat) (h8 : ∀ b ∈ src, b < 256) (hold : Wf old)
    (written : Nat) (dst : List Nat) (h : convertLatin1ToStrMem src old = .ok (written, dst)) :
    Wf dst ∧ dst.length = old.length ∧ Mem.convertLatin1ToStr src old.length = .ok (dst.take written) := by
  obtain ⟨h1, h2, h3, h4, h5⟩ := convert_latin1_to_str_partial_valid_default src old h8 hold
  unfold convertLatin1ToStrMem at h
  unfold Mem.convertLatin1ToStr Mem.convertLatin1ToUtf8
  split at h
  · cases h
  · rename_i hc
    simp only [] at h
    split at h
    · rename_i hr
      simp only [Mem.Res.ok.injEq] at h
      rw [h1] at hr
      have hw : written = (convertLatin1ToStrPartialMem src old).2.1 := by rw [h]
      have hd : dst = (convertLatin1ToStrPartialMem src old).2.2 := by rw [h]
      subst hw; subst hd
      refine ⟨h5, h4, ?_⟩
      change (Mem.convertLatin1ToUtf8Partial src old.length).1 = src.length at hr
      rw [if_neg hc, if_pos hr, h3]; rfl
    · cases h

/-! ## corollaries named after the functions: `Decoder::decode_to_str*`, `decode_to_string*` -/

/-- the finishing step of `decode_to_str*` for either value of `self.encoding == UTF_8`: what the
conversion may have modified beyond `written` lies inside a window of `MAX_STRIDE_SIZE` bytes (non-UTF-8
decoders) resp. is nothing at all (UTF-8 decoder) -/
theorem decode_to_str_finish_valid (isUtf8 : Bool) (old w buf : List Nat) (hold : Wf old) (hw : Wf w)
    (hlen : buf.length = old.length) (hfit : w.length ≤ old.length) (hpre : buf.take w.length = w)
    (hmod : ∀ i, w.length + (if isUtf8 then 0 else Gen.maxStrideSize) ≤ i → buf[i]? = old[i]?) :
    Wf (decodeToStrFinish isUtf8 buf w.length) := by
  unfold decodeToStrFinish
  cases isUtf8 with
  | true => exact str_sink_valid_no_stride old w buf hold hw hlen hfit hpre (by simpa using hmod)
  | false => exact str_sink_valid old w buf hold hw hlen hfit hpre (by simpa using hmod)

/-- **`Decoder::decode_to_str_without_replacement`** (variant level: one raw call of the decoder of
encoding variant `v` from a state satisfying the C05 invariant, any stop policy `budget`).
`old`: the `&mut str` before the call; `buf`: the destination when `decode_to_utf8_without_replacement`
returns — it starts with the bytes the model call writes (correspondence `dec`), `written ≤ dst.len()`
(admissibility), and beyond `written` it differs from `old` at most inside the stride window — not at
all for the UTF-8 decoder (`isUtf8 = true`, i.e. `self.encoding == UTF_8`).  Then the `&mut str` is
valid UTF-8 in its entirety when the method returns. -/
theorem decode_to_str_without_replacement_valid (v : Gen.Variant) (s : (famOfVariant v).σ) (src : List Nat)
    (last : Bool) (budget : Budget) (hi : (variantScalar v).Inv s) (hb : ∀ b ∈ src, b < 256)
    (isUtf8 : Bool) (old buf : List Nat) (hold : Wf old) (hlen : buf.length = old.length)
    (hfit : ((call (famOfVariant v) .utf8 s src last budget).out.flatMap encodeUtf8).length ≤ old.length)
    (hpre : buf.take ((call (famOfVariant v) .utf8 s src last budget).out.flatMap encodeUtf8).length
      = (call (famOfVariant v) .utf8 s src last budget).out.flatMap encodeUtf8)
    (hmod : ∀ i, ((call (famOfVariant v) .utf8 s src last budget).out.flatMap encodeUtf8).length
      + (if isUtf8 then 0 else Gen.maxStrideSize) ≤ i → buf[i]? = old[i]?) :
    Wf (decodeToStrFinish isUtf8 buf ((call (famOfVariant v) .utf8 s src last budget).out.flatMap encodeUtf8).length) :=
  decode_to_str_finish_valid isUtf8 old _ buf hold (written_wellformed_utf8 v s src last budget hi hb).2 hlen hfit hpre hmod

/-- the with-replacement loop writes scalar values only (U+FFFD included) and keeps the invariant -/
theorem replLoop_scalar (v : Gen.Variant) (last : Bool) :
    ∀ (fuel : Nat) (s : (famOfVariant v).σ) (src : List Nat) (budgets : List Budget) (t : ReplRes (famOfVariant v).σ),
      (variantScalar v).Inv s → (∀ b ∈ src, b < 256) →
      replLoop (famOfVariant v) .utf8 last fuel s src budgets = some t →
      (variantScalar v).Inv t.st ∧ ∀ c ∈ t.out, isScalar c = true := by
  intro fuel
  induction fuel with
  | zero => intro s src budgets t _ _ h; simp [replLoop] at h
  | succ fuel ih =>
    intro s src budgets t hi hb h
    rw [replLoop] at h
    have hc := call_scalar (famOfVariant v) .utf8 (Lemmas.FamLaws.famOfVariant_laws v) (variantScalar v) s src last
      (budgets.headD .unlimited) hi hb
    generalize call (famOfVariant v) .utf8 s src last (budgets.headD .unlimited) = r at h hc
    unfold replStep at h
    cases hres : r.res with
    | malformed l a =>
      simp only [hres] at h
      cases hrec : replLoop (famOfVariant v) .utf8 last fuel r.st (src.drop r.read) budgets.tail with
      | none => rw [hrec] at h; cases h
      | some t' =>
        rw [hrec] at h; simp only [Option.some.injEq] at h; subst h
        have := ih r.st (src.drop r.read) budgets.tail t' hc.1 (fun b hb' => hb b (List.mem_of_mem_drop hb')) hrec
        refine ⟨this.1, ?_⟩
        intro c hcm
        simp only [List.mem_append, List.mem_cons] at hcm
        rcases hcm with hcm | hcm | hcm
        · exact hc.2 c hcm
        · subst hcm; decide
        · exact this.2 c hcm
    | inputEmpty => simp only [hres, Option.some.injEq] at h; subst h; exact hc
    | outputFull => simp only [hres, Option.some.injEq] at h; subst h; exact hc

/-- **`Decoder::decode_to_str`** (with replacement; variant level: the loop `replLoop` around the raw
calls, any stop policies): as `decode_to_str_without_replacement_valid`, the written bytes being the
UTF-8 form of everything the loop wrote, U+FFFD included. -/
theorem decode_to_str_valid (v : Gen.Variant) (fuel : Nat) (s : (famOfVariant v).σ) (src : List Nat)
    (last : Bool) (budgets : List Budget) (t : ReplRes (famOfVariant v).σ)
    (hi : (variantScalar v).Inv s) (hb : ∀ b ∈ src, b < 256)
    (ht : replLoop (famOfVariant v) .utf8 last fuel s src budgets = some t)
    (isUtf8 : Bool) (old buf : List Nat) (hold : Wf old) (hlen : buf.length = old.length)
    (hfit : (t.out.flatMap encodeUtf8).length ≤ old.length)
    (hpre : buf.take (t.out.flatMap encodeUtf8).length = t.out.flatMap encodeUtf8)
    (hmod : ∀ i, (t.out.flatMap encodeUtf8).length + (if isUtf8 then 0 else Gen.maxStrideSize) ≤ i → buf[i]? = old[i]?) :
    Wf (decodeToStrFinish isUtf8 buf (t.out.flatMap encodeUtf8).length) :=
  decode_to_str_finish_valid isUtf8 old _ buf hold
    (flatMap_wf WfUtf8Seq encodeUtf8 encodeUtf8_wf _ (replLoop_scalar v last fuel s src budgets t hi hb ht).2)
    hlen hfit hpre hmod

/-- **`String` receivers** (`decode_to_string*`, and every `set_len(old_len + written)` over spare
capacity): the `String`'s old contents are untouched and what is appended is the written prefix of the
spare capacity, so the `String` is valid UTF-8 afterwards and still starts with its old contents.
`set_len` is the last operation: if the conversion panics, the length — and with it the `String` — is
unchanged (nothing to prove: the model of that outcome is `oldContents` itself). -/
theorem string_sink_valid (oldContents spare w : List Nat) (hold : Wf oldContents) (hw : Wf w)
    (hpre : spare.take w.length = w) :
    Wf (stringAfterSetLen oldContents spare w.length) ∧
    (stringAfterSetLen oldContents spare w.length).take oldContents.length = oldContents ∧
    (stringAfterSetLen oldContents spare w.length).drop oldContents.length = w := by
  unfold stringAfterSetLen
  rw [hpre]
  exact ⟨wf_append hold hw, by simp, by simp⟩

/-- **`Decoder::decode_to_string_without_replacement`** -/
theorem decode_to_string_without_replacement_valid (v : Gen.Variant) (s : (famOfVariant v).σ) (src : List Nat)
    (last : Bool) (budget : Budget) (hi : (variantScalar v).Inv s) (hb : ∀ b ∈ src, b < 256)
    (oldContents spare : List Nat) (hold : Wf oldContents)
    (hpre : spare.take ((call (famOfVariant v) .utf8 s src last budget).out.flatMap encodeUtf8).length
      = (call (famOfVariant v) .utf8 s src last budget).out.flatMap encodeUtf8) :
    Wf (stringAfterSetLen oldContents spare ((call (famOfVariant v) .utf8 s src last budget).out.flatMap encodeUtf8).length) :=
  (string_sink_valid oldContents spare _ hold (written_wellformed_utf8 v s src last budget hi hb).2 hpre).1

/-- **`Decoder::decode_to_string`** -/
theorem decode_to_string_valid (v : Gen.Variant) (fuel : Nat) (s : (famOfVariant v).σ) (src : List Nat)
    (last : Bool) (budgets : List Budget) (t : ReplRes (famOfVariant v).σ)
    (hi : (variantScalar v).Inv s) (hb : ∀ b ∈ src, b < 256)
    (ht : replLoop (famOfVariant v) .utf8 last fuel s src budgets = some t)
    (oldContents spare : List Nat) (hold : Wf oldContents)
    (hpre : spare.take (t.out.flatMap encodeUtf8).length = t.out.flatMap encodeUtf8) :
    Wf (stringAfterSetLen oldContents spare (t.out.flatMap encodeUtf8).length) :=
  (string_sink_valid oldContents spare _ hold
    (flatMap_wf WfUtf8Seq encodeUtf8 encodeUtf8_wf _ (replLoop_scalar v last fuel s src budgets t hi hb ht).2) hpre).1

/-! ## relation to the specification-side definition, non-vacuity -/

/-- `Wf` is `Spec.WellFormedUtf8` (the inductive definition `Thm/C14.lean` proves `validUpTo` against) -/
theorem wf_iff_spec (l : List Nat) : Wf l ↔ Spec.WellFormedUtf8 l := by
  have seq : ∀ s, WfUtf8Seq s ↔ Spec.wellFormedSeq s = true := by
    intro s
    match s with
    | [] => simp [WfUtf8Seq, Spec.wellFormedSeq]
    | [a] => simp [WfUtf8Seq, Spec.wellFormedSeq, Spec.wf1]; omega
    | [a, b] => simp [WfUtf8Seq, Spec.wellFormedSeq, Spec.wf2, Spec.isCont]; omega
    | [a, b, c] => simp [WfUtf8Seq, Spec.wellFormedSeq, Spec.wf3, Spec.second3Ok, Spec.isCont]; omega
    | [a, b, c, d] => simp [WfUtf8Seq, Spec.wellFormedSeq, Spec.wf4, Spec.second4Ok, Spec.isCont]; omega
    | _ :: _ :: _ :: _ :: _ :: _ => simp [WfUtf8Seq, Spec.wellFormedSeq]
  constructor
  · intro h
    induction h with
    | nil => exact .nil
    | cons s r hs _ ih => exact .cons s r ((seq s).mp hs) ih
  · intro h
    induction h with
    | nil => exact .nil
    | cons s r hs _ ih => exact .cons s r ((seq s).mpr hs) ih

/-! ## Non-vacuity (kernel-evaluated) -/

-- "a" written over "€é": the two stale continuation bytes of the euro sign are zeroed, "é" stays
example : zeroTrail false [0x61, 0x82, 0xAC, 0xC3, 0xA9] 1 = [0x61, 0, 0, 0xC3, 0xA9] := by decide +kernel
-- the F9 shape: 15 × "a" + U+00E4 into a 16-byte `str` holding 5 × "€" + "x" (default kernels)
example : convertUtf16ToStrPartialMem (List.replicate 15 0x61 ++ [0xE4])
      ((List.replicate 5 [0xE2, 0x82, 0xAC]).flatten ++ [0x78])
    = (15, 15, List.replicate 15 0x61 ++ [0]) := by decide +kernel
-- why a stride has to be zeroed when the kernels leave garbage: a truncated code unit (0xE4 stored as a
-- byte by a SIMD pack) directly after `written` survives the continuation-byte loop …
example : Spec.validUtf8 (zeroTrail false (List.replicate 15 0x61 ++ [0xE4]) 15) = false := by decide +kernel
-- … and is removed by the stride zeroing
example : Spec.validUtf8 (zeroTrail true (List.replicate 15 0x61 ++ [0xE4]) 15) = true := by decide +kernel
-- the window is exactly `MAX_STRIDE_SIZE` bytes: a stale continuation byte right behind it is still zeroed
example : zeroTrail true ([0x41] ++ List.replicate 16 0xFF ++ [0x80, 0x80, 0x41, 0x80]) 1
    = [0x41] ++ List.replicate 18 0 ++ [0x41, 0x80] := by decide +kernel
example : Gen.maxStrideSize = 16 := rfl

end EncodingRs.Thm.C05Str
