import EncodingRs.Thm.C08LoopLifeRepl
import EncodingRs.Thm.C06Life
import EncodingRs.Lemmas.OneShotCap
/-!
# C08 — the public with-replacement call `Decoder.replCall` returns

`Thm.C07.Decoder.replCall` (`Decoder::decode_to_utf8` / `decode_to_utf16`: the loop around
`Decoder.rawCall` that writes U+FFFD for every `Malformed`) is a fuelled function: `none` = the fuel ran
out, `some none` = the Rust panics, `some (some t)` = the call returned `t`.  The life-cycle theorems of
C05–C09 and C18 assume `= some (some t)`, and `Thm.C06Life.decoder_repl_never_panics` concludes
`≠ some none` — which `none` satisfies.  This module closes the gap: with enough fuel the value is never
`none`, i.e. the loop of the model terminates, for every stop policy (any budgets, admissible or not).

Two independent arguments:

* **by events** (`replCall_terminates`, tight bound): for a decoder with the invariants of
  `Decoder.new` that has consumed `pos` bytes (`C08Loop.LoopInv`: true of every decoder reachable from
  `Decoder.new`, `loopInv_reachable`) and a source of bytes, every inner raw call that returns
  `Malformed` uses up one event of the documented BOM semantics `dref` (`C08Loop.rawCall_step`), and
  `dref` has at most `bytes + withheld + 5` events (`C08Loop.dref_length_le`).  So
  `src.length + withheld d.life + 6 ≤ fuel` suffices, in particular `src.length + 8 ≤ fuel`.
* **by a measure** (`replCall_terminates_any`, no hypothesis on the decoder): the lift of
  `Lemmas.OneShotCap.replLoop_terminates_any` through `Decoder.rawCall`.  For EVERY decoder value
  (reachable or not, any life-cycle state, any bytes) a raw call that returns `Malformed` lowers
  `10 · (remaining + withheld) + rank of the current variant decoder` (`rawCall_malformed_measure`): it
  consumed input, or used up a withheld potential-BOM byte, or lowered the rank (C08
  `malformed_progress`).  More fuel than that measure suffices.

Consequences:

* `replCall_fuel_mono` / `replCall_fuel_irrelevant`: once the fuel suffices the result does not depend
  on it;
* **`decoder_repl_returns`**: the strengthening of `decoder_repl_never_panics` — under the same
  hypotheses plus the fuel bound, `∃ t, Decoder.replCall … = some (some t)`;
* **`decoder_repl_call_contract_total`**: `Thm.C06Life.decoder_repl_call_contract` without the
  hypothesis that the call completed.

What is *not* said: that the Rust loop has no other way of not returning (it has no other loop: the
`loop` of `decode_to_utf8` / `decode_to_utf16` is the one modelled; the variant decoders' inner loops
are structural recursion on the source in the model and are covered by the correspondence run and the
harness watchdog).
-/
namespace EncodingRs.Thm.C08ReplTerm
open EncodingRs EncodingRs.Model EncodingRs.Lemmas.Core EncodingRs.Lemmas.FamLaws EncodingRs.Lemmas.Life
open EncodingRs.Lemmas.LifeLeaf EncodingRs.Lemmas.MaxLenVariant
open EncodingRs.Thm.C08 EncodingRs.Thm.C10 EncodingRs.Thm.C07 EncodingRs.Thm.C06 EncodingRs.Thm.C08Loop

/-! ## fuel: more never hurts -/

/-- a call that returned (or panicked) with `fuel` does the same with any larger fuel -/
theorem replCall_fuel_mono {F : Fam} (k : Sink) (last : Bool) :
    ∀ (fuel : Nat) (d : Decoder F) (src : List Nat) (bs : List (Budget × Budget)) (r : Option (DReplRes F)),
      Decoder.replCall k last fuel d src bs = some r →
      ∀ fuel', fuel ≤ fuel' → Decoder.replCall k last fuel' d src bs = some r := by
  intro fuel
  induction fuel with
  | zero => intro d src bs r h; simp [Decoder.replCall] at h
  | succ fuel ih =>
    intro d src bs r h fuel' hle
    cases fuel' with
    | zero => omega
    | succ fuel' =>
      rw [Decoder.replCall] at h ⊢
      cases hcall : d.rawCall k src last (bs.headD (.unlimited, .unlimited)).1 (bs.headD (.unlimited, .unlimited)).2 with
      | panic => rw [hcall] at h; exact h
      | ok res read out d' inner =>
        rw [hcall] at h
        simp only at h ⊢
        cases res with
        | inputEmpty => exact h
        | outputFull => exact h
        | malformed l a =>
          simp only at h ⊢
          cases hrec : Decoder.replCall k last fuel d' (src.drop read) bs.tail with
          | none => rw [hrec] at h; cases h
          | some o =>
            rw [ih d' (src.drop read) bs.tail o hrec fuel' (by omega)]
            rw [hrec] at h
            exact h

/-- **fuel irrelevance**: two amounts of fuel with which the call does not run out give the same result -/
theorem replCall_fuel_irrelevant {F : Fam} (k : Sink) (last : Bool) (f1 f2 : Nat) (d : Decoder F) (src : List Nat)
    (bs : List (Budget × Budget)) (h1 : Decoder.replCall k last f1 d src bs ≠ none)
    (h2 : Decoder.replCall k last f2 d src bs ≠ none) :
    Decoder.replCall k last f1 d src bs = Decoder.replCall k last f2 d src bs := by
  cases e1 : Decoder.replCall k last f1 d src bs with
  | none => exact absurd e1 h1
  | some r1 =>
    cases e2 : Decoder.replCall k last f2 d src bs with
    | none => exact absurd e2 h2
    | some r2 =>
      rcases Nat.le_total f1 f2 with hle | hle
      · have := replCall_fuel_mono k last f1 d src bs r1 e1 f2 hle
        rw [e2] at this; exact this.symm
      · have := replCall_fuel_mono k last f2 d src bs r2 e2 f1 hle
        rw [e1] at this; exact this

/-! ## termination by events (tight bound, reachable decoders) -/

/-- a raw call that returns `Malformed` uses up an event of the documented semantics -/
theorem rawCall_malformed_dref_lt (v : Gen.Variant) (k : Sink) (d : Decoder (famOfVariant v)) (pos : Nat)
    (src : List Nat) (last : Bool) (b1 b2 : Budget) (hd : LoopInv v d pos) (hb : ∀ x ∈ src, x < 256)
    (l a read : Nat) (out : List Nat) (d' : Decoder (famOfVariant v)) (inner : List (List Nat × Res × Nat))
    (h : d.rawCall k src last b1 b2 = .ok (.malformed l a) read out d' inner) :
    LoopInv v d' (pos + read) ∧ (dref d' (src.drop read) (pos + read)).length < (dref d src pos).length := by
  have hs := rawCall_step v k d pos src [] last b1 b2 (fun _ => rfl) hd hb _ read out d' inner h
  simp only [List.append_nil, resEv, List.length_cons, List.length_nil] at hs
  exact ⟨hs.1, by have := hs.2; omega⟩

/-- the loop returns once the fuel exceeds the number of events `dref` still has to say -/
theorem replCall_terminates_dref (v : Gen.Variant) (k : Sink) (last : Bool) :
    ∀ (fuel : Nat) (d : Decoder (famOfVariant v)) (src : List Nat) (bs : List (Budget × Budget)) (pos : Nat),
      LoopInv v d pos → (∀ x ∈ src, x < 256) → (dref d src pos).length < fuel →
      Decoder.replCall k last fuel d src bs ≠ none := by
  intro fuel
  induction fuel with
  | zero => intro d src bs pos _ _ h; omega
  | succ fuel ih =>
    intro d src bs pos hd hb hf
    rw [Decoder.replCall]
    cases hcall : d.rawCall k src last (bs.headD (.unlimited, .unlimited)).1 (bs.headD (.unlimited, .unlimited)).2 with
    | panic => simp
    | ok res read out d' inner =>
      simp only
      cases res with
      | inputEmpty => simp
      | outputFull => simp
      | malformed l a =>
        simp only
        have hlt := rawCall_malformed_dref_lt v k d pos src last _ _ hd hb l a read out d' inner hcall
        have IH := ih d' (src.drop read) bs.tail (pos + read) hlt.1
          (fun x hx => hb x (List.mem_of_mem_drop hx)) (by have := hlt.2; omega)
        cases hrec : Decoder.replCall k last fuel d' (src.drop read) bs.tail with
        | none => exact absurd hrec IH
        | some o => cases o <;> simp

/-- **`decode_to_utf8` / `decode_to_utf16` of the model return** (all 40 encodings, the three BOM modes,
every stop policy): for a decoder with the invariants of `Decoder.new` that has consumed `pos` bytes,
a source of bytes and `fuel ≥ src.len() + withheld + 6`, the fuelled loop does not run out of fuel -/
theorem replCall_terminates (v : Gen.Variant) (k : Sink) (last : Bool) (fuel : Nat)
    (d : Decoder (famOfVariant v)) (pos : Nat) (hd : LoopInv v d pos) (src : List Nat)
    (hb : ∀ x ∈ src, x < 256) (bs : List (Budget × Budget))
    (hfuel : src.length + withheld d.life + 6 ≤ fuel) :
    Decoder.replCall k last fuel d src bs ≠ none := by
  have h := dref_length_le v d hd.life.cur src hb pos
  exact replCall_terminates_dref v k last fuel d src bs pos hd hb (by omega)

theorem withheld_le_two (l : Life) : withheld l ≤ 2 := by cases l <;> simp [withheld]

/-- the same with a bound that does not mention the decoder: `fuel ≥ src.len() + 8` -/
theorem replCall_terminates' (v : Gen.Variant) (k : Sink) (last : Bool) (fuel : Nat)
    (d : Decoder (famOfVariant v)) (pos : Nat) (hd : LoopInv v d pos) (src : List Nat)
    (hb : ∀ x ∈ src, x < 256) (bs : List (Budget × Budget)) (hfuel : src.length + 8 ≤ fuel) :
    Decoder.replCall k last fuel d src bs ≠ none :=
  replCall_terminates v k last fuel d pos hd src hb bs (by have := withheld_le_two d.life; omega)

/-- every decoder reachable from `Decoder.new (famOfVariant v) (nominalOf v) bom` by any history of raw
calls satisfies `LoopInv` -/
theorem loopInv_reachable (v : Gen.Variant) (bom : BomHandling) (d : Decoder (famOfVariant v)) (pos : Nat)
    (h : DReachAt v (nominalOf v) bom d pos) : LoopInv v d pos := by
  induction h with
  | new => exact loopInv_new v bom
  | call k d pos src last b1 b2 res read out d' inner _ hb hcall ih =>
    exact (rawCall_step v k d pos src [] last b1 b2 (fun _ => rfl) ih hb res read out d' inner hcall).1

/-- from every reachable decoder -/
theorem replCall_terminates_reach (v : Gen.Variant) (bom : BomHandling) (d : Decoder (famOfVariant v)) (pos : Nat)
    (hr : DReachAt v (nominalOf v) bom d pos) (k : Sink) (last : Bool) (fuel : Nat) (src : List Nat)
    (hb : ∀ x ∈ src, x < 256) (bs : List (Budget × Budget)) (hfuel : src.length + 8 ≤ fuel) :
    Decoder.replCall k last fuel d src bs ≠ none :=
  replCall_terminates' v k last fuel d pos (loopInv_reachable v bom d pos hr) src hb bs hfuel

/-! ## termination by a measure (every decoder value, every byte list) -/

/-- the rank of whichever variant decoder is current -/
def curRank {F : Fam} : Cur F → Nat
  | .nominal s => F.rank s
  | .utf8 s => utf8Fam.rank s
  | .utf16be s => (utf16Fam true).rank s
  | .utf16le s => (utf16Fam false).rank s

/-- the termination measure of the with-replacement loop: ten per byte still to be handed to a variant
decoder (remaining source and withheld potential-BOM bytes) plus the rank (≤ 9) of the current one -/
def lifeMeasure {F : Fam} (d : Decoder F) (remaining : Nat) : Nat :=
  10 * (remaining + withheld d.life) + curRank d.cur

theorem curRank_le {F : Fam} (hR : ∀ s, F.rank s ≤ 9) (c : Cur F) : curRank c ≤ 9 := by
  cases c with
  | nominal s => exact hR s
  | utf8 s => exact Lemmas.OneShot.rank_le .utf8 s
  | utf16be s => exact Lemmas.OneShot.rank_le .utf16Be s
  | utf16le s => exact Lemmas.OneShot.rank_le .utf16Le s

/-- C08 `malformed_progress` for whichever decoder is current -/
theorem cur_call_malformed_progress {F : Fam} (H : FamOk F) (k : Sink) (c : Cur F) (src : List Nat) (last : Bool)
    (b : Budget) (l a : Nat) (h : (c.call k src last b).res = .malformed l a) :
    1 ≤ (c.call k src last b).read ∨ curRank (c.call k src last b).cur < curRank c := by
  cases c with
  | nominal s => exact Lemmas.OneShotCap.call_malformed_progress F k last H.alt_pos src s b l a h
  | utf8 s => exact Lemmas.OneShotCap.call_malformed_progress utf8Fam k last (famOk_variant .utf8).alt_pos src s b l a h
  | utf16be s =>
    exact Lemmas.OneShotCap.call_malformed_progress (utf16Fam true) k last (famOk_variant .utf16Be).alt_pos src s b l a h
  | utf16le s =>
    exact Lemmas.OneShotCap.call_malformed_progress (utf16Fam false) k last (famOk_variant .utf16Le).alt_pos src s b l a h

/-- what is claimed of a `Decoder` call on a source of `n` bytes: a `Malformed` return leaves a
measure below `B` -/
def MalBelow {F : Fam} (n B : Nat) : DRes F → Prop
  | .panic => True
  | .ok res read _ d' _ => ∀ l a, res = .malformed l a → lifeMeasure d' (n - read) < B

theorem MalBelow.mono {F : Fam} {n B B' : Nat} {r : DRes F} (h : MalBelow n B r) (hB : B ≤ B') : MalBelow n B' r := by
  cases r with
  | panic => trivial
  | ok res read out d' inner => intro l a hr; exact Nat.lt_of_lt_of_le (h l a hr) hB

theorem checkingEnd_malBelow {F : Fam} (H : FamOk F) (hR : ∀ s, F.rank s ≤ 9) (k : Sink) (c : Cur F)
    (src : List Nat) (last : Bool) (b : Budget) (off : Nat) (pre : List (List Nat × Res × Nat)) (preOut : List Nat) :
    MalBelow src.length (10 * (src.length - off) + curRank c) (checkingEnd k c src last b off pre preOut) := by
  have hle := cur_call_read_le k c (src.drop off) last b H.alt_le
  have hprog := cur_call_malformed_progress H k c (src.drop off) last b
  have hrk := curRank_le hR (c.call k (src.drop off) last b).cur
  rw [List.length_drop] at hle
  unfold checkingEnd MalBelow
  generalize c.call k (src.drop off) last b = r at hle hprog hrk
  simp only
  intro l a h
  have hp := hprog l a h
  simp only [h, lifeMeasure]
  have hw : withheld (if last = true ∧ Res.malformed l a = Res.inputEmpty then Life.finished else Life.converting) = 0 := by
    rw [if_neg (fun hh => by cases hh.2)]; rfl
  rw [hw]
  rcases hp with hp | hp <;> omega

theorem afterOne_malBelow {F : Fam} (H : FamOk F) (hR : ∀ s, F.rank s ≤ 9) (k : Sink) (c : Cur F) (src : List Nat)
    (last : Bool) (fb : Nat) (b1 b2 : Budget) :
    MalBelow src.length (10 * (src.length + 1)) (afterOne k c src last fb b1 b2) := by
  have hrk := curRank_le hR (c.call k [fb] false b1).cur
  unfold afterOne
  generalize c.call k [fb] false b1 = r1 at hrk
  simp only
  split
  · exact (checkingEnd_malBelow H hR k r1.cur src last b2 0 _ _).mono (by omega)
  · intro l a _
    simp only [lifeMeasure, withheld]
    omega
  · split
    · intro l a h; cases h
    · trivial

theorem afterTwo_malBelow {F : Fam} (H : FamOk F) (hR : ∀ s, F.rank s ≤ 9) (k : Sink) (c : Cur F) (src : List Nat)
    (last : Bool) (b1 b2 : Budget) :
    MalBelow src.length (10 * (src.length + 2)) (afterTwo k c src last b1 b2) := by
  have hrk := curRank_le hR (c.call k [0xEF, 0xBB] false b1).cur
  unfold afterTwo
  generalize c.call k [0xEF, 0xBB] false b1 = r1 at hrk
  simp only
  split
  · exact (checkingEnd_malBelow H hR k r1.cur src last b2 0 _ _).mono (by omega)
  · split
    · intro l a _
      simp only [lifeMeasure, withheld]
      omega
    · intro l a _
      simp only [lifeMeasure, withheld]
      omega
  · split
    · intro l a h; cases h
    · trivial

theorem replayOne_withheld {l : Life} {fb : Nat} (h : replayOne l = some fb) : withheld l = 1 := by
  cases l <;> simp [replayOne] at h <;> rfl

/-- **a raw call that returns `Malformed` lowers the measure** — for every decoder value, source and
stop policy: it consumed input, used up a withheld byte, or lowered the rank of the variant decoder -/
theorem rawCall_malformed_measure {F : Fam} (H : FamOk F) (hR : ∀ s, F.rank s ≤ 9) (k : Sink) (d : Decoder F)
    (src : List Nat) (last : Bool) (b1 b2 : Budget) (l a read : Nat) (out : List Nat) (d' : Decoder F)
    (inner : List (List Nat × Res × Nat)) (h : d.rawCall k src last b1 b2 = .ok (.malformed l a) read out d' inner) :
    lifeMeasure d' (src.drop read).length < lifeMeasure d src.length := by
  have key : MalBelow src.length (lifeMeasure d src.length) (d.rawCall k src last b1 b2) := by
    have hleaf := rawCall_leaf k d src last b1 b2
    generalize d.rawCall k src last b1 b2 = r at hleaf
    cases hleaf with
    | finished _ => trivial
    | idle _ _ => intro l a h; cases h
    | wait n life' _ _ _ => intro l a h; cases h
    | direct _ =>
      exact (checkingEnd_malBelow H hR k d.cur src last b2 0 _ _).mono (by simp only [lifeMeasure]; omega)
    | bom8 off _ =>
      refine (checkingEnd_malBelow H hR k (.utf8 utf8Fam.init) src last b2 off _ _).mono ?_
      have : curRank (F := F) (.utf8 utf8Fam.init) = 0 := (famOk_variant .utf8).rank_init
      simp only [lifeMeasure]; omega
    | bom16 be off _ =>
      cases be with
      | true =>
        refine (checkingEnd_malBelow H hR k (.utf16be (utf16Fam true).init) src last b2 off _ _).mono ?_
        have : curRank (F := F) (.utf16be (utf16Fam true).init) = 0 := (famOk_variant .utf16Be).rank_init
        simp only [lifeMeasure]; omega
      | false =>
        refine (checkingEnd_malBelow H hR k (.utf16le (utf16Fam false).init) src last b2 off _ _).mono ?_
        have : curRank (F := F) (.utf16le (utf16Fam false).init) = 0 := (famOk_variant .utf16Le).rank_init
        simp only [lifeMeasure]; omega
    | one fb hfb =>
      refine (afterOne_malBelow H hR k d.cur src last fb b1 b2).mono ?_
      simp only [lifeMeasure, replayOne_withheld hfb]; omega
    | two hl =>
      refine (afterTwo_malBelow H hR k d.cur src last b1 b2).mono ?_
      simp only [lifeMeasure, hl, withheld]; omega
  rw [h] at key
  rw [List.length_drop]
  exact key l a rfl

/-- **the with-replacement loop of the public `Decoder` terminates for EVERY decoder value and EVERY
stop policy** (the lift of `Lemmas.OneShotCap.replLoop_terminates_any` through `Decoder.rawCall`): with
more fuel than `10 · (src.len() + withheld) + rank` it does not run out of fuel -/
theorem replCall_terminates_any {F : Fam} (H : FamOk F) (hR : ∀ s, F.rank s ≤ 9) (k : Sink) (last : Bool) :
    ∀ (fuel : Nat) (d : Decoder F) (src : List Nat) (bs : List (Budget × Budget)),
      lifeMeasure d src.length < fuel → Decoder.replCall k last fuel d src bs ≠ none := by
  intro fuel
  induction fuel with
  | zero => intro d src bs h; omega
  | succ fuel ih =>
    intro d src bs hf
    rw [Decoder.replCall]
    cases hcall : d.rawCall k src last (bs.headD (.unlimited, .unlimited)).1 (bs.headD (.unlimited, .unlimited)).2 with
    | panic => simp
    | ok res read out d' inner =>
      simp only
      cases res with
      | inputEmpty => simp
      | outputFull => simp
      | malformed l a =>
        simp only
        have hlt := rawCall_malformed_measure H hR k d src last _ _ l a read out d' inner hcall
        have IH := ih d' (src.drop read) bs.tail (by omega)
        cases hrec : Decoder.replCall k last fuel d' (src.drop read) bs.tail with
        | none => exact absurd hrec IH
        | some o => cases o <;> simp

/-- for the 40 encodings: any decoder value whatsoever (no invariant, no reachability, any naturals as
"bytes"), `fuel ≥ 10 · src.len() + 30` -/
theorem variant_replCall_terminates (v : Gen.Variant) (k : Sink) (last : Bool) (fuel : Nat)
    (d : Decoder (famOfVariant v)) (src : List Nat) (bs : List (Budget × Budget))
    (hfuel : 10 * src.length + 30 ≤ fuel) : Decoder.replCall k last fuel d src bs ≠ none := by
  refine replCall_terminates_any (famOk_variant v) (Lemmas.OneShot.rank_le v) k last fuel d src bs ?_
  have h1 := withheld_le_two d.life
  have h2 := curRank_le (Lemmas.OneShot.rank_le v) d.cur
  simp only [lifeMeasure]
  omega

/-! ## the call returns -/

/-- **the strengthening of `Thm.C06Life.decoder_repl_never_panics`**: under its hypotheses (decoder with
the freshness invariant of `Decoder.new`, not `Finished`, destination of at least the documented
minimum, an `OutputFull` stop of the replay of withheld bytes is admissible) for a decoder with the
invariants of `Decoder.new`, a source of bytes and `fuel ≥ src.len() + 8`, `decode_to_utf8` /
`decode_to_utf16` of the model *returns a result*: neither the panic value nor "out of fuel" -/
theorem decoder_repl_returns (v : Gen.Variant) (k : Sink) (d : Decoder (famOfVariant v)) (pos : Nat)
    (hd : LoopInv v d pos) (hfin : d.life ≠ .finished) (src : List Nat) (hb : ∀ x ∈ src, x < 256)
    (last : Bool) (fuel : Nat) (bs : List (Budget × Budget)) (cap : Nat) (hcap : minCap k ≤ cap)
    (hrep : (d.cur.call k (replayBytes d.life) false (bs.headD (.unlimited, .unlimited)).1).res = .outputFull →
      cap < unitsOfList k (d.cur.call k (replayBytes d.life) false (bs.headD (.unlimited, .unlimited)).1).out
        + (d.cur.call k (replayBytes d.life) false (bs.headD (.unlimited, .unlimited)).1).stopNeed)
    (hfuel : src.length + 8 ≤ fuel) :
    ∃ t, Decoder.replCall k last fuel d src bs = some (some t) := by
  have hnp := C06Life.decoder_repl_never_panics (famOk_variant v) (famOfVariant_needsBounded v) k d
    hd.life.fresh hfin src last fuel bs cap hcap hrep
  have hterm := replCall_terminates' v k last fuel d pos hd src hb bs hfuel
  cases h : Decoder.replCall k last fuel d src bs with
  | none => exact absurd h hterm
  | some o =>
    cases o with
    | none => exact absurd h hnp
    | some t => exact ⟨t, rfl⟩

/-- the same for any family with the laws the variants have, and exactly the hypotheses of
`decoder_repl_never_panics` plus the fuel bound of `replCall_terminates_any` (no `LoopInv`, any naturals as
bytes): `fuel ≥ 10 · src.len() + 30` -/
theorem decoder_repl_returns_any {F : Fam} (H : FamOk F) (hnb : NeedsBounded F) (hR : ∀ s, F.rank s ≤ 9)
    (k : Sink) (d : Decoder F) (hf : Fresh d) (hfin : d.life ≠ .finished) (src : List Nat) (last : Bool)
    (fuel : Nat) (bs : List (Budget × Budget)) (cap : Nat) (hcap : minCap k ≤ cap)
    (hrep : (d.cur.call k (replayBytes d.life) false (bs.headD (.unlimited, .unlimited)).1).res = .outputFull →
      cap < unitsOfList k (d.cur.call k (replayBytes d.life) false (bs.headD (.unlimited, .unlimited)).1).out
        + (d.cur.call k (replayBytes d.life) false (bs.headD (.unlimited, .unlimited)).1).stopNeed)
    (hfuel : 10 * src.length + 30 ≤ fuel) :
    ∃ t, Decoder.replCall k last fuel d src bs = some (some t) := by
  have hnp := C06Life.decoder_repl_never_panics H hnb k d hf hfin src last fuel bs cap hcap hrep
  have hterm : Decoder.replCall k last fuel d src bs ≠ none := by
    refine replCall_terminates_any H hR k last fuel d src bs ?_
    have h1 := withheld_le_two d.life
    have h2 := curRank_le hR d.cur
    simp only [lifeMeasure]
    omega
  cases h : Decoder.replCall k last fuel d src bs with
  | none => exact absurd h hterm
  | some o =>
    cases o with
    | none => exact absurd h hnp
    | some t => exact ⟨t, rfl⟩

/-- **C06/C08, the contract of `decode_to_utf8` / `decode_to_utf16` in total form**:
`Thm.C06Life.decoder_repl_call_contract` without the hypothesis that the call completed.  For a decoder
reachable from `Decoder.new`, not `Finished`, a source of bytes, a destination of at least the
documented minimum, admissible inner calls and `fuel ≥ src.len() + 8`: the call returns a result `t`
(no panic, no exhaustion) with `InputEmpty` or `OutputFull`, `read ≤ src.len()` (`=` for `InputEmpty`),
`written ≤ dst.len()`, and leaves a reachable decoder. -/
theorem decoder_repl_call_contract_total (v : Gen.Variant) (bom : BomHandling)
    (d : Decoder (famOfVariant v)) (pos : Nat) (hr : DReachAt v (nominalOf v) bom d pos)
    (hfin : d.life ≠ .finished)
    (k : Sink) (src : List Nat) (last : Bool) (fuel : Nat) (bs : List (Budget × Budget)) (cap : Nat)
    (hb : ∀ x ∈ src, x < 256) (hcap : minCap k ≤ cap)
    (hrep : (d.cur.call k (replayBytes d.life) false (bs.headD (.unlimited, .unlimited)).1).res = .outputFull →
      cap < unitsOfList k (d.cur.call k (replayBytes d.life) false (bs.headD (.unlimited, .unlimited)).1).out
        + (d.cur.call k (replayBytes d.life) false (bs.headD (.unlimited, .unlimited)).1).stopNeed)
    (hadm : DReplAdmissible k last fuel d src bs cap) (hfuel : src.length + 8 ≤ fuel) :
    ∃ t, Decoder.replCall k last fuel d src bs = some (some t) ∧
      (t.res = .inputEmpty ∨ t.res = .outputFull) ∧
      t.read ≤ src.length ∧ (t.res = .inputEmpty → t.read = src.length) ∧
      (C18.encodeUnits k t.out).length ≤ cap ∧
      DReachAt v (nominalOf v) bom t.d (pos + t.read) := by
  obtain ⟨t, ht⟩ := decoder_repl_returns v k d pos (loopInv_reachable v bom d pos hr) hfin src hb last fuel bs cap
    hcap hrep hfuel
  obtain ⟨t', ht', hrest⟩ := C06Life.decoder_repl_call_contract v (nominalOf v) bom d pos hr hfin k src last fuel bs
    cap hb hcap hrep hadm (some t) ht
  cases ht'
  exact ⟨t, ht, hrest⟩

/-! ## Non-vacuity

Shift_JIS with BOM sniffing, `FE 41 42 43 B1` in one `last` call, no stops: the first raw call withholds
nothing (`last`), the byte `FE` is malformed → U+FFFD, the second raw call decodes the rest.  With
`fuel = src.len() + 8 = 13` the call returns; with `fuel = 1` the model runs out of fuel after the first
`Malformed` (so the fuel bound is not vacuous: `none` does occur below it). -/
section demo
private def dT : Decoder (famOfVariant .shiftJis) := Decoder.new (famOfVariant .shiftJis) (nominalOf .shiftJis) .sniff

example : Decoder.replCall .utf8 true 13 dT [0xFE, 0x41, 0x42, 0x43, 0xB1] []
    = some (some ⟨.inputEmpty, 5, [0xFFFD, 0x41, 0x42, 0x43, 0xFF71], true, ⟨.finished, .nominal none⟩⟩) := rfl

example : Decoder.replCall .utf8 true 1 dT [0xFE, 0x41, 0x42, 0x43, 0xB1] [] = none := rfl

/-- the hypotheses of `decoder_repl_returns` hold for it -/
example : ∃ t, Decoder.replCall .utf8 true 13 dT [0xFE, 0x41, 0x42, 0x43, 0xB1] [] = some (some t) :=
  decoder_repl_returns .shiftJis .utf8 dT 0 (loopInv_new .shiftJis .sniff) (by intro h; cases h)
    [0xFE, 0x41, 0x42, 0x43, 0xB1] (by decide) true 13 [] 4 (by decide) (by intro h; cases h) (by decide)
end demo

end EncodingRs.Thm.C08ReplTerm
