import EncodingRs.Thm.C08LoopLifeRepl
import EncodingRs.Thm.C06Life
/-!
# C08 — the public with-replacement call `Decoder.replCall` returns

`Thm.C07.Decoder.replCall` (`Decoder::decode_to_utf8` / `decode_to_utf16`: the loop around
`Decoder.rawCall` that writes U+FFFD for every `Malformed`) is a fuelled function: `none` = the fuel ran
out, `some none` = the Rust panics, `some (some t)` = the call returned `t`.  The life-cycle theorems of
C05–C09 and C18 assume `= some (some t)`, and `Thm.C06Life.decoder_repl_never_panics` concludes
`≠ some none` — which `none` satisfies.  This module closes the gap: with enough fuel the value is never
`none`, i.e. the loop of the model terminates, for every stop policy (any budgets, admissible or not).

Two independent arguments:

* **by events** (`replCall_terminates`, tight bound): for a decoder with the invariants of
  `Decoder.new` that has consumed `pos` bytes (`C08Loop.LoopInv`: true of every decoder reachable from
  `Decoder.new`, `loopInv_reachable`) and a source of bytes, every inner raw call that returns
  `Malformed` uses up one event of the documented BOM semantics `dref` (`C08Loop.rawCall_step`), and
  `dref` has at most `bytes + withheld + 5` events (`C08Loop.dref_length_le`).  So
  `src.length + withheld d.life + 6 ≤ fuel` suffices, in particular `src.length + 8 ≤ fuel`.
* **by a measure** (`replCall_terminates_any`, no hypothesis on the decoder): the lift of
  `Lemmas.OneShotCap.replLoop_terminates_any` through `Decoder.rawCall`.  For EVERY decoder value
  (reachable or not, any life-cycle state, any bytes) a raw call that returns `Malformed` lowers
  `10 · (remaining + withheld) + rank of the current variant decoder` (`rawCall_malformed_measure`): it
  consumed input, or used up a withheld potential-BOM byte, or lowered the rank (C08
  `malformed_progress`).  More fuel than that measure suffices.

Consequences:

* `replCall_fuel_mono` / `replCall_fuel_irrelevant`: once the fuel suffices the result does not depend
  on it;
* **`decoder_repl_returns`**: the strengthening of `decoder_repl_never_panics` — under the same
  hypotheses plus the fuel bound, `∃ t, Decoder.replCall … = some (some t)`;
* **`decoder_repl_call_contract_total`**: `Thm.C06Life.decoder_repl_call_contract` without the
  hypothesis that the call completed.

What is *not* said: that the Rust loop has no other way of not returning (it has no other loop: the
`loop` of `decode_to_utf8` / `decode_to_utf16` is the one modelled; the variant decoders' inner loops
are structural recursion on the source in the model and are covered by the correspondence run and the
harness watchdog).
-/
namespace EncodingRs.Thm.C08ReplTerm
open EncodingRs EncodingRs.Model EncodingRs.Lemmas.Core EncodingRs.Lemmas.FamLaws EncodingRs.Lemmas.Life
open EncodingRs.Lemmas.LifeLeaf EncodingRs.Lemmas.MaxLenVariant
open EncodingRs.Thm.C08 EncodingRs.Thm.C10 EncodingRs.Thm.C07 EncodingRs.Thm.C06 EncodingRs.Thm.C08Loop

/-! ## fuel: more never hurts -/

/-- a call that returned (or panicked) with `fuel` does the same with any larger fuel -/
theorem replCall_fuel_mono {F : Fam} (k : Sink) (last : Bool) :
    ∀ (fuel : Nat) (d : Decoder F) (src : List Nat) (bs : List (Budget × Budget)) (r : Option (DReplRes F)),
      Decoder.replCall k last fuel d src bs = some r →
      ∀ fuel', fuel ≤ fuel' → Decoder.replCall k last fuel' d src bs = some r := by
  intro fuel
  induction fuel with
  | zero => intro d src bs r h; simp [Decoder.replCall] at h
  | succ fuel ih =>
    intro d src bs r h fuel' hle
    cases fuel' with
    | zero => omega
    | succ fuel' =>
      rw [Decoder.replCall] at h ⊢
      cases hcall : d.rawCall k src last (bs.headD (.unlimited, .unlimited)).1 (bs.headD (.unlimited, .unlimited)).2 with
      | panic => rw [hcall] at h; exact h
      | ok res read out d' inner =>
        rw [hcall] at h
        simp only at h ⊢
        cases res with
        | inputEmpty => exact h
        | outputFull => exact h
        | malformed l a =>
          simp only at h ⊢
          cases hrec : Decoder.replCall k last fuel d' (src.drop read) bs.tail with
          | none => rw [hrec] at h; cases h
          | some o =>
            rw [ih d' (src.drop read) bs.tail o hrec fuel' (by omega)]
            rw [hrec] at h
            exact h

/-- **fuel irrelevance**: two amounts of fuel with which the call does not run out give the same result -/
theorem replCall_fuel_irrelevant {F : Fam} (k : Sink) (last : Bool) (f1 f2 : Nat) (d : Decoder F) (src : List Nat)
    (bs : List (Budget × Budget)) (h1 : Decoder.replCall k last f1 d src bs ≠ none)
    (h2 : Decoder.replCall k last f2 d src bs ≠ none) :
    Decoder.replCall k last f1 d src bs = Decoder.replCall k last f2 d src bs := by
  cases e1 : Decoder.replCall k last f1 d src bs with
  | none => exact absurd e1 h1
  | some r1 =>
    cases e2 : Decoder.replCall k last f2 d src bs with
    | none => exact absurd e2 h2
    | some r2 =>
      rcases Nat.le_total f1 f2 with hle | hle
      · have := replCall_fuel_mono k last f1 d src bs r1 e1 f2 hle
        rw [e2] at this; exact this.symm
      · have := replCall_fuel_mono k last f2 d src bs r2 e2 f1 hle
        rw [e1] at this; exact this

/-! ## termination by events (tight bound, reachable decoders) -/

/-- a raw call that returns `Malformed` uses up an event of the documented semantics -/
theorem rawCall_malformed_dref_lt (v : Gen.Variant) (k : Sink) (d : Decoder (famOfVariant v)) (pos : Nat)
    (src : List Nat) (last : Bool) (b1 b2 : Budget) (hd : LoopInv v d pos) (hb : ∀ x ∈ src, x < 256)
    (l a read : Nat) (out : List Nat) (d' : Decoder (famOfVariant v)) (inner : List (List Nat × Res × Nat))
    (h : d.rawCall k src last b1 b2 = .ok (.malformed l a) read out d' inner) :
    LoopInv v d' (pos + read) ∧ (dref d' (src.drop read) (pos + read)).length < (dref d src pos).length := by
  have hs := rawCall_step v k d pos src [] last b1 b2 (fun _ => rfl) hd hb _ read out d' inner h
  simp only [List.append_nil, resEv, List.length_cons, List.length_nil] at hs
  exact ⟨hs.1, by have := hs.2; omega⟩

/-- the loop returns once the fuel exceeds the number of events `dref` still has to say -/
theorem replCall_terminates_dref (v : Gen.Variant) (k : Sink) (last : Bool) :
    ∀ (fuel : Nat) (d : Decoder (famOfVariant v)) (src : List Nat) (bs : List (Budget × Budget)) (pos : Nat),
      LoopInv v d pos → (∀ x ∈ src, x < 256) → (dref d src pos).length < fuel →
      Decoder.replCall k last fuel d src bs ≠ none := by
  intro fuel
  induction fuel with
  | zero => intro d src bs pos _ _ h; omega
  | succ fuel ih =>
    intro d src bs pos hd hb hf
    rw [Decoder.replCall]
    cases hcall : d.rawCall k src last (bs.headD (.unlimited, .unlimited)).1 (bs.headD (.unlimited, .unlimited)).2 with
    | panic => simp
    | ok res read out d' inner =>
      simp only
      cases res with
      | inputEmpty => simp
      | outputFull => simp
      | malformed l a =>
        simp only
        have hlt := rawCall_malformed_dref_lt v k d pos src last _ _ hd hb l a read out d' inner hcall
        have IH := ih d' (src.drop read) bs.tail (pos + read) hlt.1
          (fun x hx => hb x (List.mem_of_mem_drop hx)) (by have := hlt.2; omega)
        cases hrec : Decoder.replCall k last fuel d' (src.drop read) bs.tail with
        | none => exact absurd hrec IH
        | some o => cases o <;> simp

/-- **`decode_to_utf8` / `decode_to_utf16` of the model return** (all 40 encodings, the three BOM modes,
every stop policy): for a decoder with the invariants of `Decoder.new` that has consumed `pos` bytes,
a source of bytes and `fuel ≥ src.len() + withheld + 6`, the fuelled loop does not run out of fuel -/
theorem replCall_terminates (v : Gen.Variant) (k : Sink) (last : Bool) (fuel : Nat)
    (d : Decoder (famOfVariant v)) (pos : Nat) (hd : LoopInv v d pos) (src : List Nat)
    (hb : ∀ x ∈ src, x < 256) (bs : List (Budget × Budget))
    (hfuel : src.length + withheld d.life + 6 ≤ fuel) :
    Decoder.replCall k last fuel d src bs ≠ none := by
  have h := dref_length_le v d hd.life.cur src hb pos
  exact replCall_terminates_dref v k last fuel d src bs pos hd hb (by omega)

theorem withheld_le_two (l : Life) : withheld l ≤ 2 := by cases l <;> simp [withheld]

/-- the same with a bound that does not mention the decoder: `fuel ≥ src.len() + 8` -/
theorem replCall_terminates' (v : Gen.Variant) (k : Sink) (last : Bool) (fuel : Nat)
    (d : Decoder (famOfVariant v)) (pos : Nat) (hd : LoopInv v d pos) (src : List Nat)
    (hb : ∀ x ∈ src, x < 256) (bs : List (Budget × Budget)) (hfuel : src.length + 8 ≤ fuel) :
    Decoder.replCall k last fuel d src bs ≠ none :=
  replCall_terminates v k last fuel d pos hd src hb bs (by have := withheld_le_two d.life; omega)

/-- every decoder reachable from `Decoder.new (famOfVariant v) (nominalOf v) bom` by any history of raw
calls satisfies `LoopInv` -/
theorem loopInv_reachable (v : Gen.Variant) (bom : BomHandling) (d : Decoder (famOfVariant v)) (pos : Nat)
    (h : DReachAt v (nominalOf v) bom d pos) : LoopInv v d pos := by
  induction h with
  | new => exact loopInv_new v bom
  | call k d pos src last b1 b2 res read out d' inner _ hb hcall ih =>
    exact (rawCall_step v k d pos src [] last b1 b2 (fun _ => rfl) ih hb res read out d' inner hcall).1

/-- from every reachable decoder -/
theorem replCall_terminates_reach (v : Gen.Variant) (bom : BomHandling) (d : Decoder (famOfVariant v)) (pos : Nat)
    (hr : DReachAt v (nominalOf v) bom d pos) (k : Sink) (last : Bool) (fuel : Nat) (src : List Nat)
    (hb : ∀ x ∈ src, x < 256) (bs : List (Budget × Budget)) (hfuel : src.length + 8 ≤ fuel) :
    Decoder.replCall k last fuel d src bs ≠ none :=
  replCall_terminates' v k last fuel d pos (loopInv_reachable v bom d pos hr) src hb bs hfuel

/-! ## the call returns -/

/-- **the strengthening of `Thm.C06Life.decoder_repl_never_panics`**: under its hypotheses (decoder with
the freshness invariant of `Decoder.new`, not `Finished`, destination of at least the documented
minimum, an `OutputFull` stop of the replay of withheld bytes is admissible) for a decoder with the
invariants of `Decoder.new`, a source of bytes and `fuel ≥ src.len() + 8`, `decode_to_utf8` /
`decode_to_utf16` of the model *returns a result*: neither the panic value nor "out of fuel" -/
theorem decoder_repl_returns (v : Gen.Variant) (k : Sink) (d : Decoder (famOfVariant v)) (pos : Nat)
    (hd : LoopInv v d pos) (hfin : d.life ≠ .finished) (src : List Nat) (hb : ∀ x ∈ src, x < 256)
    (last : Bool) (fuel : Nat) (bs : List (Budget × Budget)) (cap : Nat) (hcap : minCap k ≤ cap)
    (hrep : (d.cur.call k (replayBytes d.life) false (bs.headD (.unlimited, .unlimited)).1).res = .outputFull →
      cap < unitsOfList k (d.cur.call k (replayBytes d.life) false (bs.headD (.unlimited, .unlimited)).1).out
        + (d.cur.call k (replayBytes d.life) false (bs.headD (.unlimited, .unlimited)).1).stopNeed)
    (hfuel : src.length + 8 ≤ fuel) :
    ∃ t, Decoder.replCall k last fuel d src bs = some (some t) := by
  have hnp := C06Life.decoder_repl_never_panics (famOk_variant v) (famOfVariant_needsBounded v) k d
    hd.life.fresh hfin src last fuel bs cap hcap hrep
  have hterm := replCall_terminates' v k last fuel d pos hd src hb bs hfuel
  cases h : Decoder.replCall k last fuel d src bs with
  | none => exact absurd h hterm
  | some o =>
    cases o with
    | none => exact absurd h hnp
    | some t => exact ⟨t, rfl⟩

/-- **C06/C08, the contract of `decode_to_utf8` / `decode_to_utf16` in total form**:
`Thm.C06Life.decoder_repl_call_contract` without the hypothesis that the call completed.  For a decoder
reachable from `Decoder.new`, not `Finished`, a source of bytes, a destination of at least the
documented minimum, admissible inner calls and `fuel ≥ src.len() + 8`: the call returns a result `t`
(no panic, no exhaustion) with `InputEmpty` or `OutputFull`, `read ≤ src.len()` (`=` for `InputEmpty`),
`written ≤ dst.len()`, and leaves a reachable decoder. -/
theorem decoder_repl_call_contract_total (v : Gen.Variant) (bom : BomHandling)
    (d : Decoder (famOfVariant v)) (pos : Nat) (hr : DReachAt v (nominalOf v) bom d pos)
    (hfin : d.life ≠ .finished)
    (k : Sink) (src : List Nat) (last : Bool) (fuel : Nat) (bs : List (Budget × Budget)) (cap : Nat)
    (hb : ∀ x ∈ src, x < 256) (hcap : minCap k ≤ cap)
    (hrep : (d.cur.call k (replayBytes d.life) false (bs.headD (.unlimited, .unlimited)).1).res = .outputFull →
      cap < unitsOfList k (d.cur.call k (replayBytes d.life) false (bs.headD (.unlimited, .unlimited)).1).out
        + (d.cur.call k (replayBytes d.life) false (bs.headD (.unlimited, .unlimited)).1).stopNeed)
    (hadm : DReplAdmissible k last fuel d src bs cap) (hfuel : src.length + 8 ≤ fuel) :
    ∃ t, Decoder.replCall k last fuel d src bs = some (some t) ∧
      (t.res = .inputEmpty ∨ t.res = .outputFull) ∧
      t.read ≤ src.length ∧ (t.res = .inputEmpty → t.read = src.length) ∧
      (C18.encodeUnits k t.out).length ≤ cap ∧
      DReachAt v (nominalOf v) bom t.d (pos + t.read) := by
  obtain ⟨t, ht⟩ := decoder_repl_returns v k d pos (loopInv_reachable v bom d pos hr) hfin src hb last fuel bs cap
    hcap hrep hfuel
  obtain ⟨t', ht', hrest⟩ := C06Life.decoder_repl_call_contract v (nominalOf v) bom d pos hr hfin k src last fuel bs
    cap hb hcap hrep hadm (some t) ht
  cases ht'
  exact ⟨t, ht, hrest⟩

end EncodingRs.Thm.C08ReplTerm
