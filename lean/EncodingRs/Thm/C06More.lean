import EncodingRs.Thm.C01
import EncodingRs.Thm.C06
import EncodingRs.Thm.C07Life
import EncodingRs.Thm.C10Full
/-!
# C06, decoder side — `Malformed(len, after)` ranges at call level, and no panic

**(a) numeric ranges.**  `Thm.C01.malformed_numbers` is about one step (`feed` / `eof`).  Here it is
lifted to what the API returns:

* `SpanFam F I`: a per-family count `seen s` of the bytes that are *in flight* in state `s` (consumed,
  but still attributable to a later error span), with the facts that every step adds at most the byte
  it consumes and that every error span (`len + after`) fits in `seen` plus what the step consumed;
  `variantSpan`: all 13 variant decoders.  `I : StInv F` is a plain state invariant (`variantStInv`:
  the UTF-8 decoder's `utf8Inv`, `True` elsewhere), so these theorems use no `native_decide` table
  check (`#print axioms`: `propext`, `Classical.choice`, `Quot.sound`).
* `call_span`: a raw call returns `Malformed(l, a)` only with `l + a ≤ seen s + read`, and
  `seen` of the state it leaves is `≤ seen s + read`.
* `ReachAt v s pos`: state `s` is reached from the initial state by raw calls that consumed `pos`
  bytes in total; **`call_malformed_ranges`**: every `Malformed(l, a)` returned by a raw call in such a
  state has `1 ≤ l ≤ 4`, `a ≤ 3`, `l + a ≤ 6` **and `l + a ≤ pos + read`** (the error span lies inside
  what has been read).
* `LifeSpan v d pos` / **`rawCall_malformed_ranges`**: the same for `Decoder.rawCall` (BOM life
  cycle; `pos` counts the withheld bytes), for every decoder reachable from `Decoder.new`
  (`DReachAt`, `lifeSpan_reachable`), incl. the `after + 1` correction of the replay path (F3).

**(b) no panic.**  `decoder_never_panics`: the model's panic value (`DRes.panic`; the Rust
`unreachable!("Output buffer must have been too small.")` of the replay and the use of a finished
decoder) is not returned.  Assumed, exactly: (1) the decoder has the freshness invariant of
`Decoder.new` (`Fresh`: nothing reached the variant decoder while bytes are withheld — true of every
reachable decoder, `reachable_never_panics`); (2) it is not `Finished` (calling a finished decoder is
the documented misuse: "Once the stream has ended, the `Decoder` object must not be used anymore");
(3) the destination has at least the documented minimum (`minCap`: 4 bytes / 2 units); (4) the replay
call, if it stops with `OutputFull`, does so admissibly (`Model.Admissible`, second clause: less than
the asked-for space was free) — any stop policy otherwise.  No bound on the source, no relation to
`max_*_buffer_length` (compare `Thm.C07.decoder_life_no_panic`).
-/
namespace EncodingRs.Thm.C06
open EncodingRs EncodingRs.Model EncodingRs.Lemmas.Core EncodingRs.Lemmas.FamLaws EncodingRs.Lemmas.Life
open EncodingRs.Lemmas.LifeLeaf EncodingRs.Lemmas.Scalar EncodingRs.Thm.C10 EncodingRs.Thm.C01 EncodingRs.Thm

/-! ## (a) error spans -/

/-- what one step does to the in-flight count `n = seen s`: the new count and the error span are
covered by `n` plus the byte, if it was consumed -/
def SpanOk {σ : Type} (n : Nat) (seen : σ → Nat) (r : FeedRes σ) : Prop :=
  seen r.st ≤ n + (if r.unread then 0 else 1) ∧
  ∀ e, r.err = some e → e.1 + e.2 ≤ n + (if r.unread then 0 else 1)

theorem spanOk_ok {σ} (n : Nat) (seen : σ → Nat) (st : σ) (out : List Nat) (h : seen st ≤ n + 1) :
    SpanOk n seen (FeedRes.ok st out) := by
  refine ⟨by simpa [FeedRes.ok] using h, ?_⟩
  intro e he; simp [FeedRes.ok] at he

theorem spanOk_bad {σ} (n : Nat) (seen : σ → Nat) (st : σ) (l a : Nat) (h : seen st ≤ n + 1) (h2 : l + a ≤ n + 1) :
    SpanOk n seen (FeedRes.bad st l a) := by
  refine ⟨by simpa [FeedRes.bad] using h, ?_⟩
  intro e he
  simp only [FeedRes.bad, Option.some.injEq] at he
  rw [← he]; simpa [FeedRes.bad] using h2

theorem spanOk_unread {σ} (n : Nat) (seen : σ → Nat) (st : σ) (l a : Nat) (h : seen st ≤ n) (h2 : l + a ≤ n) :
    SpanOk n seen (FeedRes.bad st l a true) := by
  refine ⟨by simpa [FeedRes.bad] using h, ?_⟩
  intro e he
  simp only [FeedRes.bad, Option.some.injEq] at he
  rw [← he]; simpa [FeedRes.bad] using h2

/-- a state invariant preserved by every step, flush, end-of-stream error and look-ahead error (the
first halves of `Lemmas.Scalar.ScalarInv`; kept separate so that the theorems below do not inherit the
`native_decide` table checks of the scalar-value half) -/
structure StInv (F : Fam) where
  Inv : F.σ → Prop
  init : Inv F.init
  step : ∀ s b, Inv s → F.pend s = none → b < 256 → Inv (F.feed s b).st
  pend : ∀ s o s', Inv s → F.pend s = some (o, s') → Inv s'
  eof : ∀ s e s', Inv s → F.eof s = some (e, s') → Inv s'
  alt : ∀ s src m r, Inv s → F.alt s src = some (m, r) → Inv r.st

def StInv.ofScalar {F : Fam} (I : ScalarInv F) : StInv F where
  Inv := I.Inv
  init := I.init
  step := fun s b hi hp hb => (I.step s b hi hp hb).1
  pend := fun s o s' hi h => (I.pend s o s' hi h).1
  eof := I.eof
  alt := fun s src m r hi h => (I.alt s src m r hi h).1

def StInv.trivial (F : Fam) : StInv F where
  Inv := fun _ => True
  init := True.intro
  step := fun _ _ _ _ _ => True.intro
  pend := fun _ _ _ _ _ => True.intro
  eof := fun _ _ _ _ _ => True.intro
  alt := fun _ _ _ _ _ _ => True.intro

/-- the in-flight byte count of a family -/
structure SpanFam (F : Fam) (I : StInv F) where
  seen : F.σ → Nat
  init : seen F.init = 0
  step : ∀ s b, I.Inv s → F.pend s = none → b < 256 → SpanOk (seen s) seen (F.feed s b)
  pend : ∀ s o s', F.pend s = some (o, s') → seen s' ≤ seen s
  eof : ∀ s e s', F.pend s = none → F.eof s = some (e, s') → e.1 + e.2 ≤ seen s ∧ seen s' ≤ seen s
  alt : ∀ s src m r, F.pend s = none → F.alt s src = some (m, r) →
    seen r.st ≤ seen s + m ∧ ∀ e, r.err = some e → e.1 + e.2 ≤ seen s + m

theorem run_span {F : Fam} {I : StInv F} (S : SpanFam F I) (k : Sink) (L : Laws F) (last : Bool) :
    ∀ (src : List Nat) (s : F.σ) (budget : Budget), I.Inv s → F.pend s = none → (∀ b ∈ src, b < 256) →
      I.Inv (run F k last s src budget).st ∧
      S.seen (run F k last s src budget).st ≤ S.seen s + (run F k last s src budget).read ∧
      ∀ l a, (run F k last s src budget).res = .malformed l a →
        l + a ≤ S.seen s + (run F k last s src budget).read := by
  intro src
  induction src with
  | nil =>
    intro s budget hi hp _
    simp only [run]
    cases last with
    | false => exact ⟨hi, Nat.le_refl _, by intro l a h; cases h⟩
    | true =>
      simp only [if_true]
      cases he : F.eof s with
      | none => exact ⟨hi, Nat.le_refl _, by intro l a h; cases h⟩
      | some p =>
        obtain ⟨e, s'⟩ := p
        have h := S.eof s e s' hp he
        simp only
        split
        · exact ⟨hi, Nat.le_refl _, by intro l a h; cases h⟩
        · refine ⟨I.eof s e s' hi he, by simpa using h.2, ?_⟩
          intro l a hla
          simp only [Res.malformed.injEq] at hla
          rw [← hla.1, ← hla.2]; simpa using h.1
  | cons b tl ih =>
    intro s budget hi hp hb
    have hb0 : b < 256 := hb b (List.mem_cons_self ..)
    rw [run]
    cases hstop : stopHere F k s b tl budget with
    | some r =>
      simp only
      cases budget with
      | unlimited => simp [stopHere] at hstop
      | full n =>
        simp only [stopHere] at hstop
        split at hstop
        · cases hstop; exact ⟨hi, Nat.le_refl _, by intro l a h; cases h⟩
        · cases hstop
      | altAny =>
        simp only [stopHere] at hstop
        cases ha : F.alt s (b :: tl) with
        | none => simp [ha] at hstop
        | some p =>
          obtain ⟨m, r'⟩ := p
          have h := S.alt s (b :: tl) m r' hp ha
          simp only [ha] at hstop
          cases hE : r'.err with
          | none => simp [hE] at hstop
          | some e =>
            simp only [hE, Option.some.injEq] at hstop
            subst hstop
            refine ⟨I.alt s (b :: tl) m r' hi ha, h.1, ?_⟩
            intro l a hla
            simp only [Res.malformed.injEq] at hla
            rw [← hla.1, ← hla.2]; exact h.2 e hE
    | none =>
      simp only
      have hstep := S.step s b hi hp hb0
      have hinv := I.step s b hi hp hb0
      cases hE : (F.feed s b).err with
      | none =>
        simp only
        have hu := L.noerr_unread s b hE
        have IH := ih (F.feed s b).st budget.dec hinv (L.pend_err s b hp hE)
          (fun x hx => hb x (List.mem_cons_of_mem _ hx))
        have h1 := hstep.1
        simp only [hu, Bool.false_eq_true, if_false] at h1
        refine ⟨IH.1, by have := IH.2.1; omega, ?_⟩
        intro l a hla
        have := IH.2.2 l a hla
        omega
      | some e =>
        simp only
        refine ⟨hinv, by simpa [Nat.add_comm] using hstep.1, ?_⟩
        intro l a hla
        simp only [Res.malformed.injEq] at hla
        rw [← hla.1, ← hla.2]
        have := hstep.2 e hE
        split <;> simp_all

/-- **a raw call reports only error spans that lie inside the in-flight bytes plus what it read**
(and re-establishes the invariant) -/
theorem call_span {F : Fam} {I : StInv F} (S : SpanFam F I) (k : Sink) (L : Laws F) (s : F.σ)
    (src : List Nat) (last : Bool) (budget : Budget) (hi : I.Inv s) (hb : ∀ b ∈ src, b < 256) :
    I.Inv (call F k s src last budget).st ∧
    S.seen (call F k s src last budget).st ≤ S.seen s + (call F k s src last budget).read ∧
    ∀ l a, (call F k s src last budget).res = .malformed l a →
      l + a ≤ S.seen s + (call F k s src last budget).read := by
  unfold call
  cases hp : F.pend s with
  | none => exact run_span S k L last src s budget hi hp hb
  | some p =>
    obtain ⟨o, s'⟩ := p
    simp only
    split
    · exact ⟨hi, Nat.le_refl _, by intro l a h; cases h⟩
    · have h := run_span S k L last src s' budget.dec (I.pend s o s' hi hp) (L.pend_once s o s' hp) hb
      have hle := S.pend s o s' hp
      refine ⟨h.1, ?_, ?_⟩
      · show S.seen (run F k last s' src budget.dec).st ≤ S.seen s + (run F k last s' src budget.dec).read
        have := h.2.1; omega
      · intro l a hla
        show l + a ≤ S.seen s + (run F k last s' src budget.dec).read
        have := h.2.2 l a hla
        omega

/-- the numeric ranges of the documentation for every `Malformed` a raw call returns -/
theorem run_errOk {F : Fam} (I : StInv F) (k : Sink) (L : Laws F) (last : Bool)
    (hfeed : ∀ s b e, I.Inv s → (F.feed s b).err = some e → ErrOk e)
    (heof : ∀ s e s', I.Inv s → F.eof s = some (e, s') → ErrOk e)
    (halt : ∀ s src m r e, F.alt s src = some (m, r) → r.err = some e → ErrOk e) :
    ∀ (src : List Nat) (s : F.σ) (budget : Budget), I.Inv s → F.pend s = none → (∀ b ∈ src, b < 256) →
      ∀ l a, (run F k last s src budget).res = .malformed l a → ErrOk (l, a) := by
  intro src
  induction src with
  | nil =>
    intro s budget hi hp _ l a h
    simp only [run] at h
    cases last with
    | false => simp at h
    | true =>
      simp only [if_true] at h
      cases he : F.eof s with
      | none => simp [he] at h
      | some p =>
        obtain ⟨e, s'⟩ := p
        simp only [he] at h
        split at h
        · cases h
        · simp only [Res.malformed.injEq] at h
          rw [← h.1, ← h.2]; exact heof s e s' hi he
  | cons b tl ih =>
    intro s budget hi hp hb l a h
    have hb0 : b < 256 := hb b (List.mem_cons_self ..)
    rw [run] at h
    cases hstop : stopHere F k s b tl budget with
    | some r =>
      simp only [hstop] at h
      cases budget with
      | unlimited => simp [stopHere] at hstop
      | full n =>
        simp only [stopHere] at hstop
        split at hstop
        · cases hstop; cases h
        · cases hstop
      | altAny =>
        simp only [stopHere] at hstop
        cases ha : F.alt s (b :: tl) with
        | none => simp [ha] at hstop
        | some p =>
          obtain ⟨m, r'⟩ := p
          simp only [ha] at hstop
          cases hE : r'.err with
          | none => simp [hE] at hstop
          | some e =>
            simp only [hE, Option.some.injEq] at hstop
            subst hstop
            simp only [Res.malformed.injEq] at h
            rw [← h.1, ← h.2]; exact halt s (b :: tl) m r' e ha hE
    | none =>
      simp only [hstop] at h
      cases hE : (F.feed s b).err with
      | none =>
        simp only [hE] at h
        exact ih (F.feed s b).st budget.dec (I.step s b hi hp hb0) (L.pend_err s b hp hE)
          (fun x hx => hb x (List.mem_cons_of_mem _ hx)) l a h
      | some e =>
        simp only [hE, Res.malformed.injEq] at h
        rw [← h.1, ← h.2]; exact hfeed s b e hi hE

theorem call_errOk {F : Fam} (I : StInv F) (k : Sink) (L : Laws F)
    (hfeed : ∀ s b e, I.Inv s → (F.feed s b).err = some e → ErrOk e)
    (heof : ∀ s e s', I.Inv s → F.eof s = some (e, s') → ErrOk e)
    (halt : ∀ s src m r e, F.alt s src = some (m, r) → r.err = some e → ErrOk e)
    (s : F.σ) (src : List Nat) (last : Bool) (budget : Budget) (hi : I.Inv s) (hb : ∀ b ∈ src, b < 256)
    (l a : Nat) (h : (call F k s src last budget).res = .malformed l a) : ErrOk (l, a) := by
  unfold call at h
  cases hp : F.pend s with
  | none => simp only [hp] at h; exact run_errOk I k L last hfeed heof halt src s budget hi hp hb l a h
  | some p =>
    obtain ⟨o, s'⟩ := p
    simp only [hp] at h
    split at h
    · cases h
    · exact run_errOk I k L last hfeed heof halt src s' budget.dec (I.pend s o s' hi hp)
        (L.pend_once s o s' hp) hb l a h

/-! ### the in-flight count of every family -/

/-- close a leaf of a feed function: `.ok` / `.bad` / `.bad … true` with the arithmetic side goals -/
macro "span_arith" : tactic =>
  `(tactic| first | omega | (simp only []; omega) | (simp; done) | (simp; omega))

macro "span_leaf" : tactic =>
  `(tactic| first
    | (with_reducible apply spanOk_ok; span_arith)
    | (with_reducible apply spanOk_unread <;> span_arith)
    | (with_reducible apply spanOk_bad <;> span_arith))

/-- families without state that matters: nothing is ever in flight -/
def zeroSpan (F : Fam) (I : StInv F)
    (hstep : ∀ s b, SpanOk 0 (fun _ : F.σ => 0) (F.feed s b))
    (hpend : ∀ s, F.pend s = none) (heof : ∀ s, F.eof s = none) (halt : ∀ s src, F.alt s src = none) :
    SpanFam F I where
  seen := fun _ => 0
  init := rfl
  step := fun s b _ _ _ => hstep s b
  pend := fun s o s' h => by rw [hpend s] at h; cases h
  eof := fun s e s' _ h => by rw [heof s] at h; cases h
  alt := fun s src m r _ h => by rw [halt s src] at h; cases h

theorem singleByte_spanOk (t : Array Nat) (s : Unit) (b : Nat) :
    SpanOk 0 (fun _ : Unit => 0) (singleByteFeed t s b) := by
  unfold singleByteFeed
  split
  · span_leaf
  · simp only []
    split <;> span_leaf

theorem userDefined_spanOk (s : Unit) (b : Nat) : SpanOk 0 (fun _ : Unit => 0) (userDefinedFeed s b) := by
  unfold userDefinedFeed
  split <;> span_leaf

theorem replacement_spanOk (s : Bool) (b : Nat) : SpanOk 0 (fun _ : Bool => 0) (replacementFeed s b) := by
  unfold replacementFeed
  split <;> span_leaf

def singleByteSpan (t : Array Nat) (I : StInv (singleByteFam t)) : SpanFam (singleByteFam t) I :=
  zeroSpan _ I (singleByte_spanOk t) (fun _ => rfl) (fun _ => rfl) (fun _ _ => rfl)
def userDefinedSpan (I : StInv userDefinedFam) : SpanFam userDefinedFam I :=
  zeroSpan _ I userDefined_spanOk (fun _ => rfl) (fun _ => rfl) (fun _ _ => rfl)
def replacementSpan (I : StInv replacementFam) : SpanFam replacementFam I :=
  zeroSpan _ I replacement_spanOk (fun _ => rfl) (fun _ => rfl) (fun _ _ => rfl)

/-! two-byte families: the lead byte -/

def twoByteSeen (s : Option Nat) : Nat := if s.isSome then 1 else 0

theorem twoByte_spanOk (lf : Nat → LeadRes) (tf : Nat → Nat → TrailRes) (s : Option Nat) (b : Nat) :
    SpanOk (twoByteSeen s) twoByteSeen (twoByteFeed lf tf s b) := by
  cases s with
  | none =>
    simp only [twoByteFeed]
    split
    · exact spanOk_ok _ _ _ _ (by simp [twoByteSeen])
    · cases lf b with
      | lead l => exact spanOk_ok _ _ _ _ (by simp [twoByteSeen])
      | out c => exact spanOk_ok _ _ _ _ (by simp [twoByteSeen])
      | bad => exact spanOk_bad _ _ _ _ _ (by simp [twoByteSeen]) (by simp [twoByteSeen])
  | some l =>
    simp only [twoByteFeed]
    cases tf l b with
    | out cs => exact spanOk_ok _ _ _ _ (by simp [twoByteSeen])
    | bad =>
      simp only []
      split
      · exact spanOk_unread _ _ _ _ _ (by simp [twoByteSeen]) (by simp [twoByteSeen])
      · exact spanOk_bad _ _ _ _ _ (by simp [twoByteSeen]) (by simp [twoByteSeen])

def twoByteSpan (lf : Nat → LeadRes) (tf : Nat → Nat → TrailRes) (a : Bool) (I : StInv (twoByteFam lf tf a)) :
    SpanFam (twoByteFam lf tf a) I where
  seen := twoByteSeen
  init := rfl
  step := fun s b _ _ _ => twoByte_spanOk lf tf s b
  pend := fun s o s' h => by cases h
  eof := by
    intro s e s' _ h
    cases s with
    | none => cases h
    | some l => cases h; simp [twoByteSeen]
  alt := fun s src m r _ h => by cases h

/-! EUC-JP: `eucJpCount` -/

theorem eucJp_spanOk (s : EucJpSt) (b : Nat) : SpanOk (eucJpCount s) eucJpCount (eucJpFeed s b) := by
  cases s with
  | none =>
    unfold eucJpFeed; simp only
    split
    · exact spanOk_ok _ _ _ _ (by simp [eucJpCount])
    · split
      · exact spanOk_ok _ _ _ _ (by simp [eucJpCount])
      · split
        · exact spanOk_ok _ _ _ _ (by simp [eucJpCount])
        · split
          · exact spanOk_ok _ _ _ _ (by simp [eucJpCount])
          · exact spanOk_bad _ _ _ _ _ (by simp [eucJpCount]) (by simp [eucJpCount])
  | jis0208Lead l =>
    unfold eucJpFeed; simp only
    cases eucJpJis0208Trail l b with
    | out cs => exact spanOk_ok _ _ _ _ (by simp [eucJpCount])
    | bad =>
      simp only []
      split
      · exact spanOk_unread _ _ _ _ _ (by simp [eucJpCount]) (by simp [eucJpCount])
      · exact spanOk_bad _ _ _ _ _ (by simp [eucJpCount]) (by simp [eucJpCount])
  | jis0212Shift =>
    unfold eucJpFeed; simp only
    split
    · split
      · exact spanOk_unread _ _ _ _ _ (by simp [eucJpCount]) (by simp [eucJpCount])
      · exact spanOk_bad _ _ _ _ _ (by simp [eucJpCount]) (by simp [eucJpCount])
    · exact spanOk_ok _ _ _ _ (by simp [eucJpCount])
  | jis0212Lead l =>
    unfold eucJpFeed; simp only
    cases eucJpJis0212Trail l b with
    | out cs => exact spanOk_ok _ _ _ _ (by simp [eucJpCount])
    | bad =>
      simp only []
      split
      · exact spanOk_unread _ _ _ _ _ (by simp [eucJpCount]) (by simp [eucJpCount])
      · exact spanOk_bad _ _ _ _ _ (by simp [eucJpCount]) (by simp [eucJpCount])
  | halfWidthKatakana =>
    unfold eucJpFeed; simp only
    split
    · split
      · exact spanOk_unread _ _ _ _ _ (by simp [eucJpCount]) (by simp [eucJpCount])
      · exact spanOk_bad _ _ _ _ _ (by simp [eucJpCount]) (by simp [eucJpCount])
    · exact spanOk_ok _ _ _ _ (by simp [eucJpCount])

def eucJpSpan (I : StInv eucJpFam) : SpanFam eucJpFam I where
  seen := eucJpCount
  init := rfl
  step := fun s b _ _ _ => eucJp_spanOk s b
  pend := fun s o s' h => by cases h
  eof := by
    intro (s : EucJpSt) e (s' : EucJpSt) _ h
    have he : eucJpFam.eof s = if s = .none then none else some ((eucJpCount s, 0), EucJpSt.none) := rfl
    rw [he] at h
    split at h
    · cases h
    · cases h; simp [eucJpCount]
  alt := fun s src m r _ h => by cases h

/-! gb18030: `gbCount` of the pending bytes -/

def gbSeen (s : GbSt) : Nat := gbCount s.pending

theorem gb_spanOk (s : GbSt) (b : Nat) : SpanOk (gbSeen s) gbSeen (gbFeed s b) := by
  obtain ⟨p, pa⟩ := s
  cases p with
  | none =>
    unfold gbFeed; simp only
    split
    · exact spanOk_ok _ _ _ _ (by simp [gbSeen, gbInit, gbCount])
    · split
      · split
        · exact spanOk_ok _ _ _ _ (by simp [gbSeen, gbInit, gbCount])
        · exact spanOk_bad _ _ _ _ _ (by simp [gbSeen, gbInit, gbCount]) (by simp [gbSeen, gbCount])
      · exact spanOk_ok _ _ _ _ (by simp [gbSeen, gbCount])
  | one a =>
    unfold gbFeed; simp only
    split
    · cases gbSecond a b with
      | out cs => exact spanOk_ok _ _ _ _ (by simp [gbSeen, gbInit, gbCount])
      | bad =>
        simp only []
        split
        · exact spanOk_unread _ _ _ _ _ (by simp [gbSeen, gbInit, gbCount]) (by simp [gbSeen, gbCount])
        · exact spanOk_bad _ _ _ _ _ (by simp [gbSeen, gbInit, gbCount]) (by simp [gbSeen, gbCount])
    · exact spanOk_ok _ _ _ _ (by simp [gbSeen, gbCount])
  | two a sm =>
    unfold gbFeed; simp only
    split
    · exact spanOk_unread _ _ _ _ _ (by simp [gbSeen, gbCount]) (by simp [gbSeen, gbCount])
    · exact spanOk_ok _ _ _ _ (by simp [gbSeen, gbCount])
  | three a sm tm =>
    unfold gbFeed; simp only
    split
    · exact spanOk_unread _ _ _ _ _ (by simp [gbSeen, gbCount]) (by simp [gbSeen, gbCount])
    · cases gbFour a sm tm (wsub8 b 0x30) with
      | some c => exact spanOk_ok _ _ _ _ (by simp [gbSeen, gbInit, gbCount])
      | none => exact spanOk_bad _ _ _ _ _ (by simp [gbSeen, gbInit, gbCount]) (by simp [gbSeen, gbCount])

def gbSpan (I : StInv gbFam) : SpanFam gbFam I where
  seen := gbSeen
  init := rfl
  step := fun s b _ _ _ => gb_spanOk s b
  pend := by
    intro (s : GbSt) o (s' : GbSt) h
    obtain ⟨p, pa⟩ := s
    cases pa with
    | none => cases h
    | some a => cases h; exact Nat.le_refl _
  eof := by
    intro (s : GbSt) e (s' : GbSt) _ h
    have he : gbFam.eof s = if s.pending = .none then none
        else some ((gbCount s.pending, 0), (⟨.none, s.pendingAscii⟩ : GbSt)) := rfl
    rw [he] at h
    split at h
    · cases h
    · cases h; simp [gbSeen, gbCount]
  alt := fun s src m r _ h => by cases h

/-! UTF-8: the lead byte plus the continuation bytes seen -/

def utf8Seen (s : Utf8St) : Nat := if s.needed = 0 then 0 else s.seen + 1

theorem utf8_spanOk (s : Utf8St) (b : Nat) (hi : utf8Inv s) : SpanOk (utf8Seen s) utf8Seen (utf8Feed s b) := by
  have h0 : s.needed = 0 → s.seen = 0 := by
    unfold utf8Inv at hi
    rcases hi with h | h | h | h | h | h | h <;> omega
  unfold utf8Feed
  by_cases hn : s.needed = 0
  · have hs := h0 hn
    simp only [hn, if_true]
    have e0 : utf8Seen s = 0 := by simp [utf8Seen, hn]
    rw [e0]
    split
    · exact spanOk_ok _ _ _ _ (by simp [utf8Seen, hn])
    · split
      · exact spanOk_bad _ _ _ _ _ (by simp [utf8Seen, hn]) (by simp)
      · split
        · exact spanOk_ok _ _ _ _ (by simp [utf8Seen, hs])
        · split
          · refine spanOk_ok _ _ _ _ ?_
            by_cases h1 : b = 0xE0 <;> by_cases h2 : b = 0xED <;> simp [utf8Seen, h1, h2, hs]
          · split
            · refine spanOk_ok _ _ _ _ ?_
              by_cases h1 : b = 0xF0 <;> by_cases h2 : b = 0xF4 <;> simp [utf8Seen, h1, h2, hs]
            · exact spanOk_bad _ _ _ _ _ (by simp [utf8Seen, hn]) (by simp)
  · simp only [hn, if_false]
    have e0 : utf8Seen s = s.seen + 1 := by simp [utf8Seen, hn]
    rw [e0]
    split
    · exact spanOk_unread _ _ _ _ _ (by simp [utf8Seen, utf8Init]) (by simp)
    · split
      · refine spanOk_ok _ _ _ _ ?_
        simp [utf8Seen, hn]
      · exact spanOk_ok _ _ _ _ (by simp [utf8Seen, utf8Init])

def utf8Span : SpanFam utf8Fam (StInv.ofScalar utf8Scalar) where
  seen := utf8Seen
  init := rfl
  step := fun s b hi _ _ => utf8_spanOk s b hi
  pend := fun s o s' h => by cases h
  eof := by
    intro (s : Utf8St) e (s' : Utf8St) _ h
    have he : utf8Fam.eof s = if s.needed ≠ 0 then some ((s.seen + 1, 0), utf8Init) else none := rfl
    rw [he] at h
    split at h
    · rename_i hn
      cases h
      simp [utf8Seen, hn, utf8Init]
    · cases h
  alt := fun s src m r _ h => by cases h

/-! UTF-16: a pending byte, and a pending lead surrogate (2) -/

def utf16Seen (s : Utf16St) : Nat :=
  (if s.leadSurrogate ≠ 0 ∧ s.pendingBmp = false then 2 else 0) + (if s.leadByte.isSome then 1 else 0)

theorem utf16_spanOk (be : Bool) (s : Utf16St) (b : Nat) (hp : s.pendingBmp = false) :
    SpanOk (utf16Seen s) utf16Seen (utf16Feed be s b) := by
  obtain ⟨lb, ls, pb⟩ := s
  simp only at hp
  subst hp
  cases lb with
  | none =>
    simp only [utf16Feed]
    refine spanOk_ok _ _ _ _ ?_
    simp only [utf16Seen, Option.isSome_none, Option.isSome_some]
    split <;> simp
  | some lead =>
    simp only [utf16Feed]
    by_cases hls : ls = 0
    · subst hls
      repeat' split
      all_goals first
        | (refine spanOk_ok _ _ _ _ ?_; simp [utf16Seen] <;> (try split) <;> omega)
        | (refine spanOk_bad _ _ _ _ _ ?_ ?_ <;> simp [utf16Seen] <;> (try split) <;> omega)
        | (exfalso; simp_all)
    · repeat' split
      all_goals first
        | (refine spanOk_ok _ _ _ _ ?_; simp [utf16Seen, hls] <;> (try split) <;> omega)
        | (refine spanOk_bad _ _ _ _ _ ?_ ?_ <;> simp [utf16Seen, hls] <;> (try split) <;> omega)
        | (exfalso; simp_all)

def utf16Span (be : Bool) (I : StInv (utf16Fam be)) : SpanFam (utf16Fam be) I where
  seen := utf16Seen
  init := rfl
  step := fun s b _ hp _ => utf16_spanOk be s b ((utf16_pend_none_iff s be).mp hp)
  pend := by
    intro (s : Utf16St) o (s' : Utf16St) h
    have he : (utf16Fam be).pend s
        = if s.pendingBmp then some ([s.leadSurrogate], (⟨s.leadByte, 0, false⟩ : Utf16St)) else none := rfl
    rw [he] at h
    split at h
    · rename_i hpb
      cases h
      simp [utf16Seen, hpb]
    · cases h
  eof := by
    intro (s : Utf16St) e (s' : Utf16St) hp h
    have hpb := (utf16_pend_none_iff s be).mp hp
    have h' : utf16Eof s = some (e, s') := h
    unfold utf16Eof at h'
    obtain ⟨lb, ls, pb⟩ := s
    simp only at hpb h'
    subst hpb
    split at h'
    · rename_i hls
      split at h'
      · cases h'; simp [utf16Seen, hls, utf16Init]
      · cases h'; simp [utf16Seen, hls, utf16Init]
    · split at h'
      · cases h'; simp [utf16Seen, utf16Init]
      · cases h'
  alt := by
    intro (s : Utf16St) src m (r : FeedRes Utf16St) _ h
    have h' : utf16Alt be s src = some (m, r) := h
    unfold utf16Alt at h'
    split at h'
    · cases h'
    · split at h'
      · simp only at h'
        split at h'
        · simp only [Option.some.injEq, Prod.mk.injEq] at h'
          rw [← h'.1, ← h'.2]
          refine ⟨by simp [FeedRes.bad, utf16Seen, utf16Init], ?_⟩
          intro e he
          simp only [FeedRes.bad, Option.some.injEq] at he
          rw [← he]; simp
        · cases h'
      · cases h'

/-! ISO-2022-JP: a pending lead / escape prefix, the three bytes of an escape sequence that produced
no output yet (`output_flag`), and the prepended byte -/

def isoDsSeen : IsoSt → Nat
  | .trailByte => 1
  | .escapeStart => 1
  | .escape => 2
  | _ => 0

def isoSeen (s : Iso2022JpSt) : Nat :=
  isoDsSeen s.decoderState + (if s.outputFlag then 3 else 0) + (if s.pendingPrepended then 1 else 0)

theorem isoDsSeen_toSt (o : IsoOut) : isoDsSeen o.toSt = 0 := by cases o <;> rfl

macro "iso_arith" : tactic =>
  `(tactic| (simp only [isoSeen, isoDsSeen_toSt]; (try simp [isoDsSeen]) <;> (repeat' split) <;> omega))

macro "iso_leaf" : tactic =>
  `(tactic| first
    | (refine spanOk_ok _ _ _ _ ?_; iso_arith)
    | (refine spanOk_unread _ _ _ _ _ ?_ ?_ <;> iso_arith)
    | (refine spanOk_bad _ _ _ _ _ ?_ ?_ <;> iso_arith))

theorem iso_spanOk (s : Iso2022JpSt) (b : Nat) : SpanOk (isoSeen s) isoSeen (isoFeed s b) := by
  obtain ⟨ds, os, l, f, p⟩ := s
  cases ds
  case trailByte =>
    unfold isoFeed; simp only
    split
    · iso_leaf
    · cases isoTrail l b with
      | out cs => simp only []; iso_leaf
      | bad => simp only []; iso_leaf
  case escape =>
    unfold isoFeed; simp only
    cases isoEscapeTarget l b with
    | some t =>
      simp only []
      cases f with
      | true => simp only [if_true]; iso_leaf
      | false => simp only [Bool.false_eq_true, if_false]; iso_leaf
    | none => simp only []; iso_leaf
  all_goals
    unfold isoFeed; simp only
    repeat' split
    all_goals iso_leaf

def isoSpan (I : StInv iso2022JpFam) : SpanFam iso2022JpFam I where
  seen := isoSeen
  init := rfl
  step := fun s b _ _ _ => iso_spanOk s b
  pend := by
    intro (s : Iso2022JpSt) o (s' : Iso2022JpSt) h
    have h' : isoPend s = some (o, s') := h
    obtain ⟨ds, os, l, f, p⟩ := s
    unfold isoPend at h'
    cases p with
    | false => simp at h'
    | true =>
      simp only [if_true] at h'
      cases ds <;> simp only [Option.some.injEq, Prod.mk.injEq] at h' <;> obtain ⟨_, rfl⟩ := h' <;>
        iso_arith
  eof := by
    intro (s : Iso2022JpSt) e (s' : Iso2022JpSt) _ h
    have h' : isoEof s = some (e, s') := h
    obtain ⟨ds, os, l, f, p⟩ := s
    unfold isoEof at h'
    cases ds <;> simp only [Option.some.injEq, Prod.mk.injEq, reduceCtorEq] at h'
    all_goals
      obtain ⟨rfl, rfl⟩ := h'
      constructor <;> iso_arith
  alt := fun s src m r _ h => by cases h

/-! ### all 13 variant decoders -/

/-- the invariant the range theorems need: the UTF-8 decoder's (`seen ≤ 2` etc.); none elsewhere -/
def variantStInv : (v : Gen.Variant) → StInv (famOfVariant v)
  | .utf8 => StInv.ofScalar utf8Scalar
  | v => StInv.trivial (famOfVariant v)

def variantSpan : (v : Gen.Variant) → SpanFam (famOfVariant v) (variantStInv v)
  | .singleByte _ _ _ _ => singleByteSpan _ _
  | .utf8 => utf8Span
  | .gbk => gbSpan _
  | .gb18030 => gbSpan _
  | .big5 => twoByteSpan _ _ _ _
  | .eucJp => eucJpSpan _
  | .iso2022Jp => isoSpan _
  | .shiftJis => twoByteSpan _ _ _ _
  | .eucKr => twoByteSpan _ _ _ _
  | .replacement => replacementSpan _
  | .utf16Be => utf16Span true _
  | .utf16Le => utf16Span false _
  | .userDefined => userDefinedSpan _

/-- `Thm.C01.malformed_numbers` restated over `variantStInv` (only UTF-8 needs an invariant) -/
theorem variant_errOk (v : Gen.Variant) (s : (famOfVariant v).σ) (hi : (variantStInv v).Inv s) :
    (∀ b e, ((famOfVariant v).feed s b).err = some e → ErrOk e) ∧
    (∀ e s', (famOfVariant v).eof s = some (e, s') → ErrOk e) := by
  cases v with
  | singleByte t a b c => exact ⟨fun b => singleByte_eok _ s b, fun e s' h => by cases h⟩
  | utf8 => exact ⟨fun b => utf8_eok s b hi, fun e s' h => utf8_eof_ok s hi e s' h⟩
  | gbk => exact ⟨fun b => gb_eok s b, fun e s' h => gb_eof_ok s e s' h⟩
  | gb18030 => exact ⟨fun b => gb_eok s b, fun e s' h => gb_eof_ok s e s' h⟩
  | big5 => exact ⟨fun b => twoByte_eok big5Lead big5Trail s b, fun e s' h => twoByte_eof_ok big5Lead big5Trail true s e s' h⟩
  | eucJp => exact ⟨fun b => eucJp_eok s b, fun e s' h => eucJp_eof_ok s e s' h⟩
  | iso2022Jp => exact ⟨fun b => iso_eok s b, fun e s' h => iso_eof_ok s e s' h⟩
  | shiftJis => exact ⟨fun b => twoByte_eok shiftJisLead shiftJisTrail s b, fun e s' h => twoByte_eof_ok shiftJisLead shiftJisTrail false s e s' h⟩
  | eucKr => exact ⟨fun b => twoByte_eok eucKrLead eucKrTrail s b, fun e s' h => twoByte_eof_ok eucKrLead eucKrTrail false s e s' h⟩
  | replacement => exact ⟨fun b => replacement_eok s b, fun e s' h => by cases h⟩
  | utf16Be => exact ⟨fun b => utf16_eok true s b, fun e s' h => utf16_eof_ok s e s' h⟩
  | utf16Le => exact ⟨fun b => utf16_eok false s b, fun e s' h => utf16_eof_ok s e s' h⟩
  | userDefined => exact ⟨fun b => userDefined_eok s b, fun e s' h => by cases h⟩

theorem utf16_alt_errOk (be : Bool) (s : Utf16St) (src : List Nat) (m : Nat) (r : FeedRes Utf16St) (e : Nat × Nat)
    (h : utf16Alt be s src = some (m, r)) (he : r.err = some e) : ErrOk e := by
  unfold utf16Alt at h
  split at h
  · cases h
  · split at h
    · simp only at h
      split at h
      · simp only [Option.some.injEq, Prod.mk.injEq] at h
        rw [← h.2] at he
        simp only [FeedRes.bad, Option.some.injEq] at he
        rw [← he]; unfold ErrOk; decide
      · cases h
    · cases h

theorem variant_alt_errOk (v : Gen.Variant) (s : (famOfVariant v).σ) (src : List Nat) (m : Nat)
    (r : FeedRes (famOfVariant v).σ) (e : Nat × Nat)
    (h : (famOfVariant v).alt s src = some (m, r)) (he : r.err = some e) : ErrOk e := by
  cases v
  case utf16Be => exact utf16_alt_errOk true s src m r e h he
  case utf16Le => exact utf16_alt_errOk false s src m r e h he
  all_goals cases h

/-- every `Malformed(l, a)` a raw call returns from a state satisfying the invariant: the documented
ranges, and the span fits in the in-flight bytes plus what the call read -/
theorem variant_call_malformed (v : Gen.Variant) (k : Sink) (s : (famOfVariant v).σ) (src : List Nat)
    (last : Bool) (budget : Budget) (hi : (variantStInv v).Inv s) (hb : ∀ b ∈ src, b < 256) (l a : Nat)
    (h : (call (famOfVariant v) k s src last budget).res = .malformed l a) :
    ErrOk (l, a) ∧ l + a ≤ (variantSpan v).seen s + (call (famOfVariant v) k s src last budget).read :=
  ⟨call_errOk (variantStInv v) k (famOfVariant_laws v)
      (fun s b e hi he => (variant_errOk v s hi).1 b e he)
      (fun s e s' hi he => (variant_errOk v s hi).2 e s' he)
      (fun s src m r e ha he => variant_alt_errOk v s src m r e ha he) s src last budget hi hb l a h,
    (call_span (variantSpan v) k (famOfVariant_laws v) s src last budget hi hb).2.2 l a h⟩

/-- state `s` is reached from the initial state by raw calls (any sink, chunks, stop decisions) that
consumed `pos` bytes in total -/
inductive ReachAt (v : Gen.Variant) : (famOfVariant v).σ → Nat → Prop
  | init : ReachAt v (famOfVariant v).init 0
  | call (k : Sink) (s : (famOfVariant v).σ) (pos : Nat) (src : List Nat) (last : Bool) (budget : Budget) :
      ReachAt v s pos → (∀ b ∈ src, b < 256) →
      ReachAt v (Model.call (famOfVariant v) k s src last budget).st
        (pos + (Model.call (famOfVariant v) k s src last budget).read)

theorem reachAt_inv (v : Gen.Variant) (s : (famOfVariant v).σ) (pos : Nat) (h : ReachAt v s pos) :
    (variantStInv v).Inv s ∧ (variantSpan v).seen s ≤ pos := by
  induction h with
  | init => exact ⟨(variantStInv v).init, by rw [(variantSpan v).init]; exact Nat.le_refl _⟩
  | call k s pos src last budget _ hb ih =>
    have hc := call_span (variantSpan v) k (famOfVariant_laws v) s src last budget ih.1 hb
    refine ⟨hc.1, ?_⟩
    have := hc.2.1
    have := ih.2
    omega

/-- **C06, `Malformed(len, after)` at call level, all 40 encodings**: in every state reached from
the initial state by any history of raw calls that consumed `pos` bytes, a raw call that returns
`Malformed(l, a)` has `1 ≤ l ≤ 4`, `a ≤ 3`, `l + a ≤ 6`, and `l + a ≤ pos + read`: the malformed
sequence and the bytes consumed after it lie inside what has been read so far -/
theorem call_malformed_ranges (v : Gen.Variant) (s : (famOfVariant v).σ) (pos : Nat) (hr : ReachAt v s pos)
    (k : Sink) (src : List Nat) (last : Bool) (budget : Budget) (hb : ∀ b ∈ src, b < 256) (l a : Nat)
    (h : (call (famOfVariant v) k s src last budget).res = .malformed l a) :
    1 ≤ l ∧ l ≤ 4 ∧ a ≤ 3 ∧ l + a ≤ 6 ∧ l + a ≤ pos + (call (famOfVariant v) k s src last budget).read := by
  obtain ⟨hi, hs⟩ := reachAt_inv v s pos hr
  obtain ⟨h1, h2⟩ := variant_call_malformed v k s src last budget hi hb l a h
  obtain ⟨a1, a2, a3, a4⟩ := h1
  exact ⟨a1, a2, a3, a4, by omega⟩

/-! ## (b) no panic -/

/-- an `OutputFull` stop of the main loop that read nothing wrote nothing -/
theorem run_outputFull_zero_out (F : Fam) (k : Sink) (last : Bool) (s : F.σ) (src : List Nat) (b : Budget)
    (hres : (run F k last s src b).res = .outputFull) (hread : (run F k last s src b).read = 0) :
    (run F k last s src b).out = [] := by
  cases src with
  | nil =>
    simp only [run]
    repeat' split
    all_goals rfl
  | cons x tl =>
    rw [run] at hres hread ⊢
    cases hstop : stopHere F k s x tl b with
    | some r =>
      simp only [hstop] at hres hread ⊢
      cases b with
      | unlimited => simp [stopHere] at hstop
      | full n =>
        simp only [stopHere] at hstop
        split at hstop
        · cases hstop; rfl
        · cases hstop
      | altAny =>
        simp only [stopHere] at hstop
        cases ha : F.alt s (x :: tl) with
        | none => simp [ha] at hstop
        | some p =>
          obtain ⟨m, r'⟩ := p
          simp only [ha] at hstop
          split at hstop
          · cases hstop; cases hres
          · cases hstop
    | none =>
      simp only [hstop] at hres hread ⊢
      cases hE : (F.feed s x).err with
      | none => simp only [hE] at hread; omega
      | some e => simp only [hE] at hres; cases hres

/-- the replay of withheld bytes into a fresh decoder cannot stop with `OutputFull` before its first
byte when the destination has the documented minimum and the stop is admissible -/
theorem replay_no_early_full (F : Fam) (H : FamOk F) (hnb : C08.NeedsBounded F) (k : Sink) (src : List Nat)
    (b1 : Budget) (cap : Nat) (hcap : minCap k ≤ cap)
    (hres : (call F k F.init src false b1).res = .outputFull)
    (hrep : cap < unitsOfList k (call F k F.init src false b1).out + (call F k F.init src false b1).stopNeed) :
    (call F k F.init src false b1).read ≠ 0 := by
  intro hread
  have hsn := C08.call_stopNeed_le F k hnb F.init src false b1
  have hout : (call F k F.init src false b1).out = [] := by
    unfold call at hres hread ⊢
    simp only [H.laws.init_pend] at hres hread ⊢
    exact run_outputFull_zero_out F k false F.init src b1 hres hread
  rw [hout] at hrep
  simp only [unitsOfList, List.map_nil, List.sum_nil, Nat.zero_add] at hrep
  omega

/-- **C06, no panic**: a `decode_to_*_without_replacement` call does not panic — for every decoder
with the freshness invariant of `Decoder.new` that is not `Finished`, every source, every destination
of at least the documented minimum and every stop policy whose `OutputFull` stop of the replay call
(if any) is admissible.  See the module comment for what exactly is assumed. -/
theorem decoder_never_panics {F : Fam} (H : FamOk F) (hnb : C08.NeedsBounded F) (k : Sink) (d : Decoder F)
    (hf : Fresh d) (hfin : d.life ≠ .finished) (src : List Nat) (last : Bool) (b1 b2 : Budget) (cap : Nat)
    (hcap : minCap k ≤ cap)
    (hrep : (d.cur.call k (C07.replayBytes d.life) false b1).res = .outputFull →
      cap < unitsOfList k (d.cur.call k (C07.replayBytes d.life) false b1).out
        + (d.cur.call k (C07.replayBytes d.life) false b1).stopNeed) :
    d.rawCall k src last b1 b2 ≠ .panic := by
  have hleaf := rawCall_leaf k d src last b1 b2
  generalize d.rawCall k src last b1 b2 = r at hleaf
  cases hleaf with
  | finished h => exact absurd h hfin
  | idle _ _ => intro h; cases h
  | wait n life' _ _ _ => intro h; cases h
  | direct _ => exact C07.checkingEnd_ne_panic _ _ _ _ _ _ _ _
  | bom8 off _ => exact C07.checkingEnd_ne_panic _ _ _ _ _ _ _ _
  | bom16 be off _ => exact C07.checkingEnd_ne_panic _ _ _ _ _ _ _ _
  | one fb hfb =>
    rw [C07.replayBytes_one _ _ hfb] at hrep
    by_cases hbb : fb = 0xBB
    · unfold afterOne
      simp only
      split
      · exact C07.checkingEnd_ne_panic _ _ _ _ _ _ _ _
      · intro h; cases h
      · rw [if_pos hbb]; intro h; cases h
    · have hsn : sniffingLife d.life = true := by
        obtain ⟨life, c⟩ := d
        cases life <;> simp [replayOne] at hfb <;> first | rfl | omega
      have hc := hf hsn
      rw [hc] at hrep
      have hlt := fun h => cur_call_outputFull_lt k (Cur.nominal F.init : Cur F) [fb] b1 h (by simp)
      have hne := fun h => replay_no_early_full F H hnb k [fb] b1 cap hcap h (hrep h)
      unfold afterOne
      rw [hc]
      generalize hq : Cur.call k (Cur.nominal F.init : Cur F) [fb] false b1 = r1 at hlt ⊢
      have hne' : r1.res = .outputFull → r1.read ≠ 0 := by rw [← hq]; exact hne
      simp only
      split
      · exact C07.checkingEnd_ne_panic _ _ _ _ _ _ _ _
      · intro h; cases h
      · rename_i hres
        exfalso
        have h1 := hlt hres
        have h2 := hne' hres
        simp only [List.length_singleton] at h1
        omega
  | two hl =>
    rw [hl] at hrep
    simp only [C07.replayBytes] at hrep
    have hc := hf (by rw [hl]; rfl)
    rw [hc] at hrep
    have hne := fun h => replay_no_early_full F H hnb k [0xEF, 0xBB] b1 cap hcap h (hrep h)
    unfold afterTwo
    rw [hc]
    generalize hq : Cur.call k (Cur.nominal F.init : Cur F) [0xEF, 0xBB] false b1 = r1
    have hne' : r1.res = .outputFull → r1.read ≠ 0 := by rw [← hq]; exact hne
    have hlt : r1.res = .outputFull → r1.read < 2 := by
      rw [← hq]; intro h
      exact cur_call_outputFull_lt k (Cur.nominal F.init : Cur F) [0xEF, 0xBB] b1 h (by simp)
    simp only
    split
    · exact C07.checkingEnd_ne_panic _ _ _ _ _ _ _ _
    · by_cases hr1 : r1.read = 1
      · rw [if_pos hr1]; intro h; cases h
      · rw [if_neg hr1]; intro h; cases h
    · rename_i hres
      have h1 := hlt hres
      have h2 := hne' hres
      have hr1 : r1.read = 1 := by omega
      rw [if_pos hr1]; intro h; cases h

/-- for each of the 40 encodings and every decoder reachable from `new_decoder` /
`new_decoder_with_bom_removal` / `new_decoder_without_bom_handling` by any history of calls -/
theorem reachable_never_panics (v : Gen.Variant) (bom : BomHandling) (d : Decoder (famOfVariant v))
    (hr : C07.DReach v bom d) (hfin : d.life ≠ .finished) (k : Sink) (src : List Nat) (last : Bool)
    (b1 b2 : Budget) (cap : Nat) (hcap : minCap k ≤ cap)
    (hrep : (d.cur.call k (C07.replayBytes d.life) false b1).res = .outputFull →
      cap < unitsOfList k (d.cur.call k (C07.replayBytes d.life) false b1).out
        + (d.cur.call k (C07.replayBytes d.life) false b1).stopNeed) :
    d.rawCall k src last b1 b2 ≠ .panic :=
  decoder_never_panics (famOk_variant v) (C08.famOfVariant_needsBounded v) k d
    (C07.lifeInv_reachable v bom d hr).fresh hfin src last b1 b2 cap hcap hrep

/-! ## (a) continued: through the BOM life cycle -/

/-- the scalar invariant of whichever decoder is current -/
def curSI (v : Gen.Variant) : Cur (famOfVariant v) → Prop
  | .nominal s => (variantStInv v).Inv s
  | .utf8 s => (variantStInv .utf8).Inv s
  | .utf16be s => (variantStInv .utf16Be).Inv s
  | .utf16le s => (variantStInv .utf16Le).Inv s

/-- the in-flight bytes of whichever decoder is current -/
def curSeen (v : Gen.Variant) : Cur (famOfVariant v) → Nat
  | .nominal s => (variantSpan v).seen s
  | .utf8 s => (variantSpan .utf8).seen s
  | .utf16be s => (variantSpan .utf16Be).seen s
  | .utf16le s => (variantSpan .utf16Le).seen s

theorem cur_call_span (v : Gen.Variant) (k : Sink) (c : Cur (famOfVariant v)) (src : List Nat) (last : Bool)
    (b : Budget) (hi : curSI v c) (hb : ∀ x ∈ src, x < 256) :
    curSI v (c.call k src last b).cur ∧
    curSeen v (c.call k src last b).cur ≤ curSeen v c + (c.call k src last b).read ∧
    ∀ l a, (c.call k src last b).res = .malformed l a →
      ErrOk (l, a) ∧ l + a ≤ curSeen v c + (c.call k src last b).read := by
  have key : ∀ (w : Gen.Variant) (s : (famOfVariant w).σ), (variantStInv w).Inv s →
      (variantStInv w).Inv (call (famOfVariant w) k s src last b).st ∧
      (variantSpan w).seen (call (famOfVariant w) k s src last b).st
        ≤ (variantSpan w).seen s + (call (famOfVariant w) k s src last b).read ∧
      ∀ l a, (call (famOfVariant w) k s src last b).res = .malformed l a →
        ErrOk (l, a) ∧ l + a ≤ (variantSpan w).seen s + (call (famOfVariant w) k s src last b).read :=
    fun w s hi =>
      ⟨(call_span (variantSpan w) k (famOfVariant_laws w) s src last b hi hb).1,
        (call_span (variantSpan w) k (famOfVariant_laws w) s src last b hi hb).2.1,
        fun l a h => variant_call_malformed w k s src last b hi hb l a h⟩
  cases c with
  | nominal s => exact key v s hi
  | utf8 s => exact key .utf8 s hi
  | utf16be s => exact key .utf16Be s hi
  | utf16le s => exact key .utf16Le s hi

/-- what a `Decoder` call result must satisfy; `pos` = bytes consumed before the call, withheld
bytes included -/
def SpanRes (v : Gen.Variant) (pos : Nat) : DRes (famOfVariant v) → Prop
  | .panic => True
  | .ok res read _ d' _ =>
    curSI v d'.cur ∧ curSeen v d'.cur + withheld d'.life ≤ pos + read ∧
    ∀ l a, res = .malformed l a → ErrOk (l, a) ∧ l + a ≤ pos + read

theorem checkingEnd_span (v : Gen.Variant) (k : Sink) (c : Cur (famOfVariant v)) (src : List Nat)
    (last : Bool) (b : Budget) (off : Nat) (pre : List (List Nat × Res × Nat)) (preOut : List Nat) (pos : Nat)
    (hi : curSI v c) (hs : curSeen v c ≤ pos + off) (hb : ∀ x ∈ src, x < 256) :
    SpanRes v pos (checkingEnd k c src last b off pre preOut) := by
  have h := cur_call_span v k c (src.drop off) last b hi (C07.drop_bytes off hb)
  unfold checkingEnd SpanRes
  generalize c.call k (src.drop off) last b = r at h
  simp only
  refine ⟨h.1, ?_, ?_⟩
  · have : withheld (if last = true ∧ r.res = .inputEmpty then Life.finished else Life.converting) = 0 := by
      split <;> rfl
    rw [this]; have := h.2.1; omega
  · intro l a hla
    have := h.2.2 l a hla
    exact ⟨this.1, by have := this.2; omega⟩

theorem afterOne_span (v : Gen.Variant) (k : Sink) (c : Cur (famOfVariant v)) (src : List Nat)
    (last : Bool) (fb : Nat) (b1 b2 : Budget) (pos : Nat)
    (hi : curSI v c) (hs : curSeen v c + 1 ≤ pos) (hb : ∀ x ∈ src, x < 256) (hfb : fb < 256) :
    SpanRes v pos (afterOne k c src last fb b1 b2) := by
  have hb1 : ∀ x ∈ [fb], x < 256 := by intro x hx; simp only [List.mem_singleton] at hx; rw [hx]; exact hfb
  have h := cur_call_span v k c [fb] false b1 hi hb1
  have hle : (c.call k [fb] false b1).read ≤ 1 := cur_call_read_le k c [fb] false b1 (variant_alt_le v)
  have hof := fun h => cur_call_outputFull_lt k c [fb] b1 h (by simp)
  unfold afterOne
  generalize c.call k [fb] false b1 = r1 at h hle hof
  simp only
  split
  · exact checkingEnd_span v k r1.cur src last b2 0 _ _ pos h.1 (by have := h.2.1; omega) hb
  · rename_i l a hres
    refine ⟨h.1, ?_, ?_⟩
    · simp only [withheld]; have := h.2.1; omega
    · intro l' a' hla
      simp only [Res.malformed.injEq] at hla
      rw [← hla.1, ← hla.2]
      have := h.2.2 l a hres
      exact ⟨this.1, by have := this.2; omega⟩
  · rename_i hres
    split
    · refine ⟨h.1, ?_, by intro l a hla; cases hla⟩
      have := hof hres
      simp only [List.length_singleton] at this
      simp only [withheld]; have := h.2.1; omega
    · trivial

theorem afterTwo_span (v : Gen.Variant) (k : Sink) (c : Cur (famOfVariant v)) (src : List Nat)
    (last : Bool) (b1 b2 : Budget) (pos : Nat)
    (hi : curSI v c) (hc0 : curSeen v c = 0) (hpos : 2 ≤ pos) (hb : ∀ x ∈ src, x < 256) :
    SpanRes v pos (afterTwo k c src last b1 b2) := by
  have hb1 : ∀ x ∈ [0xEF, 0xBB], x < 256 := by decide
  have h := cur_call_span v k c [0xEF, 0xBB] false b1 hi hb1
  have hle : (c.call k [0xEF, 0xBB] false b1).read ≤ 2 := cur_call_read_le k c _ false b1 (variant_alt_le v)
  unfold afterTwo
  generalize c.call k [0xEF, 0xBB] false b1 = r1 at h hle
  simp only
  split
  · exact checkingEnd_span v k r1.cur src last b2 0 _ _ pos h.1 (by have := h.2.1; omega) hb
  · rename_i l a hres
    have hm := h.2.2 l a hres
    by_cases hr1 : r1.read = 1
    · rw [if_pos hr1]
      refine ⟨h.1, ?_, ?_⟩
      · simp only [withheld]; have := h.2.1; omega
      · intro l' a' hla
        simp only [Res.malformed.injEq] at hla
        rw [← hla.1, ← hla.2]
        obtain ⟨⟨e1, e2, e3, e4⟩, e5⟩ := hm
        simp only at e1 e2 e3 e4
        have hl : l = 1 := by omega
        have ha : a = 0 := by omega
        subst hl; subst ha
        exact ⟨by unfold ErrOk; decide, by omega⟩
    · rw [if_neg hr1]
      refine ⟨h.1, ?_, ?_⟩
      · simp only [withheld]; have := h.2.1; omega
      · intro l' a' hla
        simp only [Res.malformed.injEq] at hla
        rw [← hla.1, ← hla.2]
        exact ⟨hm.1, by have := hm.2; omega⟩
  · split
    · rename_i hr1
      refine ⟨h.1, ?_, by intro l a hla; cases hla⟩
      simp only [withheld]; have := h.2.1; omega
    · trivial

/-- the invariant of a `Decoder` that has consumed `pos` bytes of its stream -/
structure LifeSpan (v : Gen.Variant) (d : Decoder (famOfVariant v)) (pos : Nat) : Prop where
  inv : curSI v d.cur
  seen : curSeen v d.cur + withheld d.life ≤ pos
  fresh : Fresh d
  pend : PendInv d

theorem lifeSpan_new (v : Gen.Variant) (nom : Nominal) (bom : BomHandling) :
    LifeSpan v (Decoder.new (famOfVariant v) nom bom) 0 := by
  refine ⟨(variantStInv v).init, ?_, fresh_new nom bom, pendInv_new nom bom⟩
  rw [withheld_new]
  show (variantSpan v).seen (famOfVariant v).init + 0 ≤ 0
  rw [(variantSpan v).init]; exact Nat.le_refl _

theorem curSeen_init (v : Gen.Variant) : curSeen v (.nominal (famOfVariant v).init) = 0 := (variantSpan v).init

theorem curSeen_utf8_init (v : Gen.Variant) : curSeen v (.utf8 utf8Fam.init) = 0 := (variantSpan .utf8).init
theorem curSeen_utf16be_init (v : Gen.Variant) : curSeen v (.utf16be (utf16Fam true).init) = 0 :=
  (variantSpan .utf16Be).init
theorem curSeen_utf16le_init (v : Gen.Variant) : curSeen v (.utf16le (utf16Fam false).init) = 0 :=
  (variantSpan .utf16Le).init

/-- every result of a `Decoder` call satisfies `SpanRes` -/
theorem rawCall_spanRes (v : Gen.Variant) (k : Sink) (d : Decoder (famOfVariant v)) (pos : Nat)
    (hd : LifeSpan v d pos) (src : List Nat) (last : Bool) (b1 b2 : Budget) (hb : ∀ x ∈ src, x < 256) :
    SpanRes v pos (d.rawCall k src last b1 b2) := by
  have hwle : withheld d.life ≤ pos := by have := hd.seen; omega
  have hsound := rawCall_sound_full (famBB_variant v) k d src [] pos last b1 b2 (fun _ => rfl) hwle hd.fresh hd.pend
  have hleaf := rawCall_leaf k d src last b1 b2
  generalize d.rawCall k src last b1 b2 = r at hleaf hsound
  cases hleaf with
  | finished _ => trivial
  | idle _ _ => exact ⟨hd.inv, by have := hd.seen; omega, by intro l a h; cases h⟩
  | wait n life' hsn _ _ =>
    refine ⟨hd.inv, ?_, by intro l a h; cases h⟩
    have hc := hd.fresh hsn
    have h2 := hsound.2
    simp only at h2 ⊢
    rw [hc, curSeen_init]; omega
  | direct hl =>
    have hw0 : withheld d.life = 0 := by
      obtain ⟨life, c⟩ := d
      rcases hl with hl | hl
      · simp only at hl; rw [hl]; rfl
      · cases life <;> first | rfl | cases hl
    exact checkingEnd_span v k d.cur src last b2 0 [] [] pos hd.inv (by have := hd.seen; omega) hb
  | bom8 off _ =>
    exact checkingEnd_span v k (.utf8 utf8Fam.init) src last b2 off [] [] pos (variantStInv .utf8).init
      (by rw [curSeen_utf8_init]; omega) hb
  | bom16 be off _ =>
    cases be with
    | true =>
      exact checkingEnd_span v k (.utf16be (utf16Fam true).init) src last b2 off [] [] pos
        (variantStInv .utf16Be).init
        (by rw [curSeen_utf16be_init]; omega) hb
    | false =>
      exact checkingEnd_span v k (.utf16le (utf16Fam false).init) src last b2 off [] [] pos
        (variantStInv .utf16Le).init
        (by rw [curSeen_utf16le_init]; omega) hb
  | one fb hfb =>
    have hw1 : withheld d.life = 1 := by
      obtain ⟨life, c⟩ := d
      cases life <;> simp [replayOne] at hfb <;> rfl
    exact afterOne_span v k d.cur src last fb b1 b2 pos hd.inv (by have := hd.seen; omega) hb
      (C07.replayOne_lt _ _ hfb)
  | two hl =>
    have hc := hd.fresh (by rw [hl]; rfl)
    have hw2 : withheld d.life = 2 := by rw [hl]; rfl
    exact afterTwo_span v k d.cur src last b1 b2 pos hd.inv (by rw [hc]; exact curSeen_init v)
      (by omega) hb

/-- **`LifeSpan` is preserved by every call** -/
theorem rawCall_lifeSpan (v : Gen.Variant) (k : Sink) (d : Decoder (famOfVariant v)) (pos : Nat)
    (hd : LifeSpan v d pos) (src : List Nat) (last : Bool) (b1 b2 : Budget) (hb : ∀ x ∈ src, x < 256)
    (res : Res) (read : Nat) (out : List Nat) (d' : Decoder (famOfVariant v))
    (inner : List (List Nat × Res × Nat)) (h : d.rawCall k src last b1 b2 = .ok res read out d' inner) :
    LifeSpan v d' (pos + read) := by
  have hs := rawCall_spanRes v k d pos hd src last b1 b2 hb
  rw [h] at hs
  exact ⟨hs.1, hs.2.1, rawCall_fresh k d src last b1 b2 res read out d' inner hd.fresh h,
    rawCall_pendInv (famBB_variant v) k d src last b1 b2 res read out d' inner hd.fresh hd.pend h⟩

/-- the decoders reachable from `Decoder.new` by any history of calls, with the number of bytes of
the stream they have consumed (withheld potential-BOM bytes included) -/
inductive DReachAt (v : Gen.Variant) (nom : Nominal) (bom : BomHandling) : Decoder (famOfVariant v) → Nat → Prop
  | new : DReachAt v nom bom (Decoder.new (famOfVariant v) nom bom) 0
  | call (k : Sink) (d : Decoder (famOfVariant v)) (pos : Nat) (src : List Nat) (last : Bool) (b1 b2 : Budget)
      (res : Res) (read : Nat) (out : List Nat) (d' : Decoder (famOfVariant v))
      (inner : List (List Nat × Res × Nat)) :
      DReachAt v nom bom d pos → (∀ x ∈ src, x < 256) → d.rawCall k src last b1 b2 = .ok res read out d' inner →
      DReachAt v nom bom d' (pos + read)

theorem lifeSpan_reachable (v : Gen.Variant) (nom : Nominal) (bom : BomHandling) (d : Decoder (famOfVariant v))
    (pos : Nat) (h : DReachAt v nom bom d pos) : LifeSpan v d pos := by
  induction h with
  | new => exact lifeSpan_new v nom bom
  | call k d pos src last b1 b2 res read out d' inner _ hb hcall ih =>
    exact rawCall_lifeSpan v k d pos ih src last b1 b2 hb res read out d' inner hcall

/-- **C06, `Malformed(len, after)` of the public `Decoder`, all 40 encodings, three BOM modes**: for
every decoder reachable from `Decoder.new` by any history of calls that consumed `pos` bytes, a
`decode_to_*_without_replacement` call that returns `Malformed(l, a)` has `1 ≤ l ≤ 4`, `a ≤ 3`,
`l + a ≤ 6` and `l + a ≤ pos + read` — incl. the replay of withheld potential-BOM bytes with its
`after + 1` correction -/
theorem rawCall_malformed_ranges (v : Gen.Variant) (nom : Nominal) (bom : BomHandling)
    (d : Decoder (famOfVariant v)) (pos : Nat) (hr : DReachAt v nom bom d pos) (k : Sink) (src : List Nat)
    (last : Bool) (b1 b2 : Budget) (hb : ∀ x ∈ src, x < 256) (l a read : Nat) (out : List Nat)
    (d' : Decoder (famOfVariant v)) (inner : List (List Nat × Res × Nat))
    (h : d.rawCall k src last b1 b2 = .ok (.malformed l a) read out d' inner) :
    1 ≤ l ∧ l ≤ 4 ∧ a ≤ 3 ∧ l + a ≤ 6 ∧ l + a ≤ pos + read := by
  have hs := rawCall_spanRes v k d pos (lifeSpan_reachable v nom bom d pos hr) src last b1 b2 hb
  rw [h] at hs
  obtain ⟨⟨a1, a2, a3, a4⟩, a5⟩ := hs.2.2 l a rfl
  exact ⟨a1, a2, a3, a4, a5⟩

/-! ## Non-vacuity -/

/-- the documented worst case `len + after = 6` is reached, and it is tight for the span bound:
ISO-2022-JP, `ESC ( B ESC ( B` from the initial state — `Malformed(3, 3)` with exactly 6 bytes read -/
example :
    (call iso2022JpFam .utf8 isoInit [0x1B, 0x28, 0x42, 0x1B, 0x28, 0x42] false .unlimited).res = .malformed 3 3 ∧
    (call iso2022JpFam .utf8 isoInit [0x1B, 0x28, 0x42, 0x1B, 0x28, 0x42] false .unlimited).read = 6 := by
  decide

section demo
private def vW : Gen.Variant := .singleByte 19 160 32 96
private def dW2 : Decoder (famOfVariant vW) := ⟨.seenUtf8Second, .nominal ()⟩

/-- windows-1252, sniffing, `EF BB` withheld, four-byte UTF-8 destination (the documented minimum):
the replay of `EF BB` stops with an admissible `OutputFull` after `EF` (2 bytes written, 3 asked for,
4 available) — the hypotheses of `decoder_never_panics` hold and the call does not panic (it leaves
`BB` pending: the repaired path of finding F2) -/
example :
    dW2.rawCall .utf8 [0x41] false (.full 1) .unlimited ≠ .panic ∧
    (dW2.cur.call .utf8 (C07.replayBytes dW2.life) false (.full 1)).res = .outputFull := by
  have hres : (dW2.cur.call .utf8 (C07.replayBytes dW2.life) false (.full 1)).res = .outputFull := by
    decide +kernel
  refine ⟨?_, hres⟩
  refine decoder_never_panics (famOk_variant vW) (C08.famOfVariant_needsBounded vW) .utf8 dW2 (fun _ => rfl)
    (by decide) [0x41] false (.full 1) .unlimited 4 (by decide) ?_
  intro _
  decide +kernel
end demo

end EncodingRs.Thm.C06
