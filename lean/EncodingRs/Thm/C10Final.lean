import EncodingRs.Thm.C10
import EncodingRs.Thm.C06
/-!
# C10 — the side hypotheses of `dhistory_eq_dref` discharged

* `hfin` ("nothing is left to report after the final `InputEmpty`") is a theorem
  (`rawCall_final_nothing`): a `last` call that returns `InputEmpty` leaves the decoder
  `Finished` — or unchanged in a start state on an empty source, where a *fresh* decoder has
  nothing to say.
* `ReplayOk` is needed only in the states in which bytes are withheld (`rawCall_sound'`), and in the
  `Seen…` states it holds for every fresh decoder (`replayOk_init`).  What remains a hypothesis of a
  history (`DHist`) is the replay of the single pending `BB` in `ConvertingWithPendingBB`.

`Fresh d`: while the decoder is still sniffing (start and `Seen…` states) nothing has reached the
variant decoder — the invariant of every decoder made by `Decoder.new` (`fresh_new`, `rawCall_fresh`).
-/
namespace EncodingRs.Thm.C10
open EncodingRs EncodingRs.Model EncodingRs.Lemmas.Core EncodingRs.Lemmas.FamLaws EncodingRs.Lemmas.Life

variable {F : Fam}

/-- `AtStart`, `AtUtf8Start`, `AtUtf16BeStart`, `AtUtf16LeStart` -/
def startLife : Life → Bool
  | .atStart | .atUtf8Start | .atUtf16BeStart | .atUtf16LeStart => true
  | _ => false

/-- the start states and the `Seen…` states: no byte has reached the variant decoder yet -/
def sniffingLife : Life → Bool
  | .converting | .convertingWithPendingBB | .finished => false
  | _ => true

/-- while sniffing, the current decoder is the nominal one in its initial state -/
def Fresh (d : Decoder F) : Prop := sniffingLife d.life = true → d.cur = .nominal F.init

theorem fresh_new (nom : Nominal) (bom : BomHandling) : Fresh (Decoder.new F nom bom) := fun _ => rfl

/-! ### the shape of the result of a `Decoder` call -/

/-- results of the paths that hand bytes to a variant decoder -/
def Settled (last : Bool) : DRes F → Prop
  | .panic => True
  | .ok res _ _ d' _ =>
    sniffingLife d'.life = false ∧ (last = true → res = .inputEmpty → d'.life = .finished)

theorem checkingEnd_settled (k : Sink) (c : Cur F) (src : List Nat) (last : Bool) (b : Budget) (offset : Nat)
    (pre : List (List Nat × Res × Nat)) (preOut : List Nat) :
    Settled last (checkingEnd k c src last b offset pre preOut) := by
  unfold checkingEnd Settled
  simp only
  constructor
  · split <;> rfl
  · intro hl hres; subst hl; simp [hres]

theorem afterOne_settled (k : Sink) (c : Cur F) (src : List Nat) (last : Bool) (fb : Nat) (b1 b2 : Budget) :
    Settled last (afterOne k c src last fb b1 b2) := by
  unfold afterOne
  simp only
  split
  · exact checkingEnd_settled ..
  · exact ⟨rfl, by intro _ h; cases h⟩
  · split
    · exact ⟨rfl, by intro _ h; cases h⟩
    · trivial

theorem afterTwo_settled (k : Sink) (c : Cur F) (src : List Nat) (last : Bool) (b1 b2 : Budget) :
    Settled last (afterTwo k c src last b1 b2) := by
  unfold afterTwo
  simp only
  split
  · exact checkingEnd_settled ..
  · split
    · exact ⟨rfl, by intro _ h; cases h⟩
    · exact ⟨rfl, by intro _ h; cases h⟩
  · split
    · exact ⟨rfl, by intro _ h; cases h⟩
    · trivial

/-- what every `Decoder` call result looks like: a decoder that is still sniffing afterwards has not
touched its variant decoder, and a `last` call that returns `InputEmpty` finishes the decoder (or was
made on an empty source in a start state and changed nothing) -/
def Shape (d : Decoder F) (src : List Nat) (last : Bool) : DRes F → Prop
  | .panic => True
  | .ok res _ _ d' _ =>
    (sniffingLife d'.life = true → d'.cur = d.cur ∧ sniffingLife d.life = true) ∧
    (last = true → res = .inputEmpty →
      d'.life = .finished ∨ (d' = d ∧ startLife d.life = true ∧ src = []))

theorem Settled.shape {d : Decoder F} {src : List Nat} {last : Bool} {r : DRes F} (h : Settled last r) :
    Shape d src last r := by
  cases r with
  | panic => trivial
  | ok res read out d' inner =>
    obtain ⟨h1, h2⟩ := h
    exact ⟨fun hs => (by rw [h1] at hs; cases hs), fun hl hr => Or.inl (h2 hl hr)⟩

/-- the not-`last`, ran-out-of-input exit -/
theorem wait_shape (d : Decoder F) (src : List Nat) (life : Life) (n : Nat) (hs : sniffingLife d.life = true) :
    Shape d src false (.ok .inputEmpty n [] ⟨life, d.cur⟩ []) :=
  ⟨fun _ => ⟨rfl, hs⟩, fun h => by cases h⟩

theorem second_shape (k : Sink) (d : Decoder F) (src : List Nat) (last : Bool) (b1 b2 : Budget) (offset : Nat)
    (rest : List Nat) (hs : sniffingLife d.life = true) :
    Shape d src last (Decoder.rawCall.seenUtf8Second k d src last b1 b2 offset rest) := by
  unfold Decoder.rawCall.seenUtf8Second
  split
  · cases last with
    | true =>
      simp only [if_true]
      split
      · exact (afterOne_settled ..).shape
      · exact (checkingEnd_settled ..).shape
    | false =>
      simp only [Bool.false_eq_true, if_false]
      exact wait_shape d src _ _ hs
  · exact (checkingEnd_settled ..).shape
  · split
    · exact (afterOne_settled ..).shape
    · exact (checkingEnd_settled ..).shape

theorem first_shape (k : Sink) (d : Decoder F) (src : List Nat) (last : Bool) (b1 b2 : Budget)
    (rest : List Nat) (hs : sniffingLife d.life = true) :
    Shape d src last (Decoder.rawCall.seenUtf8First k d src last b1 b2 rest) := by
  unfold Decoder.rawCall.seenUtf8First
  split
  · cases last with
    | true => simp only [if_true]; exact (checkingEnd_settled ..).shape
    | false =>
      simp only [Bool.false_eq_true, if_false]
      exact wait_shape d src _ _ hs
  · exact second_shape k d src last b1 b2 2 _ hs
  · exact (checkingEnd_settled ..).shape

theorem first16_shape (k : Sink) (d : Decoder F) (src : List Nat) (last : Bool) (b2 : Budget) (be : Bool)
    (rest : List Nat) (hs : sniffingLife d.life = true) :
    Shape d src last (Decoder.rawCall.seenUtf16First k d src last b2 be rest) := by
  unfold Decoder.rawCall.seenUtf16First
  split
  · cases last with
    | true => simp only [if_true]; exact (checkingEnd_settled ..).shape
    | false =>
      simp only [Bool.false_eq_true, if_false]
      exact wait_shape d src _ _ hs
  · repeat' split
    all_goals exact (checkingEnd_settled ..).shape

/-- the empty-source exit of the start states: nothing happens at all -/
theorem idle_shape (d : Decoder F) (last : Bool) (hs : startLife d.life = true)
    (hs' : sniffingLife d.life = true) :
    Shape d [] last (.ok .inputEmpty 0 [] d []) :=
  ⟨fun _ => ⟨rfl, hs'⟩, fun _ _ => Or.inr ⟨rfl, hs, rfl⟩⟩

/-- the empty-source, not-`last` exit of the `Seen…` states -/
theorem idle_shape' (d : Decoder F) (hs' : sniffingLife d.life = true) :
    Shape d [] false (.ok .inputEmpty 0 [] d []) :=
  ⟨fun _ => ⟨rfl, hs'⟩, fun h => by cases h⟩

theorem rawCall_shape (k : Sink) (d : Decoder F) (src : List Nat) (last : Bool) (b1 b2 : Budget) :
    Shape d src last (d.rawCall k src last b1 b2) := by
  obtain ⟨life, c⟩ := d
  cases life
  case converting => unfold Decoder.rawCall; exact (checkingEnd_settled ..).shape
  case finished => unfold Decoder.rawCall; trivial
  case convertingWithPendingBB => unfold Decoder.rawCall; exact (afterOne_settled ..).shape
  case atStart =>
    unfold Decoder.rawCall; simp only
    split
    · exact idle_shape _ last rfl rfl
    · exact first_shape k _ _ last b1 b2 _ rfl
    · exact first16_shape k _ _ last b2 true _ rfl
    · exact first16_shape k _ _ last b2 false _ rfl
    · exact (checkingEnd_settled ..).shape
  case atUtf8Start =>
    unfold Decoder.rawCall; simp only
    split
    · exact idle_shape _ last rfl rfl
    · exact first_shape k _ _ last b1 b2 _ rfl
    · exact (checkingEnd_settled ..).shape
  case atUtf16BeStart =>
    unfold Decoder.rawCall; simp only
    split
    · exact idle_shape _ last rfl rfl
    · exact first16_shape k _ _ last b2 true _ rfl
    · exact (checkingEnd_settled ..).shape
  case atUtf16LeStart =>
    unfold Decoder.rawCall; simp only
    split
    · exact idle_shape _ last rfl rfl
    · exact first16_shape k _ _ last b2 false _ rfl
    · exact (checkingEnd_settled ..).shape
  case seenUtf8First =>
    unfold Decoder.rawCall; simp only
    split
    · cases last with
      | true => simp only [if_true]; exact (afterOne_settled ..).shape
      | false => simp only [Bool.false_eq_true, if_false]; exact idle_shape' _ rfl
    · exact second_shape k _ _ last b1 b2 1 _ rfl
    · exact (afterOne_settled ..).shape
  case seenUtf8Second =>
    unfold Decoder.rawCall; simp only
    split
    · cases last with
      | true => simp only [if_true]; exact (afterTwo_settled ..).shape
      | false => simp only [Bool.false_eq_true, if_false]; exact idle_shape' _ rfl
    · exact (checkingEnd_settled ..).shape
    · exact (afterTwo_settled ..).shape
  case seenUtf16BeFirst =>
    unfold Decoder.rawCall; simp only
    split
    · cases last with
      | true => simp only [if_true]; exact (afterOne_settled ..).shape
      | false => simp only [Bool.false_eq_true, if_false]; exact idle_shape' _ rfl
    · exact (checkingEnd_settled ..).shape
    · exact (afterOne_settled ..).shape
  case seenUtf16LeFirst =>
    unfold Decoder.rawCall; simp only
    split
    · cases last with
      | true => simp only [if_true]; exact (afterOne_settled ..).shape
      | false => simp only [Bool.false_eq_true, if_false]; exact idle_shape' _ rfl
    · exact (checkingEnd_settled ..).shape
    · exact (afterOne_settled ..).shape

/-- freshness is an invariant of every call -/
theorem rawCall_fresh (k : Sink) (d : Decoder F) (src : List Nat) (last : Bool) (b1 b2 : Budget)
    (res : Res) (read : Nat) (out : List Nat) (d' : Decoder F) (inner : List (List Nat × Res × Nat))
    (hf : Fresh d) (h : d.rawCall k src last b1 b2 = .ok res read out d' inner) : Fresh d' := by
  have hs := rawCall_shape k d src last b1 b2
  rw [h] at hs
  intro hsn
  obtain ⟨hc, hd⟩ := hs.1 hsn
  rw [hc]; exact hf hd

/-! ### what the theorems need to know about the nominal family -/

/-- facts about a family used below; all 13 variant decoders have them (`famOk_variant`) -/
structure FamOk (F : Fam) : Prop where
  laws : Laws F
  alt_le : ∀ s src m r, F.alt s src = some (m, r) → m ≤ src.length
  alt_pos : ∀ s src m r, F.alt s src = some (m, r) → 1 ≤ m
  rank_init : F.rank F.init = 0
  eof_init : F.eof F.init = none

theorem utf16_alt_pos (be : Bool) (s : Utf16St) (src : List Nat) (m : Nat) (r : FeedRes Utf16St)
    (h : utf16Alt be s src = some (m, r)) : 1 ≤ m := by
  unfold utf16Alt at h
  split at h
  · cases h
  · split at h
    · simp only at h
      split at h
      · simp only [Option.some.injEq, Prod.mk.injEq] at h; omega
      · cases h
    · cases h

theorem variant_alt_pos (v : Gen.Variant) :
    ∀ s src m r, (famOfVariant v).alt s src = some (m, r) → 1 ≤ m := by
  cases v
  case utf16Be => intro s src m r h; exact utf16_alt_pos true s src m r h
  case utf16Le => intro s src m r h; exact utf16_alt_pos false s src m r h
  all_goals (intro s src m r h; cases h)

theorem variant_eof_init (v : Gen.Variant) : (famOfVariant v).eof (famOfVariant v).init = none := by
  cases v <;> rfl

theorem famOk_variant (v : Gen.Variant) : FamOk (famOfVariant v) :=
  ⟨famOfVariant_laws v, EncodingRs.Thm.C06.variant_alt_le v, variant_alt_pos v, variant_rank_init v,
    variant_eof_init v⟩

/-! ### `hfin` is a theorem -/

theorem dref_finished (d : Decoder F) (rem : List Nat) (p : Nat) (h : d.life = .finished) : dref d rem p = [] := by
  unfold dref; rw [h]

theorem dref_start_nil (d : Decoder F) (p : Nat) (h : startLife d.life = true) : dref d [] p = curRef d.cur [] p := by
  obtain ⟨life, c⟩ := d
  cases life <;> first | rfl | cases h

/-- **nothing is left to report after a `last` call that returned `InputEmpty`** -/
theorem rawCall_final_nothing (H : FamOk F) (k : Sink) (d d' : Decoder F) (pos : Nat) (rem : List Nat)
    (b1 b2 : Budget) (read : Nat) (out : List Nat) (inner : List (List Nat × Res × Nat)) (hf : Fresh d)
    (h : d.rawCall k rem true b1 b2 = .ok .inputEmpty read out d' inner) :
    dref d' (rem.drop read) (pos + read) = [] := by
  have hs := rawCall_shape k d rem true b1 b2
  rw [h] at hs
  rcases hs.2 rfl rfl with hfin | ⟨hd, hst, hrem⟩
  · exact dref_finished _ _ _ hfin
  · rw [hd, hrem, List.drop_nil, dref_start_nil d _ hst]
    have hsn : sniffingLife d.life = true := by
      obtain ⟨life, c⟩ := d
      cases life <;> first | rfl | cases hst
    rw [hf hsn]
    show ref F F.init [] _ = []
    rw [ref_nil F _ _ H.laws.init_pend, H.eof_init]

/-- in the `Seen…` states of a fresh decoder the replay hypothesis holds -/
theorem replayOk_fresh (H : FamOk F) (k : Sink) (d : Decoder F) (hf : Fresh d)
    (hbb : d.life = .convertingWithPendingBB → ReplayOk k d.cur) (hw : 0 < withheld d.life) :
    ReplayOk k d.cur := by
  by_cases h : d.life = .convertingWithPendingBB
  · exact hbb h
  · have hsn : sniffingLife d.life = true := by
      obtain ⟨life, c⟩ := d
      cases life <;> first | rfl | exact absurd rfl h | (simp [withheld] at hw)
    rw [hf hsn]
    exact replayOk_init k H.laws H.rank_init H.alt_le H.alt_pos

/-! ### histories -/

/-- a protocol-following history of `Decoder` calls — any split of the stream (also inside the
potential BOM), any stop policies, either sink *per call* — together with the decoder it leaves
behind.  The only side condition: a pending `BB` (state `ConvertingWithPendingBB`) must be replayable
(`ReplayOk`: a `Malformed` answer to the replay consumed the byte). -/
inductive DHist : Decoder F → Nat → List Nat → List Ev → Decoder F → Prop
  /-- the call that ends the stream -/
  | final (k : Sink) (d : Decoder F) (pos : Nat) (rem : List Nat) (b1 b2 : Budget) (read : Nat) (out : List Nat)
      (d' : Decoder F) (inner : List (List Nat × Res × Nat)) :
      (d.life = .convertingWithPendingBB → ReplayOk k d.cur) →
      d.rawCall k rem true b1 b2 = .ok .inputEmpty read out d' inner →
      DHist d pos rem (out.map Ev.cp) d'
  | lastStep (k : Sink) (d : Decoder F) (pos : Nat) (rem : List Nat) (b1 b2 : Budget) (res : Res) (read : Nat)
      (out : List Nat) (d' : Decoder F) (inner : List (List Nat × Res × Nat)) (evs' : List Ev) (dfin : Decoder F) :
      (d.life = .convertingWithPendingBB → ReplayOk k d.cur) →
      d.rawCall k rem true b1 b2 = .ok res read out d' inner → res ≠ .inputEmpty →
      DHist d' (pos + read) (rem.drop read) evs' dfin →
      DHist d pos rem (out.map Ev.cp ++ resEv (pos + read) res ++ evs') dfin
  | chunkStep (k : Sink) (d : Decoder F) (pos : Nat) (src rest : List Nat) (b1 b2 : Budget) (res : Res) (read : Nat)
      (out : List Nat) (d' : Decoder F) (inner : List (List Nat × Res × Nat)) (evs' : List Ev) (dfin : Decoder F) :
      (d.life = .convertingWithPendingBB → ReplayOk k d.cur) →
      d.rawCall k src false b1 b2 = .ok res read out d' inner →
      DHist d' (pos + read) (src.drop read ++ rest) evs' dfin →
      DHist d pos (src ++ rest) (out.map Ev.cp ++ resEv (pos + read) res ++ evs') dfin

/-- a `DProto` history is a `DHist` history -/
theorem DProto.toDHist {k : Sink} {d : Decoder F} {pos : Nat} {rem : List Nat} {e : List Ev}
    (h : DProto k d pos rem e) : ∃ dfin, DHist d pos rem e dfin := by
  induction h with
  | final d pos rem b1 b2 read out d' inner hr hcall =>
    exact ⟨d', DHist.final k d pos rem b1 b2 read out d' inner (fun _ => hr) hcall⟩
  | lastStep d pos rem b1 b2 res read out d' inner evs' hr hcall hne _ ih =>
    obtain ⟨dfin, ih⟩ := ih
    exact ⟨dfin, DHist.lastStep k d pos rem b1 b2 res read out d' inner evs' dfin (fun _ => hr) hcall hne ih⟩
  | chunkStep d pos src rest b1 b2 res read out d' inner evs' hr hcall _ ih =>
    obtain ⟨dfin, ih⟩ := ih
    exact ⟨dfin, DHist.chunkStep k d pos src rest b1 b2 res read out d' inner evs' dfin (fun _ => hr) hcall ih⟩

/-- **C10 / C02 for the `Decoder`, without `hfin`**: every protocol-following history of calls on a
fresh decoder in life-cycle state `d` says exactly what the documented BOM semantics `dref d` says
about the stream. -/
theorem dhist_eq_dref (H : FamOk F) (d : Decoder F) (pos : Nat) (rem : List Nat) (e : List Ev) (dfin : Decoder F)
    (hw : withheld d.life ≤ pos) (hf : Fresh d) (h : DHist d pos rem e dfin) :
    e = dref d rem pos := by
  induction h with
  | final k d pos rem b1 b2 read out d' inner hbb hcall =>
    have hs := rawCall_sound' k H.laws H.alt_le d rem [] pos true b1 b2 (fun _ => rfl) hw
      (replayOk_fresh H k d hf hbb)
    rw [hcall] at hs
    simp only [DSound, resEv, List.append_nil] at hs
    rw [rawCall_final_nothing H k d d' pos rem b1 b2 read out inner hf hcall, List.append_nil] at hs
    exact hs.1
  | lastStep k d pos rem b1 b2 res read out d' inner evs' dfin hbb hcall _ _ ih =>
    have hs := rawCall_sound' k H.laws H.alt_le d rem [] pos true b1 b2 (fun _ => rfl) hw
      (replayOk_fresh H k d hf hbb)
    rw [hcall] at hs
    simp only [DSound, List.append_nil] at hs
    rw [ih hs.2 (rawCall_fresh k d rem true b1 b2 res read out d' inner hf hcall), hs.1]
  | chunkStep k d pos src rest b1 b2 res read out d' inner evs' dfin hbb hcall _ ih =>
    have hs := rawCall_sound' k H.laws H.alt_le d src rest pos false b1 b2 (fun h => by cases h) hw
      (replayOk_fresh H k d hf hbb)
    rw [hcall] at hs
    simp only [DSound] at hs
    rw [ih hs.2 (rawCall_fresh k d src false b1 b2 res read out d' inner hf hcall), hs.1]

/-- `dhistory_eq_dref` with `hfin` replaced by freshness of the decoder -/
theorem dhistory_eq_dref' (k : Sink) (H : FamOk F) (d : Decoder F) (pos : Nat) (rem : List Nat) (e : List Ev)
    (hw : withheld d.life ≤ pos) (hf : Fresh d) (h : DProto k d pos rem e) :
    e = dref d rem pos := by
  obtain ⟨dfin, h'⟩ := h.toDHist
  exact dhist_eq_dref H d pos rem e dfin hw hf h'

theorem withheld_new (nom : Nominal) (bom : BomHandling) : withheld (Decoder.new F nom bom).life = 0 := by
  cases bom <;> cases nom <;> rfl

/-- for a decoder as made by `Encoding::new_decoder*` (all 40 encodings, the three BOM modes) -/
theorem new_decoder_history (v : Gen.Variant) (nom : Nominal) (bom : BomHandling) (stream : List Nat)
    (e : List Ev) (dfin : Decoder (famOfVariant v))
    (h : DHist (Decoder.new (famOfVariant v) nom bom) 0 stream e dfin) :
    e = dref (Decoder.new (famOfVariant v) nom bom) stream 0 :=
  dhist_eq_dref (famOk_variant v) _ 0 stream e dfin (by rw [withheld_new]; exact Nat.le_refl _) (fresh_new nom bom) h

end EncodingRs.Thm.C10
