import EncodingRs.Thm.C07Life
/-!
# C07 — the life-cycle arms of `Decoder::max_*`, with replacement

`Decoder.replCall` models `Decoder::decode_to_utf8` / `decode_to_utf16` (lib.rs): the loop that calls
the without-replacement method (`Decoder.rawCall`, BOM life cycle included), writes U+FFFD for every
`Malformed` and goes on with the rest of the source.  `decoder_life_repl_sufficient`: in every
life-cycle state of a reachable decoder, with a destination at least as large as
`max_utf8_buffer_length` / `max_utf16_buffer_length` answered, the loop never returns `OutputFull`,
however many malformed sequences it replaces — provided every inner variant-decoder call is admissible
for what is left of the destination (`DReplAdmissible`, what the driver's `checkRepl` checks).
-/
namespace EncodingRs.Thm.C07
open EncodingRs EncodingRs.Model EncodingRs.Lemmas.Core EncodingRs.Lemmas.FamLaws EncodingRs.Lemmas.Potential
open EncodingRs.Lemmas.PotMono EncodingRs.Lemmas.LifeLeaf EncodingRs.Lemmas.MaxLenVariant EncodingRs.Lemmas.Life
open EncodingRs.Thm.C10 EncodingRs.Gen.MaxLen

structure DReplRes (F : Fam) where
  /-- `CoderResult`: only `inputEmpty` / `outputFull` occur -/
  res : Res
  read : Nat
  /-- scalar values written, U+FFFD included -/
  out : List Nat
  hadErrors : Bool
  d : Decoder F

/-- `Decoder::decode_to_utf8` / `decode_to_utf16`: `none` = out of fuel, `some none` = the Rust panics -/
def Decoder.replCall {F : Fam} (k : Sink) (last : Bool) :
    Nat → Decoder F → List Nat → List (Budget × Budget) → Option (Option (DReplRes F))
  | 0, _, _, _ => none
  | fuel + 1, d, src, bs =>
    match d.rawCall k src last (bs.headD (.unlimited, .unlimited)).1 (bs.headD (.unlimited, .unlimited)).2 with
    | .panic => some none
    | .ok res read out d' _ =>
      match res with
      | .malformed _ _ =>
        match Decoder.replCall k last fuel d' (src.drop read) bs.tail with
        | some (some t) => some (some ⟨t.res, read + t.read, out ++ 0xFFFD :: t.out, true, t.d⟩)
        | some none => some none
        | none => none
      | _ => some (some ⟨res, read, out, false, d'⟩)

/-- every inner variant-decoder call of the loop is admissible for what is left of the destination:
`cap` minus what earlier raw calls and their U+FFFDs wrote -/
def DReplAdmissible {F : Fam} (k : Sink) (last : Bool) :
    Nat → Decoder F → List Nat → List (Budget × Budget) → Nat → Prop
  | 0, _, _, _, _ => True
  | fuel + 1, d, src, bs, cap =>
    match d.rawCall k src last (bs.headD (.unlimited, .unlimited)).1 (bs.headD (.unlimited, .unlimited)).2 with
    | .panic => True
    | .ok res read out d' inner =>
      InnerAdmissible k cap inner ∧
      (∀ l a, res = .malformed l a →
        DReplAdmissible k last fuel d' (src.drop read) bs.tail (cap - unitsOfList k out - replRoom k))

/-! ### bounds of a `Malformed` stop at the level of whichever decoder is current -/

theorem cur_call_malformed (q : Query) (hq2 : q = .utf16 ∨ q = .utf8) (v : Gen.Variant)
    (c : Cur (famOfVariant v)) (src : List Nat) (last : Bool) (b : Budget) (hi : curInv v c)
    (hb : ∀ x ∈ src, x < 256) (l a : Nat) (hres : (c.call (sinkOf q) src last b).res = .malformed l a) :
    unitsOfList (sinkOf q) (c.call (sinkOf q) src last b).out + replRoom (sinkOf q)
      + curPhi q v (c.call (sinkOf q) src last b).cur (src.length - (c.call (sinkOf q) src last b).read)
      ≤ curPhi q v c src.length := by
  cases c with
  | nominal s => exact q_call_malformed q hq2 v s src last b hi hb l a hres
  | utf8 s => exact q_call_malformed q hq2 .utf8 s src last b hi hb l a hres
  | utf16be s => exact q_call_malformed q hq2 .utf16Be s src last b hi hb l a hres
  | utf16le s => exact q_call_malformed q hq2 .utf16Le s src last b hi hb l a hres

theorem cur_call_slack_malformed (q : Query) (hq2 : q = .utf16 ∨ q = .utf8) (v : Gen.Variant)
    (c : Cur (famOfVariant v)) (src : List Nat) (b : Budget) (m : Nat) (hi : curInv v c)
    (hb : ∀ x ∈ src, x < 256) (hshort : src.length < 4) (l a : Nat)
    (hres : (c.call (sinkOf q) src false b).res = .malformed l a) :
    unitsOfList (sinkOf q) (c.call (sinkOf q) src false b).out + replRoom (sinkOf q)
      + curPhi q v (c.call (sinkOf q) src false b).cur (src.length - (c.call (sinkOf q) src false b).read + m)
      ≤ curPhi q v c (src.length + m) := by
  cases c with
  | nominal s => exact q_call_slack_malformed q hq2 v s src b m hi hb hshort l a hres
  | utf8 s => exact q_call_slack_malformed q hq2 .utf8 s src b m hi hb hshort l a hres
  | utf16be s => exact q_call_slack_malformed q hq2 .utf16Be s src b m hi hb hshort l a hres
  | utf16le s => exact q_call_slack_malformed q hq2 .utf16Le s src b m hi hb hshort l a hres

/-! ### one raw call of the loop -/

/-- the potential of a decoder that is past the sniffing: the current decoder's, for the source
plus the `BB` that is still pending -/
def Psi (q : Query) (v : Gen.Variant) (d : Decoder (famOfVariant v)) (n : Nat) : Nat :=
  match d.life with
  | .convertingWithPendingBB => curPhi q v d.cur (n + 1)
  | _ => curPhi q v d.cur n

/-- what one raw call of the loop guarantees for a source of `n` bytes and a destination of `cap`
units: no `OutputFull`; after a `Malformed` the decoder is past the sniffing and what is left of the
destination after the output and U+FFFD covers the potential of the rest -/
def ReplStep (q : Query) (v : Gen.Variant) (n cap : Nat) : DRes (famOfVariant v) → Prop
  | .panic => True
  | .ok res read out d' inner => InnerAdmissible (sinkOf q) cap inner →
      res ≠ .outputFull ∧
      (∀ l a, res = .malformed l a →
        curInv v d'.cur ∧ (d'.life = .converting ∨ d'.life = .convertingWithPendingBB) ∧
        unitsOfList (sinkOf q) out + replRoom (sinkOf q) + Psi q v d' (n - read) ≤ cap)

theorem checkingEnd_replStep (q : Query) (hq2 : q = .utf16 ∨ q = .utf8) (v : Gen.Variant)
    (c : Cur (famOfVariant v)) (src : List Nat) (last : Bool) (b : Budget) (off cap : Nat)
    (hi : curInv v c) (hb : ∀ x ∈ src, x < 256) (hphi : curPhi q v c (src.length - off) ≤ cap) :
    ReplStep q v src.length cap (checkingEnd (sinkOf q) c src last b off [] []) := by
  unfold checkingEnd ReplStep
  simp only [List.nil_append, InnerAdmissible]
  intro hadm
  have hbd := drop_bytes off hb
  have hlen : (src.drop off).length = src.length - off := List.length_drop
  refine ⟨cur_noFull q v c (src.drop off) last b cap hi hbd (by rw [hlen]; exact hphi) hadm.1, ?_⟩
  intro l a hres
  have hm := cur_call_malformed q hq2 v c (src.drop off) last b hi hbd l a hres
  have hinv := cur_call_inv v (sinkOf q) c (src.drop off) last b hi hbd
  rw [hlen] at hm
  generalize c.call (sinkOf q) (src.drop off) last b = r at hres hm hinv
  have hlife : (if last = true ∧ r.res = .inputEmpty then Life.finished else Life.converting) = .converting := by
    rw [hres]; simp
  refine ⟨hinv, Or.inl hlife, ?_⟩
  simp only [Psi, hlife]
  have e : src.length - (r.read + off) = src.length - off - r.read := by omega
  rw [e]; omega

/-- replay of one withheld byte, then the source: `n + 1` bytes for the current decoder -/
theorem afterOne_replStep (q : Query) (hq2 : q = .utf16 ∨ q = .utf8) (v : Gen.Variant)
    (c : Cur (famOfVariant v)) (src : List Nat) (last : Bool) (fb : Nat) (b1 b2 : Budget) (cap : Nat)
    (hi : curInv v c) (hb : ∀ x ∈ src, x < 256) (hfb : fb < 256)
    (hphi : curPhi q v c (src.length + 1) ≤ cap) :
    ReplStep q v src.length cap (afterOne (sinkOf q) c src last fb b1 b2) := by
  unfold afterOne
  have hb1 : ∀ x ∈ [fb], x < 256 := by intro x hx; simp only [List.mem_singleton] at hx; rw [hx]; exact hfb
  have hsl := cur_call_slack q v c [fb] b1 src.length hi hb1
  have hslm := cur_call_slack_malformed q hq2 v c [fb] b1 src.length hi hb1 (by simp)
  have hinv := cur_call_inv v (sinkOf q) c [fb] false b1 hi hb1
  have e : [fb].length + src.length = src.length + 1 := by simp only [List.length_singleton]; omega
  rw [e] at hsl hslm
  generalize c.call (sinkOf q) [fb] false b1 = r1 at hsl hslm hinv ⊢
  simp only
  cases hres : r1.res with
  | inputEmpty =>
    simp only
    unfold checkingEnd ReplStep
    simp only [List.cons_append, List.nil_append, InnerAdmissible, List.drop_zero]
    intro hadm
    have h1 := hsl.1 hres
    have h3 : curPhi q v r1.cur src.length ≤ cap - unitsOfList (sinkOf q) r1.out := by omega
    have hu1 : unitsOfList (sinkOf q) r1.out ≤ cap := hadm.1.1
    refine ⟨cur_noFull q v r1.cur src last b2 _ hinv hb h3 hadm.2.1, ?_⟩
    intro l a hres2
    have hm := cur_call_malformed q hq2 v r1.cur src last b2 hinv hb l a hres2
    have hinv2 := cur_call_inv v (sinkOf q) r1.cur src last b2 hinv hb
    generalize r1.cur.call (sinkOf q) src last b2 = r2 at hres2 hm hinv2
    have hlife : (if last = true ∧ r2.res = .inputEmpty then Life.finished else Life.converting) = .converting := by
      rw [hres2]; simp
    refine ⟨hinv2, Or.inl hlife, ?_⟩
    simp only [Psi, hlife, Nat.add_zero]
    rw [unitsOfList_append]
    omega
  | malformed l a =>
    simp only [ReplStep]
    intro hadm
    refine ⟨(by intro h; cases h), ?_⟩
    intro l' a' _
    have hm := hslm l a hres
    refine ⟨hinv, (by simp), ?_⟩
    simp only [Psi, Nat.sub_zero]
    have hmono := curPhi_mono q v r1.cur (Nat.le_add_left src.length ([fb].length - r1.read))
    omega
  | outputFull =>
    simp only
    split
    · simp only [ReplStep, InnerAdmissible]
      intro hadm
      exfalso
      have h1 := hsl.2 hres
      have h2 := hadm.1.2.1 rfl
      simp only at h2
      omega
    · trivial

/-- replay of `EF BB`, then the source: `n + 2` bytes for the current decoder -/
theorem afterTwo_replStep (q : Query) (hq2 : q = .utf16 ∨ q = .utf8) (v : Gen.Variant)
    (c : Cur (famOfVariant v)) (src : List Nat) (last : Bool) (b1 b2 : Budget) (cap : Nat)
    (hi : curInv v c) (hb : ∀ x ∈ src, x < 256)
    (hphi : curPhi q v c (src.length + 2) ≤ cap) :
    ReplStep q v src.length cap (afterTwo (sinkOf q) c src last b1 b2) := by
  unfold afterTwo
  have hb1 : ∀ x ∈ [0xEF, 0xBB], x < 256 := by decide
  have hsl := cur_call_slack q v c [0xEF, 0xBB] b1 src.length hi hb1
  have hslm := cur_call_slack_malformed q hq2 v c [0xEF, 0xBB] b1 src.length hi hb1 (by simp)
  have hinv := cur_call_inv v (sinkOf q) c [0xEF, 0xBB] false b1 hi hb1
  have e : [0xEF, 0xBB].length + src.length = src.length + 2 := by
    simp only [List.length_cons, List.length_nil]; omega
  have e2 : [0xEF, 0xBB].length = 2 := rfl
  rw [e] at hsl hslm
  rw [e2] at hslm
  generalize c.call (sinkOf q) [0xEF, 0xBB] false b1 = r1 at hsl hslm hinv ⊢
  simp only
  cases hres : r1.res with
  | inputEmpty =>
    simp only
    unfold checkingEnd ReplStep
    simp only [List.cons_append, List.nil_append, InnerAdmissible, List.drop_zero]
    intro hadm
    have h1 := hsl.1 hres
    have h3 : curPhi q v r1.cur src.length ≤ cap - unitsOfList (sinkOf q) r1.out := by omega
    have hu1 : unitsOfList (sinkOf q) r1.out ≤ cap := hadm.1.1
    refine ⟨cur_noFull q v r1.cur src last b2 _ hinv hb h3 hadm.2.1, ?_⟩
    intro l a hres2
    have hm := cur_call_malformed q hq2 v r1.cur src last b2 hinv hb l a hres2
    have hinv2 := cur_call_inv v (sinkOf q) r1.cur src last b2 hinv hb
    generalize r1.cur.call (sinkOf q) src last b2 = r2 at hres2 hm hinv2
    have hlife : (if last = true ∧ r2.res = .inputEmpty then Life.finished else Life.converting) = .converting := by
      rw [hres2]; simp
    refine ⟨hinv2, Or.inl hlife, ?_⟩
    simp only [Psi, hlife, Nat.add_zero]
    rw [unitsOfList_append]
    omega
  | malformed l a =>
    simp only
    have hm := hslm l a hres
    split
    · rename_i hr1
      simp only [ReplStep]
      intro hadm
      refine ⟨(by intro h; cases h), ?_⟩
      intro l' a' _
      refine ⟨hinv, (by simp), ?_⟩
      simp only [Psi, Nat.sub_zero]
      rw [hr1] at hm
      have e3 : 2 - 1 + src.length = src.length + 1 := by omega
      rw [e3] at hm
      omega
    · simp only [ReplStep]
      intro hadm
      refine ⟨(by intro h; cases h), ?_⟩
      intro l' a' _
      refine ⟨hinv, (by simp), ?_⟩
      simp only [Psi, Nat.sub_zero]
      have hmono := curPhi_mono q v r1.cur (Nat.le_add_left src.length (2 - r1.read))
      omega
  | outputFull =>
    simp only
    split
    · simp only [ReplStep, InnerAdmissible]
      intro hadm
      exfalso
      have h1 := hsl.2 hres
      have h2 := hadm.1.2.1 rfl
      simp only at h2
      omega
    · trivial

/-- one raw call of the loop from a query-sized destination, in any life-cycle state -/
theorem rawCall_replStep_query (q : Query) (hq2 : q = .utf16 ∨ q = .utf8) (v : Gen.Variant)
    (d : Decoder (famOfVariant v)) (hd : LifeInv v d) (src : List Nat) (last : Bool) (b1 b2 : Budget)
    (cap Q : Nat) (hb : ∀ x ∈ src, x < 256)
    (hq : Decoder.maxLen q v (nominalOf v) d src.length = some Q) (hcap : Q ≤ cap) :
    ReplStep q v src.length cap (d.rawCall (sinkOf q) src last b1 b2) := by
  have hleaf := rawCall_leaf (sinkOf q) d src last b1 b2
  generalize d.rawCall (sinkOf q) src last b1 b2 = r at hleaf
  cases hleaf with
  | finished _ => trivial
  | idle _ _ => intro _; exact ⟨(by intro h; cases h), (by intro l a h; cases h)⟩
  | wait n life' _ _ _ => intro _; exact ⟨(by intro h; cases h), (by intro l a h; cases h)⟩
  | direct hl =>
    exact checkingEnd_replStep q hq2 v d.cur src last b2 0 cap hd.cur hb
      (Nat.le_trans (budget_direct q v d _ Q hd hl hq) hcap)
  | bom8 off hl =>
    refine checkingEnd_replStep q hq2 v (.utf8 utf8Fam.init) src last b2 off cap (curInv_utf8_init v) hb ?_
    exact Nat.le_trans (Nat.le_trans (qPhi_mono q .utf8 utf8Fam.init (Nat.sub_le _ _))
      (budget_bom8 q v d _ Q hd hl hq)) hcap
  | bom16 be off hl =>
    refine checkingEnd_replStep q hq2 v _ src last b2 off cap (curInv_utf16_init v be) hb ?_
    exact Nat.le_trans (Nat.le_trans (curPhi_mono q v _ (Nat.sub_le _ _))
      (budget_bom16 q v d _ Q hd be hl hq)) hcap
  | one fb hfb =>
    exact afterOne_replStep q hq2 v d.cur src last fb b1 b2 cap hd.cur hb (replayOne_lt _ _ hfb)
      (Nat.le_trans (Nat.le_trans (curPhi_mono q v d.cur (Nat.le_succ _))
        (budget_replay q v d _ Q hd (replayOne_withheld _ _ hfb) hq)) hcap)
  | two hl =>
    exact afterTwo_replStep q hq2 v d.cur src last b1 b2 cap hd.cur hb
      (Nat.le_trans (budget_replay q v d _ Q hd (by rw [hl]; simp [withheld]) hq) hcap)

/-- one raw call of the loop after a `Malformed`: the decoder is past the sniffing -/
theorem rawCall_replStep_settled (q : Query) (hq2 : q = .utf16 ∨ q = .utf8) (v : Gen.Variant)
    (d : Decoder (famOfVariant v)) (hi : curInv v d.cur)
    (hl : d.life = .converting ∨ d.life = .convertingWithPendingBB) (src : List Nat) (last : Bool)
    (b1 b2 : Budget) (cap : Nat) (hb : ∀ x ∈ src, x < 256) (hpsi : Psi q v d src.length ≤ cap) :
    ReplStep q v src.length cap (d.rawCall (sinkOf q) src last b1 b2) := by
  obtain ⟨life, c⟩ := d
  simp only at hl hi
  rcases hl with hl | hl
  · subst hl
    unfold Decoder.rawCall
    exact checkingEnd_replStep q hq2 v c src last b2 0 cap hi hb hpsi
  · subst hl
    unfold Decoder.rawCall
    exact afterOne_replStep q hq2 v c src last 0xBB b1 b2 cap hi hb (by decide) hpsi

/-! ### the loop -/

/-- the conclusion for a with-replacement call -/
def ReplNoFull {F : Fam} : Option (Option (DReplRes F)) → Prop
  | some (some t) => t.res ≠ .outputFull
  | _ => True

theorem replCall_noFull_of_step (q : Query) (hq2 : q = .utf16 ∨ q = .utf8) (v : Gen.Variant) (last : Bool) :
    ∀ (fuel : Nat) (d : Decoder (famOfVariant v)) (src : List Nat) (bs : List (Budget × Budget)) (cap : Nat),
      (∀ x ∈ src, x < 256) →
      ReplStep q v src.length cap
        (d.rawCall (sinkOf q) src last (bs.headD (.unlimited, .unlimited)).1 (bs.headD (.unlimited, .unlimited)).2) →
      DReplAdmissible (sinkOf q) last fuel d src bs cap →
      ReplNoFull (Decoder.replCall (sinkOf q) last fuel d src bs) := by
  intro fuel
  induction fuel with
  | zero => intro d src bs cap _ _ _; simp [Decoder.replCall, ReplNoFull]
  | succ fuel ih =>
    intro d src bs cap hb hstep hadm
    rw [Decoder.replCall]
    rw [DReplAdmissible] at hadm
    generalize d.rawCall (sinkOf q) src last (bs.headD (.unlimited, .unlimited)).1
      (bs.headD (.unlimited, .unlimited)).2 = r at hstep hadm
    cases r with
    | panic => simp [ReplNoFull]
    | ok res read out d' inner =>
      simp only at hadm ⊢
      have hs := hstep hadm.1
      cases res with
      | inputEmpty => simp [ReplNoFull]
      | outputFull => exact absurd rfl hs.1
      | malformed l a =>
        simp only
        obtain ⟨hinv, hlife, hbound⟩ := hs.2 l a rfl
        have hb' : ∀ x ∈ src.drop read, x < 256 := drop_bytes read hb
        have hstep' := rawCall_replStep_settled q hq2 v d' hinv hlife (src.drop read) last
          (bs.tail.headD (.unlimited, .unlimited)).1 (bs.tail.headD (.unlimited, .unlimited)).2
          (cap - unitsOfList (sinkOf q) out - replRoom (sinkOf q)) hb'
          (by rw [List.length_drop]; omega)
        have IH := ih d' (src.drop read) bs.tail _ hb' hstep' (hadm.2 l a rfl)
        cases hrec : Decoder.replCall (sinkOf q) last fuel d' (src.drop read) bs.tail with
        | none => simp [ReplNoFull]
        | some o =>
          cases o with
          | none => simp [ReplNoFull]
          | some t =>
            rw [hrec] at IH
            simp only [ReplNoFull] at IH ⊢
            exact IH

/-- **C07, life-cycle arms, with replacement**: `decode_to_utf16` with `max_utf16_buffer_length`
(`q = .utf16`) and `decode_to_utf8` with `max_utf8_buffer_length` (`q = .utf8`), in every life-cycle
state of a decoder reachable from `new_decoder*`: the loop never returns `OutputFull`, however many
malformed sequences it replaces and whatever the replay of withheld bytes does. -/
theorem decoder_life_repl_sufficient (q : Query) (hq2 : q = .utf16 ∨ q = .utf8) (v : Gen.Variant)
    (d : Decoder (famOfVariant v)) (hd : LifeInv v d) (src : List Nat) (last : Bool) (fuel : Nat)
    (bs : List (Budget × Budget)) (cap Q : Nat) (hb : ∀ x ∈ src, x < 256)
    (hq : Decoder.maxLen q v (nominalOf v) d src.length = some Q) (hcap : Q ≤ cap)
    (hadm : DReplAdmissible (sinkOf q) last fuel d src bs cap) :
    ReplNoFull (Decoder.replCall (sinkOf q) last fuel d src bs) :=
  replCall_noFull_of_step q hq2 v last fuel d src bs cap hb
    (rawCall_replStep_query q hq2 v d hd src last _ _ cap Q hb hq hcap) hadm

/-- for every decoder reachable from `new_decoder*` of any of the 40 encodings -/
theorem reachable_life_repl_sufficient (q : Query) (hq2 : q = .utf16 ∨ q = .utf8) (v : Gen.Variant)
    (bom : BomHandling) (d : Decoder (famOfVariant v)) (hr : DReach v bom d) (src : List Nat) (last : Bool)
    (fuel : Nat) (bs : List (Budget × Budget)) (cap Q : Nat) (t : DReplRes (famOfVariant v))
    (hb : ∀ x ∈ src, x < 256)
    (hq : Decoder.maxLen q v (nominalOf v) d src.length = some Q) (hcap : Q ≤ cap)
    (hadm : DReplAdmissible (sinkOf q) last fuel d src bs cap)
    (hrun : Decoder.replCall (sinkOf q) last fuel d src bs = some (some t)) : t.res ≠ .outputFull := by
  have := decoder_life_repl_sufficient q hq2 v d (lifeInv_reachable v bom d hr) src last fuel bs cap Q hb hq hcap hadm
  rw [hrun] at this
  exact this

/-! ### Non-vacuity -/

section demo
/-- nominal UTF-8, sniffing, `EF` withheld -/
private def dU : Decoder (famOfVariant .utf8) := ⟨.seenUtf8First, .nominal utf8Fam.init⟩

set_option maxRecDepth 8192 in
/-- UTF-8 with `EF` withheld (reachable: one call on `EF`), last call on `41`: `max_utf16_buffer_length(1)`
answers 4; the loop replays `EF`, the variant decoder reports the truncated sequence when it sees `41`,
U+FFFD is written, and a second raw call decodes `A`: two units, no `OutputFull`. -/
example :
    DReach .utf8 .sniff dU ∧
    Decoder.maxLen .utf16 .utf8 (nominalOf .utf8) dU 1 = some 4 ∧
    (Decoder.replCall .utf16 true 3 dU [0x41] []).map (Option.map fun t => (t.res, t.read, t.out, t.hadErrors, t.d.life))
      = some (some (.inputEmpty, 1, [0xFFFD, 0x41], true, .finished)) := by
  refine ⟨?_, by decide +kernel, rfl⟩
  have h1 : (Decoder.new (famOfVariant .utf8) (nominalOf .utf8) .sniff).rawCall .utf16 [0xEF] false .unlimited .unlimited =
      .ok .inputEmpty 1 [] dU [] := rfl
  exact DReach.call .utf16 _ [0xEF] false .unlimited .unlimited _ _ _ _ _ DReach.new (by decide) h1
end demo

end EncodingRs.Thm.C07
