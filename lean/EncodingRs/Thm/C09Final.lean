import EncodingRs.Thm.C09
/-!
# C09 — the side hypothesis `hdone` of `builtin_eq_manual` discharged

A with-replacement call with `last = true` that returns `InputEmpty` has consumed
its whole source and has run the end-of-stream block of the variant decoder, so
nothing is left to report (`replLoop_final`).  `builtin_eq_manual'` is
`builtin_eq_manual` with `hdone` replaced by "the call returned `InputEmpty`"
(the only other possibility is `OutputFull`, `replLoop_res`, in which case the
stream is not finished and the hypothesis `hdone` of the old theorem is false in
general).  `rhistory_eq_ref` / `builtin_history_eq_manual` lift this to any
protocol-following *history* of with-replacement calls (any cuts, any
`OutputFull` stops).
-/
namespace EncodingRs.Thm.C09
open EncodingRs EncodingRs.Model EncodingRs.Lemmas.Core EncodingRs.Lemmas.FamLaws EncodingRs.Thm.C02

/-- a `last` call that returned `InputEmpty` leaves a state with nothing to flush and nothing to
report at the end of the stream -/
theorem call_final_state (F : Fam) (k : Sink) (L : Laws F) (src : List Nat) (s : F.σ) (budget : Budget)
    (h : (call F k s src true budget).res = .inputEmpty) :
    F.eof (call F k s src true budget).st = none ∧ F.pend (call F k s src true budget).st = none := by
  unfold call at h ⊢
  cases hp : F.pend s with
  | none => simp only [hp] at h ⊢; exact run_final F k L src s budget hp h
  | some p =>
    obtain ⟨o, s'⟩ := p
    simp only [hp] at h ⊢
    by_cases hz : budget.isZero = true
    · simp [hz] at h
    · simp only [hz, Bool.false_eq_true, if_false] at h ⊢
      exact run_final F k L src s' budget.dec (L.pend_once s o s' hp) h

/-- … hence the reference semantics of the empty rest is empty, at every position -/
theorem call_final_ref (F : Fam) (k : Sink) (L : Laws F) (src : List Nat) (s : F.σ) (budget : Budget)
    (h : (call F k s src true budget).res = .inputEmpty) (p : Nat) :
    ref F (call F k s src true budget).st [] p = [] := by
  have key := call_final_state F k L src s budget h
  rw [ref_nil F _ _ key.2, key.1]

/-- **`replLoop_final`**: a with-replacement call with `last = true` that returns `InputEmpty`
consumed the whole source and left nothing to report. -/
theorem replLoop_final (F : Fam) (k : Sink) (L : Laws F) :
    ∀ (fuel : Nat) (s : F.σ) (src : List Nat) (budgets : List Budget) (t : ReplRes F.σ),
      replLoop F k true fuel s src budgets = some t → t.res = .inputEmpty →
      src.drop t.read = [] ∧ ∀ p, ref F t.st [] p = [] := by
  intro fuel
  induction fuel with
  | zero => intro s src budgets t h; simp [replLoop] at h
  | succ fuel ih =>
    intro s src budgets t h hie
    rw [replLoop] at h
    have hfin := call_final_ref F k L src s (budgets.headD .unlimited)
    have hall := call_inputEmpty F k src s true (budgets.headD .unlimited)
    generalize call F k s src true (budgets.headD .unlimited) = r at h hfin hall
    unfold replStep at h
    cases hres : r.res with
    | malformed l a =>
      simp only [hres] at h
      cases hrec : replLoop F k true fuel r.st (src.drop r.read) budgets.tail with
      | none => rw [hrec] at h; cases h
      | some t' =>
        rw [hrec] at h; simp only [Option.some.injEq] at h; subst h
        have IH := ih _ _ _ t' hrec hie
        refine ⟨?_, IH.2⟩
        have := IH.1
        rw [List.drop_drop] at this
        exact this
    | inputEmpty =>
      simp only [hres, Option.some.injEq] at h; subst h
      refine ⟨?_, fun p => hfin hres p⟩
      show src.drop r.read = []
      rw [hall hres]; exact List.drop_length
    | outputFull => simp only [hres, Option.some.injEq] at h; subst h; cases hie

/-- **C09 without `hdone`**: the text a caller assembles with the manual procedure over the
without-replacement method (any protocol-following history `e`, one U+FFFD per `Malformed`) and the
text the built-in replacement produces in a single `last` call on the whole stream that returned
`InputEmpty` are the same. -/
theorem builtin_eq_manual' (F : Fam) (k : Sink) (L : Laws F) (stream : List Nat) (e : List Ev)
    (hman : Proto F F.init 0 stream e) (fuel : Nat) (budgets : List Budget) (t : ReplRes F.σ)
    (hrun : replLoop F k true fuel F.init stream budgets = some t)
    (hres : t.res = .inputEmpty) :
    t.out = textOf true e := by
  have hf := replLoop_final F k L fuel F.init stream budgets t hrun hres
  exact builtin_eq_manual F k L stream e hman fuel budgets t hrun (by rw [hf.1]; exact hf.2 _)

/-- a protocol-following history of *with-replacement* calls (`decode_to_utf8` / `decode_to_utf16`):
any cuts, any stop decisions of the inner raw calls, either sink per call; the rest is pushed again
after an `OutputFull`; the history ends with the `last` call that returns `InputEmpty`.  The last
index is the text written, in concatenation. -/
inductive RProto (F : Fam) : F.σ → Nat → List Nat → List Nat → Prop
  | final (k : Sink) (s : F.σ) (pos : Nat) (rem : List Nat) (fuel : Nat) (budgets : List Budget)
      (t : ReplRes F.σ) :
      replLoop F k true fuel s rem budgets = some t → t.res = .inputEmpty →
      RProto F s pos rem t.out
  | lastStep (k : Sink) (s : F.σ) (pos : Nat) (rem : List Nat) (fuel : Nat) (budgets : List Budget)
      (t : ReplRes F.σ) (out' : List Nat) :
      replLoop F k true fuel s rem budgets = some t → t.res ≠ .inputEmpty →
      RProto F t.st (pos + t.read) (rem.drop t.read) out' →
      RProto F s pos rem (t.out ++ out')
  | chunkStep (k : Sink) (s : F.σ) (pos : Nat) (src rest : List Nat) (fuel : Nat) (budgets : List Budget)
      (t : ReplRes F.σ) (out' : List Nat) :
      replLoop F k false fuel s src budgets = some t →
      RProto F t.st (pos + t.read) (src.drop t.read ++ rest) out' →
      RProto F s pos (src ++ rest) (t.out ++ out')

/-- every history of with-replacement calls writes exactly the U+FFFD-replaced reference text -/
theorem rhistory_eq_ref (F : Fam) (L : Laws F) (s : F.σ) (pos : Nat) (rem : List Nat) (out : List Nat)
    (h : RProto F s pos rem out) : out = textOf true (ref F s rem pos) := by
  induction h with
  | final k s pos rem fuel budgets t hrun hres =>
    have h1 := replLoop_sound F k L true fuel s rem budgets pos [] t (fun _ => rfl) hrun
    have hf := replLoop_final F k L fuel s rem budgets t hrun hres
    simp only [List.append_nil] at h1
    rw [← h1, hf.1, hf.2]
    simp [textOf]
  | lastStep k s pos rem fuel budgets t out' hrun _ _ ih =>
    have h1 := replLoop_sound F k L true fuel s rem budgets pos [] t (fun _ => rfl) hrun
    simp only [List.append_nil] at h1
    rw [← h1, ih]
  | chunkStep k s pos src rest fuel budgets t out' hrun _ ih =>
    have h1 := replLoop_sound F k L false fuel s src budgets pos rest t (fun h => by cases h) hrun
    rw [← h1, ih]

/-- **C09 for histories**: whatever the cuts, capacities and sinks of the two callers, the text
written by a history of with-replacement calls is the text assembled by the manual procedure from a
history of without-replacement calls over the same stream. -/
theorem builtin_history_eq_manual (F : Fam) (L : Laws F) (stream : List Nat) (e : List Ev) (out : List Nat)
    (hman : Proto F F.init 0 stream e) (hbuiltin : RProto F F.init 0 stream out) :
    out = textOf true e := by
  rw [rhistory_eq_ref F L _ _ _ _ hbuiltin, history_eq_ref F L _ _ _ _ hman]

/-- for each of the 40 encodings -/
theorem builtin_history_eq_manual_all (v : Gen.Variant) (stream : List Nat) (e : List Ev) (out : List Nat)
    (hman : Proto (famOfVariant v) (famOfVariant v).init 0 stream e)
    (hbuiltin : RProto (famOfVariant v) (famOfVariant v).init 0 stream out) :
    out = textOf true e :=
  builtin_history_eq_manual _ (famOfVariant_laws v) stream e out hman hbuiltin

/-! Non-vacuity: EUC-KR, stream `41 81 FF 42` cut after the lead byte, with replacement. -/
example :
    let F := eucKrFam
    (replLoop F .utf8 false 5 F.init [0x41, 0x81] []).map (fun t => (t.res, t.read, t.out)) =
      some (.inputEmpty, 2, [0x41]) ∧
    (replLoop F .utf8 true 5 (some 0x01 : Option Nat) [0xFF, 0x42] []).map (fun t => (t.res, t.read, t.out, t.hadErrors)) =
      some (.inputEmpty, 2, [0xFFFD, 0x42], true) := by
  decide +kernel

end EncodingRs.Thm.C09
