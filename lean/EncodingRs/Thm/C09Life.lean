import EncodingRs.Thm.C09Final
import EncodingRs.Thm.C02Full
import EncodingRs.Thm.C10Enc
import EncodingRs.Lemmas.LifeLift
/-!
# C09 through the BOM life cycle — `decode_to_utf8` / `decode_to_utf16` of the public `Decoder`

`Thm/C09.lean` / `Thm/C09Final.lean` (`replLoop_sound`, `hadErrors_iff`, `builtin_eq_manual'`,
`rhistory_eq_ref`) are about the replacement loop around a *variant* decoder (`Model.replLoop`).
`Thm/C08LoopLifeRepl.lean` (`replCall_events`) accounts only for the *number* of events of
`Thm.C07.Decoder.replCall`, the model of `Decoder::decode_to_utf8` / `decode_to_utf16` around
`Decoder.rawCall` (BOM life cycle included).  Here the text equality:

* **`replCall_sound`** (one call): for a decoder with the invariants of `Decoder.new`
  (`NewInv`: `Fresh`, `PendInv`, withheld bytes counted) there is a list of events `e` — the events this
  call accounts for — such that `e` followed by the documented BOM semantics `dref` of the rest is
  `dref` of the whole remaining stream, the call's output is exactly `textOf true e` (the scalar
  values, one U+FFFD per malformed sequence), and **`had_errors = hadErrors e`**: the call reports
  errors iff one of the events it accounts for is a malformed sequence, i.e. iff it wrote a U+FFFD for
  one (`hadErrors_iff_err`).  A `last` call that returns `InputEmpty` leaves nothing to report.
  The invariants are re-established (`NewInv` of the decoder left behind).
* `DRHist`: protocol-following histories of with-replacement calls on a `Decoder` — any cuts (also
  inside a potential BOM), any stop policies of the inner calls, either sink per call, the rest pushed
  again after `OutputFull`, ending with the `last` call that returns `InputEmpty`.
* **`drhist_eq_dref`** / **`new_decoder_repl_history`**: the concatenated text of ANY such history
  from `Decoder.new` (all 40 encodings, sniff / remove / off) is `textOf true` of the documented
  semantics `dref` of the whole stream; `drhist_tag`: `encoding()` afterwards is the documented one.
* **`decoder_builtin_history_eq_manual`** (headline): it equals the text assembled by the manual
  procedure (one U+FFFD per `Malformed`) over ANY history `C10.DHistFull` of the
  without-replacement method on the same stream (via `C10.dhist_full_eq_dref`), and the two decoders
  end with the same `encoding()`; `decoder_repl_histories_agree`: two with-replacement histories
  agree; `decoder_builtin_eq_manual`: the single-call special case.
* `DMixHist` / **`dmixhist_eq_dref`** / `new_decoder_mixed_histories_agree`: histories in which the caller
  switches between the manual procedure over the without-replacement method and the built-in
  replacement from call to call assemble the same text (`DRHist.toMix`, `DHistFull.toMix`: the two pure
  kinds of history are special cases).

Everything except the `new_decoder_*` / `decoder_*` corollaries is generic in the nominal family
(`FamBB F`, proved for all 13 variant decoders: `C10.famBB_variant`).  No hypothesis about bytes being
`< 256` is needed.  Fuel: `Decoder.replCall` returns `none` when its fuel runs out; the theorems are
about completed calls (termination: C08).
-/
namespace EncodingRs.Thm.C09Life
open EncodingRs EncodingRs.Model EncodingRs.Lemmas.Core EncodingRs.Lemmas.FamLaws EncodingRs.Lemmas.Life
open EncodingRs.Lemmas.LifeLeaf EncodingRs.Lemmas.LifeLift EncodingRs.Thm.C10 EncodingRs.Thm.C07 EncodingRs.Thm.C06
open EncodingRs.Thm.C02 EncodingRs.Thm.C09

variable {F : Fam}

/-! ### events, text, had-errors -/

theorem hadErrors_cps_append (l : List Nat) (e : List Ev) : hadErrors (l.map Ev.cp ++ e) = hadErrors e := by
  induction l with
  | nil => rfl
  | cons c t ih => simpa [hadErrors] using ih

theorem hadErrors_cps (l : List Nat) : hadErrors (l.map Ev.cp) = false := by
  have := hadErrors_cps_append l []
  simpa [hadErrors] using this

/-- `hadErrors e`: one of the events is a malformed sequence -/
theorem hadErrors_iff_err (e : List Ev) : hadErrors e = true ↔ ∃ s l, Ev.err s l ∈ e := by
  induction e with
  | nil => simp [hadErrors]
  | cons x t ih =>
    cases x with
    | cp c =>
      simp only [hadErrors, ih, List.mem_cons, reduceCtorEq, false_or]
    | err s l =>
      simp only [hadErrors, true_iff]
      exact ⟨s, l, List.mem_cons_self ..⟩

/-- … i.e. the text with replacement contains one more U+FFFD than the malformed-free part accounts
for: the number of U+FFFDs written for errors is the number of error events -/
theorem textOf_true_length (e : List Ev) : (textOf true e).length = e.length := by
  induction e with
  | nil => rfl
  | cons x t ih => cases x <;> simp [textOf, ih]

/-! ### the invariants of a decoder made by `Decoder.new` -/

/-- `Fresh`, `PendInv`, and the withheld bytes are among the `pos` bytes consumed so far -/
structure NewInv (d : Decoder F) (pos : Nat) : Prop where
  w : withheld d.life ≤ pos
  fresh : Fresh d
  pend : PendInv d

theorem newInv_new (nom : Nominal) (bom : BomHandling) : NewInv (Decoder.new F nom bom) 0 :=
  ⟨by rw [withheld_new]; exact Nat.le_refl _, fresh_new nom bom, pendInv_new nom bom⟩

theorem newInv_reachable (v : Gen.Variant) (nom : Nominal) (bom : BomHandling) (d : Decoder (famOfVariant v))
    (pos : Nat) (h : DReachAt v nom bom d pos) : NewInv d pos := by
  have hs := lifeSpan_reachable v nom bom d pos h
  exact ⟨by have := hs.seen; omega, hs.fresh, hs.pend⟩

/-- one raw call: sound against `dref`, invariants preserved -/
theorem rawCall_newInv (H : FamBB F) (k : Sink) (d : Decoder F) (pos : Nat) (src rest : List Nat) (last : Bool)
    (b1 b2 : Budget) (hl : last = true → rest = []) (hd : NewInv d pos) (res : Res) (read : Nat)
    (out : List Nat) (d' : Decoder F) (inner : List (List Nat × Res × Nat))
    (h : d.rawCall k src last b1 b2 = .ok res read out d' inner) :
    NewInv d' (pos + read) ∧
    out.map Ev.cp ++ resEv (pos + read) res ++ dref d' (src.drop read ++ rest) (pos + read)
      = dref d (src ++ rest) pos := by
  have hs := rawCall_sound_full H k d src rest pos last b1 b2 hl hd.w hd.fresh hd.pend
  rw [h] at hs
  simp only [DSound] at hs
  exact ⟨⟨hs.2, rawCall_fresh k d src last b1 b2 res read out d' inner hd.fresh h,
    rawCall_pendInv H k d src last b1 b2 res read out d' inner hd.fresh hd.pend h⟩, hs.1⟩

/-! ### one with-replacement call -/

/-- what a with-replacement call `t` on `src` (followed in the stream by `rest`) by a decoder `d` that
has consumed `pos` bytes guarantees -/
def ReplSound (last : Bool) (d : Decoder F) (src rest : List Nat) (pos : Nat) (t : DReplRes F) : Prop :=
  NewInv t.d (pos + t.read) ∧
  (t.res = .inputEmpty ∨ t.res = .outputFull) ∧
  ∃ e : List Ev,
    e ++ dref t.d (src.drop t.read ++ rest) (pos + t.read) = dref d (src ++ rest) pos ∧
    t.out = textOf true e ∧
    t.hadErrors = hadErrors e ∧
    (last = true → t.res = .inputEmpty → dref t.d (src.drop t.read ++ rest) (pos + t.read) = [])

theorem replChain_sound (H : FamBB F) {k : Sink} {last : Bool} {A : Nat → List (List Nat × Res × Nat) → Prop}
    {cap : Nat} {d : Decoder F} {src : List Nat} {t : DReplRes F} (h : ReplChain k last A cap d src t) :
    ∀ (pos : Nat) (rest : List Nat), (last = true → rest = []) → NewInv d pos →
      ReplSound last d src rest pos t := by
  induction h with
  | stop cap d src b1 b2 res read out d' inner hcall hne _ =>
    intro pos rest hl hd
    have hs := rawCall_newInv H k d pos src rest last b1 b2 hl hd res read out d' inner hcall
    have hres : res = .inputEmpty ∨ res = .outputFull := by
      cases res with
      | inputEmpty => exact Or.inl rfl
      | outputFull => exact Or.inr rfl
      | malformed l a => exact absurd rfl (hne l a)
    refine ⟨hs.1, hres, out.map Ev.cp, ?_, (textOf_cps true out).symm, (hadErrors_cps out).symm, ?_⟩
    · have h2 := hs.2
      rw [resEv_append_nil _ _ hres, List.append_nil] at h2
      exact h2
    · intro hlast hie
      have hie' : res = .inputEmpty := hie
      subst hlast
      subst hie'
      show dref d' (src.drop read ++ rest) (pos + read) = []
      rw [hl rfl, List.append_nil]
      exact rawCall_final_nothing H.ok k d d' pos src b1 b2 read out inner hd.fresh hcall
  | step cap d src b1 b2 l a read out d' inner t hcall _ _ ih =>
    intro pos rest hl hd
    have hs := rawCall_newInv H k d pos src rest last b1 b2 hl hd _ read out d' inner hcall
    obtain ⟨hinv, hres, e', he1, he2, he3, he4⟩ := ih (pos + read) rest hl hs.1
    have e1 : pos + (read + t.read) = pos + read + t.read := by omega
    have e2 : src.drop (read + t.read) = (src.drop read).drop t.read := by rw [List.drop_drop]
    unfold ReplSound
    simp only
    rw [e1, e2]
    refine ⟨hinv, hres, out.map Ev.cp ++ mkErr (pos + read) (l, a) :: e', ?_, ?_, ?_, he4⟩
    · rw [← hs.2, ← he1]
      simp [resEv]
    · rw [textOf_append, textOf_cps, he2]
      simp [textOf, mkErr]
    · rw [hadErrors_cps_append]
      simp [hadErrors, mkErr]

/-- **C09 for one `decode_to_utf8` / `decode_to_utf16` call of the public `Decoder`** (any
life-cycle state of a decoder with the invariants of `Decoder.new`, any source, any stop policies of
the inner calls, either sink): the output is the U+FFFD-replaced text of the events the call accounts
for in the documented BOM semantics, `had_errors` says whether one of them is a malformed sequence,
and the invariants hold again afterwards -/
theorem replCall_sound (H : FamBB F) (k : Sink) (last : Bool) (fuel : Nat) (d : Decoder F) (src : List Nat)
    (bs : List (Budget × Budget)) (t : DReplRes F) (pos : Nat) (rest : List Nat) (hl : last = true → rest = [])
    (hd : NewInv d pos) (hrun : Decoder.replCall k last fuel d src bs = some (some t)) :
    ReplSound last d src rest pos t :=
  replChain_sound H (replCall_chain k last fuel d src bs t 0 hrun) pos rest hl hd

/-- the text form of `replCall_sound`: output ++ replaced text of the rest = replaced text of the whole -/
theorem replCall_text (H : FamBB F) (k : Sink) (last : Bool) (fuel : Nat) (d : Decoder F) (src : List Nat)
    (bs : List (Budget × Budget)) (t : DReplRes F) (pos : Nat) (rest : List Nat) (hl : last = true → rest = [])
    (hd : NewInv d pos) (hrun : Decoder.replCall k last fuel d src bs = some (some t)) :
    t.out ++ textOf true (dref t.d (src.drop t.read ++ rest) (pos + t.read))
      = textOf true (dref d (src ++ rest) pos) := by
  obtain ⟨_, _, e, he1, he2, _, _⟩ := replCall_sound H k last fuel d src bs t pos rest hl hd hrun
  rw [← he1, textOf_append, he2]

/-- **`had_errors` of a with-replacement call of a reachable decoder** (all 40 encodings): true iff
one of the events the call accounts for is a malformed sequence — for which, and only for which, the
call wrote a U+FFFD that is not decoded text -/
theorem decoder_repl_hadErrors_iff (v : Gen.Variant) (nom : Nominal) (bom : BomHandling)
    (d : Decoder (famOfVariant v)) (pos : Nat) (hr : DReachAt v nom bom d pos) (k : Sink) (last : Bool)
    (fuel : Nat) (src : List Nat) (bs : List (Budget × Budget)) (t : DReplRes (famOfVariant v)) (rest : List Nat)
    (hl : last = true → rest = []) (hrun : Decoder.replCall k last fuel d src bs = some (some t)) :
    ∃ e : List Ev,
      e ++ dref t.d (src.drop t.read ++ rest) (pos + t.read) = dref d (src ++ rest) pos ∧
      t.out = textOf true e ∧
      (t.hadErrors = true ↔ ∃ s l, Ev.err s l ∈ e) := by
  obtain ⟨_, _, e, he1, he2, he3, _⟩ :=
    replCall_sound (famBB_variant v) k last fuel d src bs t pos rest hl (newInv_reachable v nom bom d pos hr) hrun
  exact ⟨e, he1, he2, by rw [he3]; exact hadErrors_iff_err e⟩

/-! ### histories of with-replacement calls -/

/-- a protocol-following history of *with-replacement* calls (`decode_to_utf8` / `decode_to_utf16`) on
a `Decoder`: any cuts (also inside a potential BOM), any stop decisions of the inner variant-decoder
calls, either sink per call; the rest is pushed again after an `OutputFull`; the history ends with
the `last` call that returns `InputEmpty`.  Indices: decoder, bytes consumed so far, remaining stream,
the text written (in concatenation), the decoder left behind. -/
inductive DRHist : Decoder F → Nat → List Nat → List Nat → Decoder F → Prop
  | final (k : Sink) (d : Decoder F) (pos : Nat) (rem : List Nat) (fuel : Nat) (bs : List (Budget × Budget))
      (t : DReplRes F) :
      Decoder.replCall k true fuel d rem bs = some (some t) → t.res = .inputEmpty →
      DRHist d pos rem t.out t.d
  | lastStep (k : Sink) (d : Decoder F) (pos : Nat) (rem : List Nat) (fuel : Nat) (bs : List (Budget × Budget))
      (t : DReplRes F) (out' : List Nat) (dfin : Decoder F) :
      Decoder.replCall k true fuel d rem bs = some (some t) → t.res ≠ .inputEmpty →
      DRHist t.d (pos + t.read) (rem.drop t.read) out' dfin →
      DRHist d pos rem (t.out ++ out') dfin
  | chunkStep (k : Sink) (d : Decoder F) (pos : Nat) (src rest : List Nat) (fuel : Nat)
      (bs : List (Budget × Budget)) (t : DReplRes F) (out' : List Nat) (dfin : Decoder F) :
      Decoder.replCall k false fuel d src bs = some (some t) →
      DRHist t.d (pos + t.read) (src.drop t.read ++ rest) out' dfin →
      DRHist d pos (src ++ rest) (t.out ++ out') dfin

/-- **every history of with-replacement calls writes exactly the U+FFFD-replaced text of the
documented BOM semantics** -/
theorem drhist_eq_dref (H : FamBB F) (d : Decoder F) (pos : Nat) (rem : List Nat) (out : List Nat)
    (dfin : Decoder F) (hd : NewInv d pos) (h : DRHist d pos rem out dfin) :
    out = textOf true (dref d rem pos) := by
  induction h with
  | final k d pos rem fuel bs t hrun hres =>
    obtain ⟨_, _, e, he1, he2, _, he4⟩ := replCall_sound H k true fuel d rem bs t pos [] (fun _ => rfl) hd hrun
    rw [he4 rfl hres] at he1
    simp only [List.append_nil] at he1
    rw [he2, he1]
  | lastStep k d pos rem fuel bs t out' dfin hrun _ _ ih =>
    have hs := replCall_sound H k true fuel d rem bs t pos [] (fun _ => rfl) hd hrun
    have ht := replCall_text H k true fuel d rem bs t pos [] (fun _ => rfl) hd hrun
    simp only [List.append_nil] at ht
    rw [ih hs.1, ht]
  | chunkStep k d pos src rest fuel bs t out' dfin hrun _ ih =>
    have hs := replCall_sound H k false fuel d src bs t pos rest (fun h => by cases h) hd hrun
    have ht := replCall_text H k false fuel d src bs t pos rest (fun h => by cases h) hd hrun
    rw [ih hs.1, ht]

/-! ### `encoding()` after with-replacement calls -/

theorem replChain_tag {k : Sink} {last : Bool} {A : Nat → List (List Nat × Res × Nat) → Prop}
    {cap : Nat} {d : Decoder F} {src : List Nat} {t : DReplRes F} (h : ReplChain k last A cap d src t) :
    ∀ (rest : List Nat), (last = true → rest = []) →
      drefTag t.d (src.drop t.read ++ rest) = drefTag d (src ++ rest) ∧
      (last = true → t.res = .inputEmpty → drefTag t.d (src.drop t.read ++ rest) = curTag t.d.cur) := by
  induction h with
  | stop cap d src b1 b2 res read out d' inner hcall _ _ =>
    intro rest hl
    have hs := rawCall_tsound k d src rest last b1 b2 hl
    rw [hcall] at hs
    refine ⟨hs, ?_⟩
    intro hlast hie
    have hie' : res = .inputEmpty := hie
    subst hlast
    subst hie'
    show drefTag d' (src.drop read ++ rest) = curTag d'.cur
    rw [hl rfl, List.append_nil]
    exact drefTag_final k d d' src b1 b2 read out inner hcall
  | step cap d src b1 b2 l a read out d' inner t hcall _ _ ih =>
    intro rest hl
    have hs := rawCall_tsound k d src rest last b1 b2 hl
    rw [hcall] at hs
    simp only [TSound] at hs
    have IH := ih rest hl
    have e2 : src.drop (read + t.read) = (src.drop read).drop t.read := by rw [List.drop_drop]
    simp only
    rw [e2]
    exact ⟨IH.1.trans hs, IH.2⟩

/-- `encoding()` at the end of any history of with-replacement calls is the documented one -/
theorem drhist_tag (d : Decoder F) (pos : Nat) (rem : List Nat) (out : List Nat) (dfin : Decoder F)
    (h : DRHist d pos rem out dfin) : curTag dfin.cur = drefTag d rem := by
  induction h with
  | final k d pos rem fuel bs t hrun hres =>
    have hc := replChain_tag (replCall_chain k true fuel d rem bs t 0 hrun) [] (fun _ => rfl)
    simp only [List.append_nil] at hc
    rw [← hc.1, hc.2 trivial hres]
  | lastStep k d pos rem fuel bs t out' dfin hrun _ _ ih =>
    have hc := replChain_tag (replCall_chain k true fuel d rem bs t 0 hrun) [] (fun _ => rfl)
    simp only [List.append_nil] at hc
    rw [ih, hc.1]
  | chunkStep k d pos src rest fuel bs t out' dfin hrun _ ih =>
    have hc := replChain_tag (replCall_chain k false fuel d src bs t 0 hrun) rest (fun h => by cases h)
    rw [ih, hc.1]

/-! ### decoders made by `Encoding::new_decoder*`, all 40 encodings -/

/-- **for a decoder as made by `new_decoder` / `new_decoder_with_bom_removal` /
`new_decoder_without_bom_handling`**: ANY history of with-replacement calls writes
`textOf true (dref …)` of the whole stream and ends with the documented `encoding()` -/
theorem new_decoder_repl_history (v : Gen.Variant) (nom : Nominal) (bom : BomHandling) (stream : List Nat)
    (out : List Nat) (dfin : Decoder (famOfVariant v))
    (h : DRHist (Decoder.new (famOfVariant v) nom bom) 0 stream out dfin) :
    out = textOf true (dref (Decoder.new (famOfVariant v) nom bom) stream 0) ∧
    curTag dfin.cur = drefTag (Decoder.new (famOfVariant v) nom bom) stream :=
  ⟨drhist_eq_dref (famBB_variant v) _ 0 stream out dfin (newInv_new nom bom) h, drhist_tag _ 0 stream out dfin h⟩

/-- **C09 for the public `Decoder`, headline**: whatever the cuts (also inside a potential BOM),
destination sizes, stop policies and sinks of the two callers, the text written by a history of
`decode_to_utf8` / `decode_to_utf16` calls is the text assembled by the documented manual procedure
(output of every call, plus one U+FFFD per `Malformed`) from ANY history of
`decode_to_utf8/16_without_replacement` calls over the same stream by a decoder made the same way;
and both decoders end with the same `encoding()` -/
theorem decoder_builtin_history_eq_manual (v : Gen.Variant) (nom : Nominal) (bom : BomHandling)
    (stream : List Nat) (e : List Ev) (dman : Decoder (famOfVariant v)) (out : List Nat)
    (dbuiltin : Decoder (famOfVariant v))
    (hman : DHistFull (Decoder.new (famOfVariant v) nom bom) 0 stream e dman)
    (hbuiltin : DRHist (Decoder.new (famOfVariant v) nom bom) 0 stream out dbuiltin) :
    out = textOf true e ∧ curTag dbuiltin.cur = curTag dman.cur := by
  have h1 := new_decoder_repl_history v nom bom stream out dbuiltin hbuiltin
  have h2 := new_decoder_history_full v nom bom stream e dman hman
  have h3 := dhist_full_tag _ 0 stream e dman hman
  exact ⟨by rw [h1.1, h2], h1.2.trans h3.symm⟩

/-- two histories of with-replacement calls over the same stream write the same text -/
theorem decoder_repl_histories_agree (v : Gen.Variant) (nom : Nominal) (bom : BomHandling)
    (stream : List Nat) (out₁ out₂ : List Nat) (d₁ d₂ : Decoder (famOfVariant v))
    (h₁ : DRHist (Decoder.new (famOfVariant v) nom bom) 0 stream out₁ d₁)
    (h₂ : DRHist (Decoder.new (famOfVariant v) nom bom) 0 stream out₂ d₂) :
    out₁ = out₂ ∧ curTag d₁.cur = curTag d₂.cur := by
  have a₁ := new_decoder_repl_history v nom bom stream out₁ d₁ h₁
  have a₂ := new_decoder_repl_history v nom bom stream out₂ d₂ h₂
  exact ⟨a₁.1.trans a₂.1.symm, a₁.2.trans a₂.2.symm⟩

/-- the single-call form (`builtin_eq_manual'` through the life cycle): one `last` call on the whole
stream that returned `InputEmpty` wrote the text of the manual procedure over any
without-replacement history, and `had_errors` is whether that history saw a `Malformed` -/
theorem decoder_builtin_eq_manual (v : Gen.Variant) (nom : Nominal) (bom : BomHandling)
    (stream : List Nat) (e : List Ev) (dman : Decoder (famOfVariant v))
    (hman : DHistFull (Decoder.new (famOfVariant v) nom bom) 0 stream e dman)
    (k : Sink) (fuel : Nat) (bs : List (Budget × Budget)) (t : DReplRes (famOfVariant v))
    (hrun : Decoder.replCall k true fuel (Decoder.new (famOfVariant v) nom bom) stream bs = some (some t))
    (hres : t.res = .inputEmpty) :
    t.out = textOf true e ∧ t.hadErrors = hadErrors e := by
  have h2 := new_decoder_history_full v nom bom stream e dman hman
  obtain ⟨_, _, e', he1, he2, he3, he4⟩ := replCall_sound (famBB_variant v) k true fuel _ stream bs t 0 []
    (fun _ => rfl) (newInv_new nom bom) hrun
  rw [he4 rfl hres] at he1
  simp only [List.append_nil] at he1
  rw [he1] at he2 he3
  rw [h2]
  exact ⟨he2, he3⟩

/-! ### histories that mix the two methods

A caller may switch between `decode_to_*_without_replacement` (appending U+FFFD itself for every
`Malformed`: the documented manual procedure) and `decode_to_*` from call to call. -/

/-- what the manual procedure appends after the output of a without-replacement call -/
def manualRepl : Res → List Nat
  | .malformed _ _ => [0xFFFD]
  | _ => []

theorem textOf_resEv (p : Nat) (res : Res) : textOf true (resEv p res) = manualRepl res := by
  cases res <;> simp [resEv, textOf, manualRepl, mkErr]

/-- a protocol-following history in which every call is either a without-replacement call (text:
its output plus one U+FFFD if it returned `Malformed`) or a with-replacement call (text: its output);
any cuts, stop policies, sinks; the rest is pushed again after `OutputFull` / `Malformed`; the history
ends with the `last` call that returns `InputEmpty` -/
inductive DMixHist : Decoder F → Nat → List Nat → List Nat → Decoder F → Prop
  | rawFinal (k : Sink) (d : Decoder F) (pos : Nat) (rem : List Nat) (b1 b2 : Budget) (read : Nat)
      (out : List Nat) (d' : Decoder F) (inner : List (List Nat × Res × Nat)) :
      d.rawCall k rem true b1 b2 = .ok .inputEmpty read out d' inner →
      DMixHist d pos rem out d'
  | rawLast (k : Sink) (d : Decoder F) (pos : Nat) (rem : List Nat) (b1 b2 : Budget) (res : Res) (read : Nat)
      (out : List Nat) (d' : Decoder F) (inner : List (List Nat × Res × Nat)) (text' : List Nat)
      (dfin : Decoder F) :
      d.rawCall k rem true b1 b2 = .ok res read out d' inner → res ≠ .inputEmpty →
      DMixHist d' (pos + read) (rem.drop read) text' dfin →
      DMixHist d pos rem (out ++ manualRepl res ++ text') dfin
  | rawChunk (k : Sink) (d : Decoder F) (pos : Nat) (src rest : List Nat) (b1 b2 : Budget) (res : Res)
      (read : Nat) (out : List Nat) (d' : Decoder F) (inner : List (List Nat × Res × Nat)) (text' : List Nat)
      (dfin : Decoder F) :
      d.rawCall k src false b1 b2 = .ok res read out d' inner →
      DMixHist d' (pos + read) (src.drop read ++ rest) text' dfin →
      DMixHist d pos (src ++ rest) (out ++ manualRepl res ++ text') dfin
  | replFinal (k : Sink) (d : Decoder F) (pos : Nat) (rem : List Nat) (fuel : Nat) (bs : List (Budget × Budget))
      (t : DReplRes F) :
      Decoder.replCall k true fuel d rem bs = some (some t) → t.res = .inputEmpty →
      DMixHist d pos rem t.out t.d
  | replLast (k : Sink) (d : Decoder F) (pos : Nat) (rem : List Nat) (fuel : Nat) (bs : List (Budget × Budget))
      (t : DReplRes F) (text' : List Nat) (dfin : Decoder F) :
      Decoder.replCall k true fuel d rem bs = some (some t) → t.res ≠ .inputEmpty →
      DMixHist t.d (pos + t.read) (rem.drop t.read) text' dfin →
      DMixHist d pos rem (t.out ++ text') dfin
  | replChunk (k : Sink) (d : Decoder F) (pos : Nat) (src rest : List Nat) (fuel : Nat)
      (bs : List (Budget × Budget)) (t : DReplRes F) (text' : List Nat) (dfin : Decoder F) :
      Decoder.replCall k false fuel d src bs = some (some t) →
      DMixHist t.d (pos + t.read) (src.drop t.read ++ rest) text' dfin →
      DMixHist d pos (src ++ rest) (t.out ++ text') dfin

/-- **any mix of the manual procedure and the built-in replacement yields the U+FFFD-replaced text of
the documented BOM semantics** -/
theorem dmixhist_eq_dref (H : FamBB F) (d : Decoder F) (pos : Nat) (rem : List Nat) (text : List Nat)
    (dfin : Decoder F) (hd : NewInv d pos) (h : DMixHist d pos rem text dfin) :
    text = textOf true (dref d rem pos) := by
  induction h with
  | rawFinal k d pos rem b1 b2 read out d' inner hcall =>
    have hs := rawCall_newInv H k d pos rem [] true b1 b2 (fun _ => rfl) hd _ read out d' inner hcall
    have h2 := hs.2
    simp only [List.append_nil, resEv] at h2
    rw [rawCall_final_nothing H.ok k d d' pos rem b1 b2 read out inner hd.fresh hcall, List.append_nil] at h2
    rw [← h2, textOf_cps]
  | rawLast k d pos rem b1 b2 res read out d' inner text' dfin hcall _ _ ih =>
    have hs := rawCall_newInv H k d pos rem [] true b1 b2 (fun _ => rfl) hd res read out d' inner hcall
    have h2 := hs.2
    simp only [List.append_nil] at h2
    rw [ih hs.1, ← h2, textOf_append, textOf_append, textOf_cps, textOf_resEv]
  | rawChunk k d pos src rest b1 b2 res read out d' inner text' dfin hcall _ ih =>
    have hs := rawCall_newInv H k d pos src rest false b1 b2 (fun h => by cases h) hd res read out d' inner hcall
    rw [ih hs.1, ← hs.2, textOf_append, textOf_append, textOf_cps, textOf_resEv]
  | replFinal k d pos rem fuel bs t hrun hres =>
    exact drhist_eq_dref H d pos rem t.out t.d hd (.final k d pos rem fuel bs t hrun hres)
  | replLast k d pos rem fuel bs t text' dfin hrun _ _ ih =>
    have hs := replCall_sound H k true fuel d rem bs t pos [] (fun _ => rfl) hd hrun
    have ht := replCall_text H k true fuel d rem bs t pos [] (fun _ => rfl) hd hrun
    simp only [List.append_nil] at ht
    rw [ih hs.1, ht]
  | replChunk k d pos src rest fuel bs t text' dfin hrun _ ih =>
    have hs := replCall_sound H k false fuel d src bs t pos rest (fun h => by cases h) hd hrun
    have ht := replCall_text H k false fuel d src bs t pos rest (fun h => by cases h) hd hrun
    rw [ih hs.1, ht]

/-- a history of with-replacement calls is a mixed history -/
theorem DRHist.toMix {d : Decoder F} {pos : Nat} {rem out : List Nat} {dfin : Decoder F}
    (h : DRHist d pos rem out dfin) : DMixHist d pos rem out dfin := by
  induction h with
  | final k d pos rem fuel bs t hrun hres => exact .replFinal k d pos rem fuel bs t hrun hres
  | lastStep k d pos rem fuel bs t out' dfin hrun hne _ ih => exact .replLast k d pos rem fuel bs t out' dfin hrun hne ih
  | chunkStep k d pos src rest fuel bs t out' dfin hrun _ ih => exact .replChunk k d pos src rest fuel bs t out' dfin hrun ih

/-- a history of without-replacement calls, read with the manual procedure, is a mixed history -/
theorem DHistFull.toMix {d : Decoder F} {pos : Nat} {rem : List Nat} {e : List Ev} {dfin : Decoder F}
    (h : DHistFull d pos rem e dfin) : DMixHist d pos rem (textOf true e) dfin := by
  induction h with
  | final k d pos rem b1 b2 read out d' inner hcall =>
    rw [textOf_cps]
    exact .rawFinal k d pos rem b1 b2 read out d' inner hcall
  | lastStep k d pos rem b1 b2 res read out d' inner evs' dfin hcall hne _ ih =>
    rw [textOf_append, textOf_append, textOf_cps, textOf_resEv]
    exact .rawLast k d pos rem b1 b2 res read out d' inner _ dfin hcall hne ih
  | chunkStep k d pos src rest b1 b2 res read out d' inner evs' dfin hcall _ ih =>
    rw [textOf_append, textOf_append, textOf_cps, textOf_resEv]
    exact .rawChunk k d pos src rest b1 b2 res read out d' inner _ dfin hcall ih

/-- **for a decoder as made by `Encoding::new_decoder*`** (all 40 encodings, three BOM modes): any two
histories over the same stream — each mixing the manual procedure and the built-in replacement in any
way — assemble the same text, the replaced text of the documented semantics -/
theorem new_decoder_mixed_histories_agree (v : Gen.Variant) (nom : Nominal) (bom : BomHandling)
    (stream : List Nat) (text₁ text₂ : List Nat) (d₁ d₂ : Decoder (famOfVariant v))
    (h₁ : DMixHist (Decoder.new (famOfVariant v) nom bom) 0 stream text₁ d₁)
    (h₂ : DMixHist (Decoder.new (famOfVariant v) nom bom) 0 stream text₂ d₂) :
    text₁ = text₂ ∧ text₁ = textOf true (dref (Decoder.new (famOfVariant v) nom bom) stream 0) := by
  have a₁ := dmixhist_eq_dref (famBB_variant v) _ 0 stream text₁ d₁ (newInv_new nom bom) h₁
  have a₂ := dmixhist_eq_dref (famBB_variant v) _ 0 stream text₂ d₂ (newInv_new nom bom) h₂
  exact ⟨a₁.trans a₂.symm, a₁⟩

/-! ### Non-vacuity

windows-1252 with BOM sniffing, stream `EF BB 41` cut after every byte, with replacement, UTF-8 sink:
the first two calls withhold `EF` and `BB`; the third (last) call sees that there is no BOM, replays
`EF BB` into the windows-1252 decoder and decodes `A`.  A `DRHist`, and its text. -/
section demo
private def vW : Gen.Variant := .singleByte 19 160 32 96
private def dW0 : Decoder (famOfVariant vW) := Decoder.new (famOfVariant vW) .other .sniff
private def dW1 : Decoder (famOfVariant vW) := ⟨.seenUtf8First, .nominal ()⟩
private def dW2 : Decoder (famOfVariant vW) := ⟨.seenUtf8Second, .nominal ()⟩
private def dW3 : Decoder (famOfVariant vW) := ⟨.finished, .nominal ()⟩
private def tW1 : DReplRes (famOfVariant vW) := ⟨.inputEmpty, 1, [], false, dW1⟩
private def tW2 : DReplRes (famOfVariant vW) := ⟨.inputEmpty, 1, [], false, dW2⟩
private def tW3 : DReplRes (famOfVariant vW) := ⟨.inputEmpty, 1, [0xEF, 0xBB, 0x41], false, dW3⟩

set_option maxRecDepth 8192 in
example : DRHist dW0 0 [0xEF, 0xBB, 0x41] [0xEF, 0xBB, 0x41] dW3 := by
  have h1 : Decoder.replCall .utf8 false 2 dW0 [0xEF] [] = some (some tW1) := rfl
  have h2 : Decoder.replCall .utf8 false 2 dW1 [0xBB] [] = some (some tW2) := rfl
  have h3 : Decoder.replCall .utf8 true 2 dW2 [0x41] [] = some (some tW3) := rfl
  have s3 : DRHist dW2 2 [0x41] [0xEF, 0xBB, 0x41] dW3 := DRHist.final .utf8 dW2 2 [0x41] 2 [] tW3 h3 rfl
  have s2 : DRHist dW1 1 ([0xBB] ++ [0x41]) ([] ++ [0xEF, 0xBB, 0x41]) dW3 :=
    DRHist.chunkStep .utf8 dW1 1 [0xBB] [0x41] 2 [] tW2 _ dW3 h2 s3
  exact DRHist.chunkStep .utf8 dW0 0 [0xEF] [0xBB, 0x41] 2 [] tW1 _ dW3 h1 s2
end demo

end EncodingRs.Thm.C09Life
