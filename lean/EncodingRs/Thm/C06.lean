import EncodingRs.Lemmas.FamLaws
/-!
# C06 — conversions stay inside caller buffers and honour the read/written contract
(decoder side, index arithmetic of the model; actual memory safety of `unsafe`
code is a runtime fact covered by the guard-band correspondence run only)
-/
namespace EncodingRs.Thm.C06
open EncodingRs EncodingRs.Model EncodingRs.Lemmas.Core EncodingRs.Lemmas.FamLaws

theorem alt_le (F : Fam) (L : Laws F) : ∀ s src m r, F.pend s = none → F.alt s src = some (m, r) → m ≤ src.length :=
  fun s src m r hp h => (L.alt_sound s src m r hp h).1

/-- `read` never exceeds the source length (every family, every stop policy).
For families with a look-ahead error (`alt`), under the family's own bound. -/
theorem read_le_src (F : Fam) (k : Sink) (s : F.σ) (src : List Nat) (last : Bool) (budget : Budget)
    (halt : ∀ s src m r, F.alt s src = some (m, r) → m ≤ src.length) :
    (call F k s src last budget).read ≤ src.length :=
  call_read_le F k src s last budget halt

/-- `InputEmpty` is returned only when the whole source was consumed. -/
theorem inputEmpty_consumed_all (F : Fam) (k : Sink) (s : F.σ) (src : List Nat) (last : Bool) (budget : Budget)
    (h : (call F k s src last budget).res = .inputEmpty) :
    (call F k s src last budget).read = src.length :=
  call_inputEmpty F k src s last budget h

theorem variant_alt_le (v : Gen.Variant) :
    ∀ s src m r, (famOfVariant v).alt s src = some (m, r) → m ≤ src.length := by
  cases v
  case utf16Be =>
    intro s src m r h
    exact (utf16_alt_sound true s src m r h).1
  case utf16Le =>
    intro s src m r h
    exact (utf16_alt_sound false s src m r h).1
  all_goals (intro s src m r h; cases h)

/-- for each of the 40 encodings -/
theorem read_le_all_encodings (v : Gen.Variant) (k : Sink) (s : (famOfVariant v).σ) (src : List Nat)
    (last : Bool) (budget : Budget) : (call (famOfVariant v) k s src last budget).read ≤ src.length :=
  read_le_src _ k s src last budget (variant_alt_le v)

/-- an admissible call wrote at most `cap` units and, when it reports a malformed
sequence, left room for the replacement character (what the with-replacement
wrappers rely on when they store U+FFFD without a further check) -/
theorem written_le_cap (F : Fam) (k : Sink) (cap : Nat) (r : CallRes F.σ) (h : Admissible F k cap r) :
    unitsOfList k r.out ≤ cap := h.1

theorem malformed_room (F : Fam) (k : Sink) (cap : Nat) (r : CallRes F.σ) (h : Admissible F k cap r)
    (l a : Nat) (hm : r.res = .malformed l a) : unitsOfList k r.out + replRoom k ≤ cap := h.2.2 l a hm

end EncodingRs.Thm.C06
