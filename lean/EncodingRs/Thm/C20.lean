import EncodingRs.Model.Meta
import EncodingRs.Model.Repl
import EncodingRs.Lemmas.FamLaws
import EncodingRs.Thm.C02
import EncodingRs.Thm.C09
import EncodingRs.Lemmas.Potential
/-!
# C20 — the metadata predicates tell the truth about conversion behaviour

`Model.Meta` holds the predicates as written in lib.rs / variant.rs (all lists and
dispatch tables re-translated on every run).  Each theorem relates a predicate to what
the decoder / encoder *models* of that encoding do (those models are tied to the code by
the `dec` / `enc` / `encchar` correspondences, the predicates by the `meta` operation).
Encodings are indices `i < 40` into `Gen.encodings`.
-/
namespace EncodingRs.Thm.C20
open EncodingRs EncodingRs.Model EncodingRs.Model.Meta EncodingRs.Lemmas.Core EncodingRs.Lemmas.FamLaws
open EncodingRs.Thm.C02 (textOf)

/-! ## Dispatch: the hand-written `famOfVariant` / `efamOfVariant` are what the translated tables say -/

/-- `new_variant_decoder` as translated constructs the family the model uses -/
theorem newDecoder_eq (v : Gen.Variant) : famOfKind v (Gen.decoderOfVariant v) = famOfVariant v := by
  cases v <;> rfl

theorem encoderOfVariant_eq (v : Gen.Variant) (k : Gen.EncKind) (h : Gen.encoderOfVariant v = some k) :
    efamOfKind v k = efamOfVariant v := by
  cases v <;> simp only [Gen.encoderOfVariant, Option.some.injEq, reduceCtorEq] at h <;> subst h <;> rfl

theorem count_eq : count = 40 := by decide

/-- the output encoding's variant: UTF-8 for the three encodings listed in `output_encoding`, itself otherwise;
and those three are exactly the variants without an encoder (`unreachable!()` in `new_encoder`) -/
theorem outputEncoding_variant :
    (List.range 40).all (fun i =>
      variantAt (outputEncoding i) == (if Gen.outputIsUtf8.contains i then .utf8 else variantAt i)
      && (Gen.outputIsUtf8.contains i == (Gen.encoderOfVariant (variantAt i)).isNone)) = true := by
  decide +kernel

theorem all_range {n : Nat} {p : Nat → Bool} (h : (List.range n).all p = true) : ∀ i, i < n → p i = true := by
  intro i hi
  rw [List.all_eq_true] at h
  exact h i (List.mem_range.mpr hi)

theorem all40 {p : Nat → Bool} (h : (List.range 40).all p = true) (i : Nat) (hi : i < 40) : p i = true := by
  rw [List.all_eq_true] at h
  exact h i (List.mem_range.mpr hi)

/-- **`new_encoder()` uses the output encoding**, never reaches `unreachable!()`, and the encoder it constructs
is the family `efamOfVariant` the encoder theorems (C03, C04, C12) are about. -/
theorem newEncoder_eq (i : Nat) (hi : i < 40) : newEncoder i = some (efamOfVariant (variantAt i)) := by
  have h := all40 outputEncoding_variant i hi
  simp only [Bool.and_eq_true, beq_iff_eq] at h
  obtain ⟨h1, h2⟩ := h
  unfold newEncoder
  rw [h1]
  by_cases hc : Gen.outputIsUtf8.contains i = true
  · rw [hc] at h2
    simp only [hc, if_true]
    have hv : efamOfVariant (variantAt i) = utf8EFam := by
      have : (Gen.encoderOfVariant (variantAt i)).isNone = true := h2.symm
      generalize variantAt i = v at this
      cases v <;> first | rfl | (simp [Gen.encoderOfVariant] at this)
    rw [hv]; rfl
  · have hc' : Gen.outputIsUtf8.contains i = false := by simpa using hc
    rw [hc'] at h2
    simp only [hc', Bool.false_eq_true, if_false]
    cases hk : Gen.encoderOfVariant (variantAt i) with
    | none => rw [hk] at h2; simp at h2
    | some k => simp only [Option.map_some]; rw [encoderOfVariant_eq _ k hk]

/-- `output_encoding()` is idempotent, and `can_encode_everything()` is `output_encoding() == UTF_8` -/
theorem outputEncoding_idem (i : Nat) : outputEncoding (outputEncoding i) = outputEncoding i := by
  unfold outputEncoding
  split
  · have : Gen.outputIsUtf8.contains Gen.utf8Idx = false := by decide
    simp [this]
  · rename_i h; simp [h]

/-! ## `is_ascii_compatible` -/

/-- bytes 00–7F decode, from the initial state and back to it, to the same scalar value -/
def AsciiDec (F : Fam) : Prop :=
  F.pend F.init = none ∧ F.eof F.init = none ∧ ∀ b, b < 0x80 →
    (F.feed F.init b).st = F.init ∧ (F.feed F.init b).out = [b] ∧ (F.feed F.init b).err = none ∧
    (F.feed F.init b).unread = false

instance : DecidableEq big5Fam.σ := inferInstanceAs (DecidableEq (Option Nat))
instance : DecidableEq eucKrFam.σ := inferInstanceAs (DecidableEq (Option Nat))
instance : DecidableEq shiftJisFam.σ := inferInstanceAs (DecidableEq (Option Nat))
instance : DecidableEq eucJpFam.σ := inferInstanceAs (DecidableEq EucJpSt)
instance : DecidableEq gbFam.σ := inferInstanceAs (DecidableEq GbSt)
instance : DecidableEq utf8Fam.σ := inferInstanceAs (DecidableEq Utf8St)
instance : DecidableEq userDefinedFam.σ := inferInstanceAs (DecidableEq Unit)

theorem ref_ascii (F : Fam) (h : AsciiDec F) : ∀ (bytes : List Nat) (pos : Nat), (∀ b ∈ bytes, b < 0x80) →
    ref F F.init bytes pos = bytes.map Ev.cp := by
  intro bytes
  induction bytes with
  | nil => intro pos _; rw [ref_nil F _ _ h.1, h.2.1]; rfl
  | cons b tl ih =>
    intro pos hb
    obtain ⟨h1, h2, h3, h4⟩ := h.2.2 b (hb b (List.mem_cons_self ..))
    rw [ref_cons F _ _ _ _ h.1, h1, h2, h3, h4]
    simp only [Bool.false_eq_true, if_false, errEv, List.map_cons, List.map_nil,
      List.append_nil, List.cons_append, List.nil_append]
    rw [ih _ (fun x hx => hb x (List.mem_cons_of_mem _ hx))]

theorem twoByte_ascii : AsciiDec big5Fam ∧ AsciiDec eucKrFam ∧ AsciiDec shiftJisFam := by
  refine ⟨⟨rfl, rfl, ?_⟩, ⟨rfl, rfl, ?_⟩, ⟨rfl, rfl, ?_⟩⟩ <;> decide +kernel

theorem multi_ascii : AsciiDec eucJpFam ∧ AsciiDec gbFam ∧ AsciiDec utf8Fam ∧ AsciiDec userDefinedFam := by
  refine ⟨⟨rfl, rfl, ?_⟩, ⟨rfl, rfl, ?_⟩, ⟨rfl, rfl, ?_⟩, ⟨rfl, rfl, ?_⟩⟩ <;> decide +kernel

theorem singleByte_ascii (t : Array Nat) : AsciiDec (singleByteFam t) := by
  refine ⟨rfl, rfl, ?_⟩
  intro b hb
  show (singleByteFeed t () b).st = () ∧ (singleByteFeed t () b).out = [b] ∧ (singleByteFeed t () b).err = none ∧
    (singleByteFeed t () b).unread = false
  unfold singleByteFeed
  simp [hb, FeedRes.ok]

/-- which variants are excluded by `is_ascii_compatible` -/
theorem asciiCompatible_variant :
    (List.range 40).all (fun i => isAsciiCompatible i ==
      !(variantAt i == .iso2022Jp || variantAt i == .replacement || variantAt i == .utf16Be || variantAt i == .utf16Le)) = true := by
  decide +kernel

theorem asciiDec_of_variant (v : Gen.Variant)
    (h : (v == .iso2022Jp || v == .replacement || v == .utf16Be || v == .utf16Le) = false) :
    AsciiDec (famOfVariant v) := by
  cases v
  case singleByte t a b c => exact singleByte_ascii _
  case utf8 => exact multi_ascii.2.2.1
  case gbk => exact multi_ascii.2.1
  case gb18030 => exact multi_ascii.2.1
  case big5 => exact twoByte_ascii.1
  case eucJp => exact multi_ascii.1
  case shiftJis => exact twoByte_ascii.2.2
  case eucKr => exact twoByte_ascii.2.1
  case userDefined => exact multi_ascii.2.2.2
  all_goals (exact absurd h (by decide))

/-- **`is_ascii_compatible()` ⇒**: every string of bytes 00–7F decodes to exactly those scalar values, with no error -/
theorem ascii_compatible_decodes (i : Nat) (hi : i < 40) (h : isAsciiCompatible i = true)
    (bytes : List Nat) (hb : ∀ b ∈ bytes, b < 0x80) (pos : Nat) :
    ref (newDecoder i) (newDecoder i).init bytes pos = bytes.map Ev.cp := by
  have hv := all40 asciiCompatible_variant i hi
  rw [h] at hv
  unfold newDecoder
  rw [newDecoder_eq]
  exact ref_ascii _ (asciiDec_of_variant _ (by
    have : (!(variantAt i == .iso2022Jp || variantAt i == .replacement || variantAt i == .utf16Be || variantAt i == .utf16Le)) = true := by
      simpa using hv.symm
    simpa using this)) bytes pos hb

/-- characters U+0000–U+007F encode, from the initial state and back to it, to the same single byte -/
def AsciiEnc (E : EFam) : Prop := ∀ c, c < 0x80 →
  (E.step E.init c).st = E.init ∧ (E.step E.init c).out = [c] ∧ (E.step E.init c).unmappable = none ∧
  (E.step E.init c).unread = false

theorem stateless_asciiEnc (enc : Nat → Option (List Nat)) (need : Nat) (h : ∀ c, c < 0x80 → enc c = some [c]) :
    AsciiEnc (statelessEFam enc need) := by
  intro c hc
  show (statelessStep enc () c).st = () ∧ (statelessStep enc () c).out = [c] ∧ (statelessStep enc () c).unmappable = none ∧
    (statelessStep enc () c).unread = false
  unfold statelessStep
  rw [h c hc]
  exact ⟨rfl, rfl, rfl, rfl⟩

theorem asciiEnc_of_variant (v : Gen.Variant)
    (h : (v == .iso2022Jp || v == .replacement || v == .utf16Be || v == .utf16Le) = false) :
    AsciiEnc (efamOfVariant v) := by
  cases v
  case singleByte t a b c =>
    exact stateless_asciiEnc _ _ (by intro c hc; simp [singleByteEncodeChar, hc])
  case iso2022Jp => exact absurd h (by decide)
  case replacement => exact absurd h (by decide)
  case utf16Be => exact absurd h (by decide)
  case utf16Le => exact absurd h (by decide)
  case utf8 =>
    intro c hc
    show (statelessStep utf8EncodeChar () c).st = () ∧ (statelessStep utf8EncodeChar () c).out = [c] ∧
      (statelessStep utf8EncodeChar () c).unmappable = none ∧ (statelessStep utf8EncodeChar () c).unread = false
    have : utf8EncodeChar c = some [c] := by
      revert c; decide +kernel
    unfold statelessStep; rw [this]; exact ⟨rfl, rfl, rfl, rfl⟩
  all_goals (refine stateless_asciiEnc _ _ ?_; decide +kernel)

/-- **`is_ascii_compatible()` ⇒**: U+0000–U+007F encode back to the same single bytes -/
theorem ascii_compatible_encodes (i : Nat) (hi : i < 40) (h : isAsciiCompatible i = true) :
    ∃ E, newEncoder i = some E ∧ AsciiEnc E := by
  refine ⟨_, newEncoder_eq i hi, ?_⟩
  have hv := all40 asciiCompatible_variant i hi
  rw [h] at hv
  exact asciiEnc_of_variant _ (by
    have : (!(variantAt i == .iso2022Jp || variantAt i == .replacement || variantAt i == .utf16Be || variantAt i == .utf16Le)) = true := by
      simpa using hv.symm
    simpa using this)

/-- what one complete (`last`) decode call makes of a short input, with replacement -/
def decodeAll (F : Fam) (bytes : List Nat) : Option (List Nat) :=
  (replLoop F .utf16 true (2 * bytes.length + 4) F.init bytes []).map (·.out)

/-- **⇐ (contrapositive)**: each of the encodings `is_ascii_compatible()` excludes has a byte below 0x80
that does not decode to itself: ISO-2022-JP 0x0E, replacement and UTF-16 any single byte (0x41). -/
theorem not_ascii_compatible_witness :
    (List.range 40).all (fun i => isAsciiCompatible i ||
      (decodeAll (famOfVariant (variantAt i)) [if variantAt i == .iso2022Jp then 0x0E else 0x41]
        == some [0xFFFD])) = true := by
  decide +kernel

/-! ## `is_single_byte` -/

/-- single-byte decoders: every byte yields exactly one BMP scalar value or one error -/
def OneUnit (F : Fam) : Prop :=
  F.pend F.init = none ∧ F.eof F.init = none ∧ ∀ b, b < 256 →
    (F.feed F.init b).st = F.init ∧ (F.feed F.init b).unread = false ∧
    (((F.feed F.init b).err = none ∧ ∃ c, (F.feed F.init b).out = [c] ∧ c < 0x10000) ∨
     ((F.feed F.init b).err ≠ none ∧ (F.feed F.init b).out = []))

theorem ref_oneUnit (F : Fam) (h : OneUnit F) : ∀ (bytes : List Nat) (pos : Nat), (∀ b ∈ bytes, b < 256) →
    unitsOfList .utf16 (textOf true (ref F F.init bytes pos)) = bytes.length := by
  intro bytes
  induction bytes with
  | nil => intro pos _; rw [ref_nil F _ _ h.1, h.2.1]; rfl
  | cons b tl ih =>
    intro pos hb
    obtain ⟨hst, hun, hcase⟩ := h.2.2 b (hb b (List.mem_cons_self ..))
    rw [ref_cons F _ _ _ _ h.1, hun, hst]
    simp only [Bool.false_eq_true, if_false]
    have ih' := ih (pos + 1) (fun x hx => hb x (List.mem_cons_of_mem _ hx))
    rw [C09.textOf_append, C09.textOf_append, Lemmas.Potential.unitsOfList_append, Lemmas.Potential.unitsOfList_append, ih']
    rcases hcase with ⟨he, c, hc, hlt⟩ | ⟨he, ho⟩
    · rw [he, hc]
      simp [errEv, textOf, unitsOfList, unitsOf, hlt]; omega
    · rw [ho]
      cases hE : (F.feed F.init b).err with
      | none => exact absurd hE he
      | some e => simp [errEv, mkErr, textOf, unitsOfList, unitsOf]; omega

/-- every entry of every regenerated single-byte table is in the BMP -/
theorem singleByte_tables_bmp :
    (List.range 27).all (fun i => (List.range 128).all
      (fun j => decide ((Gen.singleByteTables.getD i #[]).getD j 0 < 0x10000))) = true := by
  decide +kernel

theorem tables_size : Gen.singleByteTables.size = 27 := by decide

theorem table_bmp (i j : Nat) : (Gen.singleByteTables.getD i #[]).getD j 0 < 0x10000 := by
  by_cases hi : i < 27
  · by_cases hj : j < 128
    · have := all_range (all_range singleByte_tables_bmp i hi) j hj
      simpa using this
    · have hs : (Gen.singleByteTables.getD i #[]).size ≤ 128 := by
        have : (List.range 27).all (fun i => decide ((Gen.singleByteTables.getD i #[]).size ≤ 128)) = true := by decide +kernel
        simpa using all_range this i hi
      have hnot : ¬ j < (Gen.singleByteTables.getD i #[]).size := by omega
      have : (Gen.singleByteTables.getD i #[]).getD j 0 = 0 := by
        generalize Gen.singleByteTables.getD i #[] = T at hnot
        unfold Array.getD; rw [dif_neg hnot]
      omega
  · have : Gen.singleByteTables.getD i #[] = #[] := by simp [Array.getD, tables_size, hi]
    rw [this]; simp

theorem singleByte_oneUnit (i : Nat) : OneUnit (singleByteFam (Gen.singleByteTables.getD i #[])) := by
  refine ⟨rfl, rfl, ?_⟩
  intro b hb
  generalize hT : Gen.singleByteTables.getD i #[] = T
  show (singleByteFeed T () b).st = () ∧ (singleByteFeed T () b).unread = false ∧
    (((singleByteFeed T () b).err = none ∧ ∃ c, (singleByteFeed T () b).out = [c] ∧ c < 0x10000) ∨
     ((singleByteFeed T () b).err ≠ none ∧ (singleByteFeed T () b).out = []))
  by_cases h1 : b < 0x80
  · have : singleByteFeed T () b = .ok () [b] := by simp [singleByteFeed, h1]
    rw [this]; exact ⟨rfl, rfl, Or.inl ⟨rfl, b, rfl, by omega⟩⟩
  · by_cases h2 : T.getD (b - 0x80) 0 = 0
    · have : singleByteFeed T () b = .bad () 1 0 := by
        unfold singleByteFeed; rw [if_neg h1]; simp only []; rw [if_pos h2]
      rw [this]; exact ⟨rfl, rfl, Or.inr ⟨by simp [FeedRes.bad], rfl⟩⟩
    · have : singleByteFeed T () b = .ok () [T.getD (b - 0x80) 0] := by
        unfold singleByteFeed; rw [if_neg h1]; simp only []; rw [if_neg h2]
      rw [this]; exact ⟨rfl, rfl, Or.inl ⟨rfl, _, rfl, by rw [← hT]; exact table_bmp i _⟩⟩

theorem userDefined_oneUnit : OneUnit userDefinedFam := by
  refine ⟨rfl, rfl, ?_⟩
  intro b hb
  show (userDefinedFeed () b).st = () ∧ (userDefinedFeed () b).unread = false ∧
    (((userDefinedFeed () b).err = none ∧ ∃ c, (userDefinedFeed () b).out = [c] ∧ c < 0x10000) ∨
     ((userDefinedFeed () b).err ≠ none ∧ (userDefinedFeed () b).out = []))
  by_cases h1 : b < 0x80
  · have : userDefinedFeed () b = .ok () [b] := by simp [userDefinedFeed, h1]
    rw [this]; exact ⟨rfl, rfl, Or.inl ⟨rfl, b, rfl, by omega⟩⟩
  · have : userDefinedFeed () b = .ok () [b + 0xF700] := by simp [userDefinedFeed, h1]
    rw [this]; exact ⟨rfl, rfl, Or.inl ⟨rfl, _, rfl, by omega⟩⟩

/-- **`is_single_byte()` ⇒** every byte string decodes (with replacement) to exactly as many UTF-16 code
units as it has bytes -/
theorem single_byte_decodes (i : Nat) (h : isSingleByte i = true)
    (bytes : List Nat) (hb : ∀ b ∈ bytes, b < 256) (pos : Nat) :
    unitsOfList .utf16 (textOf true (ref (newDecoder i) (newDecoder i).init bytes pos)) = bytes.length := by
  unfold newDecoder
  rw [newDecoder_eq]
  unfold isSingleByte at h
  generalize variantAt i = v at h
  cases v
  case singleByte t a b c => exact ref_oneUnit _ (singleByte_oneUnit t) bytes pos hb
  case userDefined => exact ref_oneUnit _ userDefined_oneUnit bytes pos hb
  all_goals (simp [Gen.isSingleByteVariant] at h)

theorem stateless_mapped (enc : Nat → Option (List Nat)) (c : Nat)
    (h : (statelessStep enc () c).unmappable = none) : ∃ bs, enc c = some bs ∧ (statelessStep enc () c).out = bs := by
  unfold statelessStep at h ⊢
  cases he : enc c with
  | none => rw [he] at h; simp [EStep.unmap] at h
  | some bs => exact ⟨bs, rfl, rfl⟩

/-- **`is_single_byte()` ⇒** every mappable character encodes to exactly one byte -/
theorem single_byte_encodes (i : Nat) (hi : i < 40) (h : isSingleByte i = true) :
    ∃ E, newEncoder i = some E ∧ ∀ s c, (E.step s c).unmappable = none → (E.step s c).out.length = 1 := by
  refine ⟨_, newEncoder_eq i hi, ?_⟩
  unfold isSingleByte at h
  generalize variantAt i = v at h
  cases v
  case singleByte t a b c =>
    intro s ch hm
    obtain ⟨bs, he, ho⟩ := stateless_mapped (singleByteEncodeChar (Gen.singleByteTables.getD t #[]) a b c) ch hm
    show (statelessStep _ () ch).out.length = 1
    rw [ho]
    unfold singleByteEncodeChar at he
    split at he
    · cases he; rfl
    · split at he
      · cases he
      · split at he
        · cases he; rfl
        · cases he
  case userDefined =>
    intro s ch hm
    obtain ⟨bs, he, ho⟩ := stateless_mapped userDefinedEncodeChar ch hm
    show (statelessStep _ () ch).out.length = 1
    rw [ho]
    unfold userDefinedEncodeChar at he
    split at he
    · cases he; rfl
    · split at he
      · cases he
      · cases he; rfl
  all_goals (simp [Gen.isSingleByteVariant] at h)

/-- a byte string of length ≤ 3 whose decoded UTF-16 length differs from its byte length -/
def multiByteWitness : Gen.Variant → List Nat
  | .utf8 => [0xC3, 0xA9]
  | .gbk | .gb18030 => [0x81, 0x40]
  | .big5 => [0xA4, 0x40]
  | .eucJp => [0xA4, 0xA2]
  | .iso2022Jp => [0x1B, 0x28, 0x42]
  | .shiftJis => [0x82, 0xA0]
  | .eucKr => [0xB0, 0xA1]
  | .replacement => [0x41, 0x42]
  | .utf16Be | .utf16Le => [0x00, 0x41]
  | _ => []

/-- **⇐ (contrapositive)**: every encoding for which `is_single_byte()` is false has a byte string of
length ≤ 2 (ISO-2022-JP: the three-byte escape) that does not decode to as many UTF-16 units as it has bytes -/
theorem not_single_byte_witness :
    (List.range 40).all (fun i => isSingleByte i ||
      (match decodeAll (famOfVariant (variantAt i)) (multiByteWitness (variantAt i)) with
       | some out => unitsOfList .utf16 out != (multiByteWitness (variantAt i)).length
       | none => false)) = true := by
  native_decide

/-! ## `can_encode_everything` -/

/-- **`can_encode_everything()` ⇒** no scalar value (indeed no value at all) is unmappable -/
theorem can_encode_everything_total (i : Nat) (_hi : i < 40) (h : canEncodeEverything i = true) :
    ∃ E, newEncoder i = some E ∧ ∀ s c, (E.step s c).unmappable = none := by
  have h1 : newEncoder i = some utf8EFam := by
    unfold newEncoder
    unfold canEncodeEverything at h
    have : outputEncoding i = Gen.utf8Idx := by simpa using h
    rw [this]; rfl
  exact ⟨_, h1, by intro s c; rfl⟩

/-- **⇐ (contrapositive)**: every other encoding cannot encode the scalar value U+E5E5 -/
theorem cannot_encode_witness :
    (List.range 40).all (fun i => canEncodeEverything i ||
      (((efamOfVariant (variantAt i)).step (efamOfVariant (variantAt i)).init 0xE5E5).unmappable == some 0xE5E5)) = true := by
  native_decide

/-! ## Identity: 40 distinct instances, each reachable through its own name -/

theorem names_distinct : (Gen.encodings.map (·.name)).Nodup := by decide +kernel
theorem idents_distinct : (Gen.encodings.map (·.ident)).Nodup := by decide +kernel

end EncodingRs.Thm.C20
