/-! Line-protocol helpers for the model driver (no Mathlib, no proofs). -/
namespace Driver

def hexVal (c : Char) : Option Nat :=
  if '0' ≤ c ∧ c ≤ '9' then some (c.toNat - '0'.toNat)
  else if 'a' ≤ c ∧ c ≤ 'f' then some (c.toNat - 'a'.toNat + 10)
  else if 'A' ≤ c ∧ c ≤ 'F' then some (c.toNat - 'A'.toNat + 10)
  else none

/-- "." is the empty string; otherwise two hex digits per byte -/
def parseHex (s : String) : Option (List Nat) :=
  if s == "." then some [] else
  let rec go : List Char → List Nat → Option (List Nat)
    | [], acc => some acc.reverse
    | [_], _ => none
    | a :: b :: r, acc =>
      match hexVal a, hexVal b with
      | some x, some y => go r ((x * 16 + y) :: acc)
      | _, _ => none
  go s.toList []

/-- four hex digits per unit -/
def parseHex16 (s : String) : Option (List Nat) :=
  if s == "." then some [] else
  let rec go : List Char → List Nat → Option (List Nat)
    | [], acc => some acc.reverse
    | a :: b :: c :: d :: r, acc =>
      match hexVal a, hexVal b, hexVal c, hexVal d with
      | some x, some y, some z, some w => go r ((((x * 16 + y) * 16 + z) * 16 + w) :: acc)
      | _, _, _, _ => none
    | _, _ => none
  go s.toList []

def hexDigit (n : Nat) : Char := if n < 10 then Char.ofNat (48 + n) else Char.ofNat (87 + n)

def toHex (bs : List Nat) : String :=
  if bs.isEmpty then "." else
  String.ofList (bs.flatMap fun b => [hexDigit (b / 16 % 16), hexDigit (b % 16)])

def toHex16 (us : List Nat) : String :=
  if us.isEmpty then "." else
  String.ofList (us.flatMap fun u => [hexDigit (u / 4096 % 16), hexDigit (u / 256 % 16), hexDigit (u / 16 % 16), hexDigit (u % 16)])

/-- comma-separated naturals, "." for the empty list -/
def parseNats (s : String) : Option (List Nat) :=
  if s == "." then some [] else
  (s.splitOn ",").mapM (·.toNat?)

def showNats (l : List Nat) : String :=
  if l.isEmpty then "." else ",".intercalate (l.map toString)

end Driver
