import Driver.Util
import Driver.Ops.Label
import Driver.Ops.Dec
import Driver.Ops.Valid
import Driver.Ops.Mem
import Driver.Ops.Cls
import Driver.Ops.EncChar
import Driver.Ops.Enc
import Driver.Ops.OneShot
import Driver.Ops.Meta
import Driver.Ops.EncChar16
import Driver.Ops.Spec
import Driver.Ops.SpecEnc
import Driver.Ops.StrSink
/-!
Model driver: reads operation lines `op args… => impl-result` on stdin,
recomputes the right-hand side with the Lean model and prints
  `DIFF <line-no> <op line> :: model=<model-result>`
for every disagreement, `BAD <line-no> …` for lines it cannot parse (never a
silent default) and finally `STAT lines=<n> diffs=<d> bad=<b>`.

Each `Driver/Ops/*.lean` module contributes a handler
`String → List String → Option (Option String)` (see `Ops.label`).
-/
namespace Driver

def handlers : List (String → List String → Option (Option String)) :=
  [Ops.label, Ops.dec, Ops.valid, Ops.mem, Ops.cls, Ops.encchar, Ops.enc, Ops.oneshot, Ops.metaOp, Ops.encchar16, Ops.specdec, Ops.specenc, Ops.zerotail]

/-- model result for one operation, or `none` if the line is not understood -/
def runOp (op : String) (args : List String) : Option String :=
  let rec go : List (String → List String → Option (Option String)) → Option String
    | [] => none
    | h :: t => match h op args with
      | some r => r
      | none => go t
  go handlers

partial def loop (h : IO.FS.Stream) (n diffs bad : Nat) : IO (Nat × Nat × Nat) := do
  let line ← h.getLine
  if line.isEmpty then return (n, diffs, bad)
  let line := line.trimAscii.toString
  if line.isEmpty || line.startsWith "#" then loop h n diffs bad else
  match line.splitOn " => " with
  | [lhs, rhs] =>
    match lhs.splitOn " " with
    | op :: args =>
      match runOp op args with
      | some r =>
        if r == rhs then loop h (n+1) diffs bad
        else do
          IO.println s!"DIFF {n+1} {line} :: model={r}"
          loop h (n+1) (diffs+1) bad
      | none => do
        IO.println s!"BAD {n+1} {line}"
        loop h (n+1) diffs (bad+1)
    | [] => do
      IO.println s!"BAD {n+1} {line}"
      loop h (n+1) diffs (bad+1)
  | _ => do
    IO.println s!"BAD {n+1} {line}"
    loop h (n+1) diffs (bad+1)

end Driver

def main : IO UInt32 := do
  let (n, d, b) ← Driver.loop (← IO.getStdin) 0 0 0
  IO.println s!"STAT lines={n} diffs={d} bad={b}"
  return (if d == 0 && b == 0 then 0 else 1)
