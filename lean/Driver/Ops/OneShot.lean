import Driver.Util
import Driver.Ops.Dec
import EncodingRs.Model.OneShot
import EncodingRs.Model.Unicode
/-!
Driver operation `oneshot`: the one-shot decode API of `Encoding`.

  oneshot <ENC> <decode|bomrm|nobom|nobomnorepl> <hex input>
      => <hex of the UTF-8 result>|none <encoding-used ident> <had_errors 0|1> <borrowed 0|1>

`decode` = `Encoding::decode`, `bomrm` = `decode_with_bom_removal`, `nobom` =
`decode_without_bom_handling`, `nobomnorepl` =
`decode_without_bom_handling_and_without_replacement` (`none <ENC> 1 0` for `None`;
its had_errors column is 0 for `Some`).  The model is run with the stop policy
"never `OutputFull`" (all budgets `unlimited`): by `Thm.C11` the result does not
depend on the policy.  `unreachable` / `diverges` would be printed if the model hit the
`unreachable!()` arm or ran out of fuel (`Thm.C11.no_unreachable_partial`,
`decode_terminates`: it does not, with fuel `10 * len + 16`).

  oneshotenc <ENC> <hex of the UTF-8 input>
      => <hex of the bytes> <encoding-used ident> <had_unmappables 0|1> <borrowed 0|1>

`Encoding::encode` (`Model.OneShot.encode`): run with the capacity arithmetic of the Rust, an exact
allocator (no slack) and inner raw calls that are never stopped early (so `OutputFull` rounds come
from the `NCR_EXTRA` logic of `encode_from_utf8` only); by `Thm.C11.encodeV_eq_stream` the result
does not depend on these choices.  `panic` / `diverges` would be printed for a capacity overflow /
exhausted fuel.
-/
open EncodingRs EncodingRs.Model
namespace Driver.Ops

def usedIdent (nomIdent : String) : OneShot.Used → String
  | .nominal => nomIdent
  | .utf8 => "UTF_8"
  | .utf16be => "UTF_16BE"
  | .utf16le => "UTF_16LE"

def b01 (b : Bool) : String := if b then "1" else "0"

def showOneShot (ident : String) (r : OneShot.Res) : String :=
  s!"{toHex (r.text.flatMap encodeUtf8)} {ident} {b01 r.hadErrors} {b01 r.borrowed}"

def oneshot (op : String) (args : List String) : Option (Option String) :=
  match op, args with
  | "oneshot", [enc, fn, hexInput] => some do
    let (_, e) ← findEnc enc
    let bytes ← parseHex hexInput
    let fuel := 10 * bytes.length + 16
    match fn with
    | "decode" =>
      match OneShot.decode e.variant bytes fuel [] with
      | some (r, u) => pure (showOneShot (usedIdent e.ident u) r)
      | none => pure "diverges"
    | "bomrm" =>
      match OneShot.decodeWithBomRemoval e.variant bytes fuel [] with
      | some r => pure (showOneShot e.ident r)
      | none => pure "diverges"
    | "nobom" =>
      match OneShot.decodeWithoutBomHandling e.variant bytes fuel [] with
      | some r => pure (showOneShot e.ident r)
      | none => pure "diverges"
    | "nobomnorepl" =>
      match OneShot.decodeWithoutBomHandlingAndWithoutReplacement e.variant bytes .unlimited with
      | .unreachable => pure "unreachable"
      | .ret none => pure s!"none {e.ident} 1 0"
      | .ret (some (t, b)) => pure (showOneShot e.ident ⟨t, false, b⟩)
    | _ => none
  | "oneshot", _ => some none
  | "oneshotenc", [enc, hexInput] => some do
    let (i, _) ← findEnc enc
    let bytes ← parseHex hexInput
    let fuel := 10 * bytes.length + 16
    match OneShot.encode i bytes fuel [] [] with
    | .ok (r, u) =>
      let ident := ((Gen.encodings[u]?).map (·.ident)).getD "?"
      pure s!"{toHex r.bytes} {ident} {b01 r.hadUnmappables} {b01 r.borrowed}"
    | .panic => pure "panic"
    | .diverges => pure "diverges"
  | "oneshotenc", _ => some none
  | _, _ => none

end Driver.Ops
