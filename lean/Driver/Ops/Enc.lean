import Driver.Util
import Driver.Ops.Dec
import EncodingRs.Model.Encoder
import EncodingRs.Model.MaxLen
/-!
Driver operation `enc`: replays a whole history of `Encoder` calls against the model
and checks that every call is admissible.

  enc <ENC> <u8|u16> <raw|repl> <source units: hex (u8) or hex16 (u16)> <call>;<call>;… => ok

  <call> = n=<src units>,c=<capacity>,l=<0|1>,r=<I|O|P|U<hex scalar>>,rd=<read>,w=<hex bytes>,hp=<0|1>[,hu=<0|1>]

Each call is made on `units[consumed .. consumed+n]`; `hp` = `has_pending_state()` after the call;
`hu` = had_unmappables (with replacement).
-/
open EncodingRs EncodingRs.Model
namespace Driver.Ops

structure ECallRec where
  n : Nat
  cap : Nat
  last : Bool
  res : String
  read : Nat
  bytes : List Nat
  hasPending : Bool
  hadUnmappables : Option Bool
  /-- `max_buffer_length_from_<src>_without_replacement(n)` / `…_if_no_unmappables(n)` asked before the call -/
  q : Option (Option Nat × Option Nat)
  qx : Option (Nat × (Option Nat × Option Nat)) := none

def parseECall (s : String) : Option ECallRec := do
  let kvs ← (s.splitOn ",").mapM parseKv
  let get (key : String) : Option String := (kvs.find? (·.1 == key)).map (·.2)
  let n ← (← get "n").toNat?
  let cap ← (← get "c").toNat?
  let l ← get "l"
  let r ← get "r"
  let rd ← (← get "rd").toNat?
  let w ← parseHex (← get "w")
  let hp ← get "hp"
  let hu := match get "hu" with
    | some "1" => some true
    | some "0" => some false
    | _ => none
  let parseQ (x : String) : Option (Option Nat) := if x == "-" then some none else (x.toNat?).map some
  let q ← match get "q" with
    | none => some none
    | some v => match v.splitOn "/" with
      | [a, b] => do
        let a ← parseQ a; let b ← parseQ b
        pure (some (a, b))
      | _ => none
  let qx ← match get "qx" with
    | none => some none
    | some v => match v.splitOn ":" with
      | [nn, rest] => match rest.splitOn "/" with
        | [a, b] => do
          let nn ← nn.toNat?
          let a ← parseQ a; let b ← parseQ b
          pure (some (nn, (a, b)))
        | _ => none
      | _ => none
  pure ⟨n, cap, l == "1", r, rd, w, hp == "1", hu, q, qx⟩

def hexOfNat (n : Nat) : String :=
  let rec go : Nat → Nat → List Char
    | 0, _ => []
    | fuel + 1, n => if n < 16 then [hexDigit n] else go fuel (n / 16) ++ [hexDigit (n % 16)]
  String.ofList (go 8 n)

def showERes : ERes → String
  | .inputEmpty => "I"
  | .outputFull => "O"
  | .unmappable c => "U" ++ hexOfNat c

def stepBudgets (items : Nat) : List Budget :=
  Budget.unlimited :: (List.range (2 * items + 3)).map Budget.full

/-- one raw call: search the stop budget -/
def checkEncRaw (E : EFam) (utf16 : Bool) (s : E.σ) (src : List Nat) (c : ECallRec) : Option E.σ :=
  let rec tryAll : List Budget → Option E.σ
    | [] => none
    | b :: t =>
      let r := ecall E utf16 s src c.last b
      if showERes r.res == c.res && r.read == c.read && r.out == c.bytes && E.hasPending r.st == c.hasPending
          && r.out.length ≤ c.cap
          && (match r.res with | .outputFull => c.cap < r.out.length + r.stopNeed | _ => true)
      then some r.st else tryAll t
  tryAll (stepBudgets src.length)

def innerOk : List (Nat × Nat × ERes × Nat) → Bool
  | [] => true
  | (cap, len, res, need) :: t =>
    len ≤ cap && (match res with | .outputFull => cap < len + need | _ => true) && innerOk t

/-- one with-replacement call: which inner call stopped with `OutputFull`, and where -/
def checkEncRepl (E : EFam) (canAll : Bool) (utf16 : Bool) (s : E.σ) (src : List Nat) (c : ECallRec) : Option E.σ :=
  let fuel := src.length + 3
  let accept (r : EReplRes E.σ) : Bool :=
    showERes r.res == c.res && r.read == c.read && r.out == c.bytes && E.hasPending r.st == c.hasPending
      && some r.hadUnmappables == c.hadUnmappables && innerOk r.inner
  let rec tryAll : List (List Budget) → Option E.σ
    | [] => none
    | bs :: t =>
      match encRepl E canAll Gen.ncrExtra utf16 c.last c.cap fuel s src bs with
      | some r => if accept r then some r.st else tryAll t
      | none => tryAll t
  let cands : List (List Budget) :=
    [] :: (List.range (src.length + 2)).flatMap fun i =>
      (List.range (2 * src.length + 3)).map fun j => List.replicate i Budget.unlimited ++ [Budget.full j]
  tryAll cands

def runEncHistory (E : EFam) (canAll : Bool) (utf16 repl : Bool) (units : List Nat) (calls : List ECallRec)
    (maxf : Nat → Option Nat × Option Nat) : String :=
  let rec go (i : Nat) (consumed : Nat) (s : E.σ) : List ECallRec → String
    | [] => "ok"
    | c :: t =>
      let src := (units.drop consumed).take c.n
      if src.length ≠ c.n then s!"call#{i}: source slice beyond the text" else
      let qOk := match c.q with
        | none => true
        | some v => maxf c.n == v
      if !qOk then s!"call#{i}: max_buffer_length queries: model={maxf c.n}" else
      let qxOk := match c.qx with
        | none => true
        | some (nn, v) => maxf nn == v
      if !qxOk then s!"call#{i}: max_buffer_length queries near overflow (n={(c.qx.map (·.1)).getD 0}): model={maxf ((c.qx.map (·.1)).getD 0)}" else
      let r := if repl then checkEncRepl E canAll utf16 s src c else checkEncRaw E utf16 s src c
      match r with
      | none => s!"call#{i}: not admissible (n={c.n} cap={c.cap} last={c.last} impl={c.res} read={c.read} bytes={c.bytes.length} hp={c.hasPending})"
      | some s' => go (i + 1) (consumed + c.read) s' t
  go 0 0 E.init calls

def enc (op : String) (args : List String) : Option (Option String) :=
  match op, args with
  | "enc", [encName, srcKind, mode, unitsS, callsS] => some do
    let (i, e) ← findEnc encName
    let utf16 ← match srcKind with
      | "u8" => some false
      | "u16" => some true
      | _ => none
    let repl ← match mode with
      | "raw" => some false
      | "repl" => some true
      | _ => none
    let units ← if utf16 then parseHex16 unitsS else parseHex unitsS
    let calls ← if callsS == "." then some [] else (callsS.splitOn ";").mapM parseECall
    let E := efamOfVariant e.variant
    -- `can_encode_everything()` = output encoding is UTF-8
    let canAll := match e.variant with
      | .utf8 | .utf16Be | .utf16Le | .replacement => true
      | _ => false
    let _ := i
    pure (runEncHistory E canAll utf16 repl units calls
      (fun n => (encMaxNoRepl utf16 e.variant n, encMaxIfNoUnmappables utf16 e.variant n)))
  | "enc", _ => some none
  | _, _ => none

end Driver.Ops
