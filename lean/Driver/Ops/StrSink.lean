import Driver.Util
import Driver.Ops.Dec
import EncodingRs.Model.StrSink
import EncodingRs.Model.Repl
import EncodingRs.Model.OneShot
import EncodingRs.Spec.Utf8
/-!
Driver operation `zerotail` (C05 / C15): the whole `&mut str` destination before and after a call of
a safe `&mut str` sink, recomputed with `Model/StrSink.lean`.

    zerotail <fn> <written> <hex of dst before> <src>  =>  <hex of dst after> | panic

* `convert_utf16_to_str_partial`, `convert_latin1_to_str_partial`, `convert_utf16_to_str`,
  `convert_latin1_to_str` (`<src>`: hex16 / hex): the memory-level model of the default kernels
  (`convertUtf16ToStrPartialMem` …: every store threaded through the old destination, then
  `zeroTrail true`).  `<written>` must be the model's.  By `Thm.C05Str.zeroTrail_window_irrelevant` the
  comparison is also meaningful for the `simd-accel` build, whose kernels may leave garbage inside the
  stride window only.
* `decode_to_str:<ENC>[:sniff]`, `decode_to_str_without_replacement:<ENC>[:sniff]`: one call with
  `last = true` of a fresh decoder without BOM handling / with BOM sniffing (`:sniff`: the decoder and
  `self.encoding` are those `Model.OneShot.forBom` selects, the BOM is skipped).  The written prefix is the first `<written>` bytes of the UTF-8
  form of the model's complete decoding (with U+FFFD / up to the first error) — it must be that long
  and end at a character boundary (where exactly a call stops is the business of the `dec`
  correspondence); the destination is then `decodeToStrFinish (ENC == UTF_8)` of prefix ++ old rest.

Answers other than the hex of the destination name the disagreement (`written: model=…`).
-/
open EncodingRs EncodingRs.Model EncodingRs.Model.StrSink
namespace Driver.Ops

private def showMem (writtenS : String) (r : Nat × Nat × List Nat) : String :=
  if toString r.2.1 == writtenS then toHex r.2.2 else s!"written: model={r.2.1} dst={toHex r.2.2}"

private def showMemRes (writtenS : String) : Mem.Res (Nat × List Nat) → String
  | .ok (w, d) => if toString w == writtenS then toHex d else s!"written: model={w} dst={toHex d}"
  | .panic => "panic"

/-- complete output of the decoder model for `src` with `last = true` from the initial state -/
private def completeBytes (F : Fam) (repl : Bool) (src : List Nat) : Option (List Nat) :=
  if repl then (replLoop F .utf8 true (2 * src.length + 16) F.init src []).map (fun t => t.out.flatMap encodeUtf8)
  else some ((call F .utf8 F.init src true .unlimited).out.flatMap encodeUtf8)

def zerotail (op : String) (args : List String) : Option (Option String) :=
  match op, args with
  | "zerotail", [f, writtenS, beforeS, srcS] => some do
    let before ← parseHex beforeS
    match f with
    | "convert_utf16_to_str_partial" => do
      let src ← parseHex16 srcS; pure (showMem writtenS (convertUtf16ToStrPartialMem src before))
    | "convert_latin1_to_str_partial" => do
      let src ← parseHex srcS; pure (showMem writtenS (convertLatin1ToStrPartialMem src before))
    | "convert_utf16_to_str" => do
      let src ← parseHex16 srcS; pure (showMemRes writtenS (convertUtf16ToStrMem src before))
    | "convert_latin1_to_str" => do
      let src ← parseHex srcS; pure (showMemRes writtenS (convertLatin1ToStrMem src before))
    | _ =>
      let parts := f.splitOn ":"
      match parts with
      | m :: enc :: opt => do
        let repl ← match m with
          | "decode_to_str" => some true
          | "decode_to_str_without_replacement" => some false
          | _ => none
        let sniff ← match opt with
          | [] => some false
          | ["sniff"] => some true
          | _ => none
        let (_, e) ← findEnc enc
        let src0 ← parseHex srcS
        let written ← writtenS.toNat?
        -- one complete call (`last = true`) of a fresh decoder: BOM sniffing decides like `Encoding::for_bom`
        let (variant, src) := match (if sniff then OneShot.forBom src0 else none) with
          | some (u, n) => (OneShot.variantOfUsed e.variant u, src0.drop n)
          | none => (e.variant, src0)
        let all ← completeBytes (famOfVariant variant) repl src
        let w := all.take written
        if w.length ≠ written then pure s!"written: {written} exceeds the complete output ({all.length} bytes)"
        else if !(Spec.validUtf8 w) then pure s!"written: {written} is not a character boundary of the output {toHex all}"
        else if before.length < written then pure s!"written: {written} exceeds the destination"
        else
          let isUtf8 := decide (variant = Gen.Variant.utf8)
          pure (toHex (decodeToStrFinish isUtf8 (w ++ before.drop written) written))
      | _ => none
  | "zerotail", _ => some none
  | _, _ => none

end Driver.Ops
