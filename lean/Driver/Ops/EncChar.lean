import Driver.Util
import Driver.Ops.Dec
import EncodingRs.Model.EncFam
/-!
Driver operation `encchar`: one character through a fresh encoder with
`last = true` (WITHOUT-replacement API), for the exhaustive validation of the
encoder family models against the real crate.

  encchar <ENC> <scalar value, hex>[,<scalar value, hex>…]
      => <hex of all bytes written>
       | U<hex scalar>            (reported unmappable, nothing written)
       | U<hex scalar>:<hex bytes written before the report>

(more than one character: the earlier ones put a stateful encoder, i.e.
ISO-2022-JP, into its Roman / JIS X 0208 state).  The model runs `step` from
`init` for each character, follows `.again` (fuel 4), then runs `eof`.
For ISO-2022-JP the faithful `.again` step function `isoEncStep` is run as well
and must agree with the merged step of `iso2022JpEFam`.
-/
open EncodingRs EncodingRs.Model
namespace Driver.Ops

def hexNat (n : Nat) : String :=
  let rec go (n fuel : Nat) (acc : List Char) : List Char :=
    match fuel with
    | 0 => acc
    | fuel + 1 => if n < 16 then hexDigit n :: acc else go (n / 16) fuel (hexDigit (n % 16) :: acc)
  String.ofList (go n 16 [])

def parseHexNat (s : String) : Option Nat :=
  if s.isEmpty then none else
  s.toList.foldlM (fun acc ch => (hexVal ch).map (acc * 16 + ·)) 0

/-- one character from state `s`: follow `.again` (fuel), accumulate the output;
`inl` = final answer (unmappable report), `inr` = state and output so far -/
def runEncOne {σ : Type} (step : σ → Nat → EStep σ) (c : Nat) : σ → List Nat → Nat → String ⊕ (σ × List Nat)
  | _, _, 0 => .inl "LOOP"
  | s, acc, fuel + 1 =>
    let r := step s c
    let acc := acc ++ r.out
    match r.unmappable with
    | some u => .inl (if acc.isEmpty then s!"U{hexNat u}" else s!"U{hexNat u}:{toHex acc}")
    | none => if r.unread then runEncOne step c r.st acc fuel else .inr (r.st, acc)

/-- run the characters through `step`, then `eof` -/
def runEncChars {σ : Type} (step : σ → Nat → EStep σ) (eof : σ → List Nat × σ) : σ → List Nat → List Nat → String
  | s, acc, [] => toHex (acc ++ (eof s).1)
  | s, acc, c :: t =>
    match runEncOne step c s acc 4 with
    | .inl msg => msg
    | .inr (s', acc') => runEncChars step eof s' acc' t

def encchar (op : String) (args : List String) : Option (Option String) :=
  match op, args with
  | "encchar", [enc, css] => some do
    let (_, e) ← findEnc enc
    let cs ← (css.splitOn ",").mapM parseHexNat
    let F := efamOfVariant e.variant
    let r := runEncChars F.step F.eof F.init [] cs
    match e.variant with
    | .iso2022Jp =>
      let r' := runEncChars isoEncStep isoEncEof IsoEncSt.ascii [] cs
      pure (if r == r' then r else s!"merged={r}/again={r'}")
    | _ => pure r
  | "encchar", _ => some none
  | _, _ => none

end Driver.Ops
