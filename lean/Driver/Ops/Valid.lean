import Driver.Util
import EncodingRs.Model.Valid
/-! driver operations for C14 (validators)

    valid <fn> <force_scalar 0|1> <align> <hex>  => <index>     fn ∈ utf8 ascii iso2022jp utf8latin1 strlatin1
    valid16 <fn> <align> <hex16>                 => <index>     fn ∈ utf16

`force_scalar` and `align` select implementation paths only (SIMD validator vs
the crate's scalar validator; start address of the slice); the model's answer
does not depend on them, they are parsed (a malformed value is `BAD`) and ignored. -/
open EncodingRs
namespace Driver.Ops

def valid (op : String) (args : List String) : Option (Option String) :=
  match op, args with
  | "valid", [fn, force, align, h] => some do
    let _ ← (if force == "0" || force == "1" then some () else none)
    let _ ← align.toNat?
    let bs ← parseHex h
    match fn with
    | "utf8" => pure (toString (Model.Valid.utf8ValidUpTo bs))
    | "ascii" => pure (toString (Model.Valid.asciiValidUpTo bs))
    | "iso2022jp" => pure (toString (Model.Valid.iso2022JpAsciiValidUpTo bs))
    | "utf8latin1" => pure (toString (Model.Valid.utf8Latin1UpTo bs))
    | "strlatin1" =>
      match Model.Valid.strLatin1UpTo bs with
      | some i => pure (toString i)
      | none => pure "panic"
    | _ => none
  | "valid", _ => some none
  | "valid16", [fn, align, h] => some do
    let _ ← align.toNat?
    let us ← parseHex16 h
    match fn with
    | "utf16" => pure (toString (Model.Valid.utf16ValidUpTo us))
    | _ => none
  | "valid16", _ => some none
  | _, _ => none

end Driver.Ops
