import Driver.Util
import EncodingRs.Model.Bidi
/-! driver operations for C16 (mem classification and bidi checks)

    cls <fn> <hex>        byte input (2 hex digits per byte, "." = empty)
    cls16 <fn> <hex16>    UTF-16 input (4 hex digits per unit)
    clschar <fn> <n>      decimal scalar value / code unit
-/
open EncodingRs
namespace Driver.Ops

def showBool (b : Bool) : String := if b then "true" else "false"

def showL1B : Model.Bidi.Latin1Bidi → String
  | .latin1 => "Latin1"
  | .leftToRight => "LeftToRight"
  | .bidi => "Bidi"

def showPanic {α} (f : α → String) : Option α → String
  | none => "panic"
  | some a => f a

def cls (op : String) (args : List String) : Option (Option String) :=
  match op, args with
  | "cls", [fn, h] => some do
    let bs ← parseHex h
    match fn with
    | "is_ascii" => pure (showBool (Model.Bidi.isAscii bs))
    | "is_utf8_latin1" => pure (showBool (Model.Bidi.isUtf8Latin1 bs))
    | "is_str_latin1" => pure (showPanic showBool (Model.Bidi.isStrLatin1 bs))
    | "is_utf8_bidi" => pure (showBool (Model.Bidi.isUtf8Bidi bs))
    | "is_str_bidi" => pure (showPanic showBool (Model.Bidi.isStrBidi bs))
    | "check_utf8_for_latin1_and_bidi" => pure (showL1B (Model.Bidi.checkUtf8 bs))
    | "check_str_for_latin1_and_bidi" => pure (showPanic showL1B (Model.Bidi.checkStr bs))
    | _ => none
  | "cls", _ => some none
  | "cls16", [fn, h] => some do
    let us ← parseHex16 h
    match fn with
    | "is_basic_latin" => pure (showBool (Model.Bidi.isBasicLatin us))
    | "is_utf16_latin1" => pure (showBool (Model.Bidi.isUtf16Latin1 us))
    | "is_utf16_bidi" => pure (showBool (Model.Bidi.isUtf16Bidi us))
    | "check_utf16_for_latin1_and_bidi" => pure (showL1B (Model.Bidi.checkUtf16 us))
    | _ => none
  | "cls16", _ => some none
  | "clschar", [fn, n] => some do
    let c ← n.toNat?
    match fn with
    | "is_char_bidi" => pure (showBool (Model.Bidi.isCharBidi c))
    | "is_utf16_code_unit_bidi" => pure (showBool (Model.Bidi.isUtf16CodeUnitBidi c))
    | _ => none
  | "clschar", _ => some none
  | _, _ => none

end Driver.Ops
