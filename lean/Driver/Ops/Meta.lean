import EncodingRs.Model.Meta
import Driver.Ops.Dec
/-!
Driver operation `meta`: the metadata predicates of one encoding.

  meta <ENC> => asc=<0|1> sb=<0|1> all=<0|1> out=<ENC ident of output_encoding()> newenc=<ENC ident of new_encoder().encoding()> name=<name()>

`newenc` is computed by the model as the output encoding when `Gen.encoderOfVariant` of its variant
constructs an encoder, and as `UNREACHABLE` otherwise.
-/
namespace Driver.Ops
open EncodingRs EncodingRs.Model EncodingRs.Model.Meta

def mb01 (b : Bool) : String := if b then "1" else "0"

def identAt (i : Nat) : String := ((Gen.encodings[i]?).map (·.ident)).getD "?"

def metaOp (op : String) (args : List String) : Option (Option String) :=
  match op, args with
  | "meta", [enc] => some do
    let (i, e) ← findEnc enc
    let o := outputEncoding i
    let newenc := match Gen.encoderOfVariant (variantAt o) with
      | some _ => identAt o
      | none => "UNREACHABLE"
    pure s!"asc={mb01 (isAsciiCompatible i)} sb={mb01 (isSingleByte i)} all={mb01 (canEncodeEverything i)} out={identAt o} newenc={newenc} name={e.name}"
  | _, _ => none

end Driver.Ops
