import Driver.Ops.EncChar
import EncodingRs.Model.Encoder
/-!
Driver operation `encchar16` (C17 corpus): the UTF-16-source form of `encchar`.

  encchar16 <ENC> <UTF-16 code units, four hex digits each>
      => <hex of all bytes written> | U<hex scalar>[:<hex bytes written before the report>]

A fresh encoder encodes the units with `last = true` through
`encode_from_utf16_without_replacement`.  The model reads the characters with the
model of `Utf16Source::read` (`Model.items16`: a surrogate pair is one character,
an unpaired surrogate reads as U+FFFD) and then runs exactly what `encchar` runs.
-/
open EncodingRs EncodingRs.Model
namespace Driver.Ops

def encchar16 (op : String) (args : List String) : Option (Option String) :=
  match op, args with
  | "encchar16", [enc, unitsS] => some do
    let (_, e) ← findEnc enc
    let units ← parseHex16 unitsS
    if units.isEmpty then none else
    let cs := (items16 units).map (·.1)
    let F := efamOfVariant e.variant
    let r := runEncChars F.step F.eof F.init [] cs
    match e.variant with
    | .iso2022Jp =>
      let r' := runEncChars isoEncStep isoEncEof IsoEncSt.ascii [] cs
      pure (if r == r' then r else s!"merged={r}/again={r'}")
    | _ => pure r
  | "encchar16", _ => some none
  | _, _ => none

end Driver.Ops
