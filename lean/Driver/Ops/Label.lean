import Driver.Util
import EncodingRs.Model.Label
import EncodingRs.Spec.Label
/-! driver operations for C13

    label <hex of the label bytes> => <ENC ident | -> <ENC ident | ->      (for_label, for_label_no_replacement)

The answer is the MODEL's (`Model.forLabel`, the hand model of the scanner and the binary search).  The
transcribed Standard (`Spec.getEncoding`, "get an encoding") is evaluated on the same bytes as well: if
the name it returns is not the name of the model's encoding (or one fails and the other does not) the
answer is `spec-mismatch …`, which no implementation line equals, so a wrong transcription of the
Standard is reported like a wrong model (`Thm.C13` proves the two equal for all byte strings; this is
the executable cross-check of that statement's right-hand side against the real crate). -/
open EncodingRs
namespace Driver.Ops

def encIdent (i : Nat) : String := match Gen.encodings[i]? with
  | some e => e.ident
  | none => "?"

def showEnc : Option Nat → String
  | none => "-"
  | some i => encIdent i

/-- `none`: not an operation of this module; `some none`: malformed arguments;
`some (some r)`: the model's result -/
def label (op : String) (args : List String) : Option (Option String) :=
  match op, args with
  | "label", [h] => some do
    let bs ← parseHex h
    let m := Model.forLabel bs
    let mName := m.bind Model.encName
    let sName := Spec.getEncoding bs
    if mName != sName then
      pure s!"spec-mismatch model={showEnc m} spec={(sName.map fun n => String.ofList (n.map Char.ofNat)).getD "-"}"
    else
    let mNr := (Model.forLabelNoReplacement bs).bind Model.encName
    let sNr := if sName == some Spec.replacementName then none else sName
    if mNr != sNr then
      pure s!"spec-mismatch(no_replacement) model={showEnc (Model.forLabelNoReplacement bs)}"
    else
    pure s!"{showEnc m} {showEnc (Model.forLabelNoReplacement bs)}"
  | "label", _ => some none
  | _, _ => none

end Driver.Ops
