import Driver.Util
import EncodingRs.Model.Label
/-! driver operations for C13 -/
open EncodingRs
namespace Driver.Ops

def encIdent (i : Nat) : String := match Gen.encodings[i]? with
  | some e => e.ident
  | none => "?"

def showEnc : Option Nat → String
  | none => "-"
  | some i => encIdent i

/-- `none`: not an operation of this module; `some none`: malformed arguments;
`some (some r)`: the model's result -/
def label (op : String) (args : List String) : Option (Option String) :=
  match op, args with
  | "label", [h] => some do
    let bs ← parseHex h
    pure s!"{showEnc (Model.forLabel bs)} {showEnc (Model.forLabelNoReplacement bs)}"
  | "label", _ => some none
  | _, _ => none

end Driver.Ops
