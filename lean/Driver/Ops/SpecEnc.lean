import Driver.Util
import Driver.Ops.Dec
import EncodingRs.Spec.Encode
/-!
Driver operations `specenc` / `specdump` (property C03): the EXECUTABLE
transcription of the Encoding Standard's encoders (`Spec/Encode.lean`), not the
model of the implementation.

  specenc  <ENC> <text as UTF-16 code units, hex16> => <hex of the bytes of "encode" (error mode html)>
  specdump <ENC> <text as UTF-16 code units, hex16> => <hex bytes>

`specenc`: the right-hand side comes from the real crate (`Encoding::encode` /
streaming `encode_from_utf16`).  `specdump`: the right-hand side comes from the
vendored dumps `spec/encode-dump-*.txt` (tests/test_data/*_out*.txt of the pinned
tree), a second, implementation-independent cross-check of the transcription.

The text is converted to scalar values (unpaired surrogate ↦ U+FFFD), the output
encoding of `<ENC>` is taken, and the Standard's encoder is run over the queue in
error mode "html".
-/
open EncodingRs
namespace Driver.Ops

def specenc (op : String) (args : List String) : Option (Option String) :=
  match op, args with
  | "specenc", [enc, text] | "specdump", [enc, text] => some do
    let (_, e) ← findEnc enc
    let units ← parseHex16 text
    let bytes ← Spec.Encode.encode e.name (Spec.Encode.scalarValuesOfUtf16 units)
    pure (toHex bytes)
  | "specenc", _ | "specdump", _ => some none
  | _, _ => none

end Driver.Ops
