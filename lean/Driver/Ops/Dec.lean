import Driver.Util
import Driver.Ops.Label
import EncodingRs.Model.Decoder
import EncodingRs.Model.L1
import EncodingRs.Model.MaxLen
import EncodingRs.Model.ReplCall
import EncodingRs.Model.Unicode
/-!
Driver operation `dec`: replays a whole history of `Decoder` calls made by the
harness against the model and checks that every call is *admissible*
(`Model.Admissible` lifted through the BOM life cycle and the replacement loop).

  dec <ENC> <off|sniff|remove> <u8|u16> <raw|repl> <hex stream> <call>;<call>;…  => ok <encoding() at the end>

  <call> = n=<src len>,c=<capacity>,l=<0|1>,r=<I|O|P|M<len>.<after>>,rd=<read>,w=<hex units>[,he=<0|1>][,lc=<n|->]
           (lc = latin1_byte_compatible_up_to(src) asked just before the call;
            q=<a>/<b>/<c> = max_utf8_buffer_length(n) / max_utf8_buffer_length_without_replacement(n) /
            max_utf16_buffer_length(n) asked just before the call, `-` = None)

Each call is made on `stream[consumed .. consumed+n]` where `consumed` is the sum
of the `rd` of the earlier calls.  The model answers `ok <ENC>` or
`call#<i>: <why the call is not admissible>`.
-/
open EncodingRs EncodingRs.Model
namespace Driver.Ops

def findEnc (ident : String) : Option (Nat × Gen.EncodingInit) :=
  let rec go : List Gen.EncodingInit → Nat → Option (Nat × Gen.EncodingInit)
    | [], _ => none
    | e :: t, i => if e.ident == ident then some (i, e) else go t (i + 1)
  go Gen.encodings 0

def nominalOf (v : Gen.Variant) : Nominal :=
  match v with
  | .utf8 => .utf8
  | .utf16Be => .utf16be
  | .utf16Le => .utf16le
  | _ => .other

def encodeUnits (k : Sink) (cs : List Nat) : List Nat :=
  match k with
  | .utf8 => cs.flatMap encodeUtf8
  | .utf16 => cs.flatMap encodeUtf16

structure CallRec where
  n : Nat
  cap : Nat
  last : Bool
  res : String
  read : Nat
  units : List Nat
  hadErrors : Option Bool
  /-- `latin1_byte_compatible_up_to(src)` asked before the call: `none` = not recorded -/
  lc : Option (Option Nat)
  /-- the three `max_*` queries asked before the call for `n` bytes: utf8 / utf8 without replacement / utf16 -/
  q : Option (Option Nat × Option Nat × Option Nat)
  /-- the same queries for a byte count near the overflow thresholds -/
  qx : Option (Nat × (Option Nat × Option Nat × Option Nat)) := none

def parseKv (s : String) : Option (String × String) :=
  match s.splitOn "=" with
  | [k, v] => some (k, v)
  | _ => none

def parseCall (k : Sink) (s : String) : Option CallRec := do
  let kvs ← (s.splitOn ",").mapM parseKv
  let get (key : String) : Option String := (kvs.find? (·.1 == key)).map (·.2)
  let n ← (← get "n").toNat?
  let cap ← (← get "c").toNat?
  let l ← get "l"
  let r ← get "r"
  let rd ← (← get "rd").toNat?
  let w ← get "w"
  let units ← match k with
    | .utf8 => parseHex w
    | .utf16 => parseHex16 w
  let he := match get "he" with
    | some "1" => some true
    | some "0" => some false
    | _ => none
  let lc ← match get "lc" with
    | none => some none
    | some "-" => some (some none)
    | some v => (v.toNat?).map (fun x => some (some x))
  let parseQ (x : String) : Option (Option Nat) := if x == "-" then some none else (x.toNat?).map some
  let q ← match get "q" with
    | none => some none
    | some v => match v.splitOn "/" with
      | [a, b, c] => do
        let a ← parseQ a; let b ← parseQ b; let c ← parseQ c
        pure (some (a, b, c))
      | _ => none
  let qx ← match get "qx" with
    | none => some none
    | some v => match v.splitOn ":" with
      | [nn, rest] => match rest.splitOn "/" with
        | [a, b, c] => do
          let nn ← nn.toNat?
          let a ← parseQ a; let b ← parseQ b; let c ← parseQ c
          pure (some (nn, (a, b, c)))
        | _ => none
      | _ => none
  pure ⟨n, cap, l == "1", r, rd, units, he, lc, q, qx⟩

def showRes : Res → String
  | .inputEmpty => "I"
  | .outputFull => "O"
  | .malformed l a => s!"M{l}.{a}"

/-- admissibility side conditions of the inner raw calls of one `Decoder` call -/
def innerAdmissible (k : Sink) (cap : Nat) : List (List Nat × Res × Nat) → Bool
  | [] => true
  | (out, res, need) :: t =>
    let u := unitsOfList k out
    u ≤ cap &&
    (match res with
      | .outputFull => cap < u + need
      | .malformed _ _ => u + replRoom k ≤ cap
      | .inputEmpty => true) &&
    innerAdmissible k (cap - u) t

def budgets1 : List Budget := [.unlimited, .full 1, .full 0]

def budgets2 (m : Nat) : List Budget :=
  [.unlimited, .altAny, .full m, .full (m + 1), .full (m - 1), .full (m - 2), .full (m - 3), .full (m + 2)]

def curIdent {F : Fam} (nomIdent : String) : Cur F → String
  | .nominal _ => nomIdent
  | .utf8 _ => "UTF_8"
  | .utf16be _ => "UTF_16BE"
  | .utf16le _ => "UTF_16LE"

/-- one raw (`*_without_replacement`) call: find budgets that reproduce the
implementation's result; `none` = not admissible -/
def checkRaw {F : Fam} (k : Sink) (d : Decoder F) (src : List Nat) (c : CallRec) : Option (Option (Decoder F)) :=
  let rec tryAll : List (Budget × Budget) → Option (Option (Decoder F))
    | [] => none
    | (b1, b2) :: t =>
      match d.rawCall k src c.last b1 b2 with
      | .panic => if c.res == "P" then some none else tryAll t
      | .ok res read out d' inner =>
        if showRes res == c.res && read == c.read && encodeUnits k out == c.units
            && innerAdmissible k c.cap inner then some (some d')
        else tryAll t
  tryAll (budgets1.flatMap fun b1 => (budgets2 c.read).map fun b2 => (b1, b2))

/-- one with-replacement call: depth-first search over the stop choices of the
inner raw calls; returns the decoder afterwards (`none` = the Rust panicked) and the budgets chosen -/
partial def checkRepl {F : Fam} (k : Sink) (src : List Nat) (c : CallRec)
    (d : Decoder F) (totalRead : Nat) (acc : List Nat) (hadErr : Bool) (fuel : Nat) :
    Option (Option (Decoder F) × List (Budget × Budget)) :=
  if fuel = 0 then none else
  let cap' := c.cap - acc.length
  let m := c.read - totalRead
  let rec tryAll (seen : List (String × Nat × Nat)) : List (Budget × Budget) → Option (Option (Decoder F) × List (Budget × Budget))
    | [] => none
    | (b1, b2) :: t =>
      match d.rawCall k (src.drop totalRead) c.last b1 b2 with
      | .panic => if c.res == "P" then some (none, [(b1, b2)]) else tryAll seen t
      | .ok res read out d' inner =>
        let key := (showRes res, read, out.length)
        if seen.contains key then tryAll seen t else
        let units := acc ++ encodeUnits k out
        if !(innerAdmissible k cap' inner) || !(units.isPrefixOf c.units) then tryAll (key :: seen) t else
        match res with
        | .malformed _ _ =>
          let units' := units ++ encodeUnits k [0xFFFD]
          if !(units'.isPrefixOf c.units) then tryAll (key :: seen) t else
          match checkRepl k src c d' (totalRead + read) units' true (fuel - 1) with
          | some (r, bs) => some (r, (b1, b2) :: bs)
          | none => tryAll (key :: seen) t
        | _ =>
          if showRes res == c.res && totalRead + read == c.read && units == c.units
              && c.hadErrors == some hadErr then some (some d', [(b1, b2)])
          else tryAll (key :: seen) t
  tryAll [] (budgets1.flatMap fun b1 => (budgets2 m).map fun b2 => (b1, b2))

/-- The search above re-implements the loop step by step; the theorems are about `Decoder.replCall`.  Close the
gap by execution: run the model's own loop (`Model.Decoder.replCallX`, proved equal to `Decoder.replCall`) with the
budgets the search chose and require exactly the implementation's result. -/
def verifyRepl {F : Fam} (k : Sink) (src : List Nat) (c : CallRec) (d : Decoder F)
    (bs : List (Budget × Budget)) : Bool :=
  match Decoder.replCallX k c.last (src.length + 9) d src bs with
  | none => false
  | some none => c.res == "P"
  | some (some (res, read, out, hadErr, _)) =>
    showRes res == c.res && read == c.read && encodeUnits k out == c.units && c.hadErrors == some hadErr

def runDecHistory {F : Fam} (k : Sink) (repl : Bool) (nomIdent : String) (stream : List Nat)
    (calls : List CallRec) (d0 : Decoder F) (l1f : Decoder F → List Nat → Option Nat)
    (maxf : Decoder F → Nat → Option Nat × Option Nat × Option Nat) : String :=
  let rec go (i : Nat) (consumed : Nat) (d : Decoder F) : List CallRec → String
    | [] => s!"ok {curIdent nomIdent d.cur}"
    | c :: t =>
      let src := (stream.drop consumed).take c.n
      if src.length ≠ c.n then s!"call#{i}: source slice beyond the stream" else
      let lcOk := match c.lc with
        | none => true
        | some v => l1f d src == v
      if !lcOk then s!"call#{i}: latin1_byte_compatible_up_to: model={l1f d src}" else
      let qOk := match c.q with
        | none => true
        | some v => maxf d c.n == v
      if !qOk then s!"call#{i}: max_*_buffer_length queries: model={maxf d c.n}" else
      let qxOk := match c.qx with
        | none => true
        | some (nn, v) => maxf d nn == v
      if !qxOk then s!"call#{i}: max_*_buffer_length queries near overflow (n={(c.qx.map (·.1)).getD 0}): model={maxf d ((c.qx.map (·.1)).getD 0)}" else
      let r := if repl then
          match checkRepl k src c d 0 [] false (src.length + 8) with
          | none => none
          | some (d', bs) => if verifyRepl k src c d bs then some d' else none
        else checkRaw k d src c
      match r with
      | none => s!"call#{i}: not admissible (n={c.n} cap={c.cap} last={c.last} impl={c.res} read={c.read} units={c.units.length})"
      | some none => if t.isEmpty then s!"ok {curIdent nomIdent d.cur}" else s!"call#{i}: calls after a panic"
      | some (some d') => go (i + 1) (consumed + c.read) d' t
  go 0 0 d0 calls

def dec (op : String) (args : List String) : Option (Option String) :=
  match op, args with
  | "dec", [enc, bom, sink, mode, hexStream, callsS] => some do
    let (_, e) ← findEnc enc
    let bomH ← match bom with
      | "off" => some BomHandling.off
      | "sniff" => some .sniff
      | "remove" => some .remove
      | _ => none
    let k ← match sink with
      | "u8" => some Sink.utf8
      | "u16" => some .utf16
      | _ => none
    let repl ← match mode with
      | "raw" => some false
      | "repl" => some true
      | _ => none
    let stream ← parseHex hexStream
    let calls ← if callsS == "." then some [] else (callsS.splitOn ";").mapM (parseCall k)
    let F := famOfVariant e.variant
    let nom := nominalOf e.variant
    pure (runDecHistory k repl e.ident stream calls (Decoder.new F nom bomH)
      (Decoder.l1 e.variant)
      (fun d n => (Decoder.maxLen .utf8 e.variant nom d n, Decoder.maxLen .utf8NoRepl e.variant nom d n,
        Decoder.maxLen .utf16 e.variant nom d n)))
  | "dec", _ => some none
  | _, _ => none

end Driver.Ops
