import Driver.Util
import EncodingRs.Gen.Encodings
import EncodingRs.Spec.Decode
/-!
Driver operation `specdec`: the EXECUTABLE transcription of the Encoding Standard's
decoders (`Spec.Decode.run`) on a whole stream.

  specdec <ENC> <hex stream> => <events>

  <events> = `.` or a comma-separated list of `c<hex scalar value>` / `e<start>:<len>` (decimal)

The harness prints what the real decoder (`decode_to_utf16_without_replacement`, one big
buffer, re-push after each `Malformed`, span = consumed − after − len) says about the
same stream; the encoding is looked up by the *name* the regenerated `Gen.encodings`
gives to the identifier, so a wrong name ↦ decoder association in the crate shows up too.
-/
open EncodingRs
namespace Driver.Ops

def specHexNat (n : Nat) : String :=
  let rec go (fuel n : Nat) (acc : List Char) : List Char :=
    match fuel with
    | 0 => acc
    | fuel + 1 => if n < 16 then hexDigit n :: acc else go fuel (n / 16) (hexDigit (n % 16) :: acc)
  String.ofList (go 16 n [])

def showEv : Model.Ev → String
  | .cp c => "c" ++ specHexNat c
  | .err s l => s!"e{s}:{l}"

def showEvs (l : List Model.Ev) : String :=
  if l.isEmpty then "." else ",".intercalate (l.map showEv)

def specdec (op : String) (args : List String) : Option (Option String) :=
  if op != "specdec" then none else
  some <| match args with
  | [ident, hex] =>
    match Gen.encodings.find? (·.ident == ident), parseHex hex with
    | some e, some bytes =>
      match Spec.Decode.decoderOfName e.name with
      | some D => some (showEvs (Spec.Decode.run D bytes))
      | none => none
    | _, _ => none
  | _ => none

end Driver.Ops
