import Driver.Util
import EncodingRs.Model.Mem
/-!
Driver operations for C15 (`encoding_rs::mem` conversions).

    mem <fn> <dstlen> <src>  =>  <result>

`<fn>` is the Rust function name, `<dstlen>` the destination length in units
(0 for functions without a destination), `<src>` hex (2 digits per byte) for
`u8` sources and hex16 (4 digits per unit) for `u16` sources, "." = empty.
`W` below is the written prefix `dst[..written]` (hex for `u8`, hex16 for `u16`
destinations). Canonical result per function:

* `convert_utf16_to_utf8_partial`, `convert_utf16_to_str_partial`,
  `convert_latin1_to_utf8_partial`, `convert_latin1_to_str_partial`:
  `<read> <written> <W>`
* `convert_utf8_to_utf16`, `convert_str_to_utf16`, `convert_utf16_to_utf8`,
  `convert_utf16_to_str`, `convert_latin1_to_utf8`, `convert_latin1_to_str`,
  `convert_utf8_to_latin1_lossy`, `copy_ascii_to_ascii`,
  `copy_ascii_to_basic_latin`, `copy_basic_latin_to_ascii`:
  `<written> <W>` or `panic`
* `convert_utf8_to_utf16_without_replacement`: `<written> <W>` | `none` | `panic`
* `convert_latin1_to_utf16`, `convert_utf16_to_latin1_lossy` (return `()`):
  `<src.len()> <dst[..src.len()]>` or `panic`
* `decode_latin1`, `encode_latin1_lossy`: `b <hex>` (borrowed) / `o <hex>` (owned) or `panic`
* `ensure_utf16_validity`: `<hex16 of the buffer afterwards>`

The harness is built with debug assertions, so the debug-only assertion of
`convert_utf8_to_latin1_lossy` / `encode_latin1_lossy` is modelled as enabled.
-/
open EncodingRs.Model.Mem
namespace Driver.Ops

private def showPartial (h : List Nat → String) (r : Nat × List Nat) : String :=
  s!"{r.1} {r.2.length} {h r.2}"

private def showRes (h : List Nat → String) : Res (List Nat) → String
  | .ok w => s!"{w.length} {h w}"
  | .panic => "panic"

private def showCount (h : List Nat → String) : Res (Nat × List Nat) → String
  | .ok (n, w) => s!"{n} {h w}"
  | .panic => "panic"

private def showCow : Res (Bool × List Nat) → String
  | .ok (b, w) => s!"{if b then "b" else "o"} {toHex w}"
  | .panic => "panic"

def mem (op : String) (args : List String) : Option (Option String) :=
  match op, args with
  | "mem", [f, capS, srcS] => some do
    let cap ← capS.toNat?
    match f with
    | "convert_utf16_to_utf8_partial" => do
      let src ← parseHex16 srcS; pure (showPartial toHex (convertUtf16ToUtf8Partial src cap))
    | "convert_utf16_to_str_partial" => do
      let src ← parseHex16 srcS; pure (showPartial toHex (convertUtf16ToStrPartial src cap))
    | "convert_utf16_to_utf8" => do
      let src ← parseHex16 srcS; pure (showRes toHex (convertUtf16ToUtf8 src cap))
    | "convert_utf16_to_str" => do
      let src ← parseHex16 srcS; pure (showRes toHex (convertUtf16ToStr src cap))
    | "convert_latin1_to_utf8_partial" => do
      let src ← parseHex srcS; pure (showPartial toHex (convertLatin1ToUtf8Partial src cap))
    | "convert_latin1_to_str_partial" => do
      let src ← parseHex srcS; pure (showPartial toHex (convertLatin1ToStrPartial src cap))
    | "convert_latin1_to_utf8" => do
      let src ← parseHex srcS; pure (showRes toHex (convertLatin1ToUtf8 src cap))
    | "convert_latin1_to_str" => do
      let src ← parseHex srcS; pure (showRes toHex (convertLatin1ToStr src cap))
    | "convert_latin1_to_utf16" => do
      let src ← parseHex srcS; pure (showRes toHex16 (convertLatin1ToUtf16 src cap))
    | "convert_utf16_to_latin1_lossy" => do
      let src ← parseHex16 srcS; pure (showRes toHex (convertUtf16ToLatin1Lossy src cap))
    | "convert_utf8_to_latin1_lossy" => do
      let src ← parseHex srcS; pure (showRes toHex (convertUtf8ToLatin1Lossy true src cap))
    | "decode_latin1" => do
      let src ← parseHex srcS; pure (showCow (decodeLatin1 src))
    | "encode_latin1_lossy" => do
      let src ← parseHex srcS; pure (showCow (encodeLatin1Lossy true src))
    | "copy_ascii_to_ascii" => do
      let src ← parseHex srcS; pure (showCount toHex (copyAsciiToAscii src cap))
    | "copy_ascii_to_basic_latin" => do
      let src ← parseHex srcS; pure (showCount toHex16 (copyAsciiToBasicLatin src cap))
    | "copy_basic_latin_to_ascii" => do
      let src ← parseHex16 srcS; pure (showCount toHex (copyBasicLatinToAscii src cap))
    | "ensure_utf16_validity" => do
      let src ← parseHex16 srcS; pure (toHex16 (ensureUtf16Validity src))
    | "convert_utf8_to_utf16" => do
      let src ← parseHex srcS; pure (showRes toHex16 (convertUtf8ToUtf16 src cap))
    | "convert_str_to_utf16" => do
      let src ← parseHex srcS; pure (showRes toHex16 (convertStrToUtf16 src cap))
    | "convert_utf8_to_utf16_without_replacement" => do
      let src ← parseHex srcS
      pure (match convertUtf8ToUtf16WithoutReplacement src cap with
        | .ok (some w) => s!"{w.length} {toHex16 w}"
        | .ok none => "none"
        | .panic => "panic")
    | _ => none
  | "mem", _ => some none
  | _, _ => none

end Driver.Ops
