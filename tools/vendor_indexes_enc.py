#!/usr/bin/env python3
"""One-off vendoring script for the ENCODER side of the reference data (C03).
NOT run by the checks.  Run by hand from the root of the verif tree:

    python3 tools/vendor_indexes_enc.py [/repo]

Writes  spec/index-gb18030-ranges.enc.txt, spec/index-single-byte.enc.txt,
        spec/index-iso-2022-jp-katakana.enc.txt, spec/gb18030-2022-encoder-overrides.txt,
        spec/encode-dump-{big5,euc-kr,gb18030,euc-jp,shift_jis,iso-2022-jp}.txt
and     lean/EncodingRs/Spec/IndexDataEnc.lean   (namespace EncodingRs.Spec.Enc).

Sources (see spec/PROVENANCE.md, section "Encoder-side reference data"):
  * gb18030 ranges        : SNAPSHOT of GB18030_RANGE_POINTERS / GB18030_RANGE_OFFSETS of src/data.rs
  * single-byte indexes   : SNAPSHOT of SINGLE_BYTE_DATA of src/data.rs (27 tables x 128)
  * GB18030-2022 overrides: SNAPSHOT of the 18 pairs of src/gb18030_2022.rs
  * ISO-2022-JP katakana  : RECONSTRUCTED from the last 63 lines of tests/test_data/iso_2022_jp_out.txt
                            / iso_2022_jp_out_ref.txt (written by generate-encoding-data.py from
                            indexes.json: code point U+FF61+i -> ESC $ B lead trail ESC ( B with
                            pointer = index jis0208 pointer of katakana[i]) through the vendored
                            index jis0208 (spec/index-jis0208.txt)
  * encode dumps          : tests/test_data/*_out.txt / *_out_ref.txt (code point -> bytes with the
                            Standard's pointer selection already applied by the generator)
"""
import os
import re
import sys

HERE = os.path.dirname(os.path.abspath(__file__))
ROOT = os.path.dirname(HERE)
sys.path.insert(0, HERE)
from gen_lean import emit_array, extract_static_arrays, strip_comments, find_matching, parse_array_body  # noqa: E402

REPO = sys.argv[1] if len(sys.argv) > 1 else "/repo"
TD = os.path.join(REPO, "tests", "test_data")
SPEC = os.path.join(ROOT, "spec")
MARKER = b"Instead, please regenerate using generate-encoding-data.py\n"


def body(path):
    data = open(os.path.join(TD, path), "rb").read()
    i = data.index(MARKER) + len(MARKER)
    return data[i:]


def read_index(name):
    """spec/index-<name>.txt (already vendored by tools/vendor_indexes.py) -> {pointer: code point}"""
    out = {}
    for line in open(os.path.join(SPEC, "index-%s.txt" % name), encoding="utf-8"):
        if line.startswith("#") or not line.strip():
            continue
        p, c = line.split("\t")
        out[int(p)] = int(c, 16)
    return out


data_rs = open(os.path.join(REPO, "src", "data.rs"), encoding="utf-8").read()
arrays = extract_static_arrays(strip_comments(data_rs))

# ---------------------------------------------------------------- gb18030 ranges (snapshot)
rp = arrays["GB18030_RANGE_POINTERS"][1]
ro = arrays["GB18030_RANGE_OFFSETS"][1]
assert len(rp) == len(ro)
# The Standard's index gb18030 ranges has 207 rows; its last row (pointer 189000 -> U+10000) is
# handled arithmetically by data.rs, as is row 0 (pointer 0 -> U+0080).
ranges = list(zip(rp, ro))
assert ranges == sorted(ranges) and ranges[0] == (0, 0x80), ranges[:2]
ranges.append((189000, 0x10000))
with open(os.path.join(SPEC, "index-gb18030-ranges.enc.txt"), "w") as f:
    f.write("# SNAPSHOT of GB18030_RANGE_POINTERS / GB18030_RANGE_OFFSETS (src/data.rs of the pinned tree) + the row 189000 -> U+10000; pointer<TAB>code point\n")
    for p, c in ranges:
        f.write("%d\t0x%04X\n" % (p, c))

# ---------------------------------------------------------------- single-byte (snapshot)
m = re.search(r"pub static SINGLE_BYTE_DATA: SingleByteData = SingleByteData \{", data_rs)
close = find_matching(data_rs, m.end() - 1, "{", "}")
sbody = strip_comments(data_rs[m.end():close])
sb = []
pos = 0
fre = re.compile(r"\s*([a-z0-9_]+)\s*:\s*\[")
while True:
    fm = fre.match(sbody, pos)
    if not fm:
        break
    open_idx = fm.end() - 1
    close_idx = find_matching(sbody, open_idx)
    vals = parse_array_body(sbody[open_idx + 1:close_idx], False)
    assert len(vals) == 128
    sb.append((fm.group(1), vals))
    pos = close_idx + 1
    cm = re.match(r"\s*,", sbody[pos:])
    if cm:
        pos += cm.end()
assert len(sb) == 27, len(sb)
with open(os.path.join(SPEC, "index-single-byte.enc.txt"), "w") as f:
    f.write("# SNAPSHOT of SINGLE_BYTE_DATA (src/data.rs of the pinned tree): index name, then 128 code points (pointer 0..127; 0 = no entry)\n")
    for name, vals in sb:
        f.write("%s\t%s\n" % (name, " ".join("0x%04X" % v for v in vals)))

# The Standard's name of each single-byte encoding -> its index (ISO-8859-8-I shares index ISO-8859-8).
SB_NAMES = [
    ("IBM866", "ibm866"), ("ISO-8859-2", "iso_8859_2"), ("ISO-8859-3", "iso_8859_3"), ("ISO-8859-4", "iso_8859_4"),
    ("ISO-8859-5", "iso_8859_5"), ("ISO-8859-6", "iso_8859_6"), ("ISO-8859-7", "iso_8859_7"), ("ISO-8859-8", "iso_8859_8"),
    ("ISO-8859-8-I", "iso_8859_8"), ("ISO-8859-10", "iso_8859_10"), ("ISO-8859-13", "iso_8859_13"),
    ("ISO-8859-14", "iso_8859_14"), ("ISO-8859-15", "iso_8859_15"), ("ISO-8859-16", "iso_8859_16"), ("KOI8-R", "koi8_r"),
    ("KOI8-U", "koi8_u"), ("macintosh", "macintosh"), ("windows-874", "windows_874"), ("windows-1250", "windows_1250"),
    ("windows-1251", "windows_1251"), ("windows-1252", "windows_1252"), ("windows-1253", "windows_1253"),
    ("windows-1254", "windows_1254"), ("windows-1255", "windows_1255"), ("windows-1256", "windows_1256"),
    ("windows-1257", "windows_1257"), ("windows-1258", "windows_1258"), ("x-mac-cyrillic", "x_mac_cyrillic"),
]
sbd = dict(sb)
assert all(n in sbd for _, n in SB_NAMES) and len({n for _, n in SB_NAMES}) == 27

# ---------------------------------------------------------------- GB18030-2022 encoder overrides (snapshot)
gb2022 = extract_static_arrays(strip_comments(open(os.path.join(REPO, "src", "gb18030_2022.rs"), encoding="utf-8").read()))
pua = gb2022["GB18030_2022_OVERRIDE_PUA"][1]
obytes = gb2022["GB18030_2022_OVERRIDE_BYTES"][1]
assert len(pua) == len(obytes) == 18
with open(os.path.join(SPEC, "gb18030-2022-encoder-overrides.txt"), "w") as f:
    f.write("# SNAPSHOT of src/gb18030_2022.rs (the table of step 5 of the Standard's gb18030 encoder): code point<TAB>lead trail\n")
    for c, (a, b) in zip(pua, obytes):
        f.write("0x%04X\t0x%02X 0x%02X\n" % (c, a, b))

# ---------------------------------------------------------------- encode dumps (code point -> bytes)


def dump(stem, strip_iso=False):
    ins = body(stem + "_out.txt").decode("utf-8").split("\n")[:-1]
    refs = body(stem + "_out_ref.txt").split(b"\n")[:-1]
    assert len(ins) == len(refs), (stem, len(ins), len(refs))
    out = []
    for c, r in zip(ins, refs):
        assert len(c) == 1, (stem, c)
        out.append((ord(c), bytes(r)))
    return out


dumps = {
    "big5": dump("big5"),
    "euc-kr": dump("euc_kr"),
    "gb18030": dump("gb18030"),
    "euc-jp": dump("jis0208"),
    "shift_jis": dump("shift_jis"),
    "iso-2022-jp": dump("iso_2022_jp"),
}
for name, d in dumps.items():
    with open(os.path.join(SPEC, "encode-dump-%s.txt" % name), "w") as f:
        f.write("# tests/test_data/*_out.txt + *_out_ref.txt of the pinned tree: code point (hex)<TAB>bytes (hex)\n")
        for c, bs in d:
            f.write("%x\t%s\n" % (c, bs.hex()))
    print("dump", name, len(d))

# ---------------------------------------------------------------- ISO-2022-JP katakana (reconstructed)
jis0208 = read_index("jis0208")
iso = dumps["iso-2022-jp"]
tail = iso[-63:]
kat = []
for i, (c, bs) in enumerate(tail):
    assert c == 0xFF61 + i, (i, hex(c))
    assert bs[:3] == b"\x1b$B" and bs[5:] == b"\x1b(B" and len(bs) == 8, bs
    pointer = (bs[3] - 0x21) * 94 + (bs[4] - 0x21)
    kat.append(jis0208[pointer])
# sanity: the well-known ends of the table (U+3002 ideographic full stop ... U+309C)
assert kat[0] == 0x3002 and kat[-1] == 0x309C and kat[0xFF71 - 0xFF61] == 0x30A2, [hex(x) for x in kat]
# the lines before the tail are the jis0208 part: none of them is a half-width katakana
assert all(not (0xFF61 <= c <= 0xFF9F) for c, _ in iso[:-63])
with open(os.path.join(SPEC, "index-iso-2022-jp-katakana.enc.txt"), "w") as f:
    f.write("# RECONSTRUCTED from tests/test_data/iso_2022_jp_out{,_ref}.txt (last 63 lines) through spec/index-jis0208.txt; pointer<TAB>code point\n")
    for p, c in enumerate(kat):
        f.write("%d\t0x%04X\n" % (p, c))

# ---------------------------------------------------------------- full index jis0208 (reconstructed)
# tools/vendor_indexes.py vendored only the 94*94 pointers of the EUC-JP / ISO-2022-JP view.  The Shift_JIS
# encoder needs the whole index (IBM extensions at pointers 10716..11103): shift_jis_in_ref.txt has one line
# per pointer of the whole index; pointers 8836..10715 (decoded arithmetically to U+E000.. by the Shift_JIS
# DECODER, they are not index entries) are stored as 0.
sj_ref = body("shift_jis_in_ref.txt").decode("utf-8").split("\n")[:-1]
full = []
for p, r in enumerate(sj_ref):
    if 8836 <= p <= 10715:
        assert r == chr(0xE000 - 8836 + p), (p, r)
        full.append(0)
    elif r.startswith("\uFFFD"):
        full.append(0)
    else:
        assert len(r) == 1, (p, r)
        full.append(ord(r))
assert len(full) == 11280 - 0 or len(full) > 8836, len(full)
for p in range(8836):
    assert full[p] == jis0208.get(p, 0), p
with open(os.path.join(SPEC, "index-jis0208-full.txt"), "w") as f:
    f.write("# RECONSTRUCTED from tests/test_data/shift_jis_in_ref.txt (whole index jis0208; equals index-jis0208.txt below pointer 8836); pointer<TAB>code point\n")
    for p, c in enumerate(full):
        if c:
            f.write("%d\t0x%04X\n" % (p, c))
print("jis0208 full", len(full), sum(1 for c in full if c))

# ---------------------------------------------------------------- Lean
lean = [
    "-- VENDORED reference data for the ENCODER side (see /verif/spec/PROVENANCE.md, section \"Encoder-side reference data\").\n"
    "-- Written by tools/vendor_indexes_enc.py; NOT regenerated from /repo by the checks.\n"
    "namespace EncodingRs.Spec.Enc\n"
]
lean.append("/-- index gb18030 ranges: pointers (207 rows, ascending) -/")
lean.append(emit_array("gb18030RangesPointers", [p for p, _ in ranges]))
lean.append("/-- index gb18030 ranges: code points of the rows -/")
lean.append(emit_array("gb18030RangesCodePoints", [c for _, c in ranges]))
lean.append("/-- the table of the gb18030 encoder (GB18030-2022): code points -/")
lean.append(emit_array("gb180302022CodePoints", pua))
lean.append("/-- the table of the gb18030 encoder (GB18030-2022): the two bytes as lead*256+trail -/")
lean.append(emit_array("gb180302022Bytes", [a * 256 + b for a, b in obytes]))
lean.append("/-- index jis0208, all %d pointers (0 = none); the Shift_JIS encoder needs the pointers above 8835 -/" % len(full))
lean.append(emit_array("indexJis0208Full", full))
lean.append("/-- index ISO-2022-JP katakana: pointer -> code point, 63 pointers -/")
lean.append(emit_array("indexIso2022JpKatakana", kat))
for name, vals in sb:
    lean.append("/-- index %s: pointer (byte - 0x80) -> code point, 0 = none -/" % name.replace("_", "-"))
    lean.append(emit_array("index_" + name, vals))
lean.append("/-- the single-byte encodings of the Standard (by name) and their index -/")
lean.append("def singleByteIndexes : List (String × Array Nat) := [%s]\n" % ", ".join('("%s", index_%s)' % (n, i) for n, i in SB_NAMES))
lean.append("end EncodingRs.Spec.Enc\n")
open(os.path.join(ROOT, "lean", "EncodingRs", "Spec", "IndexDataEnc.lean"), "w").write("\n".join(lean))
print("ranges", len(ranges), "single-byte", len(sb), "katakana", len(kat))
