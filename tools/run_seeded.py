#!/usr/bin/env python3
"""Run the checks against every seeded defect under /verif/seeded/.

For each seeded/<name>/: `git -C /repo apply patch.diff`, run `./check <P> --tier quick` for the property the
defect was written against (and any extra properties listed in meta.json "also_check"), record the verdicts, and
restore /repo with `git -C /repo checkout -- .` straight afterwards (also on error).  /repo must be clean before.
Writes seeded/results.json and seeded/RESULTS.md.  Nothing is ever committed to /repo.

  tools/run_seeded.py [name ...]        (default: all)
  tools/run_seeded.py --jobs N [name ...]
        development aid: the same, but each of N workers uses its own scratch worktree of /repo and its own copy of
        /verif under /tmp/seedrun-<k>/ (VERIF_REPO points the translator and the harness build at the worktree), so that
        several seeded defects are checked at once and /repo is never touched; scratch directories are removed at the end.
"""
import json, os, re, subprocess, sys, time

VERIF = os.path.dirname(os.path.dirname(os.path.abspath(__file__)))
REPO = "/repo"
# SEEDED_DIR=harmless: the same runner over /verif/harmless/<name>/ (behaviour-preserving refactorings: every check is
# expected to stay quiet; meta.json lists all 20 properties in "also_check")
SDIR = os.environ.get("SEEDED_DIR", "seeded")


def sh(cmd, cwd=None, timeout=7200):
    p = subprocess.run(cmd, cwd=cwd, stdout=subprocess.PIPE, stderr=subprocess.STDOUT, text=True, timeout=timeout)
    return p.returncode, p.stdout


def repo_clean():
    rc, out = sh(["git", "-C", REPO, "status", "--porcelain"])
    return out.strip() == ""


def run_isolated(names, jobs):
    import shutil, threading, queue
    respath = os.environ.get("SEEDED_RESULTS", os.path.join(VERIF, SDIR, "results.json"))
    results = json.load(open(respath)) if os.path.exists(respath) else {}
    q = queue.Queue()
    for n in names:
        q.put(n)
    lock = threading.Lock()

    def worker(k):
        base = "/tmp/seedrun-%d" % (k + int(os.environ.get("SEEDRUN_OFFSET", "0")))
        shutil.rmtree(base, ignore_errors=True)
        os.makedirs(base)
        wt = os.path.join(base, "repo")
        vf = os.path.join(base, "verif")
        sh(["git", "-C", REPO, "worktree", "add", "--detach", wt, "HEAD"])
        sh(["cp", "-a", VERIF, vf])
        shutil.rmtree(os.path.join(vf, "replays"), ignore_errors=True)
        try:
            while True:
                try:
                    name = q.get_nowait()
                except queue.Empty:
                    break
                d = os.path.join(VERIF, SDIR, name)
                if not os.path.exists(os.path.join(d, "meta.json")):
                    print(name, "does not exist; skipped", flush=True)
                    continue
                meta = json.load(open(os.path.join(d, "meta.json")))
                props = [meta["property"]] + meta.get("also_check", [])
                sh(["git", "-C", wt, "checkout", "--", "."])
                shutil.rmtree(os.path.join(wt, "fuzz"), ignore_errors=True)   # its path dependency does not exist here
                rc, out = sh(["git", "-C", wt, "apply", os.path.join(d, "patch.diff")])
                if rc != 0:
                    with lock:
                        results[name] = {"error": "patch does not apply"}
                    continue
                rec = {"property": meta["property"], "summary": meta.get("summary", ""), "checks": {}}
                for p in props:
                    t0 = time.time()
                    env = dict(os.environ, VERIF_REPO=wt)
                    pr = subprocess.run([os.path.join(vf, "check"), p, "--tier", "quick"], cwd=vf, stdout=subprocess.PIPE, stderr=subprocess.STDOUT, text=True, env=env)
                    out = pr.stdout
                    viol = [l for l in out.splitlines() if l.startswith("VIOLATION")]
                    kind = None
                    replay = None
                    if viol:
                        m = re.search(r"replay=(\S+)", viol[0])
                        if m and os.path.exists(m.group(1)):
                            rp = json.load(open(m.group(1)))
                            replay = {"kind": rp.get("kind"), "failing_inputs": rp.get("failing_inputs", [])[:2],
                                      "model_disagreements": [x[:300] for x in rp.get("model_disagreements", [])[:2]],
                                      "broken_obligations": [str(b.get("what", b))[:200] for b in rp.get("broken_obligations", [])[:3]]}
                            kind = rp.get("kind")
                    rec["checks"][p] = {"exit": pr.returncode, "violation": bool(viol), "no_failing_input_found": bool(viol) and viol[0].rstrip().endswith("no-failing-input-found"),
                                        "kind": kind, "replay": replay, "seconds": round(time.time() - t0, 1)}
                    print(name, p, "exit", pr.returncode, "VIOLATION" if viol else "missed", flush=True)
                rec["caught"] = any(c["violation"] for c in rec["checks"].values())
                with lock:
                    results[name] = rec
                    json.dump(results, open(respath, "w"), indent=1)
        finally:
            sh(["git", "-C", REPO, "worktree", "remove", "--force", wt])
            shutil.rmtree(base, ignore_errors=True)

    ts = [threading.Thread(target=worker, args=(k,)) for k in range(jobs)]
    for t in ts:
        t.start()
    for t in ts:
        t.join()
    return results


def write_md_harmless(results):
    lines = ["# Behaviour-preserving refactorings: do the checks stay quiet?", "",
             "Generated by `SEEDED_DIR=harmless tools/run_seeded.py` (quick tier, seed 1, all 20 checks per patch).", "",
             "| refactoring | what was changed | checks quiet | checks that reported |", "|---|---|---|---|"]
    for name in sorted(results):
        r = results[name]
        if "checks" not in r:
            continue
        loud = []
        for p, c in sorted(r["checks"].items()):
            if c["violation"] or c["exit"] != 0:
                rp = c.get("replay") or {}
                what = "; ".join(rp.get("broken_obligations") or []) or "; ".join(rp.get("model_disagreements") or []) or "; ".join(map(str, rp.get("failing_inputs") or [])) or "exit %s" % c["exit"]
                loud.append("%s%s: %s" % (p, " (no-failing-input-found)" if c["no_failing_input_found"] else "", what[:160]))
        quiet = sum(1 for c in r["checks"].values() if not c["violation"] and c["exit"] == 0)
        lines.append("| %s | %s | %d / %d | %s |" % (name, r["summary"].replace("|", "\\|")[:260], quiet, len(r["checks"]), "<br>".join(loud).replace("|", "\\|") or "none"))
    open(os.path.join(VERIF, SDIR, "RESULTS.md"), "w").write("\n".join(lines) + "\n")
    print("written %s/RESULTS.md" % SDIR)


def write_md(results):
    if SDIR != "seeded":
        return write_md_harmless(results)
    lines = ["# Seeded defects: which checks catch which changes", "",
             "Generated by `tools/run_seeded.py` (quick tier, seed 1). `input` = a concrete failing input / history was reported as the replay;",
             "`obligation` = only a proof obligation or the correspondence broke (`no-failing-input-found`).", "",
             "| seeded defect | property | what was changed | verdict | how |", "|---|---|---|---|---|"]
    for name in sorted(results):
        r = results[name]
        if "checks" not in r:
            continue
        hows = []
        for p, c in r["checks"].items():
            if c["violation"]:
                rp = c.get("replay") or {}
                how = []
                if rp.get("failing_inputs"):
                    how.append("oracle input")
                if rp.get("model_disagreements"):
                    how.append("model/impl disagreement")
                if rp.get("broken_obligations"):
                    how.append("broken obligation: " + "; ".join(rp["broken_obligations"])[:120])
                hows.append("%s: %s%s" % (p, ", ".join(how) or "violation", " (no-failing-input-found)" if c["no_failing_input_found"] else ""))
            else:
                hows.append("%s: not detected" % p)
        verdict = "caught" if r["caught"] else "**missed**"
        try:
            if json.load(open(os.path.join(VERIF, "seeded", name, "meta.json"))).get("out_of_contract") and not r["caught"]:
                verdict = "not reported: out of the documented contract (see meta.json)"
        except Exception:
            pass
        lines.append("| %s | %s | %s | %s | %s |" % (name, r["property"], r["summary"].replace("|", "\\|")[:220], verdict, "<br>".join(hows).replace("|", "\\|")))
    if "SEEDED_RESULTS" in os.environ:
        open(os.environ["SEEDED_RESULTS"] + ".md", "w").write("\n".join(lines) + "\n")
        return
    open(os.path.join(VERIF, "seeded", "RESULTS.md"), "w").write("\n".join(lines) + "\n")
    print("written seeded/RESULTS.md")


def main():
    if len(sys.argv) > 1 and sys.argv[1] == "--md":
        # only regenerate RESULTS.md from the stored results
        write_md(json.load(open(os.environ.get("SEEDED_RESULTS", os.path.join(VERIF, SDIR, "results.json")))))
        return
    if len(sys.argv) > 2 and sys.argv[1] == "--jobs":
        jobs = int(sys.argv[2])
        names = sys.argv[3:] or sorted(n for n in os.listdir(os.path.join(VERIF, SDIR)) if os.path.isfile(os.path.join(VERIF, SDIR, n, "patch.diff")))
        results = run_isolated(names, jobs)
        write_md(results)
        return
    names = sys.argv[1:] or sorted(n for n in os.listdir(os.path.join(VERIF, SDIR)) if os.path.isfile(os.path.join(VERIF, SDIR, n, "patch.diff")))
    respath = os.environ.get("SEEDED_RESULTS", os.path.join(VERIF, SDIR, "results.json"))
    results = json.load(open(respath)) if os.path.exists(respath) else {}
    if not repo_clean():
        print("/repo is not clean; refusing to run")
        sys.exit(2)
    for name in names:
        d = os.path.join(VERIF, SDIR, name)
        meta = json.load(open(os.path.join(d, "meta.json")))
        props = [meta["property"]] + meta.get("also_check", [])
        rc, out = sh(["git", "-C", REPO, "apply", os.path.join(d, "patch.diff")])
        if rc != 0:
            print(name, "patch does not apply:", out.strip()[:200])
            results[name] = {"error": "patch does not apply"}
            continue
        rec = {"property": meta["property"], "summary": meta.get("summary", ""), "checks": {}}
        try:
            for p in props:
                t0 = time.time()
                rc, out = sh([os.path.join(VERIF, "check"), p, "--tier", "quick"], cwd=VERIF)
                viol = [l for l in out.splitlines() if l.startswith("VIOLATION")]
                kind = None
                replay = None
                if viol:
                    m = re.search(r"replay=(\S+)", viol[0])
                    if m and os.path.exists(m.group(1)):
                        rp = json.load(open(m.group(1)))
                        replay = {"kind": rp.get("kind"), "failing_inputs": rp.get("failing_inputs", [])[:2],
                                  "model_disagreements": [x[:300] for x in rp.get("model_disagreements", [])[:2]],
                                  "broken_obligations": [str(b.get("what", b))[:200] for b in rp.get("broken_obligations", [])[:3]]}
                        kind = rp.get("kind")
                rec["checks"][p] = {"exit": rc, "violation": bool(viol), "no_failing_input_found": bool(viol) and viol[0].rstrip().endswith("no-failing-input-found"),
                                    "kind": kind, "replay": replay, "seconds": round(time.time() - t0, 1)}
                print(name, p, "exit", rc, "VIOLATION" if viol else "missed", viol[0][-40:] if viol else "", flush=True)
        finally:
            sh(["git", "-C", REPO, "checkout", "--", "."])
            sh(["git", "-C", REPO, "clean", "-fdq", "src/", "tests/"])
        rec["caught"] = any(c["violation"] for c in rec["checks"].values())
        results[name] = rec
        json.dump(results, open(respath, "w"), indent=1)
    # the generated files must follow the restored source again
    sh([sys.executable, os.path.join(VERIF, "tools", "gen_lean.py")], cwd=VERIF)
    write_md(results)


main()
