#!/usr/bin/env python3
"""Confirm seeded defects produced by a sub-agent, in a scratch worktree of /repo (never in /repo itself).

  tools/confirm_seeded.py <outdir with <id>_<n>/{patch.diff,demo.rs,meta.json}> <scratch worktree>

For each candidate: (1) patch applies to the pristine worktree, (2) the existing test suite passes with it,
(3) the demo test FAILS with it, (4) the demo passes without it.  Confirmed candidates are copied to
/verif/seeded/<id>_<n>/ with the confirmation record added to meta.json.
"""
import json, os, shutil, subprocess, sys

VERIF = os.path.dirname(os.path.dirname(os.path.abspath(__file__)))


def sh(cmd, cwd, timeout=3600):
    p = subprocess.run(cmd, cwd=cwd, stdout=subprocess.PIPE, stderr=subprocess.STDOUT, text=True, timeout=timeout,
                       env=dict(os.environ, CARGO_NET_OFFLINE="true"))
    return p.returncode, p.stdout


def clean(wt):
    sh(["git", "checkout", "--", "."], wt)
    sh(["git", "clean", "-fdq", "tests/", "src/"], wt)


def main():
    outdir, wt = sys.argv[1], sys.argv[2]
    res = {}
    for name in sorted(os.listdir(outdir)):
        d = os.path.join(outdir, name)
        if not os.path.isfile(os.path.join(d, "patch.diff")):
            continue
        clean(wt)
        rec = {"applies": False, "suite_passes": False, "demo_fails_on_mutant": False, "demo_passes_on_original": False}
        demo_name = "demo_" + name.lower()
        meta0 = json.load(open(os.path.join(d, "meta.json")))
        dc = meta0.get("demo_command", "")
        extra = []
        import re as _re
        m = _re.search(r"--features[ =]([A-Za-z0-9_,-]+)", dc)
        if m:
            extra = ["--features", m.group(1)]
        cargo = ["cargo", "+nightly"] if "+nightly" in dc else ["cargo"]
        demo_path = os.path.join(wt, "tests", demo_name + ".rs")
        # (4) demo on the original
        shutil.copy(os.path.join(d, "demo.rs"), demo_path)
        rc, out = sh(cargo + ["test", "--offline", "--test", demo_name] + extra, wt)
        rec["demo_passes_on_original"] = rc == 0
        os.remove(demo_path)
        # (1) apply
        rc, out = sh(["git", "apply", os.path.join(d, "patch.diff")], wt)
        rec["applies"] = rc == 0
        if rc == 0:
            # (2) the suite
            rc, out = sh(["cargo", "test", "--workspace", "--no-fail-fast", "--offline"], wt)
            rec["suite_passes"] = rc == 0
            rec["suite_tail"] = [l for l in out.splitlines() if l.startswith("test result")]
            # (3) demo on the mutant
            shutil.copy(os.path.join(d, "demo.rs"), demo_path)
            rc, out = sh(cargo + ["test", "--offline", "--test", demo_name] + extra, wt)
            rec["demo_fails_on_mutant"] = rc != 0
            rec["demo_cargo"] = " ".join(cargo + ["test", "--offline", "--test", demo_name] + extra)
            os.remove(demo_path)
        clean(wt)
        ok = all(rec[k] for k in ("applies", "suite_passes", "demo_fails_on_mutant", "demo_passes_on_original"))
        rec["confirmed"] = ok
        res[name] = rec
        print(name, "CONFIRMED" if ok else "REJECTED", json.dumps({k: v for k, v in rec.items() if k != "suite_tail"}), flush=True)
        if ok:
            dst = os.path.join(VERIF, "seeded", name)
            os.makedirs(dst, exist_ok=True)
            shutil.copy(os.path.join(d, "patch.diff"), dst)
            shutil.copy(os.path.join(d, "demo.rs"), dst)
            meta = json.load(open(os.path.join(d, "meta.json")))
            meta["confirmed_by_framework_author"] = {k: v for k, v in rec.items()}
            meta["base_commit"] = subprocess.run(["git", "rev-parse", "HEAD"], cwd=wt, stdout=subprocess.PIPE, text=True).stdout.strip()
            json.dump(meta, open(os.path.join(dst, "meta.json"), "w"), indent=1)
    json.dump(res, open(os.path.join(outdir, "confirm.json"), "w"), indent=1)


main()
