#!/usr/bin/env python3
"""Writes /verif/MANIFEST.json from tools/props.py (keeps the two consistent)."""
import json
import os
import sys

HERE = os.path.dirname(os.path.abspath(__file__))
sys.path.insert(0, HERE)
from props import PROPS, NOT_APPLICABLE, MANIFEST_TEXT  # noqa: E402

checks = []
for pid in sorted(PROPS):
    t = MANIFEST_TEXT[pid]
    checks.append(
        {
            "property_id": pid,
            "quick_cmd": "./check %s --tier quick" % pid,
            "thorough_cmd": "./check %s --tier thorough" % pid,
            "evidence_file": "/verif/evidence/%s.json" % pid,
            "replay_cmd_template": "./check %s --replay {path}" % pid,
            "engine": "lean4-proof+correspondence",
            "level_claimed": {"category": "proof", "text": t["text"], "design_ref": t["design_ref"]},
            "level_note": t["note"],
            "technique": t["technique"],
        }
    )
manifest = {
    "version": 1,
    "setup_cmd": "./setup",
    "hooks": {
        "guard": "cargo feature hsivonen_encoding_rs_verif",
        "enable": "the harness crate (/verif/harness) depends on /repo with features = [\"hsivonen_encoding_rs_verif\"]",
        "baseline_off_cmd": "cd /repo && cargo test --workspace --no-fail-fast --offline",
        "source_commits": ["121be0c"],
        "add_only": True,
    },
    "engines": [
        {
            "name": "lean4-proof+correspondence",
            "path": "/verif/check",
            "serves_properties": sorted(PROPS),
            "kind_free_text": "Lean 4 theorems about a formal model (lean/EncodingRs/Thm), data and formulas regenerated from /repo/src by tools/gen_lean.py on every run, hand-modelled control logic tied to the code by a differential correspondence run (Rust harness calling the crate in-process vs compiled Lean model driver), property oracles in the harness for the failing-input search",
        }
    ],
    "checks": checks,
    "not_applicable": [{"property_id": k, "reason": v} for k, v in sorted(NOT_APPLICABLE.items())],
    "notes": "See DESIGN.md. known findings: /verif/known_findings.json. Replays are written to /verif/replays/.",
}
json.dump(manifest, open(os.path.join(HERE, "..", "MANIFEST.json"), "w"), indent=1)
print("MANIFEST.json: %d checks, %d not_applicable" % (len(checks), len(manifest["not_applicable"])))
