#!/usr/bin/env python3
"""Model-mutation audit: would the correspondence run notice a wrong hand model?

    tools/model_mutants.py --mutants tools/mutants_decoders.py --tag round1 [--only id,id,…] [--jobs N] [--procs P]
                           [--ops 'work/mm_*.ops'] [--out notes/model_mutants_decoders.json]
                           [--md notes/MODEL-MUTANTS-decoders.md]

For every mutant (file, exact old text, new text, id, note) of the list:
  1. apply it to the Lean MODEL file (the old text must occur exactly once);
  2. `lake build modeldrv` (only the driver executable: Model/ + Driver/, never the proofs);
     a mutant that does not compile is recorded as `nocompile` and not counted;
  3. run the mutated driver over all operation files (work/mm_*.ops, produced beforehand from the
     UNCHANGED code by the real harness) and count the DIFF lines per file;
  4. restore the file (always, also on error / interrupt).
A mutant with at least one DIFF (or a driver crash / timeout) is `killed`, one without is `survived`.

Results are kept per `--tag` (e.g. round1 = generators as found, round2 = after strengthening) in the JSON
file; the markdown table is regenerated from the JSON on every run.  `--jobs N` runs N mutants at a time,
each in its own copy of the lean/ directory (work/mmw<i>/lean); `--procs P` is the total number of driver
processes.  The operation lines are de-duplicated across the files (several properties share generators
and seeds), `mem` and `encchar` lines are left out (Model/Mem.lean, Model/EncFam.lean import no decoder-side
file), `enc` / `oneshotenc` / `specdec` lines (phase 3) are run only for mutants of Core, Data, Meta, OneShot,
MaxLen (the only mutated files the encoder models and the transcribed specification import), and the rest is
cut into chunks (work/mm_chunks/).  The lines that occur only in the largest file (C11, 340 k one-shot lines)
are run in two phases: every 12th with everything else, the remaining ones only for mutants that nothing has killed
yet — so for a killed mutant the C11 count may come from the 1/12 sample (`phases` = [1] in the JSON), while
SURVIVED always means: no DIFF on any line of any file.
"""
import argparse
import concurrent.futures as cf
import glob
import json
import os
import shutil
import subprocess
import sys
import threading
import time

VERIF = os.path.dirname(os.path.dirname(os.path.abspath(__file__)))
WORK = os.path.join(VERIF, "work")
CHUNK_BYTES = 8 << 20


def load_mutants(path):
    g = {}
    exec(compile(open(path, encoding="utf-8").read(), path, "exec"), g)
    ms = g["MUTANTS"]
    ids = set()
    for m in ms:
        for k in ("id", "file", "old", "new", "note"):
            if k not in m:
                raise SystemExit("mutant without %s: %r" % (k, m))
        if m["id"] in ids:
            raise SystemExit("duplicate mutant id " + m["id"])
        ids.add(m["id"])
        if m["old"] == m["new"]:
            raise SystemExit("mutant %s does not change anything" % m["id"])
    return ms


ENC_KINDS = (b"enc ", b"oneshotenc ", b"specdec ")
# model files whose mutants can change the answer to an encoder-side / spec line
ENC_RELEVANT = ("Core.lean", "Data.lean", "Meta.lean", "OneShot.lean", "MaxLen.lean")


def make_chunks(patterns, sample_every=12):
    """The operation lines of all files, each DISTINCT line once (several properties share generators and
    seeds, e.g. C08 / C18), without the `mem` lines (Model/Mem.lean does not import any decoder-side file).
    -> (file names, [(phase, chunk path, masks)]) where masks[i] = bit set of the files line i+1 of the chunk
    occurs in.  Phase 2 = the lines that occur only in the largest file (mm_C11.ops) except every
    `sample_every`-th of them; phase 2 is run only for mutants without a DIFF in phase 1."""
    import hashlib
    import pickle
    cdir = os.path.join(WORK, "mm_chunks")
    os.makedirs(cdir, exist_ok=True)
    files = []
    for pat in patterns:
        files += sorted(glob.glob(os.path.join(VERIF, pat)))
    names = [os.path.basename(f) for f in files]
    want = " ".join("%s:%d:%d" % (n, os.path.getsize(f), int(os.path.getmtime(f))) for n, f in zip(names, files)) + " every=%d v3" % sample_every
    stamp = os.path.join(cdir, "stamp")
    idx = os.path.join(cdir, "index.pickle")
    if os.path.exists(stamp) and open(stamp).read() == want and os.path.exists(idx):
        names2, chunks = pickle.load(open(idx, "rb"))
        if all(os.path.exists(c[1]) for c in chunks):
            return names2, chunks
    for pth in glob.glob(os.path.join(cdir, "p[123].*")):
        os.remove(pth)
    big = max(range(len(files)), key=lambda i: os.path.getsize(files[i])) if files else 0
    seen = {}  # digest -> index into lines
    lines = []
    masks = []
    for fi, f in enumerate(files):
        with open(f, "rb") as fh:
            for line in fh:
                if line.startswith(b"mem ") or line.startswith(b"encchar") or not line.strip():
                    continue
                d = hashlib.blake2b(line, digest_size=12).digest()
                j = seen.get(d)
                if j is None:
                    seen[d] = len(lines)
                    lines.append(line)
                    masks.append(1 << fi)
                else:
                    masks[j] |= 1 << fi
    del seen
    p1, p2, p3 = [], [], []
    k = 0
    for i, m in enumerate(masks):
        if lines[i].startswith(ENC_KINDS):
            p3.append(i)
        elif m == (1 << big):
            k += 1
            (p1 if k % sample_every == 0 else p2).append(i)
        else:
            p1.append(i)
    chunks = []
    for phase, sel in ((1, p1), (2, p2), (3, p3)):
        total = sum(len(lines[i]) for i in sel)
        nchunks = max(1, (total + CHUNK_BYTES - 1) // CHUNK_BYTES)
        # round-robin so that every chunk gets the same mix of cheap and expensive lines
        for c in range(nchunks):
            part = sel[c::nchunks]
            path = os.path.join(cdir, "p%d.%02d" % (phase, c))
            with open(path, "wb") as fh:
                for i in part:
                    fh.write(lines[i])
            chunks.append((phase, path, [masks[i] for i in part]))
    pickle.dump((names, chunks), open(idx, "wb"))
    open(stamp, "w").write(want)
    return names, chunks


def run_chunk(drv, path, timeout):
    t0 = time.time()
    try:
        with open(path) as f:
            p = subprocess.run([drv], stdin=f, stdout=subprocess.PIPE, stderr=subprocess.STDOUT, text=True, timeout=timeout, errors="replace")
        out = p.stdout
        crashed = "STAT lines=" not in out
        why = "crash" if crashed else ""
    except subprocess.TimeoutExpired as ex:
        out = ex.stdout or ""
        if isinstance(out, bytes):
            out = out.decode("utf-8", "replace")
        crashed, why = True, "timeout"
    diffs = []
    bad = 0
    sample = None
    for line in out.splitlines():
        if line.startswith("DIFF "):
            try:
                diffs.append(int(line.split(" ", 2)[1]))
            except ValueError:
                diffs.append(0)
            if sample is None or len(line) < len(sample):
                sample = line
        elif line.startswith("BAD "):
            bad += 1
    return {"diffs": diffs, "bad": bad, "crashed": why if crashed else "", "sample": sample, "tail": out[-300:] if crashed else "", "s": time.time() - t0}


def short_sample(line, limit=420):
    if line is None:
        return None
    # DIFF n <op line> :: model=<…>  — keep the head of the op line and the model's answer
    if " :: model=" in line:
        lhs, rhs = line.rsplit(" :: model=", 1)
        if len(lhs) > limit:
            lhs = lhs[: limit // 2] + " … " + lhs[-limit // 2 :]
        return lhs + " :: model=" + rhs[:200]
    return line[:limit]


class Worker:
    def __init__(self, idx):
        self.idx = idx
        if idx == 0:
            self.lean = os.path.join(VERIF, "lean")
        else:
            self.lean = os.path.join(WORK, "mmw%d" % idx, "lean")
            src = os.path.join(VERIF, "lean")
            os.makedirs(os.path.dirname(self.lean), exist_ok=True)
            # refresh the copy (sources and build products) from the main directory
            subprocess.run(["rsync", "-a", "--delete", src + "/", self.lean + "/"], check=True)
        self.drv = os.path.join(self.lean, ".lake", "build", "bin", "modeldrv")

    def build(self):
        t0 = time.time()
        p = subprocess.run(["lake", "build", "modeldrv"], cwd=self.lean, stdout=subprocess.PIPE, stderr=subprocess.STDOUT, text=True, timeout=3600)
        return p.returncode == 0, p.stdout, time.time() - t0


def run_mutant(w, m, names, chunks, pool, timeout):
    path = os.path.join(w.lean, m["file"])
    orig = open(path, encoding="utf-8").read()
    res = {"id": m["id"], "file": m["file"], "note": m["note"], "old": m["old"], "new": m["new"]}
    if "equivalent" in m:
        res["equivalent"] = m["equivalent"]
    n = orig.count(m["old"])
    if n != 1:
        res["status"] = "badmutant"
        res["detail"] = "old text occurs %d times" % n
        return res
    try:
        open(path, "w", encoding="utf-8").write(orig.replace(m["old"], m["new"]))
        ok, out, bs = w.build()
        res["build_s"] = round(bs, 1)
        if not ok:
            res["status"] = "nocompile"
            errs = [l for l in out.splitlines() if l.startswith("error:")]
            res["detail"] = " | ".join(errs[:3])[:600]
            return res
        t0 = time.time()
        per = {}
        sample = None
        crashed = []
        bad = 0
        phases_run = []
        # phase 3 = encoder-side and specification lines: only for mutants of files they can depend on
        enc_rel = m["file"].endswith(ENC_RELEVANT)
        for phase in ((3, 1, 2) if enc_rel else (1, 2)):
            if phase == 2 and (per or crashed or bad):
                break
            sel = [c for c in chunks if c[0] == phase]
            if not sel:
                continue
            phases_run.append(phase)
            futs = [(c, pool.submit(run_chunk, w.drv, c[1], timeout)) for c in sel]
            for c, f in futs:
                r = f.result()
                for n in r["diffs"]:
                    m = c[2][n - 1] if 0 < n <= len(c[2]) else 0
                    for fi, name in enumerate(names):
                        if m & (1 << fi):
                            per[name] = per.get(name, 0) + 1
                bad += r["bad"]
                if r["crashed"]:
                    crashed.append("%s: %s %s" % (os.path.basename(c[1]), r["crashed"], r["tail"][-120:].replace("\n", " ")))
                if r["sample"] and (sample is None or len(r["sample"]) < len(sample)):
                    sample = r["sample"]
        res["run_s"] = round(time.time() - t0, 1)
        res["phases"] = phases_run
        res["diffs"] = {k: v for k, v in sorted(per.items()) if v}
        res["total_diffs"] = sum(per.values())
        res["bad"] = bad
        if crashed:
            res["crashed"] = crashed[:4]
        res["sample"] = short_sample(sample)
        res["status"] = "killed" if (res["total_diffs"] or crashed or bad) else "survived"
        return res
    finally:
        open(path, "w", encoding="utf-8").write(orig)


def md_escape(s):
    return s.replace("|", "\\|").replace("\n", " ⏎ ")


def write_md(data, md_path, mutants_order, eqv=None):
    """eqv: id -> reason, from the CURRENT mutant list (it overrides what was stored with a result)"""
    if eqv is not None:
        for rs in data["results"].values():
            for mid, r in rs.items():
                r.pop("equivalent", None)
                if mid in eqv:
                    r["equivalent"] = eqv[mid]
    tags = data.get("tags", [])
    lines = []
    lines.append("# Model-mutation audit — decoder-side hand models")
    lines.append("")
    lines.append("Generated by `tools/model_mutants.py` from `%s`; raw data in `%s`." % (data.get("mutants_file", "?"), os.path.basename(data.get("json", "model_mutants_decoders.json"))))
    lines.append("Operation files: quick tier, seed 1, of " + ", ".join(data.get("ops", [])) + " (real harness on the UNCHANGED code).")
    lines.append("")
    for t in tags:
        rs = data["results"].get(t, {})
        counted = [r for r in rs.values() if r["status"] in ("killed", "survived") and "equivalent" not in r]
        killed = [r for r in counted if r["status"] == "killed"]
        surv = [r for r in counted if r["status"] == "survived"]
        eq = [r for r in rs.values() if "equivalent" in r]
        nc = [r for r in rs.values() if r["status"] == "nocompile"]
        lines.append("* **%s**: %d mutants run, %d counted (%d killed, %d survived), %d not counted as equivalent / unobservable by design, %d did not compile (discarded)%s" % (
            t, len(rs), len(counted), len(killed), len(surv), len(eq), len(nc), (" — " + data.get("tag_notes", {}).get(t, "")) if data.get("tag_notes", {}).get(t) else ""))
    lines.append("")
    lines.append("Column *killed by*: DIFF lines per operation file (`mm_Cxx.ops`); `SURVIVED` = no DIFF anywhere.")
    lines.append("")
    head = "| id | file | change | " + " | ".join(tags) + " |"
    lines.append(head)
    lines.append("|---|---|---|" + "---|" * len(tags))
    for mid in mutants_order:
        row = None
        cells = []
        for t in tags:
            r = data["results"].get(t, {}).get(mid)
            if r is None:
                cells.append("–")
                continue
            row = r
            if r["status"] == "killed":
                c = ", ".join("%s:%d" % (k.replace("mm_", "").replace(".ops", ""), v) for k, v in r.get("diffs", {}).items())
                if r.get("crashed"):
                    c += " (driver crash/timeout: %s)" % r["crashed"][0][:60]
                cells.append(c or "killed")
            elif r["status"] == "survived":
                cells.append("**SURVIVED**" if "equivalent" not in r else "survived (not counted)")
            elif r["status"] == "nocompile":
                cells.append("does not compile (discarded)")
            else:
                cells.append(r["status"] + ": " + r.get("detail", ""))
        if row is None:
            continue
        note = row["note"]
        if "equivalent" in row:
            note += " — *not counted*: " + row["equivalent"]
        change = "`%s` → `%s`" % (md_escape(row["old"].strip())[:90], md_escape(row["new"].strip())[:90])
        lines.append("| %s | %s | %s<br>%s | %s |" % (mid, row["file"].replace("EncodingRs/Model/", ""), md_escape(note), change, " | ".join(cells)))
    lines.append("")
    open(md_path, "w", encoding="utf-8").write("\n".join(lines) + "\n")


def main():
    ap = argparse.ArgumentParser()
    ap.add_argument("--mutants", default="tools/mutants_decoders.py")
    ap.add_argument("--tag", default="round1")
    ap.add_argument("--tag-note", default=None)
    ap.add_argument("--only", default=None)
    ap.add_argument("--status", default=None, help="only mutants whose status under --from-tag is this (e.g. survived)")
    ap.add_argument("--from-tag", default="round1")
    ap.add_argument("--jobs", type=int, default=1)
    ap.add_argument("--procs", type=int, default=10)
    ap.add_argument("--timeout", type=int, default=900)
    ap.add_argument("--ops", default="work/mm_*.ops")
    ap.add_argument("--out", default="notes/model_mutants_decoders.json")
    ap.add_argument("--md", default="notes/MODEL-MUTANTS-decoders.md")
    ap.add_argument("--md-only", action="store_true")
    a = ap.parse_args()

    mutants = load_mutants(os.path.join(VERIF, a.mutants))
    out_path = os.path.join(VERIF, a.out)
    data = json.load(open(out_path)) if os.path.exists(out_path) else {"tags": [], "results": {}}
    data["mutants_file"] = a.mutants
    data["json"] = a.out
    order = [m["id"] for m in mutants]
    eqv = {m["id"]: m["equivalent"] for m in mutants if "equivalent" in m}
    if a.md_only:
        write_md(data, os.path.join(VERIF, a.md), order, eqv)
        json.dump(data, open(out_path, "w"), indent=1, ensure_ascii=False)
        return
    sel = mutants
    if a.only:
        want = set(a.only.split(","))
        sel = [m for m in mutants if m["id"] in want]
        missing = want - {m["id"] for m in sel}
        if missing:
            raise SystemExit("unknown mutant ids: " + ",".join(sorted(missing)))
    if a.status:
        prev = data["results"].get(a.from_tag, {})
        sel = [m for m in sel if prev.get(m["id"], {}).get("status") == a.status]
    if a.tag not in data["tags"]:
        data["tags"].append(a.tag)
    if a.tag_note:
        data.setdefault("tag_notes", {})[a.tag] = a.tag_note
    data["results"].setdefault(a.tag, {})
    names, chunks = make_chunks([a.ops])
    data["ops"] = names
    if not chunks:
        raise SystemExit("no operation files match " + a.ops)
    print("corpus: " + ", ".join("%d distinct lines in phase %d (%d chunks)" % (
        sum(len(c[2]) for c in chunks if c[0] == ph), ph, len([c for c in chunks if c[0] == ph])) for ph in (1, 2, 3)), flush=True)

    # the sources must be pristine
    st = subprocess.run(["git", "status", "--porcelain", "lean/EncodingRs/Model", "lean/Driver"], cwd=VERIF, stdout=subprocess.PIPE, text=True).stdout
    if st.strip():
        raise SystemExit("lean/EncodingRs/Model or lean/Driver has uncommitted changes:\n" + st)

    workers = [Worker(i) for i in range(a.jobs)]
    # baseline of every worker: unchanged model, 0 diffs
    pool = cf.ThreadPoolExecutor(max_workers=a.procs)
    for w in workers:
        ok, out, _ = w.build()
        if not ok:
            raise SystemExit("baseline build failed in %s:\n%s" % (w.lean, out[-2000:]))
    t0 = time.time()
    base = [f.result() for f in [pool.submit(run_chunk, workers[0].drv, c[1], a.timeout) for c in chunks]]
    bd = sum(len(r["diffs"]) for r in base)
    bc = [r for r in base if r["crashed"] or r["bad"]]
    print("baseline: %d chunks, %d diffs, %d crashed/bad, %.0fs" % (len(chunks), bd, len(bc), time.time() - t0), flush=True)
    data["baseline"] = {"diffs": bd, "crashed": len(bc), "samples": [short_sample(r["sample"]) for r in base if r["sample"]][:5]}
    if bd or bc:
        json.dump(data, open(out_path, "w"), indent=1, ensure_ascii=False)
        raise SystemExit("baseline is not clean: a DIFF on the UNCHANGED model is a model/code discrepancy — see " + out_path)

    lock = threading.Lock()
    todo = list(sel)
    done = [0]

    stop = threading.Event()
    import signal
    signal.signal(signal.SIGTERM, lambda *_: stop.set())
    signal.signal(signal.SIGINT, lambda *_: stop.set())

    def work(w):
        while True:
            with lock:
                if not todo or stop.is_set():
                    return
                m = todo.pop(0)
            try:
                r = run_mutant(w, m, names, chunks, pool, a.timeout)
            except Exception as ex:  # noqa: BLE001
                r = {"id": m["id"], "file": m["file"], "note": m["note"], "old": m["old"], "new": m["new"], "status": "error", "detail": repr(ex)[:300]}
            with lock:
                data["results"][a.tag][m["id"]] = r
                done[0] += 1
                print("[%d/%d] %-28s %-10s %s %s" % (done[0], len(sel), m["id"], r["status"], json.dumps(r.get("diffs", {})), r.get("detail", "")[:160]), flush=True)
                json.dump(data, open(out_path, "w"), indent=1, ensure_ascii=False)

    threads = [threading.Thread(target=work, args=(w,)) for w in workers]
    try:
        for t in threads:
            t.start()
        for t in threads:
            t.join()
    finally:
        # leave the main lean directory with the unchanged driver
        ok, out, _ = workers[0].build()
        if not ok:
            print("WARNING: final rebuild of the unchanged driver failed:\n" + out[-1000:])
    json.dump(data, open(out_path, "w"), indent=1, ensure_ascii=False)
    write_md(data, os.path.join(VERIF, a.md), order, eqv)
    json.dump(data, open(out_path, "w"), indent=1, ensure_ascii=False)
    rs = data["results"][a.tag]
    cnt = {}
    for r in rs.values():
        key = r["status"] + ("(eq)" if "equivalent" in r else "")
        cnt[key] = cnt.get(key, 0) + 1
    print("summary %s: %s" % (a.tag, cnt))
    shutil.rmtree(os.path.join(WORK, "mm_tmp"), ignore_errors=True)


if __name__ == "__main__":
    main()
