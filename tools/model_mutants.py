#!/usr/bin/env python3
"""Model-mutation audit: would the correspondence run notice a wrong hand model?

    tools/model_mutants.py --mutants tools/mutants_decoders.py --tag round1 [--only id,id,…] [--jobs N] [--procs P]
                           [--ops 'work/mm_*.ops'] [--out notes/model_mutants_decoders.json]
                           [--md notes/MODEL-MUTANTS-decoders.md]

For every mutant (file, exact old text, new text, id, note) of the list:
  1. apply it to the Lean MODEL file (the old text must occur exactly once);
  2. `lake build modeldrv` (only the driver executable: Model/ + Driver/, never the proofs);
     a mutant that does not compile is recorded as `nocompile` and not counted;
  3. run the mutated driver over all operation files (work/mm_*.ops, produced beforehand from the
     UNCHANGED code by the real harness) and count the DIFF lines per file;
  4. restore the file (always, also on error / interrupt).
A mutant with at least one DIFF (or a driver crash / timeout) is `killed`, one without is `survived`.

Results are kept per `--tag` (e.g. round1 = generators as found, round2 = after strengthening) in the JSON
file; the markdown table is regenerated from the JSON on every run.  `--jobs N` runs N mutants at a time,
each in its own copy of the lean/ directory (work/mmw<i>/lean); `--procs P` is the total number of driver
processes.  The operation files are split into line chunks (work/mm_chunks/) so that a single large file
does not serialise the run.
"""
import argparse
import concurrent.futures as cf
import glob
import json
import os
import shutil
import subprocess
import sys
import threading
import time

VERIF = os.path.dirname(os.path.dirname(os.path.abspath(__file__)))
WORK = os.path.join(VERIF, "work")
CHUNK_BYTES = 24 << 20


def load_mutants(path):
    g = {}
    exec(compile(open(path, encoding="utf-8").read(), path, "exec"), g)
    ms = g["MUTANTS"]
    ids = set()
    for m in ms:
        for k in ("id", "file", "old", "new", "note"):
            if k not in m:
                raise SystemExit("mutant without %s: %r" % (k, m))
        if m["id"] in ids:
            raise SystemExit("duplicate mutant id " + m["id"])
        ids.add(m["id"])
        if m["old"] == m["new"]:
            raise SystemExit("mutant %s does not change anything" % m["id"])
    return ms


def make_chunks(patterns):
    """-> [(ops name, chunk path)]; chunks are line-aligned pieces of about CHUNK_BYTES"""
    cdir = os.path.join(WORK, "mm_chunks")
    os.makedirs(cdir, exist_ok=True)
    out = []
    files = []
    for pat in patterns:
        files += sorted(glob.glob(os.path.join(VERIF, pat)))
    for f in files:
        name = os.path.basename(f)
        size = os.path.getsize(f)
        k = max(1, (size + CHUNK_BYTES - 1) // CHUNK_BYTES)
        stamp = os.path.join(cdir, name + ".stamp")
        want = "%d %d %d" % (size, int(os.path.getmtime(f)), k)
        have = open(stamp).read() if os.path.exists(stamp) else ""
        paths = [os.path.join(cdir, "%s.%02d" % (name, i)) for i in range(k)]
        if have != want or not all(os.path.exists(p) for p in paths):
            for p in glob.glob(os.path.join(cdir, name + ".[0-9][0-9]")):
                os.remove(p)
            subprocess.run(["split", "-n", "l/%d" % k, "-d", "-a", "2", f, os.path.join(cdir, name + ".")], check=True)
            open(stamp, "w").write(want)
        out += [(name, p) for p in paths]
    # big chunks first (better packing)
    out.sort(key=lambda x: -os.path.getsize(x[1]))
    return out


def run_chunk(drv, name, path, timeout):
    t0 = time.time()
    try:
        with open(path) as f:
            p = subprocess.run([drv], stdin=f, stdout=subprocess.PIPE, stderr=subprocess.STDOUT, text=True, timeout=timeout, errors="replace")
        out = p.stdout
        crashed = "STAT lines=" not in out
        why = "crash" if crashed else ""
    except subprocess.TimeoutExpired as ex:
        out = ex.stdout or ""
        if isinstance(out, bytes):
            out = out.decode("utf-8", "replace")
        crashed, why = True, "timeout"
    diffs = 0
    bad = 0
    sample = None
    for line in out.splitlines():
        if line.startswith("DIFF "):
            diffs += 1
            if sample is None:
                sample = line
        elif line.startswith("BAD "):
            bad += 1
    return {"name": name, "diffs": diffs, "bad": bad, "crashed": why if crashed else "", "sample": sample, "tail": out[-300:] if crashed else "", "s": time.time() - t0}


def short_sample(line, limit=420):
    if line is None:
        return None
    # DIFF n <op line> :: model=<…>  — keep the head of the op line and the model's answer
    if " :: model=" in line:
        lhs, rhs = line.rsplit(" :: model=", 1)
        if len(lhs) > limit:
            lhs = lhs[: limit // 2] + " … " + lhs[-limit // 2 :]
        return lhs + " :: model=" + rhs[:200]
    return line[:limit]


class Worker:
    def __init__(self, idx):
        self.idx = idx
        if idx == 0:
            self.lean = os.path.join(VERIF, "lean")
        else:
            self.lean = os.path.join(WORK, "mmw%d" % idx, "lean")
            src = os.path.join(VERIF, "lean")
            os.makedirs(os.path.dirname(self.lean), exist_ok=True)
            # refresh the copy (sources and build products) from the main directory
            subprocess.run(["rsync", "-a", "--delete", src + "/", self.lean + "/"], check=True)
        self.drv = os.path.join(self.lean, ".lake", "build", "bin", "modeldrv")

    def build(self):
        t0 = time.time()
        p = subprocess.run(["lake", "build", "modeldrv"], cwd=self.lean, stdout=subprocess.PIPE, stderr=subprocess.STDOUT, text=True, timeout=3600)
        return p.returncode == 0, p.stdout, time.time() - t0


def run_mutant(w, m, chunks, pool, timeout):
    path = os.path.join(w.lean, m["file"])
    orig = open(path, encoding="utf-8").read()
    res = {"id": m["id"], "file": m["file"], "note": m["note"], "old": m["old"], "new": m["new"]}
    if "equivalent" in m:
        res["equivalent"] = m["equivalent"]
    n = orig.count(m["old"])
    if n != 1:
        res["status"] = "badmutant"
        res["detail"] = "old text occurs %d times" % n
        return res
    try:
        open(path, "w", encoding="utf-8").write(orig.replace(m["old"], m["new"]))
        ok, out, bs = w.build()
        res["build_s"] = round(bs, 1)
        if not ok:
            res["status"] = "nocompile"
            errs = [l for l in out.splitlines() if l.startswith("error:")]
            res["detail"] = " | ".join(errs[:3])[:600]
            return res
        t0 = time.time()
        futs = [pool.submit(run_chunk, w.drv, name, p, timeout) for name, p in chunks]
        per = {}
        sample = None
        crashed = []
        bad = 0
        for f in futs:
            r = f.result()
            per[r["name"]] = per.get(r["name"], 0) + r["diffs"]
            bad += r["bad"]
            if r["crashed"]:
                crashed.append("%s: %s %s" % (r["name"], r["crashed"], r["tail"][-120:].replace("\n", " ")))
            if r["sample"] and (sample is None or len(r["sample"]) < len(sample)):
                sample = r["sample"]
        res["run_s"] = round(time.time() - t0, 1)
        res["diffs"] = {k: v for k, v in sorted(per.items()) if v}
        res["total_diffs"] = sum(per.values())
        res["bad"] = bad
        if crashed:
            res["crashed"] = crashed[:4]
        res["sample"] = short_sample(sample)
        res["status"] = "killed" if (res["total_diffs"] or crashed or bad) else "survived"
        return res
    finally:
        open(path, "w", encoding="utf-8").write(orig)


def md_escape(s):
    return s.replace("|", "\\|").replace("\n", " ⏎ ")


def write_md(data, md_path, mutants_order):
    tags = data.get("tags", [])
    lines = []
    lines.append("# Model-mutation audit — decoder-side hand models")
    lines.append("")
    lines.append("Generated by `tools/model_mutants.py` from `%s`; raw data in `%s`." % (data.get("mutants_file", "?"), os.path.basename(data.get("json", "model_mutants_decoders.json"))))
    lines.append("Operation files: quick tier, seed 1, of " + ", ".join(data.get("ops", [])) + " (real harness on the UNCHANGED code).")
    lines.append("")
    for t in tags:
        rs = data["results"].get(t, {})
        counted = [r for r in rs.values() if r["status"] in ("killed", "survived") and "equivalent" not in r]
        killed = [r for r in counted if r["status"] == "killed"]
        surv = [r for r in counted if r["status"] == "survived"]
        eq = [r for r in rs.values() if "equivalent" in r]
        nc = [r for r in rs.values() if r["status"] == "nocompile"]
        lines.append("* **%s**: %d mutants run, %d counted (%d killed, %d survived), %d not counted as equivalent / unobservable by design, %d did not compile (discarded)%s" % (
            t, len(rs), len(counted), len(killed), len(surv), len(eq), len(nc), (" — " + data.get("tag_notes", {}).get(t, "")) if data.get("tag_notes", {}).get(t) else ""))
    lines.append("")
    lines.append("Column *killed by*: DIFF lines per operation file (`mm_Cxx.ops`); `SURVIVED` = no DIFF anywhere.")
    lines.append("")
    head = "| id | file | change | " + " | ".join(tags) + " |"
    lines.append(head)
    lines.append("|---|---|---|" + "---|" * len(tags))
    for mid in mutants_order:
        row = None
        cells = []
        for t in tags:
            r = data["results"].get(t, {}).get(mid)
            if r is None:
                cells.append("–")
                continue
            row = r
            if r["status"] == "killed":
                c = ", ".join("%s:%d" % (k.replace("mm_", "").replace(".ops", ""), v) for k, v in r.get("diffs", {}).items())
                if r.get("crashed"):
                    c += " (driver crash/timeout: %s)" % r["crashed"][0][:60]
                cells.append(c or "killed")
            elif r["status"] == "survived":
                cells.append("**SURVIVED**" if "equivalent" not in r else "survived (not counted)")
            elif r["status"] == "nocompile":
                cells.append("does not compile (discarded)")
            else:
                cells.append(r["status"] + ": " + r.get("detail", ""))
        if row is None:
            continue
        note = row["note"]
        if "equivalent" in row:
            note += " — *not counted*: " + row["equivalent"]
        change = "`%s` → `%s`" % (md_escape(row["old"].strip())[:90], md_escape(row["new"].strip())[:90])
        lines.append("| %s | %s | %s<br>%s | %s |" % (mid, row["file"].replace("EncodingRs/Model/", ""), md_escape(note), change, " | ".join(cells)))
    lines.append("")
    open(md_path, "w", encoding="utf-8").write("\n".join(lines) + "\n")


def main():
    ap = argparse.ArgumentParser()
    ap.add_argument("--mutants", default="tools/mutants_decoders.py")
    ap.add_argument("--tag", default="round1")
    ap.add_argument("--tag-note", default=None)
    ap.add_argument("--only", default=None)
    ap.add_argument("--status", default=None, help="only mutants whose status under --from-tag is this (e.g. survived)")
    ap.add_argument("--from-tag", default="round1")
    ap.add_argument("--jobs", type=int, default=1)
    ap.add_argument("--procs", type=int, default=10)
    ap.add_argument("--timeout", type=int, default=900)
    ap.add_argument("--ops", default="work/mm_*.ops")
    ap.add_argument("--out", default="notes/model_mutants_decoders.json")
    ap.add_argument("--md", default="notes/MODEL-MUTANTS-decoders.md")
    ap.add_argument("--md-only", action="store_true")
    a = ap.parse_args()

    mutants = load_mutants(os.path.join(VERIF, a.mutants))
    out_path = os.path.join(VERIF, a.out)
    data = json.load(open(out_path)) if os.path.exists(out_path) else {"tags": [], "results": {}}
    data["mutants_file"] = a.mutants
    data["json"] = a.out
    order = [m["id"] for m in mutants]
    if a.md_only:
        write_md(data, os.path.join(VERIF, a.md), order)
        return
    sel = mutants
    if a.only:
        want = set(a.only.split(","))
        sel = [m for m in mutants if m["id"] in want]
        missing = want - {m["id"] for m in sel}
        if missing:
            raise SystemExit("unknown mutant ids: " + ",".join(sorted(missing)))
    if a.status:
        prev = data["results"].get(a.from_tag, {})
        sel = [m for m in sel if prev.get(m["id"], {}).get("status") == a.status]
    if a.tag not in data["tags"]:
        data["tags"].append(a.tag)
    if a.tag_note:
        data.setdefault("tag_notes", {})[a.tag] = a.tag_note
    data["results"].setdefault(a.tag, {})
    chunks = make_chunks([a.ops])
    data["ops"] = sorted({n for n, _ in chunks})
    if not chunks:
        raise SystemExit("no operation files match " + a.ops)

    # the sources must be pristine
    st = subprocess.run(["git", "status", "--porcelain", "lean/EncodingRs/Model", "lean/Driver"], cwd=VERIF, stdout=subprocess.PIPE, text=True).stdout
    if st.strip():
        raise SystemExit("lean/EncodingRs/Model or lean/Driver has uncommitted changes:\n" + st)

    workers = [Worker(i) for i in range(a.jobs)]
    # baseline of every worker: unchanged model, 0 diffs
    pool = cf.ThreadPoolExecutor(max_workers=a.procs)
    for w in workers:
        ok, out, _ = w.build()
        if not ok:
            raise SystemExit("baseline build failed in %s:\n%s" % (w.lean, out[-2000:]))
    t0 = time.time()
    base = [f.result() for f in [pool.submit(run_chunk, workers[0].drv, n, p, a.timeout) for n, p in chunks]]
    bd = sum(r["diffs"] for r in base)
    bc = [r for r in base if r["crashed"] or r["bad"]]
    print("baseline: %d chunks, %d diffs, %d crashed/bad, %.0fs" % (len(chunks), bd, len(bc), time.time() - t0), flush=True)
    data["baseline"] = {"diffs": bd, "crashed": len(bc), "samples": [short_sample(r["sample"]) for r in base if r["sample"]][:5]}
    if bd or bc:
        json.dump(data, open(out_path, "w"), indent=1, ensure_ascii=False)
        raise SystemExit("baseline is not clean: a DIFF on the UNCHANGED model is a model/code discrepancy — see " + out_path)

    lock = threading.Lock()
    todo = list(sel)
    done = [0]

    def work(w):
        while True:
            with lock:
                if not todo:
                    return
                m = todo.pop(0)
            try:
                r = run_mutant(w, m, chunks, pool, a.timeout)
            except Exception as ex:  # noqa: BLE001
                r = {"id": m["id"], "file": m["file"], "note": m["note"], "old": m["old"], "new": m["new"], "status": "error", "detail": repr(ex)[:300]}
            with lock:
                data["results"][a.tag][m["id"]] = r
                done[0] += 1
                print("[%d/%d] %-28s %-10s %s %s" % (done[0], len(sel), m["id"], r["status"], json.dumps(r.get("diffs", {})), r.get("detail", "")[:160]), flush=True)
                json.dump(data, open(out_path, "w"), indent=1, ensure_ascii=False)

    threads = [threading.Thread(target=work, args=(w,)) for w in workers]
    try:
        for t in threads:
            t.start()
        for t in threads:
            t.join()
    finally:
        # leave the main lean directory with the unchanged driver
        ok, out, _ = workers[0].build()
        if not ok:
            print("WARNING: final rebuild of the unchanged driver failed:\n" + out[-1000:])
    json.dump(data, open(out_path, "w"), indent=1, ensure_ascii=False)
    write_md(data, os.path.join(VERIF, a.md), order)
    rs = data["results"][a.tag]
    cnt = {}
    for r in rs.values():
        key = r["status"] + ("(eq)" if "equivalent" in r else "")
        cnt[key] = cnt.get(key, 0) + 1
    print("summary %s: %s" % (a.tag, cnt))
    shutil.rmtree(os.path.join(WORK, "mm_tmp"), ignore_errors=True)


if __name__ == "__main__":
    main()
