#!/usr/bin/env python3
"""One-off vendoring script (NOT run by the checks): turns /verif/spec/*.tsv
reference data into static Lean files under lean/EncodingRs/Spec/."""
import sys
def bl(s): return "[" + ", ".join(str(ord(c)) for c in s) + "]"
rows = [l.rstrip("\n").split("\t") for l in open('/verif/spec/labels.tsv')]
names = [l.rstrip("\n") for l in open('/verif/spec/names.txt')]
with open('/verif/lean/EncodingRs/Spec/LabelData.lean', 'w') as f:
    f.write("-- VENDORED reference data (see /verif/spec/PROVENANCE.md): WHATWG Encoding Standard labels -> encoding name.\n-- Written by tools/vendor_spec.py from /verif/spec/labels.tsv; NOT regenerated from /repo by the checks.\nnamespace EncodingRs.Spec\n\n")
    f.write("/-- (label bytes, encoding-name bytes), in the order of spec/labels.tsv -/\ndef labelTable : List (List Nat × List Nat) := [\n")
    f.write(",\n".join("  (%s, %s)" % (bl(l), bl(n)) for l, n in rows))
    f.write("\n]\n\n/-- the 40 encoding names -/\ndef encodingNames : List (List Nat) := [\n")
    f.write(",\n".join("  %s" % bl(n) for n in names))
    f.write("\n]\n\nend EncodingRs.Spec\n")
