#!/usr/bin/env python3
"""One-off vendoring script (NOT run by the checks): the reference data of the
Encoding Standard that tools/vendor_indexes.py could not reconstruct from
tests/test_data.

  spec/index-gb18030-ranges.txt       207 (pointer, code point) pairs
  spec/index-single-byte.txt          27 indexes x 128 entries, keyed by the Standard's encoding name
  spec/index-iso-2022-jp-katakana.txt 63 entries
  spec/index-jis0208-tail.txt         index jis0208 pointers 8836..11279 (the first vendoring stopped at 94*94)
  lean/EncodingRs/Spec/IndexData2.lean

Sources (see spec/PROVENANCE.md): the first two are SNAPSHOTS of src/data.rs of
the pinned tree (the only copy on this machine) taken when the framework was
built; the third is reconstructed from tests/test_data/iso_2022_jp_out*.txt.
After vendoring the checks never read /repo for this data again.

usage: tools/vendor_indexes2.py [REPO [VERIF]]     (defaults /repo /verif)
"""
import codecs
import os
import re
import sys

HERE = os.path.dirname(os.path.abspath(__file__))
sys.path.insert(0, HERE)
from gen_lean import lean_nat_list  # noqa: E402

REPO = sys.argv[1] if len(sys.argv) > 1 else "/repo"
VERIF = sys.argv[2] if len(sys.argv) > 2 else os.path.dirname(HERE)
SPEC = os.path.join(VERIF, "spec")

data = open(os.path.join(REPO, "src", "data.rs"), encoding="utf-8").read()


def ints(body):
    return [int(t, 0) for t in re.findall(r"0x[0-9A-Fa-f]+|\b[0-9]+\b", body)]


def static_array(name):
    m = re.search(r"static %s: \[u(?:8|16|32); (\d+)\] = \[(.*?)\];" % name, data, re.S)
    vals = ints(m.group(2))
    assert len(vals) == int(m.group(1)), name
    return vals


# ---------------------------------------------------------------- gb18030 ranges
ptrs = static_array("GB18030_RANGE_POINTERS")
offs = static_array("GB18030_RANGE_OFFSETS")
assert len(ptrs) == len(offs) == 206
assert ptrs == sorted(ptrs) and offs == sorted(offs) and ptrs[0] == 0 and offs[0] == 0x80
# generate-encoding-data.py drops the last pair of the Standard's index because it
# does not fit in u16 ("if pair[1] == 0x10000: break"); the Standard's index ends
# with 189000 -> U+10000 (the astral range handled by arithmetic in gb18030.rs).
ranges = list(zip(ptrs, offs)) + [(189000, 0x10000)]
assert len(ranges) == 207
with open(os.path.join(SPEC, "index-gb18030-ranges.txt"), "w") as f:
    f.write("# index gb18030 ranges: snapshot of GB18030_RANGE_POINTERS/GB18030_RANGE_OFFSETS of the pinned src/data.rs\n"
            "# plus the final pair 189000 -> 0x10000 of the Standard; pointer<TAB>code point\n")
    for p, c in ranges:
        f.write("%d\t0x%04X\n" % (p, c))

# ---------------------------------------------------------------- single-byte
NAMES = {
    "ibm866": "IBM866", "iso_8859_2": "ISO-8859-2", "iso_8859_3": "ISO-8859-3", "iso_8859_4": "ISO-8859-4",
    "iso_8859_5": "ISO-8859-5", "iso_8859_6": "ISO-8859-6", "iso_8859_7": "ISO-8859-7", "iso_8859_8": "ISO-8859-8",
    "iso_8859_10": "ISO-8859-10", "iso_8859_13": "ISO-8859-13", "iso_8859_14": "ISO-8859-14",
    "iso_8859_15": "ISO-8859-15", "iso_8859_16": "ISO-8859-16", "koi8_r": "KOI8-R", "koi8_u": "KOI8-U",
    "macintosh": "macintosh", "windows_874": "windows-874", "windows_1250": "windows-1250",
    "windows_1251": "windows-1251", "windows_1252": "windows-1252", "windows_1253": "windows-1253",
    "windows_1254": "windows-1254", "windows_1255": "windows-1255", "windows_1256": "windows-1256",
    "windows_1257": "windows-1257", "windows_1258": "windows-1258", "x_mac_cyrillic": "x-mac-cyrillic",
}
m = re.search(r"pub static SINGLE_BYTE_DATA: SingleByteData = SingleByteData \{(.*?)\n\};", data, re.S)
single = []
for fm in re.finditer(r"([a-z0-9_]+): \[(.*?)\],", m.group(1), re.S):
    vals = ints(fm.group(2))
    assert len(vals) == 128, fm.group(1)
    single.append((NAMES[fm.group(1)], vals))
assert len(single) == 27 and len(set(n for n, _ in single)) == 27

# cross-check against CPython's codecs (independent vendor tables); differences are listed in PROVENANCE.md
PY = {
    "IBM866": "cp866", "ISO-8859-2": "iso8859-2", "ISO-8859-3": "iso8859-3", "ISO-8859-4": "iso8859-4",
    "ISO-8859-5": "iso8859-5", "ISO-8859-6": "iso8859-6", "ISO-8859-7": "iso8859-7", "ISO-8859-8": "iso8859-8",
    "ISO-8859-10": "iso8859-10", "ISO-8859-13": "iso8859-13", "ISO-8859-14": "iso8859-14",
    "ISO-8859-15": "iso8859-15", "ISO-8859-16": "iso8859-16", "KOI8-R": "koi8-r", "KOI8-U": "koi8-u",
    "macintosh": "mac-roman", "windows-874": "cp874", "windows-1250": "cp1250", "windows-1251": "cp1251",
    "windows-1252": "cp1252", "windows-1253": "cp1253", "windows-1254": "cp1254", "windows-1255": "cp1255",
    "windows-1256": "cp1256", "windows-1257": "cp1257", "windows-1258": "cp1258", "x-mac-cyrillic": "mac-cyrillic",
}
diff_lines = []
for name, vals in single:
    for i, v in enumerate(vals):
        try:
            py = ord(bytes([0x80 + i]).decode(PY[name]))
        except UnicodeDecodeError:
            py = 0
        if py != v:
            diff_lines.append("%s 0x%02X: snapshot U+%04X, CPython %s %s" % (name, 0x80 + i, v, PY[name], ("U+%04X" % py) if py else "undefined"))
with open(os.path.join(SPEC, "index-single-byte.txt"), "w") as f:
    f.write("# the 27 single-byte indexes: snapshot of SINGLE_BYTE_DATA of the pinned src/data.rs (0 = no entry)\n"
            "# name<TAB>128 code points for pointers 0..127 (bytes 0x80..0xFF)\n")
    for name, vals in single:
        f.write("%s\t%s\n" % (name, " ".join("0x%04X" % v for v in vals)))
with open(os.path.join(SPEC, "index-single-byte.cpython-diff.txt"), "w") as f:
    f.write("# entries where the snapshot differs from CPython %d.%d's codec of the same family (%d entries)\n" % (sys.version_info[0], sys.version_info[1], len(diff_lines)))
    f.write("\n".join(diff_lines) + "\n")

# ---------------------------------------------------------------- ISO-2022-JP katakana
# generate-encoding-data.py (lines ~1777-1785 of the pinned tree) wrote, after the jis0208 dump, one line per
# entry i of index ISO-2022-JP katakana: ESC $ B <lead> <trail> ESC ( B with (lead-0x21)*94+(trail-0x21) =
# the jis0208 pointer of the entry's code point, and U+FF61+i in the other file.
TD = os.path.join(REPO, "tests", "test_data")
marker = b"Instead, please regenerate using generate-encoding-data.py\n"


def body(path):
    d = open(os.path.join(TD, path), "rb").read()
    return d[d.index(marker) + len(marker):]


ref = body("iso_2022_jp_out_ref.txt").split(b"\n")[:-1]
out = body("iso_2022_jp_out.txt").decode("utf-8").split("\n")[:-1]
assert len(ref) == len(out)
jis0208 = {}
for line in open(os.path.join(SPEC, "index-jis0208.txt")):
    if line.startswith("#"):
        continue
    p, c = line.split("\t")
    jis0208[int(p)] = int(c, 16)
kat = []
for r, o in zip(ref[-63:], out[-63:]):
    assert r[:3] == b"\x1b$B" and r[5:] == b"\x1b(B" and len(r) == 8, r
    assert ord(o) == 0xFF61 + len(kat), (o, len(kat))
    kat.append(jis0208[(r[3] - 0x21) * 94 + (r[4] - 0x21)])
assert len(kat) == 63 and kat[:7] == [0x3002, 0x300C, 0x300D, 0x3001, 0x30FB, 0x30F2, 0x30A1], kat[:7]
# cross-check with the implementation's own derived table
trail = static_array("ISO_2022_JP_HALF_WIDTH_TRAIL")
inv = {}
for p, c in sorted(jis0208.items()):
    inv.setdefault(c, p)
assert [inv[c] % 94 + 0x21 for c in kat] == trail
with open(os.path.join(SPEC, "index-iso-2022-jp-katakana.txt"), "w") as f:
    f.write("# index ISO-2022-JP katakana, reconstructed from the last 63 lines of tests/test_data/iso_2022_jp_out*.txt; pointer<TAB>code point\n")
    for i, c in enumerate(kat):
        f.write("%d\t0x%04X\n" % (i, c))

# ---------------------------------------------------------------- index jis0208, pointers 8836..11279
# tools/vendor_indexes.py took index jis0208 from jis0208_in*.txt, which stops at 94*94 = 8836 (what EUC-JP and
# ISO-2022-JP can address).  The index goes on to pointer 11103 (IBM extensions 10716..11103, reachable from
# Shift_JIS leads 0xFA..0xFC); shift_jis_in*.txt dumps every pointer of the index: line p of the reference file is
# the code point, or U+FFFD (followed by the trail byte when it is ASCII) for "no entry"; pointers 8836..10715 are
# not index entries (the Shift_JIS decoder maps them to U+E000.. by arithmetic) and the dump shows that arithmetic.
sj_in = body("shift_jis_in.txt").split(b"\n")[:-1]
sj_ref = body("shift_jis_in_ref.txt").decode("utf-8").split("\n")[:-1]
assert len(sj_in) == len(sj_ref) == 11280, (len(sj_in), len(sj_ref))  # 60 leads x 188 trails, null-padded after pointer 11103
full = []
for p, r in enumerate(sj_ref):
    lead, trail = divmod(p, 188)
    lead += 0x81 if lead < 0x1F else 0xC1
    trail += 0x40 if trail < 0x3F else 0x41
    assert sj_in[p] == bytes([lead, trail]), p
    if 8836 <= p <= 10715:
        assert ord(r) == 0xE000 - 8836 + p, p
        full.append(0)
    elif r.startswith("\ufffd"):
        assert r == "\ufffd" + (chr(trail) if trail < 0x80 else ""), (p, r)
        full.append(0)
    else:
        assert len(r) == 1, (p, r)
        full.append(ord(r))
assert all(full[p] == jis0208.get(p, 0) for p in range(8836)), "shift_jis dump disagrees with the vendored index jis0208"
jis_tail = full[8836:]
with open(os.path.join(SPEC, "index-jis0208-tail.txt"), "w") as f:
    f.write("# index jis0208, pointers 8836..11279, reconstructed from tests/test_data/shift_jis_in*.txt; pointer<TAB>code point (unmapped omitted)\n")
    for i, c in enumerate(jis_tail):
        if c:
            f.write("%d\t0x%04X\n" % (8836 + i, c))

# ---------------------------------------------------------------- Lean
L = ["-- VENDORED reference data (see /verif/spec/PROVENANCE.md). Written by tools/vendor_indexes2.py; NOT regenerated",
     "-- from /repo by the checks.  gb18030 ranges and the single-byte indexes are snapshots of the pinned src/data.rs.",
     "namespace EncodingRs.Spec", ""]
L.append("/-- index gb18030 ranges: (pointer, code point), 207 pairs in ascending order -/")
L.append("def indexGb18030Ranges : List (Nat × Nat) := [%s]" % ", ".join("(%d, %d)" % pc for pc in ranges))
L.append("")
L.append("/-- the single-byte indexes by name of the encoding: pointer (byte - 0x80) -> code point, 0 = no entry -/")
L.append("def singleByteIndexes : List (String × Array Nat) := [")
L.append(",\n".join('  ("%s", #%s)' % (n, lean_nat_list(v)) for n, v in single))
L.append("]")
L.append("")
L.append("/-- index jis0208, pointers 8836..11279 (entry i is pointer 8836 + i; 0 = no entry); `indexJis0208` holds 0..8835 -/")
L.append("def indexJis0208Tail : Array Nat := #%s" % lean_nat_list(jis_tail))
L.append("")
L.append("/-- index ISO-2022-JP katakana (used by the encoder only): pointer -> code point -/")
L.append("def indexIso2022JpKatakana : Array Nat := #%s" % lean_nat_list(kat))
L.append("")
L.append("end EncodingRs.Spec")
open(os.path.join(VERIF, "lean", "EncodingRs", "Spec", "IndexData2.lean"), "w").write("\n".join(L) + "\n")
print("gb18030 ranges: %d pairs; single-byte: %d indexes, %d entries differ from CPython; katakana: %d; jis0208 tail: %d pointers, %d mapped" % (len(ranges), len(single), len(diff_lines), len(kat), len(jis_tail), sum(1 for c in jis_tail if c)))
