#!/usr/bin/env python3
"""model_mutants_b_try.py <mutant id> <ops file>...  : build the mutated driver (this working copy), run it on the files, print DIFF samples, restore"""
import os, subprocess, sys
sys.path.insert(0, os.path.dirname(os.path.abspath(__file__)))
import model_mutants_b as mm
muts = {m["id"]: m for m in mm.load_mutants()}
m = muts[sys.argv[1]]
path = os.path.join(mm.LEAN, m["file"])
orig = open(path, encoding="utf-8").read()
try:
    open(path, "w", encoding="utf-8").write(mm.apply_mutation(orig, m["old"], m["new"], m.get("nth")))
    ok, errs = mm.build_driver()
    if not ok:
        print("no-compile", errs)
    else:
        for f in sys.argv[2:]:
            p = subprocess.run("%s < %s | grep -E '^(DIFF|BAD|STAT)' | cut -c1-300 | awk 'NR<=6 || /^STAT/'" % (mm.DRV, f), shell=True, stdout=subprocess.PIPE, text=True)
            print(f, "::", p.stdout.strip())
finally:
    open(path, "w", encoding="utf-8").write(orig)
