#!/usr/bin/env python3
"""Boundary values from the source: every integer / char literal of /repo/src/*.rs (outside data.rs and the
`mod tests` sections) in 0x01..=0x10FFFF, with its two neighbours.  The harness generators add these scalar values
(and, below 0x100, bytes) to their class alphabets, so that an off-by-one in a comparison constant is exercised at
exactly the value where it matters.  Output: one `<hex value> <file>` per line."""
import os, re, sys


def main():
    repo = sys.argv[1] if len(sys.argv) > 1 else "/repo"
    src = os.path.join(repo, "src")
    found = {}
    for fn in sorted(os.listdir(src)):
        if not fn.endswith(".rs") or fn in ("data.rs", "test_labels_names.rs"):
            continue
        text = open(os.path.join(src, fn), encoding="utf-8", errors="replace").read()
        m = re.search(r"\nmod tests\b", text)
        if m:
            text = text[: m.start()]
        text = re.sub(r"//[^\n]*", "", text)
        vals = set()
        for m in re.finditer(r"\b0x([0-9A-Fa-f_]+)(?:u8|u16|u32|usize|i32)?\b", text):
            try:
                vals.add(int(m.group(1).replace("_", ""), 16))
            except ValueError:
                pass
        for m in re.finditer(r"(?<![\w.])([0-9][0-9_]*)(?:u8|u16|u32|usize|i32)?\b", text):
            try:
                vals.add(int(m.group(1).replace("_", "")))
            except ValueError:
                pass
        for m in re.finditer(r"\\u\{([0-9A-Fa-f]+)\}", text):
            vals.add(int(m.group(1), 16))
        for v in vals:
            for w in (v - 1, v, v + 1):
                if 0x01 <= w <= 0x10FFFF:
                    found.setdefault(w, set()).add(fn)
    for v in sorted(found):
        print("%x %s" % (v, ",".join(sorted(found[v]))))


main()
