#!/usr/bin/env python3
"""Import behaviour-preserving refactorings written by sub-agents (/tmp/hr-<X>-out/<k>/{patch.diff,description.txt})
into /verif/harmless/<X><k>/ with a meta.json that asks for all 20 checks.  usage: import_harmless.py X k [X k ...]"""
import json, os, shutil, sys
VERIF = os.path.dirname(os.path.dirname(os.path.abspath(__file__)))
ALL = ["C%02d" % i for i in range(1, 21)]
a = sys.argv[1:]
for x, k in zip(a[0::2], a[1::2]):
    src = "/tmp/hr-%s-out/%s" % (x, k)
    dst = os.path.join(VERIF, "harmless", "%s%s" % (x, k))
    os.makedirs(dst, exist_ok=True)
    shutil.copy(os.path.join(src, "patch.diff"), dst)
    desc = open(os.path.join(src, "description.txt")).read()
    shutil.copy(os.path.join(src, "description.txt"), dst)
    first = next((l.strip() for l in desc.splitlines() if l.strip()), "")
    files = sorted({l.split(" b/")[1].strip() for l in open(os.path.join(src, "patch.diff")) if l.startswith("diff --git")})
    json.dump({"property": ALL[0], "also_check": ALL[1:], "kind": "behaviour-preserving refactoring", "files": files,
               "summary": first[:300]}, open(os.path.join(dst, "meta.json"), "w"), indent=1)
    print("imported", dst, files)
