"""Mutant list of tools/model_mutants_b.py (encoder-side, mem, validator, classifier, label models and the
executable specification used by the `specenc` / `label` driver operations).

Each entry: id, file (relative to lean/), old (exact text, must occur once unless nth is given), new, note,
optional nth (0-based occurrence), optional equivalent (reason why the mutant cannot change any observable
result: such mutants are listed but not counted)."""

MUTANTS = []

EF = "EncodingRs/Model/EncFam.lean"
DE = "EncodingRs/Model/DataEnc.lean"
EN = "EncodingRs/Model/Encoder.lean"
UN = "EncodingRs/Model/Unicode.lean"
OS = "EncodingRs/Model/OneShot.lean"
LB = "EncodingRs/Model/Label.lean"
VA = "EncodingRs/Model/Valid.lean"
ME = "EncodingRs/Model/Mem.lean"
BI = "EncodingRs/Model/Bidi.lean"
SS = "EncodingRs/Model/StrSink.lean"
MT = "EncodingRs/Model/Meta.lean"
ML = "EncodingRs/Model/MaxLen.lean"
SE = "EncodingRs/Spec/Encode.lean"
SL = "EncodingRs/Spec/Label.lean"


def M(id, file, old, new, note, nth=None, equivalent=None):
    d = {"id": id, "file": file, "old": old, "new": new, "note": note}
    if nth is not None:
        d["nth"] = nth
    if equivalent:
        d["equivalent"] = equivalent
    MUTANTS.append(d)


# ---------------------------------------------------------------------------------------------
# Model/EncFam.lean + Model/DataEnc.lean : single-byte, x-user-defined, UTF-8

M("SB01", EF, "  if c < 0x80 then some [c]\n  else if c > 0xFFFF then none\n  else\n    match singleByteEncodeU16",
  "  if c < 0x7F then some [c]\n  else if c > 0xFFFF then none\n  else\n    match singleByteEncodeU16",
  "single-byte: ASCII branch `c < 0x80` -> `c < 0x7F` (U+007F goes to the table search)")
M("SB02", DE, "if offset < runLength then some (u8 (128 + runByteOffset + offset))",
  "if offset ≤ runLength then some (u8 (128 + runByteOffset + offset))",
  "single-byte run: `offset < run_length` -> `<=` (one character past the run is mapped)")
M("SB03", DE, "some (u8 (128 + runByteOffset + offset))", "some (u8 (127 + runByteOffset + offset))",
  "single-byte run: byte offset 128 -> 127")
M("SB04", DE, "let offset := wsubU codeUnit runBmpOffset", "let offset := wsubU codeUnit (runBmpOffset + 1)",
  "single-byte run: run_bmp_offset + 1")
M("SB05", DE, "  let tailStart := runByteOffset + runLength\n", "  let tailStart := runByteOffset + runLength + 1\n",
  "single-byte: tail search starts one entry late (first entry after the run is lost)")
M("SB06", DE, "| some pos => some (u8 ((128 + 64) + pos))", "| some pos => some (u8 ((128 + 63) + pos))",
  "single-byte: `[64..run_byte_offset)` search adds 128+63")
M("SB07", DE, "      match positionIn table 0 32 codeUnit with", "      match positionIn table 1 32 codeUnit with",
  "single-byte: C1 range search `[0..32)` -> `[1..32)` (position is relative: every hit shifts by one and 0x80 is lost)")
M("SB08", DE, "        match positionIn table 32 runByteOffset codeUnit with\n        | some pos => some (u8 ((128 + 32) + pos))",
  "        match positionIn table 32 runByteOffset codeUnit with\n        | some pos => some (u8 ((128 + 33) + pos))",
  "single-byte (run_byte_offset < 64): `[32..run_byte_offset)` search adds 128+33")

M("UD01", EF, "  if c ≤ 0x7F then some [c]\n  else if ¬ (0xF780 ≤ c", "  if c ≤ 0x7E then some [c]\n  else if ¬ (0xF780 ≤ c",
  "x-user-defined: ASCII `c <= 0x7F` -> `<= 0x7E`")
M("UD02", EF, "¬ (0xF780 ≤ c ∧ c ≤ 0xF7FF)", "¬ (0xF781 ≤ c ∧ c ≤ 0xF7FF)", "x-user-defined: lower bound U+F780 -> U+F781")
M("UD03", EF, "¬ (0xF780 ≤ c ∧ c ≤ 0xF7FF)", "¬ (0xF780 ≤ c ∧ c ≤ 0xF7FE)", "x-user-defined: upper bound U+F7FF -> U+F7FE")
M("UD04", EF, "some [u8 (c - 0xF700)]", "some [u8 (c - 0xF701)]", "x-user-defined: offset 0xF700 -> 0xF701")

M("U801", EF, "need := fun _ c => (encodeUtf8 c).length }", "need := fun _ c => (encodeUtf8 c).length - 1 }",
  "UTF-8 encoder: space asked for = length - 1 (a stop with length-1 bytes free is no longer admissible)")
M("U802", UN, "  else if c < 0x800 then [0xC0 + c / 64, 0x80 + c % 64]", "  else if c < 0x801 then [0xC0 + c / 64, 0x80 + c % 64]",
  "encodeUtf8: two-byte bound 0x800 -> 0x801")
M("U803", UN, "  else if c < 0x10000 then [0xE0 + c / 4096", "  else if c < 0x10001 then [0xE0 + c / 4096",
  "encodeUtf8: three-byte bound 0x10000 -> 0x10001")

# ---------------------------------------------------------------------------------------------
# Big5

M("B501", EF, "  let trail := if remainder < 0x3F then remainder + 0x40 else remainder + 0x62\n  [u8 lead, u8 trail]",
  "  let trail := if remainder ≤ 0x3F then remainder + 0x40 else remainder + 0x62\n  [u8 lead, u8 trail]",
  "Big5 bytes of pointer: trail boundary `remainder < 0x3F` -> `<=`")
M("B502", EF, "  let trail := if remainder < 0x3F then remainder + 0x40 else remainder + 0x62\n  [u8 lead, u8 trail]",
  "  let trail := if remainder < 0x3F then remainder + 0x40 else remainder + 0x61\n  [u8 lead, u8 trail]",
  "Big5 bytes of pointer: high trail offset 0x62 -> 0x61")
M("B503", EF, "| some pointer => some (big5BytesOfPointer pointer 0x81)", "| some pointer => some (big5BytesOfPointer pointer 0x80)",
  "Big5 BMP: lead offset 0x81 -> 0x80")
M("B504", EF, "| some rebasedPointer => some (big5BytesOfPointer rebasedPointer 0x87)", "| some rebasedPointer => some (big5BytesOfPointer rebasedPointer 0x86)",
  "Big5 astral: lead offset 0x87 -> 0x86")
M("B505", EF, "inInclusiveRange32 astral 0x2008A 0x2F8A6", "inInclusiveRange32 astral 0x2008B 0x2F8A6", "Big5 astral range: lower bound U+2008A -> U+2008B")
M("B506", EF, "inInclusiveRange32 astral 0x2008A 0x2F8A6", "inInclusiveRange32 astral 0x2008A 0x2F8A5", "Big5 astral range: upper bound U+2F8A6 -> U+2F8A5")
M("B507", EF, "  else if c > 0xFFFF then big5EncodeAstral c\n", "  else if c > 0x1FFFF then big5EncodeAstral c\n",
  "Big5: plane-1 characters are handed to the BMP body (`as u16` truncation)", equivalent="every Big5 BMP lookup compares the full value with table entries <= 0xFFFF, so a plane-1 character finds nothing: unmappable either way (exhaustive ENCCHAR:BIG5 sweep over all 1,112,064 scalar values: no difference)")
M("B508", EF, "  match big5BoxEncode bmp with\n  | some pointer => some pointer\n  | none => big5OtherEncode bmp",
  "  match big5OtherEncode bmp with\n  | some pointer => some pointer\n  | none => big5BoxEncode bmp",
  "Big5: `big5_other_encode` before `big5_box_encode` (U+2550, U+255E, U+2561, U+256A get the first instead of the last pointer)")
M("B509", DE, "if bmp = 0x4E5A then some (0xC8, 0x7B)", "if bmp = 0x4E5A then some (0xC8, 0x7C)", "Big5 level 1 special case U+4E5A: trail 0x7B -> 0x7C")
M("B510", DE, "else if bmp = 0x9FB1 then some (0xC8, 0xA3)", "else if bmp = 0x9FB1 then some (0xC8, 0xA4)", "Big5 level 1 special case U+9FB1: trail 0xA3 -> 0xA4")
M("B511", DE, "if inInclusiveRange16 bmp 0x4E00 0x9FB1 then\n    match positionIn Gen.big5LowBits (5495 - 942)",
  "if inInclusiveRange16 bmp 0x4E01 0x9FB1 then\n    match positionIn Gen.big5LowBits (5495 - 942)",
  "Big5 level 1 range: lower bound U+4E00 -> U+4E01")
M("B512", DE, "positionIn Gen.big5LowBits (5495 - 942) (10951 - 942) bmp", "positionIn Gen.big5LowBits (5495 - 942) (10950 - 942) bmp",
  "Big5 level 1 search: last pointer 10950 dropped", equivalent="exhaustive ENCCHAR:BIG5 sweep over all scalar values: no difference (no level-1 hanzi is found only at pointer 10950)")
M("B513", DE, "      let lead := hanziPointer / 157 + 0xA4\n", "      let lead := hanziPointer / 157 + 0xA5\n", "Big5 level 1: lead offset 0xA4 -> 0xA5")
M("B514", DE, "(positionIn Gen.big5LowBits (18963 - 942) (18992 - 942) bmp).map (· + 18963)", "(positionIn Gen.big5LowBits (18963 - 942) (18991 - 942) bmp).map (· + 18963)",
  "Big5 box search: last pointer 18991 dropped")
M("B515", DE, "if 0x4491 = bmp then some 11209 else", "if 0x4491 = bmp then some 11208 else", "Big5 other: U+4491 pointer 11209 -> 11208")
M("B516", DE, "positionIn Gen.big5LowBits (5024 - 942) (5466 - 942) bmp", "positionIn Gen.big5LowBits (5025 - 942) (5466 - 942) bmp",
  "Big5 other: first search range starts one pointer late (results shift by one)")
M("B517", DE, "  | some pos => some (pos + 10896)", "  | some pos => some (pos + 10895)", "Big5 other: second range base 10896 -> 10895")
M("B518", DE, "positionIn Gen.big5LowBits (11254 - 942) (18963 - 942) bmp", "positionIn Gen.big5LowBits (11254 - 942) (18962 - 942) bmp",
  "Big5 other: third range loses its last pointer 18962")
M("B519", DE, "if Gen.big5LowBits.getD i 0 = bmp ∧ big5IsAstral i = false then some (i + 942)", "if Gen.big5LowBits.getD i 0 = bmp then some (i + 942)",
  "Big5 other tail loop: astral check dropped (a BMP character whose low bits equal an astral entry's)")
M("B520", DE, "if lowBits = 0x00CC then some (11205 - 942)", "if lowBits = 0x00CC then some (11206 - 942)", "Big5 astral special case U+200CC: pointer 11205 -> 11206")
M("B521", DE, "  go (18997 - 942) (Gen.big5LowBits.size - 1 - (18997 - 942))", "  go (18998 - 942) (Gen.big5LowBits.size - 1 - (18998 - 942))",
  "Big5 astral search starts one pointer late")

# ---------------------------------------------------------------------------------------------
# EUC-KR

M("KR01", EF, "if bmpMinusHangulStart < 0xD7A4 - 0xAC00 then", "if bmpMinusHangulStart ≤ 0xD7A4 - 0xAC00 then", "EUC-KR: Hangul range includes U+D7A4")
M("KR02", EF, "else if inRange16 bmp 0x33DE 0xFF01 then", "else if inRange16 bmp 0x33DD 0xFF01 then", "EUC-KR: Hanja/unmappable block starts at U+33DD")
M("KR03", EF, "else if inRange16 bmp 0x33DE 0xFF01 then", "else if inRange16 bmp 0x33DE 0xFF02 then", "EUC-KR: Hanja/unmappable block ends after U+FF01")
M("KR04", EF, "inRange16 bmp 0x4E00 0x9F9D || inRange16 bmp 0xF900 0xFA0C", "inRange16 bmp 0x4E00 0x9F9C || inRange16 bmp 0xF900 0xFA0C", "EUC-KR: Hanja range loses U+9F9C")
M("KR05", EF, "inRange16 bmp 0x4E00 0x9F9D || inRange16 bmp 0xF900 0xFA0C", "inRange16 bmp 0x4E00 0x9F9D || inRange16 bmp 0xF900 0xFA0B", "EUC-KR: compatibility Hanja range loses U+FA0B")
M("KR06", EF, "  else if c > 0xFFFF then none\n  else eucKrEncodeBmp c", "  else if c > 0x1FFFF then none\n  else eucKrEncodeBmp c",
  "EUC-KR: plane-1 characters are handed to the BMP body")
M("KR07", DE, "      if bmp < 0xC8A5 then\n", "      if bmp ≤ 0xC8A5 then\n", "EUC-KR Hangul: top/left split `bmp < 0xC8A5` -> `<=`", equivalent="exhaustive ENCCHAR:EUC_KR sweep over all scalar values: no difference (U+C8A5 is found by the KS X 1001 binary search before the split is consulted)")
M("KR08", DE, "let offset := if lt.2 ≥ 0x40 - 12 then 0x41 + 12", "let offset := if lt.2 > 0x40 - 12 then 0x41 + 12", "EUC-KR Hangul: trail offset boundary `>= 0x40-12` -> `>`")
M("KR09", DE, "else if lt.2 ≥ 0x20 - 6 then 0x41 + 6 else 0x41", "else if lt.2 > 0x20 - 6 then 0x41 + 6 else 0x41", "EUC-KR Hangul: trail offset boundary `>= 0x20-6` -> `>`")
M("KR10", DE, "| some p => (u8 (p / 94 + (0x81 + 0x2F)), u8 (p % 94 + 0xA1))", "| some p => (u8 (p / 94 + (0x81 + 0x2E)), u8 (p % 94 + 0xA1))", "EUC-KR KS X 1001 Hangul: lead offset")
M("KR11", DE, "| some pos => if pos < 94 - 3 then some (0xA1, pos + 0xA1 + 3)", "| some pos => if pos ≤ 94 - 3 then some (0xA1, pos + 0xA1 + 3)", "EUC-KR symbols: row split `pos < 91` -> `<=`")
M("KR12", DE, "inInclusiveRange16 bmp 0x3000 0x3015 then positionIn Gen.ksx1001Symbols 0 (0xAB - 0x60) bmp", "inInclusiveRange16 bmp 0x3000 0x3014 then positionIn Gen.ksx1001Symbols 0 (0xAB - 0x60) bmp",
  "EUC-KR misc: first symbol range loses U+3015")
M("KR13", DE, "| some otherPointer => some (otherPointer / 94 + (0x81 + 0x22), otherPointer % 94 + 0xA1)", "| some otherPointer => some (otherPointer / 94 + (0x81 + 0x22), otherPointer % 94 + 0xA0)", "EUC-KR other: trail offset 0xA1 -> 0xA0")
M("KR14", DE, "    if inRange16 bmp 0x00AA 0x0168 then\n", "    if inRange16 bmp 0x00AA 0x0167 then\n", "EUC-KR Latin: range loses U+0167")
M("KR15", DE, "    else if inRange16 bmp 0x2500 0x254C then\n", "    else if inRange16 bmp 0x2501 0x254C then\n", "EUC-KR box drawing: range loses U+2500")
M("KR16", DE, "|| inInclusiveRange16 bmp 0xFF3C 0xFFE5 || inInclusiveRange16 bmp 0x00A1 0x00F7", "|| inInclusiveRange16 bmp 0xFF3C 0xFFE5 || inInclusiveRange16 bmp 0x00A2 0x00F7", "EUC-KR symbols: range loses U+00A1")
M("KR17", DE, "| some p => some (u8 (p / 94 + (0x81 + 0x49)), u8 (p % 94 + 0xA1))", "| some p => some (u8 (p / 94 + (0x81 + 0x48)), u8 (p % 94 + 0xA1))", "EUC-KR Hanja: lead offset")

# ---------------------------------------------------------------------------------------------
# EUC-JP

M("EJ01", EF, "if bmpMinusHiragana < 0x53 then some [0xA4, 0xA1 + u8 bmpMinusHiragana]", "if bmpMinusHiragana < 0x54 then some [0xA4, 0xA1 + u8 bmpMinusHiragana]", "EUC-JP: Hiragana block includes U+3094")
M("EJ02", EF, "  else if inInclusiveRange16 bmp 0x4E00 0x9FA0 then\n    match eucJpEncodeKanji bmp with", "  else if inInclusiveRange16 bmp 0x4E00 0x9F9F then\n    match eucJpEncodeKanji bmp with", "EUC-JP: Kanji range loses U+9FA0")
M("EJ03", EF, "if bmpMinusKatakana < 0x56 then some [0xA5, 0xA1 + u8 bmpMinusKatakana]", "if bmpMinusKatakana < 0x57 then some [0xA5, 0xA1 + u8 bmpMinusKatakana]", "EUC-JP: Katakana block includes U+30F7")
M("EJ04", EF, "if bmpMinusSpace < 3 then some [0xA1, 0xA1 + u8 bmpMinusSpace]", "if bmpMinusSpace < 4 then some [0xA1, 0xA1 + u8 bmpMinusSpace]", "EUC-JP: ideographic space block includes U+3003")
M("EJ05", EF, "      else if bmp = 0xA5 then some [0x5C]\n      else if bmp = 0x203E then some [0x7E]\n      else if inInclusiveRange16 bmp 0xFF61 0xFF9F then some [0x8E,",
  "      else if bmp = 0xA5 then some [0x5C]\n      else if bmp = 0x203F then some [0x7E]\n      else if inInclusiveRange16 bmp 0xFF61 0xFF9F then some [0x8E,", "EUC-JP: U+203E fold moved to U+203F")
M("EJ06", EF, "      else if bmp = 0xA5 then some [0x5C]\n      else if bmp = 0x203E then some [0x7E]\n      else if inInclusiveRange16 bmp 0xFF61 0xFF9F then some [0x8E,",
  "      else if bmp = 0xA5 then some [0x7E]\n      else if bmp = 0x203E then some [0x5C]\n      else if inInclusiveRange16 bmp 0xFF61 0xFF9F then some [0x8E,", "EUC-JP: U+00A5 / U+203E folds swapped")
M("EJ07", EF, "inInclusiveRange16 bmp 0xFF61 0xFF9F then some [0x8E, u8 (bmp - (0xFF61 - 0xA1))]", "inInclusiveRange16 bmp 0xFF61 0xFF9E then some [0x8E, u8 (bmp - (0xFF61 - 0xA1))]", "EUC-JP: half-width Katakana range loses U+FF9F")
M("EJ08", EF, "then some [0x8E, u8 (bmp - (0xFF61 - 0xA1))]", "then some [0x8F, u8 (bmp - (0xFF61 - 0xA1))]", "EUC-JP: half-width Katakana prefix 0x8E -> 0x8F")
M("EJ09", EF, "      else if bmp = 0x2212 then some [0xA1, 0xDD]", "      else if bmp = 0x2212 then some [0xA1, 0xDE]", "EUC-JP: U+2212 fold trail 0xDD -> 0xDE")
M("EJ10", EF, "        some (bytes94 pos 0xF9 0xA1)", "        some (bytes94 pos 0xFA 0xA1)", "EUC-JP: IBM Kanji lead offset 0xF9 -> 0xFA")
M("EJ11", EF, "      if inInclusiveRange16 bmp 0xFA0E 0xFA2D || decide (bmp = 0xF929) || decide (bmp = 0xF9DC) then\n        -- `position(&IBM_KANJI[..], bmp).unwrap()`",
  "      if inInclusiveRange16 bmp 0xFA0E 0xFA2C || decide (bmp = 0xF929) || decide (bmp = 0xF9DC) then\n        -- `position(&IBM_KANJI[..], bmp).unwrap()`", "EUC-JP: IBM Kanji range loses U+FA2D")
M("EJ12", EF, "      if inInclusiveRange16 bmp 0xFA0E 0xFA2D || decide (bmp = 0xF929) || decide (bmp = 0xF9DC) then\n        -- `position(&IBM_KANJI[..], bmp).unwrap()`",
  "      if inInclusiveRange16 bmp 0xFA0E 0xFA2D || decide (bmp = 0xF929) || decide (bmp = 0xF9DD) then\n        -- `position(&IBM_KANJI[..], bmp).unwrap()`", "EUC-JP: IBM Kanji special case U+F9DC moved to U+F9DD")
M("EJ13", DE, "if 0x4EDD = bmp then some (0xA1, 0xB8) else", "if 0x4EDD = bmp then some (0xA1, 0xB9) else", "EUC-JP Kanji: U+4EDD special case trail")
M("EJ14", DE, "  | some pos => some (u8 (pos / 94 + 0xD0), u8 (pos % 94 + 0xA1))\n  | none =>\n  match ibmKanjiPosition bmp with\n  | some pos => some (u8 (pos / 94 + 0xF9), u8 (pos % 94 + 0xA1))",
  "  | some pos => some (u8 (pos / 94 + 0xD0), u8 (pos % 94 + 0xA1))\n  | none =>\n  match ibmKanjiPosition bmp with\n  | some pos => some (u8 (pos / 94 + 0xF8), u8 (pos % 94 + 0xA1))", "EUC-JP Kanji: IBM Kanji (inside U+4E00..U+9FA0) lead 0xF9 -> 0xF8")
M("EJ15", DE, "(u8 (kanjiPointer / 94 + 0xB0), u8 (kanjiPointer % 94 + 0xA1))", "(u8 (kanjiPointer / 94 + 0xB0), u8 (kanjiPointer % 93 + 0xA1))", "EUC-JP level 1 Kanji: trail modulus 94 -> 93")
M("EJ16", DE, "(positionIn Gen.jis0208Symbols Gen.ibmSymbolStart Gen.ibmSymbolEnd bmp).map (· + Gen.ibmSymbolPointerStart)", "(positionIn Gen.jis0208Symbols Gen.ibmSymbolStart Gen.ibmSymbolEnd bmp).map (· + Gen.ibmSymbolPointerStart + 1)", "IBM symbols: pointer base + 1")
M("EJ17", DE, "        if bmpMinusStart < length then some (bmpMinusStart + Gen.jis0208RangeTriples.getD i 0)", "        if bmpMinusStart ≤ length then some (bmpMinusStart + Gen.jis0208RangeTriples.getD i 0)", "JIS X 0208 ranges: `< length` -> `<=`")
M("EJ18", DE, "        match positionIn Gen.jis0208Symbols symbolStart (symbolStart + length) bmp with", "        match positionIn Gen.jis0208Symbols symbolStart (symbolStart + length - 1) bmp with", "JIS X 0208 symbols: last symbol of every run dropped")

# ---------------------------------------------------------------------------------------------
# Shift_JIS

M("SJ01", EF, "if bmpMinusRoman ≤ 0x2179 - 0x2170 then some (10716 + bmpMinusRoman)", "if bmpMinusRoman < 0x2179 - 0x2170 then some (10716 + bmpMinusRoman)", "Shift_JIS: small Roman numerals lose U+2179 (falls to the NEC pointer)")
M("SJ02", EF, "then some (10716 + bmpMinusRoman)", "then some (10717 + bmpMinusRoman)", "Shift_JIS: small Roman numeral pointer base 10716 -> 10717")
M("SJ03", EF, "    some (10744 + (ibmKanjiPosition bmp).getD 0)", "    some (10745 + (ibmKanjiPosition bmp).getD 0)", "Shift_JIS: IBM Kanji pointer base (compatibility block) 10744 -> 10745")
M("SJ04", EF, "if bmpMinusHiragana < 0x53 then some [0x82, 0x9F + u8 bmpMinusHiragana]", "if bmpMinusHiragana < 0x54 then some [0x82, 0x9F + u8 bmpMinusHiragana]", "Shift_JIS: Hiragana block includes U+3094")
M("SJ05", EF, "      let trailOffset := if bmpMinusKatakana < 0x3F then 0x40 else 0x41\n", "      let trailOffset := if bmpMinusKatakana ≤ 0x3F then 0x40 else 0x41\n", "Shift_JIS: Katakana trail skip of 0x7F at U+30E0: `< 0x3F` -> `<=`")
M("SJ06", EF, "      else if bmp = 0x80 then some [0x80]\n", "      else if bmp = 0x81 then some [0x80]\n", "Shift_JIS: U+0080 pass-through moved to U+0081")
M("SJ07", EF, "      else if inInclusiveRange16 bmp 0xFF61 0xFF9F then some [u8 (bmp - (0xFF61 - 0xA1))]", "      else if inInclusiveRange16 bmp 0xFF62 0xFF9F then some [u8 (bmp - (0xFF61 - 0xA1))]", "Shift_JIS: half-width Katakana range loses U+FF61")
M("SJ08", EF, "      else if bmp = 0x2212 then some [0x81, 0x7C]", "      else if bmp = 0x2212 then some [0x81, 0x7D]", "Shift_JIS: U+2212 fold trail")
M("SJ09", EF, "      else if bmp = 0xA5 then some [0x5C]\n      else if bmp = 0x80 then", "      else if bmp = 0xA6 then some [0x5C]\n      else if bmp = 0x80 then", "Shift_JIS: U+00A5 fold moved to U+00A6")
M("SJ10", EF, "  else if inInclusiveRange16 bmp 0x4E00 0x9FA0 then\n    match shiftJisEncodeKanji bmp with", "  else if inInclusiveRange16 bmp 0x4E01 0x9FA0 then\n    match shiftJisEncodeKanji bmp with", "Shift_JIS: Kanji range loses U+4E00")
M("SJ11", DE, "  let leadOffset := if lead < 0x1F then 0x81 else 0xC1\n", "  let leadOffset := if lead ≤ 0x1F then 0x81 else 0xC1\n", "Shift_JIS bytes of pointer: lead boundary `< 0x1F` -> `<=`")
M("SJ12", DE, "  let trail := pointer % 188\n  let trailOffset := if trail < 0x3F then 0x40 else 0x41\n", "  let trail := pointer % 188\n  let trailOffset := if trail ≤ 0x3F then 0x40 else 0x41\n", "Shift_JIS bytes of pointer: trail boundary `< 0x3F` -> `<=`")
M("SJ13", DE, "      if 0x4EDD = bmp then some 23 else", "      if 0x4EDD = bmp then some 24 else", "Shift_JIS Kanji: U+4EDD pointer 23 -> 24")
M("SJ14", DE, "      | some pos => some (4418 + pos)", "      | some pos => some (4419 + pos)", "Shift_JIS Kanji: level 2 pointer base")
M("SJ15", DE, "shiftJisBytesOfPointer (1410 + kanjiPointer)", "shiftJisBytesOfPointer (1411 + kanjiPointer)", "Shift_JIS Kanji: level 1 pointer base")
M("SJ16", DE, "        match ibmKanjiPosition bmp with\n        | some pos => some (10744 + pos)", "        match ibmKanjiPosition bmp with\n        | some pos => some (10743 + pos)", "Shift_JIS Kanji: IBM Kanji pointer base (unified block)")

# ---------------------------------------------------------------------------------------------
# GBK / gb18030

M("GB01", EF, "if bmpMinusUnifiedStart < 0x9FA6 - 0x4E00 then", "if bmpMinusUnifiedStart ≤ 0x9FA6 - 0x4E00 then", "GBK/gb18030: unified range includes U+9FA6")
M("GB02", EF, "  else if bmp = 0xE5E5 then none\n", "  else if bmp = 0xE5E6 then none\n", "GBK/gb18030: the U+E5E5 exclusion moved to U+E5E6")
M("GB03", EF, "else if bmp = 0x20AC ∧ extended = false then some [0x80]", "else if bmp = 0x20AC ∧ extended = true then some [0x80]", "GBK/gb18030: the euro sign special case is applied to gb18030 instead of GBK")
M("GB04", EF, "      if extended = false then none\n      else some (gb18030FourBytes (gb18030RangeEncode bmp))", "      if extended = true then none\n      else some (gb18030FourBytes (gb18030RangeEncode bmp))", "GBK/gb18030: four-byte BMP fallback for GBK instead of gb18030 (extended flag swapped)")
M("GB05", EF, "some (gb18030FourBytes (astral + (189000 - 0x10000)))", "some (gb18030FourBytes (astral + (189001 - 0x10000)))", "gb18030 astral: pointer base 189000 -> 189001")
M("GB06", EF, "  if extended = false then none\n  else some (gb18030FourBytes (astral", "  if extended = true then none\n  else some (gb18030FourBytes (astral", "gb18030 astral: extended flag swapped")
M("GB07", DE, "  let first := rangePointer / (10 * 126 * 10)\n", "  let first := rangePointer / (10 * 125 * 10)\n", "gb18030 four bytes: first divisor 12600 -> 12500")
M("GB08", DE, "  let second := remFirst / (10 * 126)\n", "  let second := remFirst / (10 * 125)\n", "gb18030 four bytes: second divisor 1260 -> 1250")
M("GB09", DE, "  let third := remSecond / 10\n  let fourth := remSecond % 10\n", "  let third := remSecond / 10\n  let fourth := remSecond % 9\n", "gb18030 four bytes: fourth = rem % 9")
M("GB10", DE, "u8 (third + 0x81), u8 (fourth + 0x30)]", "u8 (third + 0x80), u8 (fourth + 0x30)]", "gb18030 four bytes: third byte offset 0x81 -> 0x80")
M("GB11", DE, "if bmp = 0xE7C7 then 7457 else", "if bmp = 0xE7C7 then 7458 else", "gb18030 ranges: U+E7C7 pointer 7457 -> 7458")
M("GB12", DE, "      if bmp < 0x72DC then\n", "      if bmp < 0x72DD then\n", "GBK hanzi: top/left split U+72DC -> U+72DD")
M("GB13", DE, "    let offset := if lt.2 < 0x3F then 0x40 else 0x41\n    (u8 lt.1, u8 (lt.2 + offset))", "    let offset := if lt.2 ≤ 0x3F then 0x40 else 0x41\n    (u8 lt.1, u8 (lt.2 + offset))", "GBK hanzi: trail boundary `< 0x3F` -> `<=`")
M("GB14", DE, "(positionIn Gen.gb2312Hanzi 0 (94 * (0xD8 - 0xB0) - 5) bmp)", "(positionIn Gen.gb2312Hanzi 0 (94 * (0xD8 - 0xB0) - 6) bmp)", "GB2312 level 1: last hanzi dropped from the search")
M("GB15", DE, "  | some hanziPointer => (u8 (hanziPointer / 94 + 0xD8), u8 (hanziPointer % 94 + 0xA1))", "  | some hanziPointer => (u8 (hanziPointer / 94 + 0xD9), u8 (hanziPointer % 94 + 0xA1))", "GB2312 level 2: lead offset 0xD8 -> 0xD9")
M("GB16", DE, "(0xFE, pos + (if pos < 0x3F - 16 then 0x40 + 16 else 0x41 + 16))", "(0xFE, pos + (if pos ≤ 0x3F - 16 then 0x40 + 16 else 0x41 + 16))", "GBK Ext A in the bottom row: trail boundary `<` -> `<=`")
M("GB17", DE, "if pos < 5 then (0xFD, pos + (190 - 94 - 5 + 0x41)) else (0xFE, pos + (0x40 - 5))", "if pos < 6 then (0xFD, pos + (190 - 94 - 5 + 0x41)) else (0xFE, pos + (0x40 - 5))", "GBK compatibility ideographs: row split `pos < 5` -> `< 6`")
M("GB18", DE, "  else if bmp < 0x02CA then\n", "  else if bmp ≤ 0x02CA then\n", "GBK non-unified: `bmp < 0x02CA` -> `<=` (U+02CA no longer reaches gbk_other_encode)")
M("GB19", DE, "inRange16 bmp 0x00E0 0x0262 && decide (bmp ≠ 0x00F7)", "inRange16 bmp 0x00E0 0x0262 && decide (bmp ≠ 0x00F8)", "GBK non-unified: the U+00F7 exception of the pinyin range moved to U+00F8")
M("GB20", DE, "inInclusiveRange16 bmp 0x00A4 0x00F7 || inInclusiveRange16 bmp 0x02C7 0x02C9 then", "inInclusiveRange16 bmp 0x00A5 0x00F7 || inInclusiveRange16 bmp 0x02C7 0x02C9 then", "GBK non-unified: Latin-1 symbol range loses U+00A4")
M("GB21", DE, "inInclusiveRange16 bmp 0x00A4 0x00F7 || inInclusiveRange16 bmp 0x02C7 0x02C9 then", "inInclusiveRange16 bmp 0x00A4 0x00F7 || inInclusiveRange16 bmp 0x02C7 0x02C8 then", "GBK non-unified: modifier range loses U+02C9")
M("GB22", DE, "    if inInclusiveRange16 bmp 0xE78D 0xE864 then\n", "    if inInclusiveRange16 bmp 0xE78E 0xE864 then\n", "gb18030-2022 override PUA range loses U+E78D")
M("GB23", DE, "    if inInclusiveRange16 bmp 0xE78D 0xE864 then\n", "    if inInclusiveRange16 bmp 0xE78D 0xE863 then\n", "gb18030-2022 override PUA range loses U+E864")
M("GB24", DE, "        some (some (pair / 256, pair % 256))", "        some (some (pair % 256, pair / 256))", "gb18030-2022 override: lead and trail swapped")
M("GB25", DE, "    else if bmp ≥ 0xFE17 then\n", "    else if bmp > 0xFE17 then\n", "gb18030-2022: symbols after Greek: `>= 0xFE17` -> `>`")
M("GB26", DE, "| some pos => some (some (0xA6, pos + (0x9F - 0x60 + 0xA1)))", "| some pos => some (some (0xA6, pos + (0x9E - 0x60 + 0xA1)))", "gb18030-2022: symbols after Greek trail base")
M("GB27", DE, "else if bmp = 0x1E3F then some (some (0xA8, 0x7B - 0x60 + 0xA1))", "else if bmp = 0x1E3F then some (some (0xA8, 0x7C - 0x60 + 0xA1))", "GBK: U+1E3F special case trail")
M("GB28", DE, "if bmpMinusGb2312BottomPua ≤ 0xE4C5 - 0xE234 then", "if bmpMinusGb2312BottomPua < 0xE4C5 - 0xE234 then", "GBK: GB2312 bottom PUA range loses U+E4C5")
M("GB29", DE, "if bmpMinusPuaBetweenHanzi < 5 then some (0x81 + 0x56, 0xFF - 5 + bmpMinusPuaBetweenHanzi)", "if bmpMinusPuaBetweenHanzi < 4 then some (0x81 + 0x56, 0xFF - 5 + bmpMinusPuaBetweenHanzi)", "GBK: PUA between hanzi loses U+E814")
M("GB30", DE, "inInclusiveRange16 bmp 0x2E81 0x2ECA || inInclusiveRange16 bmp 0x9FB4 0x9FBB", "inInclusiveRange16 bmp 0x2E82 0x2ECA || inInclusiveRange16 bmp 0x9FB4 0x9FBB", "GBK bottom row: radical range loses U+2E81")
M("GB31", DE, "    let trail := pos + 16\n    let offset := if trail < 0x3F then 0x40 else 0x41\n", "    let trail := pos + 16\n    let offset := if trail ≤ 0x3F then 0x40 else 0x41\n", "GBK bottom row: trail boundary `< 0x3F` -> `<=`", equivalent="exhaustive ENCCHAR:GBK and ENCCHAR:GB18030 sweeps over all scalar values: no difference (no bottom-row character has trail 0x3F)")
M("GB32", DE, "    let offset := if otherTrail < 0x3F then 0x40 else 0x41\n", "    let offset := if otherTrail ≤ 0x3F then 0x40 else 0x41\n", "GBK other: trail boundary `< 0x3F` -> `<=`")
M("GB33", DE, "  if inRange16 bmp 0x02DA 0x2010 then none else\n", "  if inRange16 bmp 0x02D9 0x2010 then none else\n", "GBK non-unified: early exit range starts at U+02D9 (which gbk_other_encode maps)")
M("GB34", DE, "if inInclusiveRange16 bmp 0x2014 0x3017 || inInclusiveRange16 bmp 0xFF04 0xFFE1", "if inInclusiveRange16 bmp 0x2015 0x3017 || inInclusiveRange16 bmp 0xFF04 0xFFE1", "GB2312 symbols: range loses U+2014")

# ---------------------------------------------------------------------------------------------
# ISO-2022-JP (isoEncStep, two-byte body, eof, hasPending, need; is_mapped_for_two_byte_encode)

M("IS01", EF, "    if c = 0x0E ∨ c = 0x0F ∨ c = 0x1B then .unmap .ascii 0xFFFD", "    if c = 0x0D ∨ c = 0x0F ∨ c = 0x1B then .unmap .ascii 0xFFFD", "ISO-2022-JP Ascii state: forbidden control U+000E moved to U+000D")
M("IS02", EF, "    if c = 0x0E ∨ c = 0x0F ∨ c = 0x1B then .unmap .ascii 0xFFFD", "    if c = 0x0E ∨ c = 0x0F ∨ c = 0x1B then .unmap .ascii c", "ISO-2022-JP Ascii state: forbidden control reported as itself instead of U+FFFD")
M("IS03", EF, "    if c = 0x0E ∨ c = 0x0F ∨ c = 0x1B then .unmap .roman 0xFFFD", "    if c = 0x0E ∨ c = 0x0F ∨ c = 0x1C then .unmap .roman 0xFFFD", "ISO-2022-JP Roman state: forbidden control U+001B moved to U+001C")
M("IS04", EF, "    else if c = 0x5C ∨ c = 0x7E then .again .ascii escAscii", "    else if c = 0x5C ∨ c = 0x7D then .again .ascii escAscii", "ISO-2022-JP Roman state: U+007E is written in the Roman state")
M("IS05", EF, "    else if c = 0xA5 then .ok .roman [0x5C]\n    else if c = 0x203E then .ok .roman [0x7E]", "    else if c = 0xA5 then .ok .roman [0x7E]\n    else if c = 0x203E then .ok .roman [0x5C]", "ISO-2022-JP Roman state: bytes of U+00A5 / U+203E swapped")
M("IS06", EF, "    if c ≤ 0x7F then .again .ascii escAscii\n", "    if c ≤ 0x7F then .again .ascii escRoman\n", "ISO-2022-JP Jis0208 state: ASCII character switches with the Roman escape (state Ascii)")
M("IS07", EF, "    else if c = 0xA5 ∨ c = 0x203E then .again .roman escRoman\n    else if c > 0xFFFF then .unmap .ascii c\n", "    else if c = 0xA5 ∨ c = 0x203E then .again .roman escAscii\n    else if c > 0xFFFF then .unmap .ascii c\n", "ISO-2022-JP Ascii state: U+00A5 writes the ASCII escape when switching to Roman")
M("IS08", EF, "    else if isMappedForTwoByteEncode c = true then .again .jis0208 escJis0208\n    else .unmap .roman c", "    else if isMappedForTwoByteEncode c = true then .again .jis0208 escAscii\n    else .unmap .roman c", "ISO-2022-JP Roman state: switch to Jis0208 writes the ASCII escape")
M("IS09", EF, "    else if c > 0xFFFF then .unmap .ascii c escAscii\n", "    else if c > 0xFFFF then .unmap .jis0208 c\n", "ISO-2022-JP Jis0208 state: astral unmappable leaves the state and writes no escape")
M("IS10", EF, "      | none => .unmap .ascii c escAscii", "      | none => .unmap .ascii c", "ISO-2022-JP Jis0208 state: BMP unmappable: the escape back to ASCII is not written")
M("IS11", EF, "def escJis0208 : List Nat := [0x1B, 0x24, 0x42]", "def escJis0208 : List Nat := [0x1B, 0x24, 0x40]", "ISO-2022-JP: ESC $ B -> ESC $ @")
M("IS12", EF, "  | _ => (escAscii, .ascii)", "  | _ => (escAscii, .roman)", "ISO-2022-JP eof: state after the final escape stays pending")
M("IS13", EF, "  | _ => (escAscii, .ascii)", "  | _ => (escRoman, .ascii)", "ISO-2022-JP eof: writes the Roman escape")
M("IS14", EF, "  match s with\n  | .ascii => false\n  | _ => true", "  match s with\n  | .ascii => false\n  | .roman => false\n  | .jis0208 => true", "ISO-2022-JP has_pending_state: false in the Roman state")
M("IS15", EF, "  need := fun _ _ => 3\n", "  need := fun _ _ => 2\n", "ISO-2022-JP: space asked for 3 -> 2")
M("IS16", EF, "  eofNeed := fun s => match s with | .ascii => 0 | _ => 3", "  eofNeed := fun s => match s with | .ascii => 0 | _ => 2", "ISO-2022-JP: space asked for by the eof block 3 -> 2")
M("IS17", EF, "        let lead := if bmp ≠ 0xFF70 ∧ inInclusiveRange16 bmp 0xFF66 0xFF9D = true then 0x25 else 0x21", "        let lead := if bmp ≠ 0xFF71 ∧ inInclusiveRange16 bmp 0xFF66 0xFF9D = true then 0x25 else 0x21", "ISO-2022-JP Katakana folding: the U+FF70 exception moved to U+FF71")
M("IS18", EF, "        let lead := if bmp ≠ 0xFF70 ∧ inInclusiveRange16 bmp 0xFF66 0xFF9D = true then 0x25 else 0x21", "        let lead := if bmp ≠ 0xFF70 ∧ inInclusiveRange16 bmp 0xFF67 0xFF9D = true then 0x25 else 0x21", "ISO-2022-JP Katakana folding: lead 0x25 range loses U+FF66")
M("IS19", EF, "        let lead := if bmp ≠ 0xFF70 ∧ inInclusiveRange16 bmp 0xFF66 0xFF9D = true then 0x25 else 0x21", "        let lead := if bmp ≠ 0xFF70 ∧ inInclusiveRange16 bmp 0xFF66 0xFF9C = true then 0x25 else 0x21", "ISO-2022-JP Katakana folding: lead 0x25 range loses U+FF9D")
M("IS20", EF, "      if bmpMinusHalfWidth ≤ 0xFF9F - 0xFF61 then", "      if bmpMinusHalfWidth < 0xFF9F - 0xFF61 then", "ISO-2022-JP two-byte body: half-width range loses U+FF9F")
M("IS21", EF, "      else if bmp = 0x2212 then some [0x21, 0x5D]", "      else if bmp = 0x2212 then some [0x21, 0x5E]", "ISO-2022-JP: U+2212 fold trail")
M("IS22", EF, "        some (bytes94 pos (0xF9 - 0x80) 0x21)", "        some (bytes94 pos (0xFA - 0x80) 0x21)", "ISO-2022-JP: IBM Kanji lead offset")
M("IS23", EF, "if bmpMinusKatakana < 0x56 then some [0x25, 0x21 + u8 bmpMinusKatakana]", "if bmpMinusKatakana < 0x56 then some [0x25, 0x22 + u8 bmpMinusKatakana]", "ISO-2022-JP: Katakana trail base")
M("IS24", EF, "    else if c = 0xA5 ∨ c = 0x203E then .again .roman escRoman\n    else if c > 0xFFFF then .unmap .ascii c\n    else if isMappedForTwoByteEncode c = true then .again .jis0208 escJis0208\n    else .unmap .ascii c",
  "    else if c = 0xA5 ∨ c = 0x203E then .again .roman escRoman\n    else if c > 0x1FFFF then .unmap .ascii c\n    else if isMappedForTwoByteEncode c = true then .again .jis0208 escJis0208\n    else .unmap .ascii c",
  "ISO-2022-JP Ascii state: plane-1 characters reach is_mapped_for_two_byte_encode (`as u16` truncation): ESC $ B ESC ( B before the report")
M("IS25", EF, "    else if c ≤ 0x7F then .ok .roman [c]\n", "    else if c ≤ 0x7F then .ok .ascii [c]\n", "ISO-2022-JP Roman state: an ASCII character silently leaves the Roman state")
M("IS26", DE, "        || inInclusiveRange16 bmp 0xFF61 0xFF9F\n        || decide (bmp = 0x2212)", "        || inInclusiveRange16 bmp 0xFF61 0xFF9E\n        || decide (bmp = 0x2212)", "is_mapped_for_two_byte_encode: half-width range loses U+FF9F")
M("IS27", DE, "        || decide (bmp = 0x2212)\n", "        || decide (bmp = 0x2213)\n", "is_mapped_for_two_byte_encode: U+2212 moved to U+2213")
M("IS28", DE, "  decide (0x4EDD = bmp)\n    || (jis0208Level1KanjiShiftJisEncode bmp).isSome", "  decide (0x4EDE = bmp)\n    || (jis0208Level1KanjiShiftJisEncode bmp).isSome", "is_kanji_mapped: U+4EDD special case moved")
M("IS29", DE, "  if bmpMinusHiragana < 0x53 then true\n", "  if bmpMinusHiragana < 0x54 then true\n", "is_mapped_for_two_byte_encode: Hiragana block includes U+3094")
M("IS30", DE, "        || decide (bmp = 0xF929)\n", "        || decide (bmp = 0xF92A)\n", "is_mapped_for_two_byte_encode: U+F929 moved to U+F92A")
M("IS31", DE, "if 0x4EDD = bmp then some (0x21, 0xB8 - 0x80) else", "if 0x4EDD = bmp then some (0x21, 0xB9 - 0x80) else", "ISO-2022-JP Kanji: U+4EDD special case trail")
M("IS32", DE, "    (u8 (kanjiPointer / 94 + (0xB0 - 0x80)), u8 (kanjiPointer % 94 + 0x21))", "    (u8 (kanjiPointer / 94 + (0xB1 - 0x80)), u8 (kanjiPointer % 94 + 0x21))", "ISO-2022-JP level 1 Kanji lead")

# ---------------------------------------------------------------------------------------------
# Model/Encoder.lean: sources, processChar / erun, NCR, with-replacement wrapper

M("EN01", EN, "    if u < 0xD800 ∨ 0xDFFF < u then some (u, 1)", "    if u < 0xD800 ∨ 0xDFFE < u then some (u, 1)", "read16: unpaired U+DFFF is passed through instead of U+FFFD")
M("EN02", EN, "    if u < 0xD800 ∨ 0xDFFF < u then some (u, 1)", "    if u < 0xD801 ∨ 0xDFFF < u then some (u, 1)", "read16: 0xD800 is not a surrogate")
M("EN03", EN, "    else if u ≤ 0xDBFF then\n", "    else if u ≤ 0xDBFE then\n", "read16: 0xDBFF is not a high surrogate")
M("EN04", EN, "      | lo :: _ => if 0xDC00 ≤ lo ∧ lo ≤ 0xDFFF then", "      | lo :: _ => if 0xDC01 ≤ lo ∧ lo ≤ 0xDFFF then", "read16: 0xDC00 is not a low surrogate")
M("EN05", EN, "      | lo :: _ => if 0xDC00 ≤ lo ∧ lo ≤ 0xDFFF then", "      | lo :: _ => if 0xDC00 ≤ lo ∧ lo ≤ 0xDFFE then", "read16: 0xDFFF is not a low surrogate")
M("EN06", EN, "some (0x10000 + (u - 0xD800) * 0x400 + (lo - 0xDC00), 2)", "some (0x10000 + (u - 0xD800) * 0x400 + (lo - 0xDC00), 1)", "read16: a surrogate pair has width 1")
M("EN07", EN, "      | [] => some (0xFFFD, 1)\n    else some (0xFFFD, 1)", "      | [] => some (0xFFFD, 1)\n    else some (0xFFFD, 2)", "read16: an unpaired low surrogate has width 2")
M("EN08", EN, "    else if a < 0xE0 then some ((a % 32) * 64", "    else if a < 0xE1 then some ((a % 32) * 64", "read8: lead 0xE0 read as a two-byte sequence")
M("EN09", EN, "    else if a < 0xF0 then some ((a % 16) * 4096", "    else if a < 0xF1 then some ((a % 16) * 4096", "read8: lead 0xF0 read as a three-byte sequence")
M("EN10", EN, "(rest.getD 1 0) % 64 * 64 + (rest.getD 2 0) % 64, 4)", "(rest.getD 1 0) % 64 * 64 + (rest.getD 2 0) % 64, 3)", "read8: a four-byte sequence has width 3")
M("EN11", EN, "    | some u => .unmappable r.st (acc ++ r.out) u\n", "    | some u => .unmappable r.st acc u\n", "processChar: bytes written by the unmappable step itself (ISO-2022-JP escape) are dropped")
M("EN12", EN, "      if r.unread then processChar fuel r.st c b.dec (acc ++ r.out)", "      if r.unread then processChar fuel r.st c b (acc ++ r.out)", "processChar: the re-read after an escape does not count as a step of the budget (no OutputFull between escape and character)")
M("EN13", EN, "    | .full st out need => ⟨.outputFull, 0, out, st, need⟩", "    | .full st out need => ⟨.outputFull, 0, [], st, need⟩", "erun: escape bytes written before an OutputFull stop are dropped")
M("EN14", EN, "    | .unmappable st out u => ⟨.unmappable u, w, out, st, 0⟩", "    | .unmappable st out u => ⟨.unmappable u, 0, out, st, 0⟩", "erun: the unmappable character is not counted as read")
M("EN15", EN, "      else if b.isZero then ⟨.outputFull, 0, [], s, E.eofNeed s⟩\n", "      else if b.isZero then ⟨.inputEmpty, 0, [], s, 0⟩\n", "erun: eof block without space returns InputEmpty (pending state kept) instead of OutputFull")
M("EN16", EN, "      else ⟨.inputEmpty, 0, (E.eof s).1, (E.eof s).2, 0⟩\n    else ⟨.inputEmpty, 0, [], s, 0⟩", "      else ⟨.inputEmpty, 0, (E.eof s).1, (E.eof s).2, 0⟩\n    else ⟨.inputEmpty, 0, (E.eof s).1, (E.eof s).2, 0⟩", "erun: the eof block also runs when last = false")
M("EN17", EN, "  | fuel + 1, n => if n < 10 then [48 + n] else", "  | fuel + 1, n => if n < 9 then [48 + n] else", "NCR digits: `n < 10` -> `n < 9` (numbers whose leading digit is 9 get a leading 0)")
M("EN18", EN, "decimalDigits fuel (n / 10) ++ [48 + n % 10]", "decimalDigits fuel (n / 10) ++ [48 + n % 9]", "NCR digits: `n % 10` -> `n % 9`")
M("EN19", EN, "[38, 35] ++ decimalDigits 8 c ++ [59]", "[38, 35] ++ decimalDigits 6 c ++ [59]", "NCR: at most six digits (seven-digit code points >= 1000000 = U+F4240 lose the leading digit)")
M("EN20", EN, "[38, 35] ++ decimalDigits 8 c ++ [59]", "[38, 35] ++ decimalDigits 8 c ++ [58]", "NCR: `;` -> `:`")
M("EN21", EN, "      if src.isEmpty ∧ ¬ (last ∧ E.hasPending s) then some ⟨.inputEmpty, 0, [], false, s, []⟩", "      if src.isEmpty then some ⟨.inputEmpty, 0, [], false, s, []⟩", "encRepl NCR_EXTRA carve-out: empty input returns InputEmpty even when last and state pending")
M("EN22", EN, "      if src.isEmpty ∧ ¬ (last ∧ E.hasPending s) then some ⟨.inputEmpty, 0, [], false, s, []⟩\n      else some ⟨.outputFull, 0, [], false, s, []⟩",
  "      if src.isEmpty ∧ ¬ (last ∧ E.hasPending s) then some ⟨.inputEmpty, 0, [], false, s, []⟩\n      else some ⟨.outputFull, 0, [], true, s, []⟩", "encRepl NCR_EXTRA carve-out: had_unmappables = true on the early OutputFull")
M("EN23", EN, "      let eff := if canAll then cap else cap - ncrExtra\n", "      let eff := if canAll then cap else cap - (ncrExtra - 1)\n", "encRepl: effective capacity cap - (NCR_EXTRA - 1)")
M("EN24", EN, "      let eff := if canAll then cap else cap - ncrExtra\n", "      let eff := cap - ncrExtra\n", "encRepl: NCR_EXTRA also subtracted for encoders that can encode everything")
M("EN25", EN, "      if tw'' ≥ eff then\n", "      if tw'' > eff then\n", "encRepl: `total_written >= dst_len` after an NCR -> `>`", equivalent="relational model: with `total_written == dst_len` the extra inner call has no effective capacity and can only stop at once (OutputFull without progress / InputEmpty on empty input), which is exactly what the branch returns; the budget search finds that stop")
M("EN26", EN, "        if tr' = src.length ∧ ¬ (last ∧ E.hasPending r.st) then some ⟨.inputEmpty, tr', acc'', true, r.st, inner'⟩", "        if tr' = src.length then some ⟨.inputEmpty, tr', acc'', true, r.st, inner'⟩", "encRepl: after an NCR that fills the buffer, InputEmpty although last and state pending")
M("EN27", EN, "        if tr' = src.length ∧ ¬ (last ∧ E.hasPending r.st) then some ⟨.inputEmpty, tr', acc'', true, r.st, inner'⟩", "        if tr' = src.length ∧ ¬ (last ∧ E.hasPending r.st) then some ⟨.inputEmpty, tr', acc'', false, r.st, inner'⟩", "encRepl: had_unmappables false when the NCR fills the buffer at the end of input")
M("EN28", EN, "    | .inputEmpty => some ⟨.inputEmpty, tr', acc', had, r.st, inner'⟩", "    | .inputEmpty => some ⟨.inputEmpty, tr', acc', false, r.st, inner'⟩", "encRepl: had_unmappables forgotten when the call ends with InputEmpty")
M("EN29", EN, "    | .outputFull => some ⟨.outputFull, tr', acc', had, r.st, inner'⟩", "    | .outputFull => some ⟨.outputFull, tr', acc', false, r.st, inner'⟩", "encRepl: had_unmappables forgotten when the call ends with OutputFull")
M("EN30", EN, "      else go fuel r.st src budgets.tail eff tr' tw'' acc'' true inner'", "      else go fuel r.st src budgets.tail eff tr' tw'' acc'' had inner'", "encRepl: had_unmappables not set by an NCR that leaves room")
M("EN31", EN, "        else some ⟨.outputFull, tr', acc'', true, r.st, inner'⟩", "        else some ⟨.outputFull, tr', acc'', false, r.st, inner'⟩", "encRepl: had_unmappables false when the NCR fills the buffer before the end of input")

# ---------------------------------------------------------------------------------------------
# Model/OneShot.lean (encode), Model/MaxLen.lean (encoder dispatch), Model/Meta.lean

M("OS01", OS, "  if vo = .utf8 then .ok ⟨bytes, false, true⟩", "  if vo = .utf8 then .ok ⟨bytes, false, false⟩", "Encoding::encode: UTF-8 output is not borrowed")
M("OS02", OS, "    if n = bytes.length then .ok ⟨bytes, false, true⟩", "    if n = bytes.length then .ok ⟨bytes, false, false⟩", "Encoding::encode: all-ASCII input is not borrowed")
M("OS03", OS, "    if n = bytes.length then .ok ⟨bytes, false, true⟩", "    if n + 1 ≥ bytes.length then .ok ⟨bytes, false, true⟩", "Encoding::encode: borrows when only the last byte is non-ASCII")
M("OS04", OS, "  if v = .iso2022Jp then iso2022JpAsciiValidUpTo bytes else asciiValidUpTo bytes", "  if v = .eucJp then iso2022JpAsciiValidUpTo bytes else asciiValidUpTo bytes", "Encoding::encode / decode no-repl: ISO-2022-JP validated with the plain ASCII validator (ESC borrowed)")
M("OS05", OS, "          fun (o, e) => ⟨bytes.take n ++ o, e, false⟩", "          fun (o, _) => ⟨bytes.take n ++ o, false, false⟩", "Encoding::encode: had_unmappables always false")
M("OS06", OS, "          | .ok (o, e) => .ok (t.out ++ o, t.hadUnmappables || e)", "          | .ok (o, e) => .ok (t.out ++ o, e)", "Encoding::encode loop: had_unmappables of an OutputFull round is forgotten")
M("OS07", OS, "          fun (o, e) => ⟨bytes.take n ++ o, e, false⟩", "          fun (o, e) => ⟨o, e, false⟩", "Encoding::encode: the validated ASCII prefix is not copied")
M("OS08", OS, "  (encodeV (Meta.variantAt (Meta.outputEncoding i)) bytes fuel slack bs).map fun r => (r, Meta.outputEncoding i)", "  (encodeV (Meta.variantAt (Meta.outputEncoding i)) bytes fuel slack bs).map fun r => (r, i)", "Encoding::encode: reports the encoding itself instead of its output encoding")
M("OS09", OS, "      | .inputEmpty => .ok (t.out, t.hadUnmappables)\n      | .outputFull =>\n        match U.addO cap (encMaxIfNoUnmappables", "      | .inputEmpty => .ok (t.out, false)\n      | .outputFull =>\n        match U.addO cap (encMaxIfNoUnmappables", "Encoding::encode loop: had_unmappables of the final round is forgotten")

M("ML01", ML, "  | .eucKr, n => if utf16 then eucKrEncMaxBufferLengthFromUtf16WithoutReplacement n\n                 else eucKrEncMaxBufferLengthFromUtf8WithoutReplacement n", "  | .eucKr, n => if utf16 then eucKrEncMaxBufferLengthFromUtf8WithoutReplacement n\n                 else eucKrEncMaxBufferLengthFromUtf16WithoutReplacement n", "encoder max_buffer_length dispatch: EUC-KR UTF-8 / UTF-16 swapped")
M("ML02", ML, "  | .utf8 | .utf16Be | .utf16Le | .replacement => true\n  | _ => false", "  | .utf8 | .utf16Be | .utf16Le => true\n  | _ => false", "can_encode_everything (variant form): false for replacement")
M("ML03", ML, "  U.addO (if canEncodeEverything v then 0 else Gen.ncrExtra) (encMaxNoRepl utf16 v n)", "  U.addO (if canEncodeEverything v then 0 else Gen.ncrExtra + 1) (encMaxNoRepl utf16 v n)", "max_buffer_length_*_if_no_unmappables: NCR_EXTRA + 1")
M("ML04", ML, "  | .gbk, n => if utf16 then gbEncMaxBufferLengthFromUtf16WithoutReplacement false n", "  | .gbk, n => if utf16 then gbEncMaxBufferLengthFromUtf16WithoutReplacement true n", "encoder max_buffer_length dispatch: GBK from UTF-16 uses the gb18030 (extended) formula")

M("MT01", MT, "def isAsciiCompatible (i : Nat) : Bool := !(Gen.notAsciiCompatible.contains i)", "def isAsciiCompatible (i : Nat) : Bool := (Gen.notAsciiCompatible.contains i)", "is_ascii_compatible negated")
M("MT02", MT, "def outputEncoding (i : Nat) : Nat := if Gen.outputIsUtf8.contains i then Gen.utf8Idx else i", "def outputEncoding (i : Nat) : Nat := if Gen.outputIsUtf8.contains i then i else i", "output_encoding: identity")
M("MT03", MT, "def canEncodeEverything (i : Nat) : Bool := outputEncoding i == Gen.utf8Idx", "def canEncodeEverything (i : Nat) : Bool := i == Gen.utf8Idx", "can_encode_everything: only UTF-8 itself")
M("MT04", MT, "def isSingleByte (i : Nat) : Bool := Gen.isSingleByteVariant (variantAt i)", "def isSingleByte (i : Nat) : Bool := !Gen.isSingleByteVariant (variantAt i)", "is_single_byte negated")

# ---------------------------------------------------------------------------------------------
# Model/Label.lean

M("LB01", LB, "def isLabelWs (b : Nat) : Bool := b == 0x09 || b == 0x0A || b == 0x0C || b == 0x0D || b == 0x20", "def isLabelWs (b : Nat) : Bool := b == 0x09 || b == 0x0A || b == 0x0B || b == 0x0D || b == 0x20", "label whitespace: FF (0x0C) replaced by VT (0x0B)")
M("LB02", LB, "def isLabelWs (b : Nat) : Bool := b == 0x09 || b == 0x0A || b == 0x0C || b == 0x0D || b == 0x20", "def isLabelWs (b : Nat) : Bool := b == 0x09 || b == 0x0A || b == 0x0C || b == 0x0D || b == 0x20 || b == 0x00", "label whitespace: NUL added")
M("LB03", LB, "def isUpper (b : Nat) : Bool := 0x41 ≤ b && b ≤ 0x5A", "def isUpper (b : Nat) : Bool := 0x41 ≤ b && b ≤ 0x59", "label upper case: `Z` is not upper case")
M("LB04", LB, "def isUpper (b : Nat) : Bool := 0x41 ≤ b && b ≤ 0x5A", "def isUpper (b : Nat) : Bool := 0x40 ≤ b && b ≤ 0x5A", "label upper case: `@` is upper case (becomes a back-quote... not a label character: no effect expected only if `@` inputs absent)", equivalent="`@` becomes a back-quote in the candidate, which matches no label: failure either way (`@` is not a label character in the real scanner: failure as well)")
M("LB05", LB, "(0x61 ≤ b && b ≤ 0x7A) || (0x30 ≤ b && b ≤ 0x39)", "(0x61 ≤ b && b ≤ 0x79) || (0x30 ≤ b && b ≤ 0x39)", "label characters: `z` excluded")
M("LB06", LB, "(0x61 ≤ b && b ≤ 0x7A) || (0x30 ≤ b && b ≤ 0x39)", "(0x61 ≤ b && b ≤ 0x7A) || (0x31 ≤ b && b ≤ 0x39)", "label characters: `0` excluded")
M("LB07", LB, "|| b == 0x2D || b == 0x5F || b == 0x3A || b == 0x2E", "|| b == 0x2D || b == 0x5F || b == 0x3B || b == 0x2E", "label characters: `:` replaced by `;`")
M("LB08", LB, "    else if isUpper b then scanInside [b + 0x20] r\n", "    else if isUpper b then scanInside [b + 0x21] r\n", "label scanner, before-loop: first upper-case letter lower-cased with +0x21")
M("LB09", LB, "      (if acc.length == Gen.longestLabelLength then none else scanInside (acc ++ [b + 0x20]) r)", "      (if acc.length + 1 == Gen.longestLabelLength then none else scanInside (acc ++ [b + 0x20]) r)", "label scanner: length cut-off one too early, upper-case branch only (longest label ending in an upper-case letter)")
M("LB10", LB, "      (if acc.length == Gen.longestLabelLength then none else scanInside (acc ++ [b]) r)", "      (if acc.length + 1 == Gen.longestLabelLength then none else scanInside (acc ++ [b]) r)", "label scanner: length cut-off one too early, lower-case branch")
M("LB11", LB, "    if isLabelWs b then (if scanAfter r then some acc else none)", "    if isLabelWs b then some acc", "label scanner: anything may follow the whitespace after the label")
M("LB12", LB, "  | b :: r => if isLabelWs b then scanAfter r else false", "  | b :: r => if isLabelWs b then scanAfter r else r.isEmpty", "label scanner, after-loop: one trailing non-whitespace byte at the very end is accepted")
M("LB13", LB, "  | some e => if e == Gen.replacementIdx then none else some e", "  | some e => some e", "for_label_no_replacement returns the replacement encoding")
M("LB14", LB, "    if isLabelWs b then scanBefore r\n", "    if isLabelWs b then none\n", "label scanner: leading whitespace is not skipped")
M("LB15", LB, "      (if acc.length == Gen.longestLabelLength then none else scanInside (acc ++ [b + 0x20]) r)", "      (if acc.length == Gen.longestLabelLength then none else scanInside (acc ++ [b]) r)", "label scanner, inside-loop: upper-case letters are not lower-cased")

# ---------------------------------------------------------------------------------------------
# Model/Valid.lean

M("VA01", VA, "def isAsciiByte (b : Nat) : Bool := b < 0x80", "def isAsciiByte (b : Nat) : Bool := b < 0x81", "validators: 0x80 counts as ASCII")
M("VA02", VA, "if b ≥ 0x80 || b == 0x1B || b == 0x0E || b == 0x0F then i", "if b ≥ 0x80 || b == 0x1C || b == 0x0E || b == 0x0F then i", "iso_2022_jp_ascii_valid_up_to: ESC replaced by 0x1C")
M("VA03", VA, "if b ≥ 0x80 || b == 0x1B || b == 0x0E || b == 0x0F then i", "if b ≥ 0x80 || b == 0x1B || b == 0x0D || b == 0x0F then i", "iso_2022_jp_ascii_valid_up_to: SO replaced by CR")
M("VA04", VA, "if b ≥ 0x80 || b == 0x1B || b == 0x0E || b == 0x0F then i", "if b ≥ 0x80 || b == 0x1B || b == 0x0E || b == 0x10 then i", "iso_2022_jp_ascii_valid_up_to: SI replaced by 0x10")
M("VA05", VA, "if b ≥ 0x80 || b == 0x1B || b == 0x0E || b == 0x0F then i", "if b ≥ 0x81 || b == 0x1B || b == 0x0E || b == 0x0F then i", "iso_2022_jp_ascii_valid_up_to: 0x80 accepted")
M("VA06", VA, "  if inInclusiveRange8 byte 0xC2 0xDF then\n    -- Two-byte\n    match rest with", "  if inInclusiveRange8 byte 0xC3 0xDF then\n    -- Two-byte\n    match rest with", "utf8_valid_up_to inner: lead 0xC2 not two-byte")
M("VA07", VA, "  if inInclusiveRange8 byte 0xC2 0xDF then\n    -- Two-byte\n    match rest with", "  if inInclusiveRange8 byte 0xC2 0xDE then\n    -- Two-byte\n    match rest with", "utf8_valid_up_to inner: lead 0xDF not two-byte")
M("VA08", VA, "  if inInclusiveRange8 byte 0xC2 0xDF then\n    -- Two-byte\n    match rest with", "  if inInclusiveRange8 byte 0xC1 0xDF then\n    -- Two-byte\n    match rest with", "utf8_valid_up_to inner: lead 0xC1 accepted as two-byte")
M("VA09", VA, "      if !inInclusiveRange8 second 0x80 0xBF then .done read\n      else nextLead false (read + 2) r2", "      if !inInclusiveRange8 second 0x80 0xBE then .done read\n      else nextLead false (read + 2) r2", "utf8_valid_up_to inner: second byte 0xBF of a two-byte sequence rejected")
M("VA10", VA, "      if !inInclusiveRange8 second 0x80 0xBF then .done read\n      else nextLead false (read + 2) r2", "      if !inInclusiveRange8 second 0x7F 0xBF then .done read\n      else nextLead false (read + 2) r2", "utf8_valid_up_to inner: second byte 0x7F of a two-byte sequence accepted")
M("VA11", VA, "  else if byte < 0xF0 then threeBody byte read rest\n", "  else if byte < 0xF1 then threeBody byte read rest\n", "utf8_valid_up_to inner: lead 0xF0 handled as three-byte")
M("VA12", VA, "    if threeByteTest byte second third != 2 then .done read   -- `break 'outer`\n    else nextLead true (read + 3) r3", "    if threeByteTest byte second third != 2 then .done read   -- `break 'outer`\n    else nextLead true (read + 2) r3", "utf8_valid_up_to three: read += 2")
M("VA13", VA, "  if 4 ≤ rest.length then                          -- `read + 4 <= src.len()`", "  if 5 ≤ rest.length then                          -- `read + 4 <= src.len()`", "utf8_valid_up_to next lead: `read + 4 <= len` -> `read + 5 <= len` (a final four-byte sequence after a multi-byte one goes to the tail, which rejects it)")
M("VA14", VA, "    if 4 ≤ rest.length then .next (.inner nonAscii) read rest\n", "    if 5 ≤ rest.length then .next (.inner nonAscii) read rest\n", "utf8_valid_up_to outer: `read + 4 <= len` -> `read + 5 <= len` (a final four-byte sequence after ASCII goes to the tail)")
M("VA15", VA, "      else if byte < 0x80 then .next .outer (read + 1) r   -- `read += 1; continue 'outer`", "      else if byte < 0x80 then .next .outer read rest   -- `read += 1; continue 'outer`", "utf8_valid_up_to next lead: ASCII lead not counted here", equivalent="`'outer` re-scans the same ASCII byte with validate_ascii and counts it there: the same final index")
M("VA16", VA, "      if fourByteTest byte second third fourth != 0x202 then .done read\n      else nextLead false (read + 4) r4", "      if fourByteTest byte second third fourth != 0x202 then .done read\n      else nextLead true (read + 4) r4", "utf8_valid_up_to four-byte: next lead handled with the after-three variant", equivalent="`'three` and `'inner` run the same three-byte body for leads 0xE0..0xEF")
M("VA17", VA, "    if byte < 0x80 then .next .tail (read + 1) r\n    else if inInclusiveRange8 byte 0xC2 0xDF then", "    if byte < 0x80 then .next .tail (read + 1) r\n    else if inInclusiveRange8 byte 0xC2 0xDE then", "utf8_valid_up_to tail: lead 0xDF not two-byte")
M("VA18", VA, "        if !inInclusiveRange8 second 0x80 0xBF then .done read\n        else .next .tail (read + 2) r2", "        if !inInclusiveRange8 second 0x80 0xBE then .done read\n        else .next .tail (read + 2) r2", "utf8_valid_up_to tail: second byte 0xBF rejected")
M("VA19", VA, "        else .next .tail (read + 2) r2", "        else .done (read + 2)", "utf8_valid_up_to tail: stops after a two-byte sequence (a following byte is never looked at)")
M("VA20", VA, "        if threeByteTest byte second third != 2 then .done read\n        else .done (read + 3)", "        if threeByteTest byte second third != 3 then .done read\n        else .done (read + 3)", "utf8_valid_up_to tail: three-byte test compares with 3")
M("VA21", VA, "    else if byte < 0xF0 then\n      match r with\n      | second :: third :: _ =>", "    else if byte < 0xEF then\n      match r with\n      | second :: third :: _ =>", "utf8_valid_up_to tail: lead 0xEF rejected")
M("VA22", VA, "      if inInclusiveRange8 byte 0xC2 0xC3 then\n        let next := offset + 1\n        if next == bytes.length then some total\n        else if (bytes.getD next 0) &&& 0xC0 != 0x80 then some total\n        else isUtf8Latin1Impl f", "      if inInclusiveRange8 byte 0xC2 0xC4 then\n        let next := offset + 1\n        if next == bytes.length then some total\n        else if (bytes.getD next 0) &&& 0xC0 != 0x80 then some total\n        else isUtf8Latin1Impl f", "utf8_latin1_up_to: lead 0xC4 accepted")
M("VA23", VA, "        else if (bytes.getD next 0) &&& 0xC0 != 0x80 then some total\n        else isUtf8Latin1Impl f", "        else if (bytes.getD next 0) &&& 0x80 != 0x80 then some total\n        else isUtf8Latin1Impl f", "utf8_latin1_up_to: continuation test with mask 0x80 (0xC0..0xFF accepted as trail)")
M("VA24", VA, "        else isUtf8Latin1Impl f (bytes.drop (offset + 2)) (total + 2)\n      else some total\n    | none => none", "        else isUtf8Latin1Impl f (bytes.drop (offset + 2)) (total + 1)\n      else some total\n    | none => none", "utf8_latin1_up_to: total += 1 after a two-byte sequence")
M("VA25", VA, "      if byte > 0xC3 then .found total\n", "      if byte > 0xC4 then .found total\n", "str_latin1_up_to: lead 0xC4 accepted")
M("VA26", VA, "      if byte > 0xC3 then .found total\n", "      if byte ≥ 0xC3 then .found total\n", "str_latin1_up_to: lead 0xC3 rejected")
M("VA27", VA, "def notSurrogate (u : Nat) : Bool := u &&& 0xF800 != 0xD800", "def notSurrogate (u : Nat) : Bool := u &&& 0xFC00 != 0xD800", "utf16_valid_up_to: low surrogates are not surrogates")
M("VA28", VA, "      if wsub16 unit 0xD800 > 0xDBFF - 0xD800 then .done consumed   -- unpaired low surrogate", "      if wsub16 unit 0xD800 ≥ 0xDBFF - 0xD800 then .done consumed   -- unpaired low surrogate", "utf16_valid_up_to: 0xDBFF is not a high surrogate")
M("VA29", VA, "          if wsub16 second 0xDC00 > 0xDFFF - 0xDC00 then .done consumed", "          if wsub16 second 0xDC00 ≥ 0xDFFF - 0xDC00 then .done consumed", "utf16_valid_up_to: 0xDFFF is not a low surrogate")
M("VA30", VA, "          if wsub16 second 0xDC00 > 0xDFFF - 0xDC00 then .done consumed", "          if wsub16 second 0xDBFF > 0xDFFF - 0xDBFF then .done consumed", "utf16_valid_up_to: 0xDBFF accepted as a low surrogate")
M("VA31", VA, "      if wsub16 unit 0xD800 ≤ 0xDFFF - 0xD800 then .next .surrogate consumed rest  -- `continue 'surrogate`", "      if wsub16 unit 0xD800 < 0xDFFF - 0xD800 then .next .surrogate consumed rest  -- `continue 'surrogate`", "utf16_valid_up_to after a pair: 0xDFFF not recognised as a surrogate")
M("VA32", VA, "      else if unit == 0x0020 then .next .afterPair (consumed + 1) r                -- `continue`", "      else if unit == 0x0020 then .next .afterPair (consumed + 2) r                -- `continue`", "utf16_valid_up_to after a pair: a space counts as two units")
M("VA33", VA, "          else .next .afterPair (consumed + 2) r2   -- `consumed = next + 1`", "          else .next .outer (consumed + 2) r2   -- `consumed = next + 1`", "utf16_valid_up_to: back to the stride scan right after a pair", equivalent="afterPair and outer accept the same language (afterPair is a fast path for pair/space runs)")

# ---------------------------------------------------------------------------------------------
# Model/Mem.lean

M("ME01", ME, "    if u < 0x80 then\n      let r := asciiCopy rest cap", "    if u < 0x81 then\n      let r := asciiCopy rest cap", "copy_ascii_*: 0x80 copied as ASCII")
M("ME02", ME, "  if cap < src.length then .panic      -- assert!(dst.len() >= src.len())", "  if cap ≤ src.length then .panic      -- assert!(dst.len() >= src.len())", "copy_ascii_*: panics when dst.len() == src.len()")
M("ME03", ME, "    | (some (_, consumed), w) => .ok (consumed, w)", "    | (some (_, consumed), w) => .ok (consumed + 1, w)", "copy_ascii_*: returned count + 1 at a non-ASCII unit")
M("ME04", ME, "    else if free < 4 then (0, [])\n    else if u < 0x800 then step 1 (enc2 u)", "    else if free < 3 then (0, [])\n    else if u < 0x800 then step 1 (enc2 u)", "convert_utf16_to_utf8_partial inner: `written + 4 > len` -> `+ 3` (a surrogate pair is written into 3 free bytes)")
M("ME05", ME, "    else if free < 4 then (0, [])\n    else if u < 0x800 then step 1 (enc2 u)", "    else if free < 5 then (0, [])\n    else if u < 0x800 then step 1 (enc2 u)", "convert_utf16_to_utf8_partial inner: `written + 4 > len` -> `+ 5` (with exactly 4 free the tail handles only one character)")
M("ME06", ME, "    else if wsub16 u 0xD800 > 0xDFFF - 0xD800 then step 1 (enc3 u) (utf16ToUtf8Inner rest (free - 3))", "    else if wsub16 u 0xD800 ≥ 0xDFFF - 0xD800 then step 1 (enc3 u) (utf16ToUtf8Inner rest (free - 3))", "convert_utf16_to_utf8_partial inner: 0xDFFF is not a surrogate")
M("ME07", ME, "    else if wsub16 u 0xD800 ≤ 0xDBFF - 0xD800 then\n      -- high surrogate", "    else if wsub16 u 0xD800 < 0xDBFF - 0xD800 then\n      -- high surrogate", "convert_utf16_to_utf8_partial inner: 0xDBFF is not a high surrogate")
M("ME08", ME, "        if wsub16 second 0xDC00 ≤ 0xDFFF - 0xDC00 then\n          step 2 (enc4 (astralOf u second))", "        if wsub16 second 0xDC00 < 0xDFFF - 0xDC00 then\n          step 2 (enc4 (astralOf u second))", "convert_utf16_to_utf8_partial inner: 0xDFFF is not a low surrogate")
M("ME09", ME, "      | [] => (1, fffd8)                      -- `if read >= src.len()`: unpaired at the end", "      | [] => (0, [])                      -- `if read >= src.len()`: unpaired at the end", "convert_utf16_to_utf8_partial inner: a high surrogate at the end is left unread", equivalent="the branch is reached only with at least 4 bytes free; the tail function then writes the same U+FFFD for the final high surrogate (it needs 3)")
M("ME10", ME, "        else step 1 fffd8 (utf16ToUtf8Inner (second :: rest') (free - 3))   -- fall through", "        else step 2 fffd8 (utf16ToUtf8Inner rest' (free - 3))   -- fall through", "convert_utf16_to_utf8_partial inner: the unit after an unpaired high surrogate is swallowed")
M("ME11", ME, "      if free < 2 then (0, [])                -- `if written + 2 > dst.len()`", "      if free < 3 then (0, [])                -- `if written + 2 > dst.len()`", "convert_utf16_to_utf8_partial tail: a two-byte character needs 3 free bytes")
M("ME12", ME, "    else if free < 3 then (0, [])             -- `if written + 3 > dst.len()`", "    else if free < 4 then (0, [])             -- `if written + 3 > dst.len()`", "convert_utf16_to_utf8_partial tail: a three-byte character needs 4 free bytes (tail never writes one)")
M("ME13", ME, "          if 0xDC00 ≤ second ∧ second ≤ 0xDFFF then (0, [])   -- valid pair, will not fit: `read -= 1`", "          if 0xDC00 ≤ second ∧ second ≤ 0xDFFE then (0, [])   -- valid pair, will not fit: `read -= 1`", "convert_utf16_to_utf8_partial tail: pair with low surrogate 0xDFFF and exactly 3 bytes free gets U+FFFD")
M("ME14", ME, "          if 0xDC00 ≤ second ∧ second ≤ 0xDFFF then (0, [])   -- valid pair, will not fit: `read -= 1`", "          if 0xDC01 ≤ second ∧ second ≤ 0xDFFF then (0, [])   -- valid pair, will not fit: `read -= 1`", "convert_utf16_to_utf8_partial tail: pair with low surrogate 0xDC00 and exactly 3 bytes free gets U+FFFD")
M("ME15", ME, "        | [] => (1, enc3 0xFFFD)\n        | second :: _ =>", "        | [] => (0, [])\n        | second :: _ =>", "convert_utf16_to_utf8_partial tail: a high surrogate at the end with 3 bytes free is left unread")
M("ME16", ME, "      if wsub16 u 0xD800 ≤ 0xDBFF - 0xD800 then\n        match rest with\n        | [] => (1, enc3 0xFFFD)", "      if wsub16 u 0xD800 < 0xDBFF - 0xD800 then\n        match rest with\n        | [] => (1, enc3 0xFFFD)", "convert_utf16_to_utf8_partial tail: 0xDBFF is not a high surrogate (pair 0xDBFF 0xDCxx with 3 bytes free gets U+FFFD)")
M("ME17", ME, "  if cap < src.length * 3 then .panic\n", "  if cap ≤ src.length * 3 then .panic\n", "convert_utf16_to_utf8: panics when dst.len() == 3 * src.len()")
M("ME18", ME, "    else if free < 2 then (0, [])\n    else step 1 [b >>> 6 ||| 0xC0", "    else if free < 3 then (0, [])\n    else step 1 [b >>> 6 ||| 0xC0", "convert_latin1_to_utf8_partial: a non-ASCII byte needs 3 free bytes")
M("ME19", ME, "    if b < 0x80 then\n      if free = 0 then (0, [])\n      else step 1 [b] (convertLatin1ToUtf8Partial rest (free - 1))", "    if b < 0x81 then\n      if free = 0 then (0, [])\n      else step 1 [b] (convertLatin1ToUtf8Partial rest (free - 1))", "convert_latin1_to_utf8_partial: 0x80 copied as one byte")
M("ME20", ME, "  if cap < src.length * 2 then .panic\n", "  if cap ≤ src.length * 2 then .panic\n", "convert_latin1_to_utf8: panics when dst.len() == 2 * src.len()")
M("ME21", ME, "  if cap < src.length then .panic else .ok (src.map fun b => b)", "  if cap ≤ src.length then .panic else .ok (src.map fun b => b)", "convert_latin1_to_utf16: panics when dst.len() == src.len()")
M("ME22", ME, "  if cap < src.length then .panic else .ok (src.map fun u => u % 256)", "  if cap < src.length then .panic else .ok (src.map fun u => if u < 256 then u else 0x3F)", "convert_utf16_to_latin1_lossy: units above 0xFF become `?` instead of being truncated", equivalent="outside the contract: the result of convert_utf16_to_latin1_lossy for units above 0xFF is unspecified (truncation in the default kernels, saturation in the SIMD ones); the harness deliberately records no operation line for such inputs")
M("ME23", ME, "    else if 0xC2 ≤ b ∧ b ≤ 0xC3 then\n      match rest with\n      | [] => false", "    else if 0xC2 ≤ b ∧ b ≤ 0xC4 then\n      match rest with\n      | [] => false", "is_utf8_latin1 (debug assertion of convert_utf8_to_latin1_lossy): lead 0xC4 accepted")
M("ME24", ME, "      | t :: rest' => if t &&& 0xC0 != 0x80 then false else isUtf8Latin1 rest'", "      | t :: rest' => if t &&& 0x80 != 0x80 then false else isUtf8Latin1 rest'", "is_utf8_latin1 (debug assertion): trail test with mask 0x80")
M("ME25", ME, "      | t :: rest' => (((b &&& 0x1F) <<< 6) % 256 ||| (t &&& 0x3F)) :: utf8ToLatin1Loop rest'", "      | t :: rest' => (((b &&& 0x1F) <<< 6) % 256 ||| (t &&& 0x7F)) :: utf8ToLatin1Loop rest'", "convert_utf8_to_latin1_lossy: trail mask 0x7F", equivalent="the debug assertion guarantees a trail byte 0x80..0xBF, bit 6 is always clear")
M("ME26", ME, "def decodeLatin1 (src : List Nat) : Res (Bool × List Nat) :=\n  let upTo := asciiValidUpTo src\n  if upTo ≥ src.length then .ok (true, src)", "def decodeLatin1 (src : List Nat) : Res (Bool × List Nat) :=\n  let upTo := asciiValidUpTo src\n  if upTo > src.length then .ok (true, src)", "decode_latin1: never borrowed")
M("ME27", ME, "def encodeLatin1Lossy (dbg : Bool) (src : List Nat) : Res (Bool × List Nat) :=\n  let upTo := asciiValidUpTo src\n  if upTo ≥ src.length then .ok (true, src)", "def encodeLatin1Lossy (dbg : Bool) (src : List Nat) : Res (Bool × List Nat) :=\n  let upTo := asciiValidUpTo src\n  if upTo + 1 ≥ src.length then .ok (true, src)", "encode_latin1_lossy: borrowed when only the last byte is non-ASCII", equivalent="type invariant: the argument is a &str; valid UTF-8 cannot have its only non-ASCII byte in the last position")
M("ME28", ME, "    else if wsub16 u 0xD800 > 0xDBFF - 0xD800 then 0       -- unpaired low", "    else if wsub16 u 0xD800 ≥ 0xDBFF - 0xD800 then 0       -- unpaired low", "ensure_utf16_validity: 0xDBFF treated as unpaired even before a low surrogate")
M("ME29", ME, "        if wsub16 second 0xDC00 > 0xDFFF - 0xDC00 then 0    -- high not followed by low", "        if wsub16 second 0xDC00 ≥ 0xDFFF - 0xDC00 then 0    -- high not followed by low", "ensure_utf16_validity: 0xDFFF is not a low surrogate")
M("ME30", ME, "    else buf.take k ++ 0xFFFD :: ensureLoop fuel (buf.drop (k + 1))", "    else buf.take k ++ 0xFFFD :: (buf.drop (k + 1)).take 1 ++ ensureLoop fuel (buf.drop (k + 2))", "ensure_utf16_validity: the unit after a replaced one is not checked")
M("ME31", ME, "    if u &&& 0xF800 != 0xD800 then utf16ValidUpTo rest + 1", "    if u &&& 0xFC00 != 0xD800 then utf16ValidUpTo rest + 1", "ensure_utf16_validity: low surrogates are never replaced")
M("ME32", ME, "    else if 0xC2 ≤ b0 ∧ b0 ≤ 0xDF then\n      match r0 with\n      | [] => (0, [])", "    else if 0xC1 ≤ b0 ∧ b0 ≤ 0xDF then\n      match r0 with\n      | [] => (0, [])", "convert_utf8_to_utf16 fast path: lead 0xC1 accepted")
M("ME33", ME, "        if 0x80 ≤ b1 ∧ b1 ≤ 0xBF then step 2 [dec2 b0 b1]", "        if 0x80 ≤ b1 ∧ b1 ≤ 0xC0 then step 2 [dec2 b0 b1]", "convert_utf8_to_utf16 fast path: trail 0xC0 accepted")
M("ME34", ME, "        if free = 1 then (0, [])\n", "        if free = 0 then (0, [])\n", "convert_utf8_to_utf16 fast path: an astral character is written with one free unit", equivalent="callers assert dst.len() >= src.len() (> for the replacing form): when a four-byte sequence starts at byte k at most k units are written, so at least 4 units are free; `free = 1` is unreachable")
M("ME35", ME, "    else if b0 < 0xF0 then\n      match r0 with\n      | b1 :: b2 :: r2 =>\n        if threeOk", "    else if b0 < 0xF1 then\n      match r0 with\n      | b1 :: b2 :: r2 =>\n        if threeOk", "convert_utf8_to_utf16 fast path: lead 0xF0 handled as three-byte")
M("ME36", ME, "  if cap < src.length then .panic\n  else\n    let r := utf8ToUtf16UpToInvalid src cap", "  if cap ≤ src.length then .panic\n  else\n    let r := utf8ToUtf16UpToInvalid src cap", "convert_utf8_to_utf16_without_replacement: panics when dst.len() == src.len()")
M("ME37", ME, "        else if b < 0xC2 then utf8ToUtf16Loop fuel .init rest (free - 1) (out ++ [0xFFFD])", "        else if b < 0xC1 then utf8ToUtf16Loop fuel .init rest (free - 1) (out ++ [0xFFFD])", "convert_utf8_to_utf16 decoder loop: lead 0xC1 starts a sequence")
M("ME38", ME, "if b = 0xE0 then 0xA0 else 0x80, if b = 0xED then 0x9F else 0xBF", "if b = 0xE0 then 0xA1 else 0x80, if b = 0xED then 0x9F else 0xBF", "convert_utf8_to_utf16 decoder loop: lower bound after 0xE0 is 0xA1 (truncated `E0 A0` gives two U+FFFD)")
M("ME39", ME, "if b = 0xE0 then 0xA0 else 0x80, if b = 0xED then 0x9F else 0xBF", "if b = 0xE0 then 0xA0 else 0x80, if b = 0xED then 0x9E else 0xBF", "convert_utf8_to_utf16 decoder loop: upper bound after 0xED is 0x9E")
M("ME40", ME, "if b = 0xF0 then 0x90 else 0x80, if b = 0xF4 then 0x8F else 0xBF", "if b = 0xF0 then 0x8F else 0x80, if b = 0xF4 then 0x8F else 0xBF", "convert_utf8_to_utf16 decoder loop: lower bound after 0xF0 is 0x8F")
M("ME41", ME, "if b = 0xF0 then 0x90 else 0x80, if b = 0xF4 then 0x8F else 0xBF", "if b = 0xF0 then 0x90 else 0x80, if b = 0xF4 then 0x90 else 0xBF", "convert_utf8_to_utf16 decoder loop: upper bound after 0xF4 is 0x90")
M("ME42", ME, "        else if b < 0xF5 then\n", "        else if b < 0xF6 then\n", "convert_utf8_to_utf16 decoder loop: lead 0xF5 starts a sequence")
M("ME43", ME, "        utf8ToUtf16Loop fuel .init (b :: rest) (free - 1) (out ++ [0xFFFD])", "        utf8ToUtf16Loop fuel .init rest (free - 1) (out ++ [0xFFFD])", "convert_utf8_to_utf16 decoder loop: the byte that ends a malformed sequence is swallowed")
M("ME44", ME, "        if st.seen + 1 ≠ st.needed then utf8ToUtf16Loop fuel ⟨st.needed, st.seen + 1, 0x80, 0xBF, cp⟩ rest free out", "        if st.seen + 1 ≠ st.needed then utf8ToUtf16Loop fuel ⟨st.needed, st.seen + 1, st.lower, st.upper, cp⟩ rest free out", "convert_utf8_to_utf16 decoder loop: the restricted range of the second byte is kept for the third")
M("ME45", ME, "    else if b0 < 0xE0 then\n      match r0 with\n      | b1 :: r1 => dec2 b0 b1 :: strToUtf16Loop r1", "    else if b0 < 0xE1 then\n      match r0 with\n      | b1 :: r1 => dec2 b0 b1 :: strToUtf16Loop r1", "convert_str_to_utf16: lead 0xE0 read as two-byte")
M("ME46", ME, "  if cap < src.length then .panic else .ok (strToUtf16Loop src)", "  if cap ≤ src.length then .panic else .ok (strToUtf16Loop src)", "convert_str_to_utf16: panics when dst.len() == src.len()")
M("ME47", ME, "def astralUnits (p : Nat) : List Nat := [0xD7C0 + (p >>> 10), 0xDC00 + (p &&& 0x3FF)]", "def astralUnits (p : Nat) : List Nat := [0xD7C0 + (p >>> 10), 0xDC00 + (p &&& 0x1FF)]", "UTF-8 to UTF-16: low surrogate mask 0x1FF")
M("ME48", ME, "  if ¬ (cap > src.length) then .panic\n", "  if ¬ (cap ≥ src.length) then .panic\n", "convert_utf8_to_utf16: dst.len() == src.len() does not panic at the assertion")

# ---------------------------------------------------------------------------------------------
# Model/Bidi.lean

M("BI01", BI, "  if codePoint < 0x0590 then false\n", "  if codePoint < 0x0591 then false\n", "is_char_bidi: U+0590 not bidi")
M("BI02", BI, "  else if inRange32 codePoint 0x0900 0xFB1D then\n", "  else if inRange32 codePoint 0x08FF 0xFB1D then\n", "is_char_bidi: LTR block starts at U+08FF")
M("BI03", BI, "  else if inRange32 codePoint 0x0900 0xFB1D then\n", "  else if inRange32 codePoint 0x0900 0xFB1E then\n", "is_char_bidi: LTR block includes U+FB1D")
M("BI04", BI, "    (if inInclusiveRange32 codePoint 0x200F 0x2067 then\n      codePoint == 0x200F || codePoint == 0x202B || codePoint == 0x202E || codePoint == 0x2067", "    (if inInclusiveRange32 codePoint 0x2010 0x2067 then\n      codePoint == 0x200F || codePoint == 0x202B || codePoint == 0x202E || codePoint == 0x2067", "is_char_bidi: control range loses U+200F")
M("BI05", BI, "    (if inInclusiveRange32 codePoint 0x200F 0x2067 then\n      codePoint == 0x200F || codePoint == 0x202B || codePoint == 0x202E || codePoint == 0x2067", "    (if inInclusiveRange32 codePoint 0x200F 0x2067 then\n      codePoint == 0x200F || codePoint == 0x202B || codePoint == 0x202D || codePoint == 0x2067", "is_char_bidi: RLO U+202E replaced by LRO U+202D")
M("BI06", BI, "  else if codePoint > 0x1EFFF then false\n", "  else if codePoint > 0x1EFFE then false\n", "is_char_bidi: U+1EFFF not bidi")
M("BI07", BI, "  else if inRange32 codePoint 0x11000 0x1E800 then false\n", "  else if inRange32 codePoint 0x11000 0x1E801 then false\n", "is_char_bidi: U+1E800 not bidi")
M("BI08", BI, "  else if inRange32 codePoint 0x11000 0x1E800 then false\n", "  else if inRange32 codePoint 0x10FFF 0x1E800 then false\n", "is_char_bidi: U+10FFF not bidi")
M("BI09", BI, "  else if inRange32 codePoint 0xFEFF 0x10800 then false\n", "  else if inRange32 codePoint 0xFEFE 0x10800 then false\n", "is_char_bidi: U+FEFE not bidi")
M("BI10", BI, "  else if inRange32 codePoint 0xFEFF 0x10800 then false\n", "  else if inRange32 codePoint 0xFEFF 0x10801 then false\n", "is_char_bidi: U+10800 not bidi")
M("BI11", BI, "  else if inRange32 codePoint 0xFE00 0xFE70 then false\n", "  else if inRange32 codePoint 0xFE00 0xFE71 then false\n", "is_char_bidi: U+FE70 not bidi")
M("BI12", BI, "  else if inRange32 codePoint 0xFE00 0xFE70 then false\n", "  else if inRange32 codePoint 0xFDFF 0xFE70 then false\n", "is_char_bidi: U+FDFF not bidi")
M("BI13", BI, "  else if inRange16 u 0x0900 0xD802 then\n", "  else if inRange16 u 0x0900 0xD803 then\n", "is_utf16_code_unit_bidi: high surrogate 0xD802 not bidi")
M("BI14", BI, "  else if inRange16 u 0xD83C 0xFB1D then false\n", "  else if inRange16 u 0xD83B 0xFB1D then false\n", "is_utf16_code_unit_bidi: high surrogate 0xD83B not bidi")
M("BI15", BI, "  else if inRange16 u 0xD804 0xD83A then false\n", "  else if inRange16 u 0xD804 0xD83B then false\n", "is_utf16_code_unit_bidi: high surrogate 0xD83A not bidi")
M("BI16", BI, "  else if inRange16 u 0xD804 0xD83A then false\n", "  else if inRange16 u 0xD803 0xD83A then false\n", "is_utf16_code_unit_bidi: high surrogate 0xD803 not bidi")
M("BI17", BI, "  else if u > 0xFEFE then false\n", "  else if u > 0xFEFF then false\n", "is_utf16_code_unit_bidi: U+FEFF bidi")
M("BI18", BI, "    (if inInclusiveRange16 u 0x200F 0x2067 then\n      u == 0x200F || u == 0x202B || u == 0x202E || u == 0x2067", "    (if inInclusiveRange16 u 0x200F 0x2066 then\n      u == 0x200F || u == 0x202B || u == 0x202E || u == 0x2067", "is_utf16_code_unit_bidi: control range loses U+2067")
M("BI19", BI, "def isUtf16Latin1 (buf : List Nat) : Bool := unitCheck STRIDE 0x100 buf.length buf", "def isUtf16Latin1 (buf : List Nat) : Bool := unitCheck STRIDE 0x101 buf.length buf", "is_utf16_latin1: U+0100 accepted")
M("BI20", BI, "def isBasicLatin (buf : List Nat) : Bool := unitCheck STRIDE 0x80 buf.length buf", "def isBasicLatin (buf : List Nat) : Bool := unitCheck STRIDE 0x81 buf.length buf", "is_basic_latin: U+0080 accepted")
M("BI21", BI, "  | a :: t => t.foldl (· ||| ·) a < bound", "  | a :: t => t.foldl (max · ·) a < bound", "unit check tail: OR-reduction replaced by max", equivalent="bound is a power of two: OR of the units is below it iff every unit is, iff the maximum is")
M("BI22", BI, "      if inInclusiveRange8 byte 0xC2 0xC3 then\n        let next := offset + 1\n        if next == bytes.length then some total\n        else if ((bytes.getD next 0) &&& 0xC0) != 0x80 then some total", "      if inInclusiveRange8 byte 0xC2 0xC3 then\n        let next := offset + 1\n        if next == bytes.length then none\n        else if ((bytes.getD next 0) &&& 0xC0) != 0x80 then some total", "is_utf8_latin1: a truncated two-byte sequence at the end counts as Latin1")
M("BI23", BI, "      if byte > 0xC3 then some (some total)\n", "      if byte > 0xC4 then some (some total)\n", "is_str_latin1: lead 0xC4 accepted")
M("BI24", BI, "    if u < 0x100 then checkUtf16 r\n", "    if u < 0x101 then checkUtf16 r\n", "check_utf16_for_latin1_and_bidi: U+0100 is Latin1")
M("BI25", BI, "  | u :: r => if isUtf16CodeUnitBidi u then .bidi else checkUtf16Rest r", "  | u :: r => if isUtf16CodeUnitBidi u && !r.isEmpty then .bidi else checkUtf16Rest r", "check_utf16_for_latin1_and_bidi: a bidi unit in the very last position (after a non-Latin1 unit) is missed")
M("BI26", BI, "  if second == 0x80 then (third == 0x8F || third == 0xAB || third == 0xAE)", "  if second == 0x80 then (third == 0x8F || third == 0xAB || third == 0xAD)", "UTF-8 bidi, E2 arm: U+202E replaced by U+202D")
M("BI27", BI, "  else if second == 0x81 then third == 0xA7", "  else if second == 0x81 then third == 0xA6", "UTF-8 bidi, E2 arm: U+2067 replaced by U+2066")
M("BI28", BI, "    (if second == 0xAC then third > 0x9C else true)", "    (if second == 0xAC then third ≥ 0x9C else true)", "UTF-8 bidi, EF arm: U+FB1C bidi")
M("BI29", BI, "    (if second == 0xB9 then third > 0xAF", "    (if second == 0xB9 then third ≥ 0xAF", "UTF-8 bidi, EF arm: U+FE6F bidi")
M("BI30", BI, "     else if second == 0xBB then third != 0xBF", "     else if second == 0xBB then third != 0xBE", "UTF-8 bidi, EF arm: U+FEFF bidi, U+FEFE not")
M("BI31", BI, "  if inInclusiveRange8 second 0xAC 0xB7 then\n    (if second == 0xAC then third > 0x9C else true)", "  if inInclusiveRange8 second 0xAC 0xB8 then\n    (if second == 0xAC then third > 0x9C else true)", "UTF-8 bidi, EF arm: U+FE00..U+FE3F bidi")
M("BI32", BI, "  else if 0xC2 ≤ byte ∧ byte ≤ 0xD5 then\n    if !inInclusiveRange8 second 0x80 0xBF then .ret true else .adv 2", "  else if 0xC2 ≤ byte ∧ byte ≤ 0xD6 then\n    if !inInclusiveRange8 second 0x80 0xBF then .ret true else .adv 2", "is_utf8_bidi inner: lead 0xD6 never bidi")
M("BI33", BI, "    else if second > 0x8F then .ret true\n    else .adv 2", "    else if second ≥ 0x8F then .ret true\n    else .adv 2", "is_utf8_bidi inner: U+058F bidi")
M("BI34", BI, "    else if second < 0xA4 then .ret true\n    else .adv 3", "    else if second ≤ 0xA4 then .ret true\n    else .adv 3", "is_utf8_bidi inner: U+0900..U+093F bidi")
M("BI35", BI, "    else if (second == 0x90 || second == 0x9E) && third ≥ 0xA0 then .ret true", "    else if (second == 0x90 || second == 0x9E) && third > 0xA0 then .ret true", "is_utf8_bidi inner: U+10800..U+1083F / U+1E800..U+1E83F not bidi")
M("BI36", BI, "    else if (second == 0x90 || second == 0x9E) && third ≥ 0xA0 then .ret true", "    else if (second == 0x90 || second == 0x9D) && third ≥ 0xA0 then .ret true", "is_utf8_bidi inner: plane-1 second byte 0x9E replaced by 0x9D")
M("BI37", BI, "  else if byte = 0xE1 ∨ (0xE3 ≤ byte ∧ byte ≤ 0xEC) ∨ byte = 0xEE then\n    if bad3 byte second third then .ret true else .adv 3", "  else if byte = 0xE1 ∨ (0xE3 ≤ byte ∧ byte ≤ 0xEB) ∨ byte = 0xEE then\n    if bad3 byte second third then .ret true else .adv 3", "is_utf8_bidi inner: lead 0xEC falls to the default arm (true)")
M("BI38", BI, "    if 2 > rest.length then .ret true\n    else if !inInclusiveRange8 second 0x80 0xBF then .ret true\n    else if second > 0x8F then .ret true", "    if 2 > rest.length then .ret true\n    else if !inInclusiveRange8 second 0x80 0xBF then .ret true\n    else if second ≥ 0x8F then .ret true", "is_utf8_bidi tail: U+058F bidi")
M("BI39", BI, "    else if second < 0xA4 then .ret true\n    else .ret false", "    else if second ≤ 0xA4 then .ret true\n    else .ret false", "is_utf8_bidi tail: U+0900..U+093F bidi")
M("BI40", BI, "    else if efBidi second third then .ret true\n    else .ret false", "    else if efBidi second third then .ret false\n    else .ret false", "is_utf8_bidi tail: EF arm never bidi")
M("BI41", BI, "    if 3 > rest.length then .ret true\n    else if bad3 byte second third then .ret true\n    else .ret false\n  else if byte = 0xE2 then", "    if 3 > rest.length then .ret true\n    else if bad3 byte second third then .ret true\n    else .cont 3\n  else if byte = 0xE2 then", "is_utf8_bidi tail: continues after a three-byte character", equivalent="the tail is entered with fewer than four bytes left: after a three-byte character nothing is left, `'outer` returns false")
M("BI42", BI, "      if read + 4 ≤ src.length then utf8BidiLoop fuel (.inner byte) (src.drop read)", "      if read + 5 ≤ src.length then utf8BidiLoop fuel (.inner byte) (src.drop read)", "is_utf8_bidi: a final four-byte character after ASCII goes to the tail (which answers true)")
M("BI43", BI, "      if 4 > rest'.length then\n", "      if 5 > rest'.length then\n", "is_utf8_bidi: a final four-byte character after a multi-byte one goes to the tail")
M("BI44", BI, "      if byte ≥ 0xD6 then\n        if byte = 0xD6 then", "      if byte ≥ 0xD7 then\n        if byte = 0xD6 then", "is_str_bidi: lead 0xD6 never bidi")
M("BI45", BI, "          idx rest 1 fun second => if second > 0x8F then .ret true else .adv 2", "          idx rest 1 fun second => if second > 0x90 then .ret true else .adv 2", "is_str_bidi: U+0590 not bidi")
M("BI46", BI, "          if second < 0xA4 then .ret true else .adv 3", "          if second < 0xA3 then .ret true else .adv 3", "is_str_bidi: U+08C0..U+08FF not bidi")
M("BI47", BI, "              idx rest 2 fun third => if third > 0x9C then .ret true else .adv 3", "              idx rest 2 fun third => if third > 0x9D then .ret true else .adv 3", "is_str_bidi: U+FB1D not bidi")
M("BI48", BI, "              idx rest 2 fun third => if third > 0xAF then .ret true else .adv 3", "              idx rest 2 fun third => if third > 0xB0 then .ret true else .adv 3", "is_str_bidi: U+FE70 not bidi")
M("BI49", BI, "              idx rest 2 fun third => if third != 0xBF then .ret true else .adv 3", "              idx rest 2 fun third => if third < 0xBF then .ret true else .adv 3", "is_str_bidi: EF BB arm `!= 0xBF` -> `< 0xBF`", equivalent="type invariant: the argument is a &str, a continuation byte of valid UTF-8 is at most 0xBF")
M("BI50", BI, "        idx rest 2 fun third => if third ≥ 0xA0 then .ret true else .adv 4", "        idx rest 2 fun third => if third ≥ 0xA1 then .ret true else .adv 4", "is_str_bidi: U+10800..U+1083F not bidi")
M("BI51", BI, "    if !inInclusiveRange8 byte 0xE3 0xEE && byte != 0xE1 then", "    if !inInclusiveRange8 byte 0xE3 0xEF && byte != 0xE1 then", "is_str_bidi: lead 0xEF never bidi")
M("BI52", BI, "      if n ≥ rest.length then some false\n", "      if n > rest.length then some false\n", "is_str_bidi: at the exact end goes on with byte 0 of the empty rest", equivalent="byte 0 is ASCII: the next round finds no non-ASCII byte and answers false as well")
M("BI53", BI, "  | some offset => if isUtf8Bidi (buf.drop offset) then .bidi else .leftToRight", "  | some offset => if isUtf8Bidi (buf.drop (offset + 1)) then .bidi else .leftToRight", "check_utf8_for_latin1_and_bidi: bidi check starts one byte after the first non-Latin1 lead")
M("BI54", BI, "    | some b => some (if b then .bidi else .leftToRight)\n  | some none => some .latin1", "    | some b => some (if b then .bidi else .leftToRight)\n  | some none => some .leftToRight", "check_str_for_latin1_and_bidi: Latin1 reported as LeftToRight")

# ---------------------------------------------------------------------------------------------
# Model/StrSink.lean

M("SS01", SS, "def isContByte (b : Nat) : Bool := (b &&& 0xC0) == 0x80", "def isContByte (b : Nat) : Bool := (b &&& 0xC0) == 0xC0", "trail zeroing: lead bytes instead of continuation bytes")
M("SS02", SS, "(min len (written + Gen.maxStrideSize))", "(min len (written + Gen.maxStrideSize - 1))", "trail zeroing: stride window one byte short")
M("SS03", SS, "(min len (written + Gen.maxStrideSize))", "(min len (written + Gen.maxStrideSize + 1))", "trail zeroing: stride window one byte long")
M("SS04", SS, "  contLoop len p.1 p.2", "  contLoop len p.1 written", "trail zeroing: the continuation loop restarts at `written` (stops at once on the zeroed window)")
M("SS05", SS, "  zeroTrail (!isUtf8) buf written", "  zeroTrail true buf written", "decode_to_str: the stride window is zeroed for UTF-8 too")
M("SS06", SS, "  zeroTrail (!isUtf8) buf written", "  zeroTrail false buf written", "decode_to_str: the stride window is never zeroed")
M("SS07", SS, "    else if written + 4 > dst.length then (0, written, dst)\n", "    else if written + 3 > dst.length then (0, written, dst)\n", "memory-level convert_utf16_to_str_partial inner: `written + 4 > len` -> `+ 3`")
M("SS08", SS, "      if written + 2 > dst.length then (0, written, dst)\n      else rd 1 (utf16ToUtf8TailLowMem", "      if written + 3 > dst.length then (0, written, dst)\n      else rd 1 (utf16ToUtf8TailLowMem", "memory-level convert_utf16_to_str_partial tail: a two-byte character needs 3 free bytes")
M("SS09", SS, "          if 0xDC00 ≤ second ∧ second ≤ 0xDFFF then (0, written, dst)", "          if 0xDC00 ≤ second ∧ second ≤ 0xDFFE then (0, written, dst)", "memory-level convert_utf16_to_str_partial tail: pair with low surrogate 0xDFFF and 3 bytes free gets U+FFFD")
M("SS10", SS, "    else if written + 2 > dst.length then (0, written, dst)   -- `total_written.checked_add(2).unwrap() > dst_len`", "    else if written + 3 > dst.length then (0, written, dst)   -- `total_written.checked_add(2).unwrap() > dst_len`", "memory-level convert_latin1_to_str_partial: a non-ASCII byte needs 3 free bytes")
M("SS11", SS, "  if old.length < src.length * 3 then .panic\n", "  if old.length ≤ src.length * 3 then .panic\n", "convert_utf16_to_str: panics when dst.len() == 3 * src.len()")
M("SS12", SS, "  if old.length < src.length * 2 then .panic\n", "  if old.length ≤ src.length * 2 then .panic\n", "convert_latin1_to_str: panics when dst.len() == 2 * src.len()")
M("SS13", SS, "    if trail < bytes.length && isContByte (bytes.getD trail 0) then contLoop fuel (bytes.set trail 0) (trail + 1)", "    if trail + 1 < bytes.length && isContByte (bytes.getD trail 0) then contLoop fuel (bytes.set trail 0) (trail + 1)", "trail zeroing: the last byte of the buffer is never zeroed by the continuation loop")
M("SS14", SS, "      | [] => (1, written + 3, storeBytes dst written fffd8)\n", "      | [] => (1, written + 3, storeBytes dst (written + 1) fffd8)\n", "memory-level convert_utf16_to_str_partial inner: U+FFFD for a final high surrogate stored one byte late")

# ---------------------------------------------------------------------------------------------
# Spec/Encode.lean (model side of `specenc` / `specdump`)

M("SE01", SE, "  | some pointer => .bytes [pointer + 0x80]", "  | some pointer => .bytes [pointer + 0x81]", "spec single-byte encoder: pointer + 0x81")
M("SE02", SE, "    if codePoint ≤ 0x07FF then (1, 0xC0) else if codePoint ≤ 0xFFFF then (2, 0xE0) else (3, 0xF0)", "    if codePoint ≤ 0x07FE then (1, 0xC0) else if codePoint ≤ 0xFFFF then (2, 0xE0) else (3, 0xF0)", "spec UTF-8 encoder: two-byte bound U+07FE")
M("SE03", SE, "  if codePoint = 0xE5E5 then .error codePoint else", "  if codePoint = 0xE5E6 then .error codePoint else", "spec gb18030 encoder: U+E5E5 exclusion moved")
M("SE04", SE, "  if isGBK = true ∧ codePoint = 0x20AC then .bytes [0x80] else", "  if isGBK = false ∧ codePoint = 0x20AC then .bytes [0x80] else", "spec gb18030 encoder: euro special case for gb18030 instead of GBK")
M("SE05", SE, "    let offset := if trail < 0x3F then 0x40 else 0x41\n    .bytes [lead, trail + offset]\n  | none =>\n  -- 8.", "    let offset := if trail ≤ 0x3F then 0x40 else 0x41\n    .bytes [lead, trail + offset]\n  | none =>\n  -- 8.", "spec gb18030 encoder: trail boundary")
M("SE06", SE, "  if codePoint = 0xE7C7 then 7457 else", "  if codePoint = 0xE7C7 then 7458 else", "spec gb18030 ranges pointer: U+E7C7")
M("SE07", SE, "  let byte3 := pointer / 10\n  let byte4 := pointer % 10\n", "  let byte3 := pointer / 10\n  let byte4 := pointer % 9\n", "spec gb18030 encoder: byte4 = pointer % 9")
M("SE08", SE, "  match gb180302022Row codePoint with\n  | some (b1, b2) => .bytes [b1, b2]", "  match gb180302022Row codePoint with\n  | some (b1, b2) => .bytes [b2, b1]", "spec gb18030 encoder: 2022 table row bytes swapped")
M("SE09", SE, "    let offset := if trail < 0x3F then 0x40 else 0x62\n", "    let offset := if trail ≤ 0x3F then 0x40 else 0x62\n", "spec Big5 encoder: trail boundary")
M("SE10", SE, "      ∨ codePoint = 0x5341 ∨ codePoint = 0x5345 then", "      ∨ codePoint = 0x5341 ∨ codePoint = 0x5346 then", "spec index Big5 pointer: U+5345 uses the first pointer")
M("SE11", SE, "  if codePoint = 0x2550 ∨ codePoint = 0x255E", "  if codePoint = 0x2551 ∨ codePoint = 0x255E", "spec index Big5 pointer: U+2550 uses the first pointer")
M("SE12", SE, "excluding indexBig5 fun p => p < (0xA1 - 0x81) * 157", "excluding indexBig5 fun p => p < (0xA0 - 0x81) * 157", "spec index Big5 pointer: only pointers below (0xA0-0x81)*157 excluded")
M("SE13", SE, "    let trail := pointer % 190 + 0x41\n", "    let trail := pointer % 190 + 0x40\n", "spec EUC-KR encoder: trail offset")
M("SE14", SE, "  if 0xFF61 ≤ codePoint ∧ codePoint ≤ 0xFF9F then .bytes [0x8E, codePoint - 0xFF61 + 0xA1] else", "  if 0xFF61 ≤ codePoint ∧ codePoint ≤ 0xFF9E then .bytes [0x8E, codePoint - 0xFF61 + 0xA1] else", "spec EUC-JP encoder: half-width range loses U+FF9F")
M("SE15", SE, "  if codePoint = 0x203E then .bytes [0x7E] else\n  -- 5. U+FF61..U+FF9F: two bytes", "  if codePoint = 0x203F then .bytes [0x7E] else\n  -- 5. U+FF61..U+FF9F: two bytes", "spec EUC-JP encoder: U+203E fold moved")
M("SE16", SE, "  let codePoint := if codePoint = 0x2212 then 0xFF0D else codePoint\n  -- 7. Let pointer be the index pointer for code point in index jis0208.", "  let codePoint := if codePoint = 0x2213 then 0xFF0D else codePoint\n  -- 7. Let pointer be the index pointer for code point in index jis0208.", "spec EUC-JP encoder: U+2212 fold moved")
M("SE17", SE, "  if isAsciiCodePoint codePoint ∨ codePoint = 0x80 then .bytes [codePoint] else", "  if isAsciiCodePoint codePoint ∨ codePoint = 0x81 then .bytes [codePoint] else", "spec Shift_JIS encoder: U+0080 pass-through moved")
M("SE18", SE, "    let leadOffset := if lead < 0x1F then 0x81 else 0xC1\n", "    let leadOffset := if lead ≤ 0x1F then 0x81 else 0xC1\n", "spec Shift_JIS encoder: lead boundary")
M("SE19", SE, "excluding Enc.indexJis0208Full fun p => 8272 ≤ p && p ≤ 8835", "excluding Enc.indexJis0208Full fun p => 8272 ≤ p && p ≤ 8834", "spec index Shift_JIS pointer: exclusion range one short", equivalent="pointer 8835 has no entry in index jis0208 (spec/index-jis0208.txt), excluding it or not changes nothing")
M("SE20", SE, "excluding Enc.indexJis0208Full fun p => 8272 ≤ p && p ≤ 8835", "excluding Enc.indexJis0208Full fun p => 8273 ≤ p && p ≤ 8835", "spec index Shift_JIS pointer: exclusion range starts one late")
M("SE21", SE, "  if 0xF780 ≤ codePoint ∧ codePoint ≤ 0xF7FF then .bytes [codePoint - 0xF780 + 0x80] else", "  if 0xF780 ≤ codePoint ∧ codePoint ≤ 0xF7FE then .bytes [codePoint - 0xF780 + 0x80] else", "spec x-user-defined encoder: U+F7FF excluded")
M("SE22", SE, "  if (state = .ascii ∨ state = .roman) ∧ (codePoint = 0x0E ∨ codePoint = 0x0F ∨ codePoint = 0x1B) then", "  if (state = .ascii ∨ state = .ascii) ∧ (codePoint = 0x0E ∨ codePoint = 0x0F ∨ codePoint = 0x1B) then", "spec ISO-2022-JP encoder step 3: only in the ASCII state")
M("SE23", SE, "  if state = .roman ∧ ((isAsciiCodePoint codePoint = true ∧ codePoint ≠ 0x5C ∧ codePoint ≠ 0x7E)", "  if state = .roman ∧ ((isAsciiCodePoint codePoint = true ∧ codePoint ≠ 0x5C ∧ codePoint ≠ 0x7D)", "spec ISO-2022-JP encoder step 5: U+007E written in the Roman state")
M("SE24", SE, "    else if codePoint = 0xA5 then ⟨state, none, .bytes [0x5C]⟩\n    else ⟨state, none, .bytes [0x7E]⟩", "    else if codePoint = 0xA5 then ⟨state, none, .bytes [0x7E]⟩\n    else ⟨state, none, .bytes [0x5C]⟩", "spec ISO-2022-JP encoder step 5: Roman bytes swapped")
M("SE25", SE, "⟨.roman, some codePoint, .bytes [0x1B, 0x28, 0x4A]⟩", "⟨.roman, some codePoint, .bytes [0x1B, 0x28, 0x49]⟩", "spec ISO-2022-JP encoder step 7: escape byte")
M("SE26", SE, "    if 0xFF61 ≤ codePoint' ∧ codePoint' ≤ 0xFF9F then\n", "    if 0xFF62 ≤ codePoint' ∧ codePoint' ≤ 0xFF9F then\n", "spec ISO-2022-JP encoder step 9: Katakana folding loses U+FF61")
M("SE27", SE, "    if state = .jis0208 then ⟨.ascii, some codePoint', .bytes [0x1B, 0x28, 0x42]⟩", "    if state = .jis0208 then ⟨.ascii, none, .bytes [0x1B, 0x28, 0x42]⟩", "spec ISO-2022-JP encoder step 11.1: the unmappable code point is not restored (no NCR after the escape)")
M("SE28", SE, "    if state ≠ .ascii then ⟨.ascii, none, .bytes [0x1B, 0x28, 0x42]⟩", "    if state = .jis0208 then ⟨.ascii, none, .bytes [0x1B, 0x28, 0x42]⟩", "spec ISO-2022-JP encoder step 1: no final escape from the Roman state")
M("SE29", SE, "  if n < 10 then [0x30 + n] else decimalDigits (n / 10) ++ [0x30 + n % 10]", "  if n < 9 then [0x30 + n] else decimalDigits (n / 10) ++ [0x30 + n % 10]", "spec error mode html: digits, `n < 10` -> `n < 9` (leading digit 9 gets a leading 0)")
M("SE30", SE, "  if name = \"replacement\" ∨ name = \"UTF-16BE\" ∨ name = \"UTF-16LE\" then \"UTF-8\" else name", "  if name = \"replacement\" ∨ name = \"UTF-16BE\" then \"UTF-8\" else name", "spec get an output encoding: UTF-16LE keeps itself (no encoder)")
M("SE31", SE, "  let codePoint' := if codePoint = 0x2212 then 0xFF0D else codePoint\n", "  let codePoint' := if codePoint = 0x2212 then 0xFF0E else codePoint\n", "spec ISO-2022-JP encoder step 8: U+2212 becomes U+FF0E")
M("SE32", SE, "    | \"GBK\" => some (stateless (gb18030 true))\n    | \"gb18030\" => some (stateless (gb18030 false))", "    | \"GBK\" => some (stateless (gb18030 false))\n    | \"gb18030\" => some (stateless (gb18030 true))", "spec get an encoder: GBK / gb18030 swapped")

# ---------------------------------------------------------------------------------------------
# Spec/Label.lean (checked against the model by the `label` driver operation, see Driver/Ops/Label.lean)

M("SL01", SL, "def isAsciiWhitespace (b : Nat) : Bool := b == 0x09 || b == 0x0A || b == 0x0C || b == 0x0D || b == 0x20", "def isAsciiWhitespace (b : Nat) : Bool := b == 0x09 || b == 0x0A || b == 0x0B || b == 0x0D || b == 0x20", "spec ASCII whitespace: FF replaced by VT")
M("SL02", SL, "def asciiLower (b : Nat) : Nat := if 0x41 ≤ b ∧ b ≤ 0x5A then b + 0x20 else b", "def asciiLower (b : Nat) : Nat := if 0x41 ≤ b ∧ b ≤ 0x59 then b + 0x20 else b", "spec ASCII lower-casing: `Z` not lower-cased")
M("SL03", SL, "def strip (bs : List Nat) : List Nat := stripTrailing (stripLeading bs)", "def strip (bs : List Nat) : List Nat := stripLeading bs", "spec get an encoding: trailing whitespace not stripped")
M("SL04", SL, "def asciiLower (b : Nat) : Nat := if 0x41 ≤ b ∧ b ≤ 0x5A then b + 0x20 else b", "def asciiLower (b : Nat) : Nat := if 0x40 ≤ b ∧ b ≤ 0x5A then b + 0x20 else b", "spec ASCII lower-casing: `@` lower-cased to a back-quote (`@` and back-quote compare equal)", equivalent="no label contains `@` or a back-quote, so no match is gained or lost")
