#!/usr/bin/env python3
"""One-off vendoring script (NOT run by the checks): reconstructs the WHATWG
indexes from the pinned tree's tests/test_data/*_in*.txt (a plain dump of the
indexes written by generate-encoding-data.py, independent of the compressed
tables of data.rs) into /verif/spec/index-*.txt and lean/EncodingRs/Spec/IndexData*.lean."""
import os, re, sys
sys.path.insert(0, os.path.dirname(os.path.abspath(__file__)))
from gen_lean import emit_array  # same chunked `Array Nat` format as the generated tables

TD = "/repo/tests/test_data"
HEADER_LINES = 5  # TEST_HEADER: 4 lines + the blank line? counted below


def body(path):
    data = open(os.path.join(TD, path), "rb").read()
    marker = b"Instead, please regenerate using generate-encoding-data.py\n"
    i = data.index(marker) + len(marker)
    return data[i:]


def ref_lines(path):
    return body(path).decode("utf-8").split("\n")[:-1]


def index_from(in_path, ref_path, n_expected=None, two_char=None):
    ins = body(in_path).split(b"\n")[:-1]
    refs = ref_lines(ref_path)
    assert len(ins) == len(refs), (in_path, len(ins), len(refs))
    if n_expected is not None:
        assert len(ins) == n_expected, (in_path, len(ins))
    idx = []
    for p, r in enumerate(refs):
        if two_char and p in two_char:
            assert r == two_char[p], (p, r)
            idx.append(0)
        elif r.startswith("�"):
            idx.append(0)
        else:
            assert len(r) == 1, (in_path, p, r)
            idx.append(ord(r))
    return idx


out = {}
out["jis0208"] = index_from("jis0208_in.txt", "jis0208_in_ref.txt", 94 * 94)
out["jis0212"] = index_from("jis0212_in.txt", "jis0212_in_ref.txt")
out["euc-kr"] = index_from("euc_kr_in.txt", "euc_kr_in_ref.txt")
out["gb18030"] = index_from("gb18030_in.txt", "gb18030_in_ref.txt")
out["big5"] = index_from("big5_in.txt", "big5_in_ref.txt", None,
                         {1133: "Ê̄", 1135: "Ê̌", 1164: "ê̄", 1166: "ê̌"})
# cross-check: shift_jis and iso-2022-jp dumps are views of jis0208
iso = index_from("iso_2022_jp_in.txt", "iso_2022_jp_in_ref.txt", 94 * 94)
assert iso == out["jis0208"]

os.makedirs("/verif/spec", exist_ok=True)
for name, idx in out.items():
    with open("/verif/spec/index-%s.txt" % name, "w") as f:
        f.write("# reconstructed from tests/test_data of the pinned tree; pointer<TAB>code point (unmapped pointers omitted)\n")
        for p, c in enumerate(idx):
            if c:
                f.write("%d\t0x%04X\n" % (p, c))
    print(name, len(idx), sum(1 for c in idx if c))

lean = ["-- VENDORED reference data (see /verif/spec/PROVENANCE.md): WHATWG indexes reconstructed from tests/test_data.\n"
        "-- Written by tools/vendor_indexes.py; NOT regenerated from /repo by the checks. 0 = no entry for the pointer.\n"
        "namespace EncodingRs.Spec\n"]
names = {"jis0208": "indexJis0208", "jis0212": "indexJis0212", "euc-kr": "indexEucKr", "gb18030": "indexGb18030", "big5": "indexBig5"}
for name, idx in out.items():
    lean.append("/-- index %s: pointer -> code point (0 = none), %d pointers -/" % (name, len(idx)))
    lean.append(emit_array(names[name], idx))
lean.append("end EncodingRs.Spec\n")
open("/verif/lean/EncodingRs/Spec/IndexData.lean", "w").write("\n".join(lean))
