#!/usr/bin/env python3
"""Model-mutation audit of the encoder-side, mem, validator, classifier and label hand models.

Question answered: would the correspondence run (harness operation lines replayed by the compiled
Lean driver `modeldrv`) notice if the hand-written MODEL (or the executable SPEC used by the
`specenc` / `label` driver operations) were wrong?

    tools/model_mutants_b.py [--phase NAME] [--ops GLOB] [--only id,id,...] [--jobs N] [--list]

For every mutant of `tools/model_mutants_b_list.py` (file, exact old text, new text, id, note):
  1. the mutation is applied to the Lean file (the old text must occur exactly once, or `nth` selects
     the occurrence),
  2. `lake build modeldrv` (only the driver executable: Model/, Spec/, Driver/; no proofs) -- a mutant
     that does not compile is recorded as `no-compile` and is not counted,
  3. the driver is run over all operation files matching --ops (default `work/mm_*.ops`, generated once
     from the UNCHANGED code); DIFF and BAD lines are counted per file,
  4. the file is restored (always, also on error / SIGINT / SIGTERM).
Results are merged into `notes/model_mutants_encoders.json` under the phase name (default `first`) and
the markdown table `notes/MODEL-MUTANTS-encoders.md` is rewritten from the JSON.
"""
import argparse
import glob
import importlib.util
import json
import os
import re
import shutil
import signal
import subprocess
import sys
import time
from concurrent.futures import ThreadPoolExecutor

VERIF = os.path.dirname(os.path.dirname(os.path.abspath(__file__)))
LEAN = os.path.join(VERIF, "lean")
DRV = os.path.join(LEAN, ".lake", "build", "bin", "modeldrv")
OUT_JSON = os.path.join(VERIF, "notes", "model_mutants_encoders.json")
OUT_MD = os.path.join(VERIF, "notes", "MODEL-MUTANTS-encoders.md")

_restore = {}  # path -> original text (restored by the signal handler / finally)


def restore_all():
    for p, txt in list(_restore.items()):
        with open(p, "w", encoding="utf-8") as f:
            f.write(txt)
        _restore.pop(p, None)


def on_signal(sig, frm):
    restore_all()
    sys.stderr.write("\ninterrupted: mutated file restored\n")
    sys.exit(130)


def load_mutants():
    spec = importlib.util.spec_from_file_location("mm_list", os.path.join(VERIF, "tools", "model_mutants_b_list.py"))
    mod = importlib.util.module_from_spec(spec)
    spec.loader.exec_module(mod)
    seen = set()
    for m in mod.MUTANTS:
        assert m["id"] not in seen, "duplicate id " + m["id"]
        seen.add(m["id"])
    return mod.MUTANTS


def apply_mutation(text, old, new, nth=None):
    n = text.count(old)
    if n == 0:
        raise ValueError("old text not found")
    if nth is None:
        if n != 1:
            raise ValueError("old text occurs %d times (give nth)" % n)
        return text.replace(old, new, 1)
    if nth >= n:
        raise ValueError("nth=%d but only %d occurrences" % (nth, n))
    pos = -1
    for _ in range(nth + 1):
        pos = text.index(old, pos + 1)
    return text[:pos] + new + text[pos + len(old):]


def build_driver(timeout=1800):
    p = subprocess.run(["lake", "build", "modeldrv"], cwd=LEAN, stdout=subprocess.PIPE, stderr=subprocess.STDOUT, text=True, timeout=timeout)
    errs = [l for l in p.stdout.splitlines() if l.startswith("error:")]
    return p.returncode == 0, errs[:4]


def run_driver(ops_path, drv=DRV):
    with open(ops_path) as f:
        p = subprocess.Popen([drv], stdin=f, stdout=subprocess.PIPE, stderr=subprocess.DEVNULL, text=True)
        diffs = bad = 0
        sample = None
        stat = None
        for line in p.stdout:
            if line.startswith("DIFF "):
                diffs += 1
                if sample is None:
                    sample = line.rstrip("\n")
            elif line.startswith("BAD "):
                bad += 1
                if sample is None:
                    sample = line.rstrip("\n")
            elif line.startswith("STAT "):
                stat = line.strip()
        p.wait()
    if sample and len(sample) > 420:
        sample = sample[:200] + " ... " + sample[-200:]
    return {"diffs": diffs, "bad": bad, "crashed": stat is None, "sample": sample}


def run_all(ops_files, jobs):
    # the binary is copied first: the next build may replace it while stragglers are still running
    tmp = DRV + ".mm_run"
    shutil.copy2(DRV, tmp)
    try:
        with ThreadPoolExecutor(max_workers=jobs) as ex:
            res = list(ex.map(lambda p: run_driver(p, tmp), ops_files))
    finally:
        os.remove(tmp)
    return {os.path.basename(p)[:-4]: r for p, r in zip(ops_files, res)}


OP_MODULE = {"enc": "Driver.Ops.Enc", "encchar": "Driver.Ops.EncChar", "encchar16": "Driver.Ops.EncChar16", "specenc": "Driver.Ops.SpecEnc",
             "specdump": "Driver.Ops.SpecEnc", "specdec": "Driver.Ops.Spec", "label": "Driver.Ops.Label", "valid": "Driver.Ops.Valid",
             "valid16": "Driver.Ops.Valid", "mem": "Driver.Ops.Mem", "cls": "Driver.Ops.Cls", "cls16": "Driver.Ops.Cls", "clschar": "Driver.Ops.Cls",
             "oneshot": "Driver.Ops.OneShot", "oneshotenc": "Driver.Ops.OneShot", "meta": "Driver.Ops.Meta", "dec": "Driver.Ops.Dec",
             "zerotail": "Driver.Ops.StrSink"}
_closure = {}


def import_closure(module):
    """modules (dotted) transitively imported by `module`, itself included (parsed from the `import` lines)"""
    if module in _closure:
        return _closure[module]
    seen = set()
    todo = [module]
    while todo:
        m = todo.pop()
        if m in seen:
            continue
        seen.add(m)
        path = os.path.join(LEAN, m.replace(".", "/") + ".lean")
        if not os.path.exists(path):
            continue
        for line in open(path, encoding="utf-8"):
            mm = re.match(r"import\s+(\S+)", line)
            if mm:
                todo.append(mm.group(1))
            elif line.strip() and not line.startswith("import") and not line.startswith("--") and seen and line.startswith(("namespace", "def ", "/-", "open ", "theorem", "structure", "inductive")):
                break
    _closure[module] = seen
    return seen


_kinds = {}


def op_kinds(ops_path):
    if ops_path not in _kinds:
        out = subprocess.run("cut -d' ' -f1 %s | sort -u" % ops_path, shell=True, stdout=subprocess.PIPE, text=True).stdout.split()
        _kinds[ops_path] = out
    return _kinds[ops_path]


def depends_on(ops_path, lean_file):
    """can the driver's answer on some line of `ops_path` depend on `lean_file`? (import closure of the handlers
    of the operation kinds in the file; an unknown kind counts as dependent)"""
    mod = lean_file[:-5].replace("/", ".")
    for k in op_kinds(ops_path):
        h = OP_MODULE.get(k)
        if h is None or mod in import_closure(h):
            return True
    return False


def verdict(r):
    if r.get("status") == "no-compile":
        return "no-compile"
    killed = {k: v for k, v in r.get("files", {}).items() if v["diffs"] or v["bad"] or v["crashed"]}
    return "killed" if killed else "SURVIVED"


def write_md(data):
    phases = data["phases"]
    muts = data["mutants"]
    lines = ["# Model mutants: encoder-side, mem, validator, classifier, label models", "",
             "Generated by `tools/model_mutants_b.py` from `notes/model_mutants_encoders.json`; the mutant list is",
             "`tools/model_mutants_b_list.py`.  A mutant is *killed* when the driver built from the mutated model prints at least one",
             "`DIFF`/`BAD` line on the operation files generated from the UNCHANGED code (quick tier, seed 1).", ""]
    for ph in phases:
        rs = [m["results"].get(ph) for m in muts if ph in m["results"]]
        comp = [r for r in rs if r.get("status") != "no-compile"]
        k = sum(1 for r in comp if verdict(r) == "killed")
        eqs = sum(1 for m in muts if ph in m["results"] and m.get("equivalent") and verdict(m["results"][ph]) == "SURVIVED")
        lines.append("* phase `%s` (%s): %d mutants run, %d compiled, %d killed, %d survived (%d of them equivalent, %d non-equivalent), %d did not compile" % (
            ph, data["phase_info"].get(ph, {}).get("ops", "?"), len(rs), len(comp), k, len(comp) - k, eqs, len(comp) - k - eqs, len(rs) - len(comp)))
    lines += ["", "Equivalent mutants (marked `equivalent` in the list, with the reason) are shown but not counted as survivors.",
              "Counts are `file:DIFF+BAD lines`; only operation files whose driver handlers import the mutated Lean file are run, and the",
              "expensive files (C03, C12, C11enc shards) only when the cheaper ones did not already kill the mutant, so a killed row lists",
              "the files that were run, not every file that would notice.  `C11enc_k` are four shards of the `oneshotenc` lines of C11.", ""]
    lines.append("| id | file | change | " + " | ".join("phase `%s`" % p for p in phases) + " |")
    lines.append("|---|---|---|" + "---|" * len(phases))
    for m in muts:
        cells = []
        for ph in phases:
            r = m["results"].get(ph)
            if r is None:
                cells.append("")
                continue
            v = verdict(r)
            if v == "killed":
                ks = ["%s:%d" % (k.replace("mm_", "").replace("mm2_", ""), f["diffs"] + f["bad"]) for k, f in sorted(r["files"].items()) if f["diffs"] or f["bad"] or f["crashed"]]
                cells.append("killed (" + ", ".join(ks) + ")")
            elif v == "no-compile":
                cells.append("no-compile: " + (r.get("errors") or ["?"])[0][:80].replace("|", "/"))
            else:
                cells.append("**SURVIVED**" + (" (equivalent)" if m.get("equivalent") else ""))
        note = m["note"].replace("|", "/")
        if m.get("equivalent"):
            note += " — EQUIVALENT: " + m["equivalent"].replace("|", "/")
        lines.append("| %s | %s | %s | %s |" % (m["id"], m["file"].replace("EncodingRs/", ""), note, " | ".join(cells)))
    lines.append("")
    with open(OUT_MD, "w", encoding="utf-8") as f:
        f.write("\n".join(lines))


def main():
    ap = argparse.ArgumentParser()
    ap.add_argument("--phase", default="first")
    ap.add_argument("--ops", default=os.path.join(VERIF, "work", "mm_*.ops"))
    ap.add_argument("--only", default="")
    ap.add_argument("--jobs", type=int, default=6)
    ap.add_argument("--late", default="C03,C12,C11enc", help="operation files run only if the others did not kill the mutant")
    ap.add_argument("--list", action="store_true")
    ap.add_argument("--md-only", action="store_true")
    ap.add_argument("--survivors-of", default="", help="run only the mutants that survived phase NAME")
    a = ap.parse_args()

    mutants = load_mutants()
    if a.list:
        for m in mutants:
            print("%-10s %-40s %s" % (m["id"], m["file"], m["note"]))
        print(len(mutants), "mutants")
        return

    data = {"phases": [], "phase_info": {}, "mutants": []}
    if os.path.exists(OUT_JSON):
        data = json.load(open(OUT_JSON))
    by_id = {m["id"]: m for m in data["mutants"]}
    # refresh descriptions from the list, keep results
    merged = []
    for m in mutants:
        e = by_id.get(m["id"], {"results": {}})
        e.update({k: m[k] for k in ("id", "file", "old", "new", "note")})
        e["nth"] = m.get("nth")
        if m.get("equivalent"):
            e["equivalent"] = m["equivalent"]
        else:
            e.pop("equivalent", None)
        merged.append(e)
    data["mutants"] = merged
    if a.md_only:
        json.dump(data, open(OUT_JSON, "w"), indent=1, ensure_ascii=False)
        write_md(data)
        return

    ops_files = sorted(glob.glob(a.ops))
    if not ops_files:
        sys.exit("no operation files match " + a.ops)
    only = set(x for x in a.only.split(",") if x)
    if a.survivors_of:
        only |= {m["id"] for m in merged if a.survivors_of in m["results"] and verdict(m["results"][a.survivors_of]) == "SURVIVED"}
        if not only:
            print("no survivors of phase", a.survivors_of)
            return
    if a.phase not in data["phases"]:
        data["phases"].append(a.phase)
    data["phase_info"][a.phase] = {"ops": os.path.relpath(a.ops, VERIF), "files": [os.path.basename(p) for p in ops_files]}

    signal.signal(signal.SIGINT, on_signal)
    signal.signal(signal.SIGTERM, on_signal)

    # baseline: the unchanged model must agree everywhere
    ok, errs = build_driver()
    if not ok:
        sys.exit("baseline driver does not build: %s" % errs)
    base = run_all(ops_files, a.jobs)
    badbase = {k: v for k, v in base.items() if v["diffs"] or v["bad"] or v["crashed"]}
    print("baseline:", "clean" if not badbase else "NOT CLEAN %s" % badbase, flush=True)
    if badbase:
        sys.exit(1)

    t00 = time.time()
    try:
        for m in merged:
            if only and m["id"] not in only:
                continue
            path = os.path.join(LEAN, m["file"])
            orig = open(path, encoding="utf-8").read()
            t0 = time.time()
            try:
                mutated = apply_mutation(orig, m["old"], m["new"], m.get("nth"))
            except ValueError as ex:
                print("%-10s SKIPPED: %s" % (m["id"], ex), flush=True)
                m["results"][a.phase] = {"status": "no-compile", "errors": ["mutation not applicable: %s" % ex]}
                continue
            _restore[path] = orig
            try:
                with open(path, "w", encoding="utf-8") as f:
                    f.write(mutated)
                ok, errs = build_driver()
                if not ok:
                    r = {"status": "no-compile", "errors": errs}
                else:
                    rel = [p for p in ops_files if depends_on(p, m["file"])]
                    # two tiers: the expensive files (--late, substrings of file names) are only run when the
                    # cheap ones did not kill the mutant ("all counts" mode: --late "")
                    late = [p for p in rel if a.late and any(x in os.path.basename(p) for x in a.late.split(","))]
                    early = [p for p in rel if p not in late]
                    files = run_all(early, a.jobs) if early else {}
                    skipped = []
                    if late and not any(f["diffs"] or f["bad"] or f["crashed"] for f in files.values()):
                        files.update(run_all(late, a.jobs))
                    else:
                        skipped = [os.path.basename(p)[:-4] for p in late]
                    r = {"status": "ran", "files": files, "not_run_already_killed": skipped,
                         "not_dependent": [os.path.basename(p)[:-4] for p in ops_files if p not in rel]}
            finally:
                restore_all()
            r["seconds"] = round(time.time() - t0, 1)
            m["results"][a.phase] = r
            v = verdict(r)
            detail = ""
            if v == "killed":
                detail = " ".join("%s:%d" % (k, f["diffs"] + f["bad"]) for k, f in sorted(r["files"].items()) if f["diffs"] or f["bad"] or f["crashed"])
            elif v == "no-compile":
                detail = (r["errors"] or ["?"])[0][:160]
            print("%-10s %-10s %5.1fs  %s" % (m["id"], v, r["seconds"], detail), flush=True)
            json.dump(data, open(OUT_JSON, "w"), indent=1, ensure_ascii=False)
    finally:
        restore_all()
        build_driver()
    json.dump(data, open(OUT_JSON, "w"), indent=1, ensure_ascii=False)
    write_md(data)
    rs = [m["results"][a.phase] for m in merged if a.phase in m["results"] and (not only or m["id"] in only)]
    comp = [r for r in rs if r.get("status") != "no-compile"]
    k = sum(1 for r in comp if verdict(r) == "killed")
    print("phase %s: %d run, %d compiled, %d killed, %d survived, %d no-compile, %.0fs" % (a.phase, len(rs), len(comp), k, len(comp) - k, len(rs) - len(comp), time.time() - t00))


if __name__ == "__main__":
    main()
