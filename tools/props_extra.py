# merged from the sub-agent contributions (C14, C15, C16); same shape as props.py entries

PROPS_EXTRA = {}
MANIFEST_TEXT_EXTRA = {}

PROPS_EXTRA['C14'] = {'assumptions': ['bytes / UTF-16 units modelled as Nat with explicit hypotheses b < 256 / u < 65536 where the Rust arithmetic wraps or indexes the table',
                 'str_latin1_up_to is only specified (and only exercised) on valid UTF-8, as its &str argument type demands',
                 'a slice position is modelled as (read, rest = src[read..]); memory addresses/alignment are not modelled (the default build uses as_chunks, '
                 'which is alignment-independent); alignment is exercised by the harness only'],
 'correspondences': ['valid: Encoding::utf8_valid_up_to (fast path on and off), ascii_valid_up_to, iso_2022_jp_ascii_valid_up_to, mem::utf8_latin1_up_to, '
                     'mem::str_latin1_up_to impl = Model.utf8ValidUpTo / asciiValidUpTo / iso2022JpAsciiValidUpTo / utf8Latin1UpTo / strLatin1UpTo on every '
                     'generated buffer',
                     'valid16: mem::utf16_valid_up_to impl = Model.utf16ValidUpTo on every generated buffer'],
 'generated': ['Gen.TablesMisc.utf8DataTable (UTF8_DATA.table of utf_8.rs, 384 entries; re-evaluated by utf8_data_table_check / utf8_data_classifies)'],
 'harness_cfgs': ['default'],
 'partial': [],
 'rule': 'every length 0..160 x defect positions (thorough: all; quick: both ends, every 16-unit stride boundary +-1, 3 random) x 44 UTF-8 defect patterns '
         '(lone continuations, C0/C1/F5..FF leads, overlong E0/F0, surrogates ED A0.., F4 90.., missing/bad continuation at every place, truncated sequences) '
         'with 4 kinds of valid filler, pairs of defects at gaps 0..65, every (lead 80..FF, second) pair with valid/invalid tails at 9 offsets, '
         'ASCII/ISO-2022-JP offenders at every position of every length, Latin1 / non-Latin1 / malformed injections, 19 surrogate arrangements for UTF-16, '
         'seeded random corruption. Each buffer is executed in-process at all 16 start alignments (and for utf8 with the SIMD fast path enabled and disabled) '
         'and checked against std / naive oracles (oracle_evals in the harness line); one representative variant per buffer (rotating alignment/path) plus '
         'every variant whose result differs from it is written as an operation line for the model (the model ignores alignment and path). distinct = distinct '
         'operation lines; trivial = empty input',
 'thm_modules': ['EncodingRs.Thm.C14'],
 'trivial_re': '^valid(16)? \\S+( \\S+)? \\S+ \\. => ',
 'trusted': ['simdutf8 (external SIMD UTF-8 validator taken by utf8_valid_up_to for inputs >= 64 bytes on this AVX2 CPU) is NOT modelled: parameter `fast` of '
             'Model.utf8ValidUpToWith, assumed equal to Spec.validUpTo whenever it answers (theorem utf8_valid_up_to_with_fast_spec); that path is covered by '
             'the correspondence/oracle run only',
             'Spec/Utf8.lean: transcription of Unicode Table 3-7 (well-formed UTF-8), surrogate pairing, and the doc-comment definitions of the Latin1 scans',
             'std::str::from_utf8 / char::decode_utf16 / char_indices of the Rust standard library as harness oracles',
             'slice::as_chunks / iterator semantics of core (modelled by Model.blockScan with the plan List.replicate (len/16) 16); the theorem holds for '
             'every plan',
             'only the default (non simd-accel) build is executed by the correspondence run; the simd-accel shapes of ascii_valid_impl and is_str_latin1_impl '
             'are modelled (planDouble, strLatin1UpToSimd) and the former is proved, but core::simd lane semantics are assumed']}

MANIFEST_TEXT_EXTRA['C14'] = {'design_ref': 'DESIGN.md 4 C14',
 'note': 'Trusted: Lean kernel; translator for UTF8_DATA; Spec/Utf8.lean transcription of Table 3-7; simdutf8 (external SIMD validator, inputs >= 64 bytes) is '
         'a parameter assumed correct in the theorem and covered by the differential run only; core slice::as_chunks semantics; correspondence run for the '
         'hand models (default build only).',
 'technique': 'Lean 4 proof (step-function invariants + induction, kernel decide over the regenerated table) + differential correspondence model/impl + std '
              'oracles',
 'text': 'Theorems utf8_valid_up_to_spec, ascii_valid_up_to_spec, iso2022jp_ascii_valid_up_to_spec, utf16_valid_up_to_spec, utf8_latin1_up_to_spec, '
         "str_latin1_up_to_spec: for every byte / code-unit list (induction, no length bound) the hand model of each validator's control flow as written "
         "(scalar UTF-8 loop nest with validate_ascii skip, 'inner entered only when read+4<=len, UTF8_DATA table tests, 'tail; 16-unit stride kernels with "
         'arbitrary block plan; surrogate-pairing loop) returns exactly the specification value: length of the longest well-formed prefix per Unicode Table '
         "3-7 (= std's valid_up_to), index of the first non-ASCII / ISO-2022-JP-unsafe byte, first unpaired surrogate, first invalid-or-non-Latin1 sequence. "
         'utf8_data_classifies re-evaluates the regenerated UTF8_DATA table against Table 3-7 in the kernel; validUpTo_prefix_wf / validUpTo_maximal / '
         'validUtf8_iff tie the specification scan to the declarative definition (concatenation of Table 3-7 sequences: the delimited prefix is well-formed '
         'and no longer prefix is); stride_scan_any_plan covers every block plan (16-unit, simd-accel 16/32 shapes). Kernel-checked, axioms '
         'propext/Classical.choice/Quot.sound only. Model tied to the code by ~7.5*10^5 (quick) / 8.5*10^6 (thorough) generated buffers, each run at 16 '
         'alignments and with the SIMD path on/off and checked against std.'}

PROPS_EXTRA['C15'] = {'assumptions': ['bytes / UTF-16 units modelled as Nat; theorems about UTF-16 sources assume every unit < 65536, about byte sources every byte < 256 where '
                 'stated',
                 "destination modelled as capacity + written prefix; 'bytes beyond written unmodified' (convert_utf16_to_utf8_partial) is checked on the "
                 'implementation by the harness guard-band oracle, not proved (fails in the simd-accel build: finding F5)',
                 'harness profile has debug assertions on: the debug-only Latin1 assertion of convert_utf8_to_latin1_lossy / encode_latin1_lossy is modelled '
                 'as enabled'],
 'correspondences': ['mem: every public convert_*/copy_*/ensure_*/decode_latin1/encode_latin1_lossy function of mem.rs: impl (read, written, dst[..written] | '
                     'none | panic) = Model.Mem.* on every generated (source, destination length)'],
 'generated': ['Gen.TablesMisc (UTF8_DATA.table used by the UTF-8 -> UTF-16 converters)'],
 'harness_cfgs': ['default'],
 'partial': ["'bytes beyond written are left unmodified' (doc of convert_utf16_to_utf8_partial) is not a theorem: the model abstracts the destination to "
             'capacity + written prefix; it is checked on the implementation by the guard-band oracle on every generated call (default build: no violation; '
             'simd-accel build: finding F5)',
             'the trail-zeroing of the &mut str forms (convert_utf16_to_str_partial, convert_latin1_to_str_partial and their non-partial wrappers) is not '
             "modelled; counts and written prefix are (same model as the &mut [u8] forms), 'destination stays valid UTF-8' is an oracle (simd-accel build: "
             'violated by convert_utf16_to_str_partial, see final report)',
             "simd-accel kernels: correspondence + oracles only when the harness cfg 'simd' is enabled (needs known_findings entries for F5 / the &mut str "
             'finding); the theorems are about the model of the default kernels'],
 'rule': '20 functions x source lengths 0..160 x 21 source shapes (all-ASCII, one non-ASCII item at every stride-boundary position, mono-class '
         'Latin1/BMP/astral/lone-surrogate runs, seeded random mixes, F5 shape, surrogate/truncated edges; UTF-8 sources include every ill-formed class) x '
         'destination lengths (partial forms: every length 0..documented sufficient size for short sources and a rotating subset of long ones, ~30 sampled '
         'lengths otherwise (thorough: every length); non-partial forms: minimum legal, +1, +17, random larger, and one too-short probe observing the '
         'documented panic) x alignments 0..15 inside a guarded 0xA5-filled buffer; distinct = distinct op lines; non-trivial = the source is non-empty',
 'thm_modules': ['EncodingRs.Thm.C15', 'EncodingRs.Thm.C15Utf8'],
 'trivial_re': '^mem \\S+ \\d+ \\. => ',
 'trusted': ['ascii.rs stride kernels (ascii_to_ascii, ascii_to_basic_latin, basic_latin_to_ascii, pack/unpack) are modelled as the per-unit loop they '
             'implement in the default build (tied by the correspondence run, all lengths 0..160 and alignments)',
             'std reference conversions used by the harness oracles (String::from_utf8_lossy, char::decode_utf16, char::encode_utf8/encode_utf16)',
             "Spec/Conv.lean: transcription of Unicode ch.3 (Table 3-6, Table 3-7, maximal-subpart replacement) and of TextEncoder.encodeInto's greedy rule"]}

MANIFEST_TEXT_EXTRA['C15'] = {'design_ref': 'DESIGN.md 4 C15',
 'note': 'Trusted: Lean kernel; Spec/Conv.lean (Unicode ch.3 tables, maximal-subpart rule, encodeInto greedy rule); translator for UTF8_DATA.table; hand '
         'models + correspondence run (the ascii.rs stride kernels are modelled as per-unit loops); std conversions used as oracle. Not proved (oracle only): '
         'destination bytes beyond `written` untouched (fails in simd-accel: F5), &mut str destinations stay valid UTF-8.',
 'technique': 'Lean 4 proof (induction over the source, all destination lengths) + differential correspondence model/impl + std-based oracles with guard bands',
 'text': 'One spec theorem per public conversion of mem.rs, for every source (induction, no length bound) and every destination length: '
         "convert_utf16_to_utf8_partial_spec (model = hot loop with its 4-free-bytes rule + cold tail; proved equal to TextEncoder.encodeInto's greedy rule: "
         'written = UTF-8 of the lossy decoding of src[..read], written <= dst.len(), never ends between the halves of a surrogate pair, remaining input '
         'decodes independently, maximal: all read or the next character does not fit), convert_utf16_to_utf8_spec, convert_latin1_to_utf8_partial_spec / '
         '_spec, convert_latin1_to_utf16_spec, convert_utf16_to_latin1_lossy_spec, convert_utf8_to_latin1_lossy_spec (+ debug-assertion panic exactly outside '
         'the documented domain), decode_latin1_spec / encode_latin1_lossy_spec (borrow iff ASCII), ensure_utf16_validity_spec (= replace exactly the unpaired '
         'surrogates; length preserved, result well-formed, idempotent), copy_*_spec (count = index of first non-ASCII unit, exactly that prefix copied, panic '
         'iff dst shorter), convert_utf8_to_utf16_spec (faithful model of the Utf8Decoder loop + up_to_invalid fast path over the regenerated UTF8_DATA table: '
         '= UTF-16 of the lossy decoding with one U+FFFD per maximal ill-formed subpart and no panic whenever dst.len() > src.len()), '
         'convert_utf8_to_utf16_without_replacement_spec (None iff not well-formed), convert_str_to_utf16_spec. Kernel-checked, axioms '
         'propext/Classical.choice/Quot.sound only. Models tied to the code by ~2.8*10^5 (quick) / 5.3*10^6 (thorough) generated calls per run covering all 20 '
         'functions, source lengths 0..160, destination lengths 0..sufficient size, alignments 0..15, with guard bands and std-based oracles.'}

PROPS_EXTRA['C16'] = {'assumptions': ['units modelled as Nat; theorems whose Rust arithmetic wraps or indexes a table carry the range hypothesis of the Rust type (c < 2^32, u < '
                 '2^16, byte < 2^8)',
                 'str functions: precondition valid UTF-8 (the model returns an explicit panic value outside it)'],
 'correspondences': ['clschar: is_char_bidi / is_utf16_code_unit_bidi impl = Model.Bidi.isCharBidi / isUtf16CodeUnitBidi on every scalar value / code unit',
                     'cls: is_ascii, is_utf8_latin1, is_str_latin1, is_utf8_bidi, is_str_bidi, check_utf8_for_latin1_and_bidi, check_str_for_latin1_and_bidi '
                     'impl = Model.Bidi.* on every generated byte buffer',
                     'cls16: is_basic_latin, is_utf16_latin1, is_utf16_bidi, check_utf16_for_latin1_and_bidi impl = Model.Bidi.* on every generated UTF-16 '
                     'buffer'],
 'generated': ['Gen.TablesMisc (UTF8_DATA.table, used by the model of is_utf8_bidi)'],
 'harness_cfgs': ['default'],
 'partial': [],
 'rule': 'both per-character predicates on every scalar value / code unit (thorough: exhaustive 1112064 + 65536; quick: all code units, every boundary of the '
         'list +-2 and a stride-13 sweep of the scalars); every scalar / code unit alone as a buffer (thorough: exhaustive; quick: boundaries +-2 and a '
         'stride-389 sweep); 52 (thorough 75) interesting scalars (boundaries of the RTL list, ASCII/Latin1 boundaries, UTF-8 length-class boundaries, '
         'surrogate neighbours, astral RTL blocks) and 12 lone surrogates planted at positions 0..48 of buffers of lengths 0..64 characters over ASCII / '
         'Latin1 (U+00E9) / non-Latin1 (U+3042) filler in UTF-8, str and UTF-16 form (quick: 21 lengths around the stride boundaries, positions near buffer '
         'start, end and stride boundaries); every non-ASCII lead byte with second/third/fourth bytes from the class boundaries, complete and truncated, '
         'framed by ASCII (malformed UTF-8 for is_utf8_bidi / is_utf8_latin1 / check_utf8); seeded random text (ASCII-heavy, Latin1-heavy, mixed, occasional '
         'RTL) with 1-2 injected byte edits / lone surrogates; distinct = distinct operation lines; non-trivial = buffer not empty',
 'thm_modules': ['EncodingRs.Thm.C16'],
 'trivial_re': '^cls\\S* \\S+ \\. => ',
 'trusted': ['the documented right-to-left block list as transcribed in lean/EncodingRs/Spec/Bidi.lean (from the doc/comment block of mem::is_char_bidi and '
             'is_utf16_code_unit_bidi) and the definition of well-formed UTF-8 (Unicode Table 3-7) there',
             "default (non-SIMD) build only: the simd-accel kernels are not modelled by this property's theorems",
             'ascii::validate_ascii is modelled in its default (non-arm, non-simd-accel) form; the multiversion(avx2) clones of the same Rust source are '
             'assumed to behave like the source']}

MANIFEST_TEXT_EXTRA['C16'] = {'design_ref': 'DESIGN.md 4 C16',
 'note': 'Trusted: Lean kernel; transcription of the documented block list and of Unicode Table 3-7 (Spec/Bidi.lean); translator for UTF8_DATA.table; '
         'correspondence run for the hand models; default (non-SIMD) build.',
 'technique': 'Lean 4 proof (interval arithmetic by omega, induction over the buffer, finite byte-class facts by kernel decide over the regenerated UTF8_DATA '
              'table) + differential correspondence model/impl',
 'text': 'Theorems (kernel-checked, every input, no size bound, axioms propext/Classical.choice/Quot.sound only) about hand models of the mem.rs '
         'classification functions written in the order and form of the Rust code (default build): is_char_bidi / is_utf16_code_unit_bidi equal the documented '
         'right-to-left block list for every u32 / u16; is_ascii, is_basic_latin, is_utf16_latin1 (stride loop of any positive stride + OR-reduced tail) equal '
         "'every unit below the bound'; is_utf16_bidi is true iff some code unit is in the list; is_utf8_bidi (byte automaton: ASCII skip, four-byte "
         'look-ahead loop, tail match; UTF8_DATA.table regenerated from utf_8.rs) is true iff the bytes are not well-formed UTF-8 (Unicode Table 3-7) or some '
         'decoded scalar is in the list; is_utf8_latin1 is true iff well-formed and every scalar <= U+00FF; is_str_bidi / is_str_latin1 equal the per-scalar '
         'definitions on every well-formed string and never hit an index panic there; the three check_*_for_latin1_and_bidi functions answer exactly as the '
         'two separate checks (restart offset is a scalar boundary preceded only by Latin1). Models tied to the code by the differential run (every scalar / '
         'code unit, boundaries planted at every position/length over three fillers, systematic malformed UTF-8, seeded random text).'}

# ---------------------------------------------------------------------------------------------- C03
_C03_NATIVE = (
    "native_decide (Lean compiler + IR interpreter) for the finite table obligations of C03, each appearing as "
    "`<theorem>._native.native_decide.ax_*` under #print axioms: the complete evaluations over all code points "
    "big5_check_r0..r5, gb_check_r0..r9, eucKr_check_all, eucJp_check_all, shiftJis_check_all, iso_check_r0..r7 "
    "(3 states x all code points), sb_check_r0..r3 (28 single-byte encodings x all code points), and the inverse-table "
    "checks big5Inv_checks, gbInv_checks, eucKrInv_checks, jisInv_checks, sjisInv_checks, isoJisInv_checks (two linear "
    "passes each; that these imply `inverse look-up = index pointer` is kernel-checked: indexPointer_eq_invLookup)"
)

PROPS_EXTRA['C03'] = {
    'thm_modules': ['EncodingRs.Thm.C03'],
    'harness_cfgs': ['default'],
    'generated': [
        'Gen.Encodings (the 40 *_INIT initialisers: names, variants, single-byte run parameters; names_ok re-checks every name against the Standard\'s names and "get an output encoding")',
        'Gen.SingleByte (SINGLE_BYTE_DATA; sb_check_r0..r3 re-evaluate every table against the vendored index of the encoding\'s name)',
        'Gen.TablesBig5 (BIG5_LOW_BITS, BIG5_ASTRALNESS, ...: big5_check_r0..r5)',
        'Gen.TablesJis (JIS0208_*, IBM_*, ISO_2022_JP_HALF_WIDTH_TRAIL: eucJp_check_all, shiftJis_check_all, iso_check_r0..r7)',
        'Gen.TablesKorean (KSX1001_*, CP949_*: eucKr_check_all)',
        'Gen.TablesGb (GBK_*, GB2312_*, GB18030_RANGE_*: gb_check_r0..r9) and Gen.TablesMisc (GB18030_2022_OVERRIDE_*)',
    ],
    'correspondences': [
        'specenc: for each of the 40 encodings, everything Encoder::encode_from_utf16 (with replacement, last = true, big destination) writes for a text of UTF-16 code units = the bytes of the EXECUTABLE transcription of the Standard (Spec.Encode.encode: lossy UTF-16 -> scalar values, get an output encoding, encoder handler, process a queue in error mode html) on every generated text; theorem spec_encode_eq_model says this executable equals the model\'s reference run',
        'specdump: every line (code point -> bytes) of the vendored encode dumps spec/encode-dump-*.txt (tests/test_data/*_out*.txt of the pinned tree, pointer selection applied by the generator) is reproduced by Spec.Encode.encode (77 668 lines; cross-check of the transcription that involves neither the implementation nor its tables)',
        'enc: every call of every generated streaming history (harness/src/enc.rs: raw and with replacement, UTF-8 and UTF-16 sources, chunked, capacities around the thresholds) is admissible for the model (Model.Encoder.ecall / encRepl over the families of Model/EncFam.lean with some stop budget; bytes, read, result, has_pending_state, had_unmappables)',
        'ENCCHAR (run once when the families were written, re-runnable as `verif_harness ops ENCCHAR thorough`): Model.EncFam per-character functions = the real encoders on all 1 112 064 scalar values x 40 encodings',
    ],
    'rule': (
        'specenc (harness/src/specenc.rs), per encoding (all 40): quick = every scalar value of a ~4k class set alone (U+0000..U+04FF, '
        'every constant of the Standard\'s handlers and of the encoder bodies +-2, ~1400 characters obtained by decoding random byte strings with the same encoding, '
        '900 random BMP + 250 random astral), all 1600 ordered pairs of a 40-character per-encoding alphabet (ASCII incl. 0x0E/0x0F/0x1B/0x5C/0x7E, NCR characters, '
        'U+00A5, U+203E, U+2212, half-width katakana, kana, kanji, U+E5E5, U+E7C7, U+20AC, PUA, astral, Big5 last-pointer characters, decodable characters of the encoding: '
        'every ISO-2022-JP state transition and every NCR next to an escape), 14 surrogate arrangements (lone high/low, reversed, paired, doubled) alone and framed by a character of '
        'each ISO-2022-JP state, 2000 seeded texts of 1..9 (every 7th: 1..60) characters mixing alphabet, class set, ASCII, surrogate code units and random scalars, and the empty text; '
        'thorough = every one of the 1 112 064 scalar values (32 per operation for stateless encoders, one per operation for ISO-2022-JP), all 14 400 pairs of a 120-character alphabet, '
        '20 000 seeded texts. specdump: all 77 668 dump lines in both tiers. enc: 150 (thorough 2500) streaming histories per encoding as for C04. '
        'In-process oracles on every specenc text: Encoding::encode(&str) and streaming encode_from_utf8 on the lossy UTF-8 form write the same bytes, encode() names the output encoding, '
        'had_unmappables agrees, no panic; every dump line is reproduced by the real encoder. distinct = distinct operation lines; non-trivial = the text is not empty'
    ),
    'trivial_re': r'^(specenc|specdump) \S+ \. => |^enc \S+ \S+ \S+ \. ',
    'trusted': [
        'lean/EncodingRs/Spec/Encode.lean: the transcription of the Encoding Standard\'s encoder handlers, index-pointer rules and "process a queue" (read against the Standard as quoted in the comments of /repo/src/*.rs; no copy of the Standard on this machine). Mode `report` (a fatal run resumed after each error) is our reading of what the *_without_replacement API exposes',
        'vendored reference data (spec/PROVENANCE.md): index big5 / euc-kr / gb18030 (GB18030-2022) / jis0208 (all 11280 pointers) / ISO-2022-JP katakana RECONSTRUCTED from tests/test_data (independent of data.rs); index gb18030 ranges, the 27 single-byte indexes and the 18-row GB18030-2022 encoder table are a SNAPSHOT of data.rs / gb18030_2022.rs of the pinned tree (a mutation of those tables is caught against the snapshot only); the name -> single-byte index association is hand-written',
        _C03_NATIVE,
        'hand models of the encoder bodies and of the data.rs search functions (Model/EncFam.lean, Model/DataEnc.lean; default cargo features) tied to the code by the enc / ENCCHAR / specenc runs',
        'std String::from_utf16_lossy / char::encode_utf16 in the harness',
    ],
    'assumptions': [
        'code points / bytes / code units are Nat; theorems about texts assume every element < 0x110000 (surrogate values are allowed: the handlers are total and the equalities hold for them too); utf16_source_reads holds for every list of naturals',
        'default cargo features (the fast-legacy-encode / less-slow-* encoders are different code paths: not modelled by this property, see C17)',
        'the theorems speak about the reference run (nothing stops a call: unlimited budget, last = true); that chunking and small buffers do not change the output is C04',
    ],
    'partial': [
        'encRepl_html / encode_from_utf16_conforms / encode_from_utf8_conforms are about wrapper calls that end with InputEmpty and whose inner raw calls are not stopped (budget list []): where an OutputFull stop may happen and that stopping does not change the concatenated output is C04',
        'UTF-8 source: utf8_source_reads is about the UTF-8 form of a scalar-value text (valid UTF-8, as &str guarantees); read8 on invalid bytes is unspecified',
    ],
}

MANIFEST_TEXT_EXTRA['C03'] = {
    'design_ref': 'DESIGN.md 3.3, 3.4, 3.5 and 4 C03',
    'technique': 'Lean 4 proof (complete evaluation over all code points x states with native_decide against checked inverse index tables, symbolic proofs for the table-free encoders, induction over the text against a relational transcription of "process a queue") + differential correspondence implementation / executable Standard / model + independent encode dumps',
    'text': (
        'Theorem encode_conforms: for each of the 40 encodings of lib.rs and EVERY text of scalar values (induction, no length bound) the Standard\'s encoder of the output encoding exists '
        '(get an output encoding by name; UTF-16BE/LE and replacement -> UTF-8) and the bytes and Unmappable reports of the model\'s reference run (encoder families over the tables REGENERATED '
        'from /repo/src, run as the raw API runs them: eref_is_raw_api) are exactly a run of the Standard\'s "process a queue" (resumed after each error), and with decimal numeric character references '
        'written for the reports exactly its run in error mode "html" (NCR code points pushed back to the queue and encoded by the handler; ISO-2022-JP: final ESC ( B, U+FFFD for U+000E/0F/1B, '
        'escape to ASCII before an error in the JIS X 0208 state); Runs is deterministic (runs_deterministic) and computed by the executable used by the driver (spec_run_sound, spec_encode_eq_model). '
        'Per character (estep_conforms_*): single-byte x 28 (index looked up by the encoding\'s NAME), UTF-8 and x-user-defined symbolically for every natural, Big5 (pointers < (0xA1-0x81)*157 excluded, '
        'last pointer for U+2550/255E/2561/256A/5341/5345), EUC-KR, EUC-JP, Shift_JIS (8272..8835 excluded), GBK and gb18030 (U+E5E5 error, 0x80 for U+20AC in GBK, the 18 GB18030-2022 rows, ranges '
        'pointer with U+E7C7 -> 7457), ISO-2022-JP for all 3 states incl. restore chains - by complete evaluation of all 1 114 112 code points against the vendored WHATWG indexes (first pointer = linear '
        'search in the definition; the inverse table used for the evaluation is itself checked, kernel lemma indexPointer_eq_invLookup). utf16_source_reads (any unit list -> lossy scalar values), '
        'utf8_source_reads, ncr_decimal + decimalDigits_shortest, encRepl_html (the NCR wrapper of lib.rs with its total_read / NCR_EXTRA bookkeeping writes exactly that when it ends with InputEmpty) and the end-to-end corollaries encode_from_utf16_conforms (any UTF-16 unit buffer) / encode_from_utf8_conforms, output_encoding_utf8, utf8_never_unmappable. Implementation tied to the executable Standard by ~3.5*10^5 (quick) / 1.5*10^6 operations '
        '(thorough: every scalar x 40 encodings) per run; thorough sweep at build time: 0 disagreements.'
    ),
    'note': (
        'Trusted: Lean kernel + native_decide for 37 finite table evaluations (listed by axiom name in the evidence); Spec/Encode.lean as the reading of the Standard; vendored indexes '
        '(multi-byte: reconstructed from tests/test_data independently of data.rs; single-byte, gb18030 ranges, GB18030-2022 table: snapshot of the pinned tree); hand models + correspondence runs. '
        'No pending theorem. Stop positions (OutputFull) are out of scope here (C04).'
    ),
}
