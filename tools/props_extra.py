# merged from the sub-agent contributions (C14, C15, C16); same shape as props.py entries

PROPS_EXTRA = {}
MANIFEST_TEXT_EXTRA = {}

PROPS_EXTRA['C14'] = {'assumptions': ['bytes / UTF-16 units modelled as Nat with explicit hypotheses b < 256 / u < 65536 where the Rust arithmetic wraps or indexes the table',
                 'str_latin1_up_to is only specified (and only exercised) on valid UTF-8, as its &str argument type demands',
                 'a slice position is modelled as (read, rest = src[read..]); memory addresses/alignment are not modelled (the default build uses as_chunks, '
                 'which is alignment-independent); alignment is exercised by the harness only'],
 'correspondences': ['valid: Encoding::utf8_valid_up_to (fast path on and off), ascii_valid_up_to, iso_2022_jp_ascii_valid_up_to, mem::utf8_latin1_up_to, '
                     'mem::str_latin1_up_to impl = Model.utf8ValidUpTo / asciiValidUpTo / iso2022JpAsciiValidUpTo / utf8Latin1UpTo / strLatin1UpTo on every '
                     'generated buffer',
                     'valid16: mem::utf16_valid_up_to impl = Model.utf16ValidUpTo on every generated buffer'],
 'generated': ['Gen.TablesMisc.utf8DataTable (UTF8_DATA.table of utf_8.rs, 384 entries; re-evaluated by utf8_data_table_check / utf8_data_classifies)'],
 'harness_cfgs': ['default'],
 'partial': [],
 'rule': 'every length 0..160 x defect positions (thorough: all; quick: both ends, every 16-unit stride boundary +-1, 3 random) x 44 UTF-8 defect patterns '
         '(lone continuations, C0/C1/F5..FF leads, overlong E0/F0, surrogates ED A0.., F4 90.., missing/bad continuation at every place, truncated sequences) '
         'with 4 kinds of valid filler, pairs of defects at gaps 0..65, every (lead 80..FF, second) pair with valid/invalid tails at 9 offsets, '
         'ASCII/ISO-2022-JP offenders at every position of every length, Latin1 / non-Latin1 / malformed injections, 19 surrogate arrangements for UTF-16, '
         'seeded random corruption. Each buffer is executed in-process at all 16 start alignments (and for utf8 with the SIMD fast path enabled and disabled) '
         'and checked against std / naive oracles (oracle_evals in the harness line); one representative variant per buffer (rotating alignment/path) plus '
         'every variant whose result differs from it is written as an operation line for the model (the model ignores alignment and path). distinct = distinct '
         'operation lines; trivial = empty input',
 'thm_modules': ['EncodingRs.Thm.C14'],
 'trivial_re': '^valid(16)? \\S+( \\S+)? \\S+ \\. => ',
 'trusted': ['simdutf8 (external SIMD UTF-8 validator taken by utf8_valid_up_to for inputs >= 64 bytes on this AVX2 CPU) is NOT modelled: parameter `fast` of '
             'Model.utf8ValidUpToWith, assumed equal to Spec.validUpTo whenever it answers (theorem utf8_valid_up_to_with_fast_spec); that path is covered by '
             'the correspondence/oracle run only',
             'Spec/Utf8.lean: transcription of Unicode Table 3-7 (well-formed UTF-8), surrogate pairing, and the doc-comment definitions of the Latin1 scans',
             'std::str::from_utf8 / char::decode_utf16 / char_indices of the Rust standard library as harness oracles',
             'slice::as_chunks / iterator semantics of core (modelled by Model.blockScan with the plan List.replicate (len/16) 16); the theorem holds for '
             'every plan',
             'only the default (non simd-accel) build is executed by the correspondence run; the simd-accel shapes of ascii_valid_impl and is_str_latin1_impl '
             'are modelled (planDouble, strLatin1UpToSimd) and the former is proved, but core::simd lane semantics are assumed']}

MANIFEST_TEXT_EXTRA['C14'] = {'design_ref': 'DESIGN.md 4 C14',
 'note': 'Trusted: Lean kernel; translator for UTF8_DATA; Spec/Utf8.lean transcription of Table 3-7; simdutf8 (external SIMD validator, inputs >= 64 bytes) is '
         'a parameter assumed correct in the theorem and covered by the differential run only; core slice::as_chunks semantics; correspondence run for the '
         'hand models (default build only).',
 'technique': 'Lean 4 proof (step-function invariants + induction, kernel decide over the regenerated table) + differential correspondence model/impl + std '
              'oracles',
 'text': 'Theorems utf8_valid_up_to_spec, ascii_valid_up_to_spec, iso2022jp_ascii_valid_up_to_spec, utf16_valid_up_to_spec, utf8_latin1_up_to_spec, '
         "str_latin1_up_to_spec: for every byte / code-unit list (induction, no length bound) the hand model of each validator's control flow as written "
         "(scalar UTF-8 loop nest with validate_ascii skip, 'inner entered only when read+4<=len, UTF8_DATA table tests, 'tail; 16-unit stride kernels with "
         'arbitrary block plan; surrogate-pairing loop) returns exactly the specification value: length of the longest well-formed prefix per Unicode Table '
         "3-7 (= std's valid_up_to), index of the first non-ASCII / ISO-2022-JP-unsafe byte, first unpaired surrogate, first invalid-or-non-Latin1 sequence. "
         'utf8_data_classifies re-evaluates the regenerated UTF8_DATA table against Table 3-7 in the kernel; validUpTo_prefix_wf / validUpTo_maximal / '
         'validUtf8_iff tie the specification scan to the declarative definition (concatenation of Table 3-7 sequences: the delimited prefix is well-formed '
         'and no longer prefix is); stride_scan_any_plan covers every block plan (16-unit, simd-accel 16/32 shapes). Kernel-checked, axioms '
         'propext/Classical.choice/Quot.sound only. Model tied to the code by ~7.5*10^5 (quick) / 8.5*10^6 (thorough) generated buffers, each run at 16 '
         'alignments and with the SIMD path on/off and checked against std.'}

PROPS_EXTRA['C15'] = {'assumptions': ['bytes / UTF-16 units modelled as Nat; theorems about UTF-16 sources assume every unit < 65536, about byte sources every byte < 256 where '
                 'stated',
                 "destination modelled as capacity + written prefix; 'bytes beyond written unmodified' (convert_utf16_to_utf8_partial) is checked on the "
                 'implementation by the harness guard-band oracle, not proved (fails in the simd-accel build: finding F5)',
                 'harness profile has debug assertions on: the debug-only Latin1 assertion of convert_utf8_to_latin1_lossy / encode_latin1_lossy is modelled '
                 'as enabled'],
 'correspondences': ['mem: every public convert_*/copy_*/ensure_*/decode_latin1/encode_latin1_lossy function of mem.rs: impl (read, written, dst[..written] | '
                     'none | panic) = Model.Mem.* on every generated (source, destination length)'],
 'generated': ['Gen.TablesMisc (UTF8_DATA.table used by the UTF-8 -> UTF-16 converters)'],
 'harness_cfgs': ['default'],
 'partial': ["'bytes beyond written are left unmodified' (doc of convert_utf16_to_utf8_partial) is not a theorem: the model abstracts the destination to "
             'capacity + written prefix; it is checked on the implementation by the guard-band oracle on every generated call (default build: no violation; '
             'simd-accel build: finding F5)',
             'the trail-zeroing of the &mut str forms (convert_utf16_to_str_partial, convert_latin1_to_str_partial and their non-partial wrappers) is not '
             "modelled; counts and written prefix are (same model as the &mut [u8] forms), 'destination stays valid UTF-8' is an oracle (simd-accel build: "
             'violated by convert_utf16_to_str_partial, see final report)',
             "simd-accel kernels: correspondence + oracles only when the harness cfg 'simd' is enabled (needs known_findings entries for F5 / the &mut str "
             'finding); the theorems are about the model of the default kernels'],
 'rule': '20 functions x source lengths 0..160 x 21 source shapes (all-ASCII, one non-ASCII item at every stride-boundary position, mono-class '
         'Latin1/BMP/astral/lone-surrogate runs, seeded random mixes, F5 shape, surrogate/truncated edges; UTF-8 sources include every ill-formed class) x '
         'destination lengths (partial forms: every length 0..documented sufficient size for short sources and a rotating subset of long ones, ~30 sampled '
         'lengths otherwise (thorough: every length); non-partial forms: minimum legal, +1, +17, random larger, and one too-short probe observing the '
         'documented panic) x alignments 0..15 inside a guarded 0xA5-filled buffer; distinct = distinct op lines; non-trivial = the source is non-empty',
 'thm_modules': ['EncodingRs.Thm.C15', 'EncodingRs.Thm.C15Utf8'],
 'trivial_re': '^mem \\S+ \\d+ \\. => ',
 'trusted': ['ascii.rs stride kernels (ascii_to_ascii, ascii_to_basic_latin, basic_latin_to_ascii, pack/unpack) are modelled as the per-unit loop they '
             'implement in the default build (tied by the correspondence run, all lengths 0..160 and alignments)',
             'std reference conversions used by the harness oracles (String::from_utf8_lossy, char::decode_utf16, char::encode_utf8/encode_utf16)',
             "Spec/Conv.lean: transcription of Unicode ch.3 (Table 3-6, Table 3-7, maximal-subpart replacement) and of TextEncoder.encodeInto's greedy rule"]}

MANIFEST_TEXT_EXTRA['C15'] = {'design_ref': 'DESIGN.md 4 C15',
 'note': 'Trusted: Lean kernel; Spec/Conv.lean (Unicode ch.3 tables, maximal-subpart rule, encodeInto greedy rule); translator for UTF8_DATA.table; hand '
         'models + correspondence run (the ascii.rs stride kernels are modelled as per-unit loops); std conversions used as oracle. Not proved (oracle only): '
         'destination bytes beyond `written` untouched (fails in simd-accel: F5), &mut str destinations stay valid UTF-8.',
 'technique': 'Lean 4 proof (induction over the source, all destination lengths) + differential correspondence model/impl + std-based oracles with guard bands',
 'text': 'One spec theorem per public conversion of mem.rs, for every source (induction, no length bound) and every destination length: '
         "convert_utf16_to_utf8_partial_spec (model = hot loop with its 4-free-bytes rule + cold tail; proved equal to TextEncoder.encodeInto's greedy rule: "
         'written = UTF-8 of the lossy decoding of src[..read], written <= dst.len(), never ends between the halves of a surrogate pair, remaining input '
         'decodes independently, maximal: all read or the next character does not fit), convert_utf16_to_utf8_spec, convert_latin1_to_utf8_partial_spec / '
         '_spec, convert_latin1_to_utf16_spec, convert_utf16_to_latin1_lossy_spec, convert_utf8_to_latin1_lossy_spec (+ debug-assertion panic exactly outside '
         'the documented domain), decode_latin1_spec / encode_latin1_lossy_spec (borrow iff ASCII), ensure_utf16_validity_spec (= replace exactly the unpaired '
         'surrogates; length preserved, result well-formed, idempotent), copy_*_spec (count = index of first non-ASCII unit, exactly that prefix copied, panic '
         'iff dst shorter), convert_utf8_to_utf16_spec (faithful model of the Utf8Decoder loop + up_to_invalid fast path over the regenerated UTF8_DATA table: '
         '= UTF-16 of the lossy decoding with one U+FFFD per maximal ill-formed subpart and no panic whenever dst.len() > src.len()), '
         'convert_utf8_to_utf16_without_replacement_spec (None iff not well-formed), convert_str_to_utf16_spec. Kernel-checked, axioms '
         'propext/Classical.choice/Quot.sound only. Models tied to the code by ~2.8*10^5 (quick) / 5.3*10^6 (thorough) generated calls per run covering all 20 '
         'functions, source lengths 0..160, destination lengths 0..sufficient size, alignments 0..15, with guard bands and std-based oracles.'}

PROPS_EXTRA['C16'] = {'assumptions': ['units modelled as Nat; theorems whose Rust arithmetic wraps or indexes a table carry the range hypothesis of the Rust type (c < 2^32, u < '
                 '2^16, byte < 2^8)',
                 'str functions: precondition valid UTF-8 (the model returns an explicit panic value outside it)'],
 'correspondences': ['clschar: is_char_bidi / is_utf16_code_unit_bidi impl = Model.Bidi.isCharBidi / isUtf16CodeUnitBidi on every scalar value / code unit',
                     'cls: is_ascii, is_utf8_latin1, is_str_latin1, is_utf8_bidi, is_str_bidi, check_utf8_for_latin1_and_bidi, check_str_for_latin1_and_bidi '
                     'impl = Model.Bidi.* on every generated byte buffer',
                     'cls16: is_basic_latin, is_utf16_latin1, is_utf16_bidi, check_utf16_for_latin1_and_bidi impl = Model.Bidi.* on every generated UTF-16 '
                     'buffer'],
 'generated': ['Gen.TablesMisc (UTF8_DATA.table, used by the model of is_utf8_bidi)'],
 'harness_cfgs': ['default'],
 'partial': [],
 'rule': 'both per-character predicates on every scalar value / code unit (thorough: exhaustive 1112064 + 65536; quick: all code units, every boundary of the '
         'list +-2 and a stride-13 sweep of the scalars); every scalar / code unit alone as a buffer (thorough: exhaustive; quick: boundaries +-2 and a '
         'stride-389 sweep); 52 (thorough 75) interesting scalars (boundaries of the RTL list, ASCII/Latin1 boundaries, UTF-8 length-class boundaries, '
         'surrogate neighbours, astral RTL blocks) and 12 lone surrogates planted at positions 0..48 of buffers of lengths 0..64 characters over ASCII / '
         'Latin1 (U+00E9) / non-Latin1 (U+3042) filler in UTF-8, str and UTF-16 form (quick: 21 lengths around the stride boundaries, positions near buffer '
         'start, end and stride boundaries); every non-ASCII lead byte with second/third/fourth bytes from the class boundaries, complete and truncated, '
         'framed by ASCII (malformed UTF-8 for is_utf8_bidi / is_utf8_latin1 / check_utf8); seeded random text (ASCII-heavy, Latin1-heavy, mixed, occasional '
         'RTL) with 1-2 injected byte edits / lone surrogates; distinct = distinct operation lines; non-trivial = buffer not empty',
 'thm_modules': ['EncodingRs.Thm.C16'],
 'trivial_re': '^cls\\S* \\S+ \\. => ',
 'trusted': ['the documented right-to-left block list as transcribed in lean/EncodingRs/Spec/Bidi.lean (from the doc/comment block of mem::is_char_bidi and '
             'is_utf16_code_unit_bidi) and the definition of well-formed UTF-8 (Unicode Table 3-7) there',
             "default (non-SIMD) build only: the simd-accel kernels are not modelled by this property's theorems",
             'ascii::validate_ascii is modelled in its default (non-arm, non-simd-accel) form; the multiversion(avx2) clones of the same Rust source are '
             'assumed to behave like the source']}

MANIFEST_TEXT_EXTRA['C16'] = {'design_ref': 'DESIGN.md 4 C16',
 'note': 'Trusted: Lean kernel; transcription of the documented block list and of Unicode Table 3-7 (Spec/Bidi.lean); translator for UTF8_DATA.table; '
         'correspondence run for the hand models; default (non-SIMD) build.',
 'technique': 'Lean 4 proof (interval arithmetic by omega, induction over the buffer, finite byte-class facts by kernel decide over the regenerated UTF8_DATA '
              'table) + differential correspondence model/impl',
 'text': 'Theorems (kernel-checked, every input, no size bound, axioms propext/Classical.choice/Quot.sound only) about hand models of the mem.rs '
         'classification functions written in the order and form of the Rust code (default build): is_char_bidi / is_utf16_code_unit_bidi equal the documented '
         'right-to-left block list for every u32 / u16; is_ascii, is_basic_latin, is_utf16_latin1 (stride loop of any positive stride + OR-reduced tail) equal '
         "'every unit below the bound'; is_utf16_bidi is true iff some code unit is in the list; is_utf8_bidi (byte automaton: ASCII skip, four-byte "
         'look-ahead loop, tail match; UTF8_DATA.table regenerated from utf_8.rs) is true iff the bytes are not well-formed UTF-8 (Unicode Table 3-7) or some '
         'decoded scalar is in the list; is_utf8_latin1 is true iff well-formed and every scalar <= U+00FF; is_str_bidi / is_str_latin1 equal the per-scalar '
         'definitions on every well-formed string and never hit an index panic there; the three check_*_for_latin1_and_bidi functions answer exactly as the '
         'two separate checks (restart offset is a scalar boundary preceded only by Latin1). Models tied to the code by the differential run (every scalar / '
         'code unit, boundaries planted at every position/length over three fillers, systematic malformed UTF-8, seeded random text).'}

PROPS_EXTRA['C01'] = {
 'thm_modules': ['EncodingRs.Thm.C01'],
 'harness_cfgs': ['default'],
 'generated': ['Gen.Encodings (the 40 Encoding initialisers: name, variant, single-byte table index; re-checked by encodings_kinds / encodings_count)',
               'Gen.SingleByte (27 tables x 128 entries; re-checked equal to the vendored single-byte indexes by single_byte_tables_eq_snapshot)',
               'Gen.Tables{Big5,Jis,Korean,Gb} (every decode table, through the complete finite step checks big5_fin, eucKr_fin, shiftJis_fin, eucJp_fin, '
               'gb_one_check, gb_ranges_check, iso_trail_check against the vendored indexes)'],
 'correspondences': ['specdec: for every generated byte stream and each of the 40 encodings, the events of the REAL decoder (new_decoder_without_bom_handling, '
                     'decode_to_utf16_without_replacement on one query-sized buffer with last=true, called again after every Malformed(len, after); scalar values '
                     'and error spans start = consumed - after - len) = the output of the EXECUTABLE transcription of the Standard (Spec.Decode.run of the decoder '
                     'that Spec.Decode.decoderOfName gives for the name of the encoding in the regenerated Gen.encodings). This is also the failing-input search '
                     'oracle of C01 (implementation vs Standard, no hand model in between); the hand models of the decoders are tied to the code by the dec '
                     'correspondence of C02 and to the Standard by the theorems'],
 'rule': 'per encoding (all 40): the empty stream, all 256 one-byte streams, all two-byte streams over a 64-byte class alphabet (every lead/trail/escape/digit range '
         'boundary of every decoder; thorough: all 65536), all three-byte streams over a 16-byte alphabet, 2000 (thorough 50000) seeded streams from '
         'dec::gen_stream (half encoder-produced mostly-valid text with 0-3 byte edits, class-alphabet strings, random bytes, BOM-like prefixes; lengths <= 12, '
         'every fifth <= 120); targeted: complete rows (lead x all 256 second bytes) at the special regions of every two-byte index (Big5 0x87/0x88 incl. the four two-code-point pointers, Shift_JIS kana / NEC / IBM / end-user-defined rows, EUC-KR, EUC-JP, gb18030/GBK corners, ISO-2022-JP rows after ESC $ B), EUC-JP 0x8F/0x8E three- and four-byte forms with every class byte, gb18030/GBK four-byte sequences at pointers 0, 35/36, '
         '7456..7458, 39393..39395, 39418..39421, 188999..189001, 1237574..1237577, 1587599 complete / truncated / with every class byte in third and fourth '
         'place and followed by ASCII or a new sequence, every 97th BMP pointer, UTF-8 lead x continuation boundary grids of length 2-4, ISO-2022-JP every pair '
         'of escape fragments after 8 prefixes (each output state, inside a two-byte character) followed by class bytes, UTF-16LE/BE all triples of 8 boundary '
         'units incl. truncations. In the harness the UTF-8 sink must say the same as the UTF-16 sink and the Malformed numbers must be in the documented ranges '
         '(oracles). distinct = distinct operation lines; non-trivial = stream not empty',
 'trivial_re': '^specdec \\S+ \\. => ',
 'trusted': ['lean/EncodingRs/Spec/Decode.lean: hand transcription of the decoder handlers and of the run loop of the WHATWG Encoding Standard (UTF-8, single-byte, '
             'gb18030, Big5, EUC-JP, ISO-2022-JP, Shift_JIS, EUC-KR, replacement, shared UTF-16, x-user-defined), written from memory of the Standard (no network on '
             'this machine); errors are recorded and the loop continues (the Standard\'s error mode "replacement" with the error in place of U+FFFD)',
             'error-span annotation of every "return error" in Spec/Decode.lean (error len after): DESIGN.md Appendix A, our reading of the crate documentation of '
             'DecoderResult::Malformed',
             'vendored reference data (spec/PROVENANCE.md): index-{big5,euc-kr,gb18030,jis0208,jis0212}.txt and index-jis0208-tail.txt (pointers 8836..11279, needed '
             'by Shift_JIS) reconstructed from tests/test_data of the pinned tree (independent of src/data.rs); index-gb18030-ranges.txt (206 pairs + the final '
             '189000 -> U+10000) and index-single-byte.txt (27 x 128) are SNAPSHOTS of the pinned src/data.rs, the only copy on this machine (single-byte: '
             'cross-checked against CPython codecs, 89 differences, all the known WHATWG deviations: C1 fill-ins, KOI8-U 0xAE/0xBE, windows-1255 0xCA)',
             'native_decide (Lean compiler + evaluator) for the finite table obligations: big5_fin, eucKr_fin, shiftJis_fin (every lead state x 256 bytes + closure '
             'of the state list + end of stream), eucJp_fin (191 states x 256 bytes), gb_one_check (126 first bytes x 256 bytes), gb_ranges_check (four-byte '
             'pointers 0..39419), iso_trail_check (94 leads x 256 bytes); malformed_numbers additionally inherits the six *_checks axioms of Lemmas/ScalarFam*.lean (C05) through the reachable-state invariant variantScalar it is stated with; everything else is kernel-checked (decide +kernel for gb_none_check, ranges_all_le, '
             'ranges_last, single_byte_tables_eq_snapshot, encodings_kinds)',
             'the variant decoders\' hand models (Model/Fam/*.lean, Model/Data.lean) are tied to the code by the dec correspondence (C02) - C01\'s theorems are '
             'about them; the direct implementation-vs-Standard run (specdec) does not go through them'],
 'assumptions': ['Appendix A error spans are our reading of the documentation (the Standard does not define error spans)',
                 'bytes are naturals < 256 (hypothesis of every theorem); streams are complete (last = true); BOM handling off (C10 covers the BOM life cycle)',
                 'the theorems are stated for the variant decoders through the chunk-free reference semantics ref; that every protocol-following call history '
                 'reports exactly ref is C02 (history_eq_ref), that the with-replacement methods equal the manual procedure is C09'],
 'partial': ['single-byte indexes and index gb18030 ranges are compared with a snapshot of the pinned data.rs, not with an independent copy of the Standard',
             'malformed_numbers is stated per step / end of stream on the model under the reachable-state invariant of Lemmas.Scalar.variantScalar; its lift to '
             'call results is C06 (G3), the position formula start = consumed - after - len is Model.mkErr by definition and is checked on the implementation by '
             'the specdec correspondence'],
}

MANIFEST_TEXT_EXTRA['C01'] = {
 'design_ref': 'DESIGN.md 3.3, 3.5, 4 C01, Appendix A',
 'technique': 'Lean 4 proof (generic simulation lemma with held bytes by induction along the reference semantics; symbolic step checks for the table-free machines; '
              'complete finite evaluation over regenerated tables vs vendored indexes for the table-driven ones) + direct differential run of the real decoders '
              'against the executable transcription of the Standard',
 'text': 'Theorems decode_conforms_<family> for all 13 variant decoders (utf8, utf16 be/le, singleByte for an arbitrary index, userDefined, replacement, big5, '
         'eucKr, shiftJis, eucJp, gb18030 (= GBK), iso2022Jp), decode_conforms (v : Gen.Variant), decode_conforms_encodings (each of the 40 encodings of the '
         'regenerated Gen.encodings BY NAME: the decoder the Standard prescribes for that name), decode_unique, decodeRepl_conforms, hadErrors_conforms: for EVERY '
         'byte list (no length bound) presented as a complete stream, the reference semantics of the model of the crate\'s decoder - scalar values and absolute '
         'malformed spans (start, len) - is exactly the output of the literally transcribed WHATWG decoder run by the Standard\'s loop (relation Runs, proved '
         'deterministic, and executable run with a proved fuel bound), one error event where the replacement mode pushes U+FFFD. Proof: generic simulation lemma '
         'sim_conforms (held bytes: pending_ascii / Gb18030Pending::One, pending_prepended, pending_bmp correspond to the Standard\'s "restore to the I/O queue"; '
         'each model micro-step is matched by <= 8 iterations of the Standard\'s loop) + per-family step checks; the table-driven parts are evaluated completely '
         '(every state x byte; all four-byte gb18030 pointers 0..39419 + range arithmetic; 27 x 128 single-byte entries) with the regenerated implementation tables '
         'on one side and the vendored indexes on the other, which subsumes "implementation table = Standard index" for decoding. malformed_numbers: every error '
         'of every variant has 1 <= len <= 4, after <= 3, len + after <= 6. The real decoders are additionally compared directly with the executable transcription '
         'on ~5*10^5 (quick) / ~4.9*10^6 (thorough, all 65536 two-byte strings x 40 encodings) streams per run.',
 'note': 'Trusted: Lean kernel + native_decide for 7 finite table evaluations; the transcription of the Standard in Spec/Decode.lean incl. the error-span annotation '
         '(Appendix A = our reading of the docs); vendored indexes (multi-byte: reconstructed from tests/test_data, independent of data.rs; single-byte and gb18030 '
         'ranges: snapshot of the pinned data.rs); translator; the hand models are tied to the code by the C02 correspondence, the implementation is tied to the '
         'Standard directly by the specdec run.',
}
