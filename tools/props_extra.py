# merged from the sub-agent contributions (C14, C15, C16); same shape as props.py entries

PROPS_EXTRA = {}
MANIFEST_TEXT_EXTRA = {}

PROPS_EXTRA['C14'] = {'assumptions': ['bytes / UTF-16 units modelled as Nat with explicit hypotheses b < 256 / u < 65536 where the Rust arithmetic wraps or indexes the table',
                 'str_latin1_up_to is only specified (and only exercised) on valid UTF-8, as its &str argument type demands',
                 'a slice position is modelled as (read, rest = src[read..]); memory addresses/alignment are not modelled (the default build uses as_chunks, '
                 'which is alignment-independent); alignment is exercised by the harness only'],
 'correspondences': ['valid: Encoding::utf8_valid_up_to (fast path on and off), ascii_valid_up_to, iso_2022_jp_ascii_valid_up_to, mem::utf8_latin1_up_to, '
                     'mem::str_latin1_up_to impl = Model.utf8ValidUpTo / asciiValidUpTo / iso2022JpAsciiValidUpTo / utf8Latin1UpTo / strLatin1UpTo on every '
                     'generated buffer',
                     'valid16: mem::utf16_valid_up_to impl = Model.utf16ValidUpTo on every generated buffer'],
 'generated': ['Gen.TablesMisc.utf8DataTable (UTF8_DATA.table of utf_8.rs, 384 entries; re-evaluated by utf8_data_table_check / utf8_data_classifies)'],
 'harness_cfgs': ['default'],
 'partial': [],
 'rule': 'every length 0..160 x defect positions (thorough: all; quick: both ends, every 16-unit stride boundary +-1, 3 random) x 44 UTF-8 defect patterns '
         '(lone continuations, C0/C1/F5..FF leads, overlong E0/F0, surrogates ED A0.., F4 90.., missing/bad continuation at every place, truncated sequences) '
         'with 4 kinds of valid filler, pairs of defects at gaps 0..65, every (lead 80..FF, second) pair with valid/invalid tails at 9 offsets, '
         'ASCII/ISO-2022-JP offenders at every position of every length, Latin1 / non-Latin1 / malformed injections, 19 surrogate arrangements for UTF-16, '
         'seeded random corruption. Each buffer is executed in-process at all 16 start alignments (and for utf8 with the SIMD fast path enabled and disabled) '
         'and checked against std / naive oracles (oracle_evals in the harness line); one representative variant per buffer (rotating alignment/path) plus '
         'every variant whose result differs from it is written as an operation line for the model (the model ignores alignment and path). distinct = distinct '
         'operation lines; trivial = empty input',
 'thm_modules': ['EncodingRs.Thm.C14'],
 'trivial_re': '^valid(16)? \\S+( \\S+)? \\S+ \\. => ',
 'trusted': ['simdutf8 (external SIMD UTF-8 validator taken by utf8_valid_up_to for inputs >= 64 bytes on this AVX2 CPU) is NOT modelled: parameter `fast` of '
             'Model.utf8ValidUpToWith, assumed equal to Spec.validUpTo whenever it answers (theorem utf8_valid_up_to_with_fast_spec); that path is covered by '
             'the correspondence/oracle run only',
             'Spec/Utf8.lean: transcription of Unicode Table 3-7 (well-formed UTF-8), surrogate pairing, and the doc-comment definitions of the Latin1 scans',
             'std::str::from_utf8 / char::decode_utf16 / char_indices of the Rust standard library as harness oracles',
             'slice::as_chunks / iterator semantics of core (modelled by Model.blockScan with the plan List.replicate (len/16) 16); the theorem holds for '
             'every plan',
             'only the default (non simd-accel) build is executed by the correspondence run; the simd-accel shapes of ascii_valid_impl and is_str_latin1_impl '
             'are modelled (planDouble, strLatin1UpToSimd) and the former is proved, but core::simd lane semantics are assumed']}

MANIFEST_TEXT_EXTRA['C14'] = {'design_ref': 'DESIGN.md 4 C14',
 'note': 'Trusted: Lean kernel; translator for UTF8_DATA; Spec/Utf8.lean transcription of Table 3-7; simdutf8 (external SIMD validator, inputs >= 64 bytes) is '
         'a parameter assumed correct in the theorem and covered by the differential run only; core slice::as_chunks semantics; correspondence run for the '
         'hand models (default build only).',
 'technique': 'Lean 4 proof (step-function invariants + induction, kernel decide over the regenerated table) + differential correspondence model/impl + std '
              'oracles',
 'text': 'Theorems utf8_valid_up_to_spec, ascii_valid_up_to_spec, iso2022jp_ascii_valid_up_to_spec, utf16_valid_up_to_spec, utf8_latin1_up_to_spec, '
         "str_latin1_up_to_spec: for every byte / code-unit list (induction, no length bound) the hand model of each validator's control flow as written "
         "(scalar UTF-8 loop nest with validate_ascii skip, 'inner entered only when read+4<=len, UTF8_DATA table tests, 'tail; 16-unit stride kernels with "
         'arbitrary block plan; surrogate-pairing loop) returns exactly the specification value: length of the longest well-formed prefix per Unicode Table '
         "3-7 (= std's valid_up_to), index of the first non-ASCII / ISO-2022-JP-unsafe byte, first unpaired surrogate, first invalid-or-non-Latin1 sequence. "
         'utf8_data_classifies re-evaluates the regenerated UTF8_DATA table against Table 3-7 in the kernel; validUpTo_prefix_wf / validUpTo_maximal / '
         'validUtf8_iff tie the specification scan to the declarative definition (concatenation of Table 3-7 sequences: the delimited prefix is well-formed '
         'and no longer prefix is); stride_scan_any_plan covers every block plan (16-unit, simd-accel 16/32 shapes). Kernel-checked, axioms '
         'propext/Classical.choice/Quot.sound only. Model tied to the code by ~7.5*10^5 (quick) / 8.5*10^6 (thorough) generated buffers, each run at 16 '
         'alignments and with the SIMD path on/off and checked against std.'}

PROPS_EXTRA['C15'] = {'assumptions': ['bytes / UTF-16 units modelled as Nat; theorems about UTF-16 sources assume every unit < 65536, about byte sources every byte < 256 where '
                 'stated',
                 "destination modelled as capacity + written prefix; 'bytes beyond written unmodified' (convert_utf16_to_utf8_partial) is checked on the "
                 'implementation by the harness guard-band oracle, not proved (fails in the simd-accel build: finding F5)',
                 'harness profile has debug assertions on: the debug-only Latin1 assertion of convert_utf8_to_latin1_lossy / encode_latin1_lossy is modelled '
                 'as enabled'],
 'correspondences': ['mem: every public convert_*/copy_*/ensure_*/decode_latin1/encode_latin1_lossy function of mem.rs: impl (read, written, dst[..written] | '
                     'none | panic) = Model.Mem.* on every generated (source, destination length)'],
 'generated': ['Gen.TablesMisc (UTF8_DATA.table used by the UTF-8 -> UTF-16 converters)'],
 'harness_cfgs': ['default', 'simd'],
 'partial': ["'bytes beyond written are left unmodified' (doc of convert_utf16_to_utf8_partial) is not a theorem: the model abstracts the destination to "
             'capacity + written prefix; it is checked on the implementation by the guard-band oracle on every generated call (default build: no violation; '
             'simd-accel build: finding F5)',
             'the trail-zeroing of the &mut str forms (convert_utf16_to_str_partial, convert_latin1_to_str_partial and their non-partial wrappers) is not '
             "modelled; counts and written prefix are (same model as the &mut [u8] forms), 'destination stays valid UTF-8' is an oracle (simd-accel build: "
             'violated by convert_utf16_to_str_partial, see final report)',
             "simd-accel kernels: correspondence + oracles only when the harness cfg 'simd' is enabled (needs known_findings entries for F5 / the &mut str "
             'finding); the theorems are about the model of the default kernels'],
 'rule': '20 functions x source lengths 0..160 x 21 source shapes (all-ASCII, one non-ASCII item at every stride-boundary position, mono-class '
         'Latin1/BMP/astral/lone-surrogate runs, seeded random mixes, F5 shape, surrogate/truncated edges; UTF-8 sources include every ill-formed class) x '
         'destination lengths (partial forms: every length 0..documented sufficient size for short sources and a rotating subset of long ones, ~30 sampled '
         'lengths otherwise (thorough: every length); non-partial forms: minimum legal, +1, +17, random larger, and one too-short probe observing the '
         'documented panic) x alignments 0..15 inside a guarded 0xA5-filled buffer; distinct = distinct op lines; non-trivial = the source is non-empty',
 'thm_modules': ['EncodingRs.Thm.C15', 'EncodingRs.Thm.C15Utf8'],
 'trivial_re': '^mem \\S+ \\d+ \\. => ',
 'trusted': ['ascii.rs stride kernels (ascii_to_ascii, ascii_to_basic_latin, basic_latin_to_ascii, pack/unpack) are modelled as the per-unit loop they '
             'implement in the default build (tied by the correspondence run, all lengths 0..160 and alignments)',
             'std reference conversions used by the harness oracles (String::from_utf8_lossy, char::decode_utf16, char::encode_utf8/encode_utf16)',
             "Spec/Conv.lean: transcription of Unicode ch.3 (Table 3-6, Table 3-7, maximal-subpart replacement) and of TextEncoder.encodeInto's greedy rule"]}

MANIFEST_TEXT_EXTRA['C15'] = {'design_ref': 'DESIGN.md 4 C15',
 'note': 'Trusted: Lean kernel; Spec/Conv.lean (Unicode ch.3 tables, maximal-subpart rule, encodeInto greedy rule); translator for UTF8_DATA.table; hand '
         'models + correspondence run (the ascii.rs stride kernels are modelled as per-unit loops); std conversions used as oracle. Not proved (oracle only): '
         'destination bytes beyond `written` untouched (fails in simd-accel: F5), &mut str destinations stay valid UTF-8.',
 'technique': 'Lean 4 proof (induction over the source, all destination lengths) + differential correspondence model/impl + std-based oracles with guard bands',
 'text': 'One spec theorem per public conversion of mem.rs, for every source (induction, no length bound) and every destination length: '
         "convert_utf16_to_utf8_partial_spec (model = hot loop with its 4-free-bytes rule + cold tail; proved equal to TextEncoder.encodeInto's greedy rule: "
         'written = UTF-8 of the lossy decoding of src[..read], written <= dst.len(), never ends between the halves of a surrogate pair, remaining input '
         'decodes independently, maximal: all read or the next character does not fit), convert_utf16_to_utf8_spec, convert_latin1_to_utf8_partial_spec / '
         '_spec, convert_latin1_to_utf16_spec, convert_utf16_to_latin1_lossy_spec, convert_utf8_to_latin1_lossy_spec (+ debug-assertion panic exactly outside '
         'the documented domain), decode_latin1_spec / encode_latin1_lossy_spec (borrow iff ASCII), ensure_utf16_validity_spec (= replace exactly the unpaired '
         'surrogates; length preserved, result well-formed, idempotent), copy_*_spec (count = index of first non-ASCII unit, exactly that prefix copied, panic '
         'iff dst shorter), convert_utf8_to_utf16_spec (faithful model of the Utf8Decoder loop + up_to_invalid fast path over the regenerated UTF8_DATA table: '
         '= UTF-16 of the lossy decoding with one U+FFFD per maximal ill-formed subpart and no panic whenever dst.len() > src.len()), '
         'convert_utf8_to_utf16_without_replacement_spec (None iff not well-formed), convert_str_to_utf16_spec. Kernel-checked, axioms '
         'propext/Classical.choice/Quot.sound only. Models tied to the code by ~2.8*10^5 (quick) / 5.3*10^6 (thorough) generated calls per run covering all 20 '
         'functions, source lengths 0..160, destination lengths 0..sufficient size, alignments 0..15, with guard bands and std-based oracles.'}

PROPS_EXTRA['C16'] = {'assumptions': ['units modelled as Nat; theorems whose Rust arithmetic wraps or indexes a table carry the range hypothesis of the Rust type (c < 2^32, u < '
                 '2^16, byte < 2^8)',
                 'str functions: precondition valid UTF-8 (the model returns an explicit panic value outside it)'],
 'correspondences': ['clschar: is_char_bidi / is_utf16_code_unit_bidi impl = Model.Bidi.isCharBidi / isUtf16CodeUnitBidi on every scalar value / code unit',
                     'cls: is_ascii, is_utf8_latin1, is_str_latin1, is_utf8_bidi, is_str_bidi, check_utf8_for_latin1_and_bidi, check_str_for_latin1_and_bidi '
                     'impl = Model.Bidi.* on every generated byte buffer',
                     'cls16: is_basic_latin, is_utf16_latin1, is_utf16_bidi, check_utf16_for_latin1_and_bidi impl = Model.Bidi.* on every generated UTF-16 '
                     'buffer'],
 'generated': ['Gen.TablesMisc (UTF8_DATA.table, used by the model of is_utf8_bidi)'],
 'harness_cfgs': ['default'],
 'partial': [],
 'rule': 'both per-character predicates on every scalar value / code unit (thorough: exhaustive 1112064 + 65536; quick: all code units, every boundary of the '
         'list +-2 and a stride-13 sweep of the scalars); every scalar / code unit alone as a buffer (thorough: exhaustive; quick: boundaries +-2 and a '
         'stride-389 sweep); 52 (thorough 75) interesting scalars (boundaries of the RTL list, ASCII/Latin1 boundaries, UTF-8 length-class boundaries, '
         'surrogate neighbours, astral RTL blocks) and 12 lone surrogates planted at positions 0..48 of buffers of lengths 0..64 characters over ASCII / '
         'Latin1 (U+00E9) / non-Latin1 (U+3042) filler in UTF-8, str and UTF-16 form (quick: 21 lengths around the stride boundaries, positions near buffer '
         'start, end and stride boundaries); every non-ASCII lead byte with second/third/fourth bytes from the class boundaries, complete and truncated, '
         'framed by ASCII (malformed UTF-8 for is_utf8_bidi / is_utf8_latin1 / check_utf8); seeded random text (ASCII-heavy, Latin1-heavy, mixed, occasional '
         'RTL) with 1-2 injected byte edits / lone surrogates; distinct = distinct operation lines; non-trivial = buffer not empty',
 'thm_modules': ['EncodingRs.Thm.C16'],
 'trivial_re': '^cls\\S* \\S+ \\. => ',
 'trusted': ['the documented right-to-left block list as transcribed in lean/EncodingRs/Spec/Bidi.lean (from the doc/comment block of mem::is_char_bidi and '
             'is_utf16_code_unit_bidi) and the definition of well-formed UTF-8 (Unicode Table 3-7) there',
             "default (non-SIMD) build only: the simd-accel kernels are not modelled by this property's theorems",
             'ascii::validate_ascii is modelled in its default (non-arm, non-simd-accel) form; the multiversion(avx2) clones of the same Rust source are '
             'assumed to behave like the source']}

MANIFEST_TEXT_EXTRA['C16'] = {'design_ref': 'DESIGN.md 4 C16',
 'note': 'Trusted: Lean kernel; transcription of the documented block list and of Unicode Table 3-7 (Spec/Bidi.lean); translator for UTF8_DATA.table; '
         'correspondence run for the hand models; default (non-SIMD) build.',
 'technique': 'Lean 4 proof (interval arithmetic by omega, induction over the buffer, finite byte-class facts by kernel decide over the regenerated UTF8_DATA '
              'table) + differential correspondence model/impl',
 'text': 'Theorems (kernel-checked, every input, no size bound, axioms propext/Classical.choice/Quot.sound only) about hand models of the mem.rs '
         'classification functions written in the order and form of the Rust code (default build): is_char_bidi / is_utf16_code_unit_bidi equal the documented '
         'right-to-left block list for every u32 / u16; is_ascii, is_basic_latin, is_utf16_latin1 (stride loop of any positive stride + OR-reduced tail) equal '
         "'every unit below the bound'; is_utf16_bidi is true iff some code unit is in the list; is_utf8_bidi (byte automaton: ASCII skip, four-byte "
         'look-ahead loop, tail match; UTF8_DATA.table regenerated from utf_8.rs) is true iff the bytes are not well-formed UTF-8 (Unicode Table 3-7) or some '
         'decoded scalar is in the list; is_utf8_latin1 is true iff well-formed and every scalar <= U+00FF; is_str_bidi / is_str_latin1 equal the per-scalar '
         'definitions on every well-formed string and never hit an index panic there; the three check_*_for_latin1_and_bidi functions answer exactly as the '
         'two separate checks (restart offset is a scalar boundary preceded only by Latin1). Models tied to the code by the differential run (every scalar / '
         'code unit, boundaries planted at every position/length over three fillers, systematic malformed UTF-8, seeded random text).'}

PROPS_EXTRA['C11'] = {'assumptions': ['bytes and scalar values are Nat; a `&str` / `String` is the list of its scalar values (`strScalars` of its bytes); `Cow::Borrowed` is a flag - '
                 'pointer identity of a borrow is observed by the harness only (ptr/len equal to the argument slice after the BOM)',
                 'the validators are the simple recursive definitions Model.asciiValidUpTo / Model.iso2022JpAsciiValidUpTo / Spec.validUpTo; that the real '
                 'validators compute exactly these is property C14',
                 'the capacity arithmetic of the one-shot functions (checked_add, checked_next_power_of_two, checked_min over max_utf8_buffer_length*) is not '
                 'executed by the model (the worst-case formulas have no Lean model yet: C07); its only influence on the result - where the decoder stops '
                 'with OutputFull - is the free stop-budget parameter and every theorem is quantified over it; the `.unwrap()` overflow panics (lengths near '
                 'usize::MAX/3) are outside the model',
                 'the loops of decode_without_bom_handling are modelled with fuel; the equality theorems are stated for every fuel and every stop policy for '
                 'which the model returns (partial correctness); that it returns is proved for the never-stop policy the driver runs '
                 '(decode_without_bom_handling_terminates, fuel 10*len+16) and PENDING for the other policies (see partial)',
                 '`self == UTF_8` etc. (address comparison of &\'static Encoding) is modelled as a test on the variant; variant_identifies re-checks on the '
                 'regenerated Gen.encodings that each such variant belongs to exactly the encoding of that name and that is_potentially_borrowable agrees '
                 'with the index list extracted from lib.rs'],
 'correspondences': ['oneshot: Encoding::decode / decode_with_bom_removal / decode_without_bom_handling / '
                     'decode_without_bom_handling_and_without_replacement impl (UTF-8 bytes of the result | None, encoding used, had_errors, Cow::Borrowed?) = '
                     'Model.OneShot.decode / decodeWithBomRemoval / decodeWithoutBomHandling / decodeWithoutBomHandlingAndWithoutReplacement on every '
                     'generated (encoding, input)'],
 'generated': ['Gen.Encodings (the 40 Encoding initialisers, utf8Idx, notPotentiallyBorrowable: re-checked by variant_identifies)',
               'Gen.SingleByte and the multi-byte tables (through famOfVariant)'],
 'harness_cfgs': ['default'],
 'partial': ['Encoding::encode: ORACLE ONLY (no Lean encoder model yet): bytes, encoding used (= output_encoding()), had_unmappables equal to the streaming '
             'Encoder (one call and 7-byte chunks), Cow::Borrowed iff documented (output encoding UTF-8: always; ISO-2022-JP: ASCII without 0E/0F/1B; other: '
             'ASCII-only) with ptr/len aliasing check, no panic',
             'oneshot_no_unreachable at full strength (the unreachable!() on OutputFull of the without-replacement form is never reached for the capacity '
             'the code computes) needs C07; proved: no_unreachable_partial (policy "never stop") and without_replacement_none_iff for every stop policy '
             'under which the function returns; on the implementation a panic on any generated input is an oracle failure',
             'termination of the grow loop / replacement loop of decode_without_bom_handling (the fuel of the model) is proved only for the never-stop '
             'policy (decode_without_bom_handling_terminates / decode_terminates / decode_with_bom_removal_terminates via rank_le for all 13 families and '
             'replLoop_terminates; this is the policy and the fuel the driver uses, so `diverges` cannot be printed); for policies with OutputFull rounds it '
             'needs the capacities (C07) in the model plus C08 outputFull_progress - PENDING',
             'equality with the *sniffing / BOM-removing streaming Decoder* (life cycle of C10): decode_eq_sniff / decode_with_bom_removal_eq reduce the '
             'one-shot BOM handling to the streaming decoder WITHOUT BOM handling of the encoding used on the input after the BOM; sniff_single_call / '
             'remove_*_single_call prove that the life-cycle model Decoder.rawCall fed the whole input in ONE last call hands exactly that decoder and that '
             'slice on; other chunkings of the sniffing decoder are C10 (not proved yet) and are compared by the harness oracle (one call and 7-byte '
             'chunks) on every generated input',
             'pointer aliasing of a borrow is observed (harness), not proved'],
 'rule': 'for each of the 40 encodings: lengths {0,1,2,3,4,7,15,16,17,31,32,33,63,64,65,127,128,129,1000,4096} (thorough: 0..130, 191..193, 255..257, 511..513, '
         '1000, 1023..1025, 2047..2049, 3000, 4095, 4096) x the all-ASCII buffer and, for every residue p = 0..63, the first non-ASCII / invalid / escape unit '
         'at the lowest and the highest position congruent p mod 64 (thorough: also a middle one) x 16 offender kinds (0x80, 0xFF, ESC, SO, SI, a native '
         'non-ASCII character of the encoding, its truncated lead, valid 2/3/4-byte UTF-8, surrogate ED A0 80, F4 90 80 80, truncated F0 9F 98, an '
         'ISO-2022-JP escape round trip, overlong C0 80, lone continuation; 2 (thorough 4) kinds per position, rotating with position and length so that '
         'every kind meets every residue) x 3 tails (ASCII, offender repeated to the end, random malformed; one per input, rotating; thorough: all three '
         'for lengths up to 33); every 5th (thorough 3rd) input also with one of 8 BOM-like prefixes (EF BB BF, FE FF, FF FE, EF BB, EF, FE, FF, EF BB '
         'BE); the 8 prefixes alone and followed by 6 short tails; 220 (thorough 3000) dec.rs gen_stream inputs (encoder-produced mostly-valid text with '
         'edits, alphabet strings, random bytes; some with an ASCII head). Every input goes through all four decode functions at a rotating start alignment '
         'in an exact-size allocation with the oracles: text/had_errors/encoding-used = streaming decoder (sniff / remove / off) fed in one call and in '
         '7-byte chunks, None iff streaming Malformed, Borrowed iff documented + ptr/len = argument slice after the BOM, valid UTF-8, no panic. Operation '
         'lines for the model: quick - all four functions for inputs up to 130 bytes, one function of every 12th longer input; thorough - one function '
         '(rotating) of every 2nd input up to 130 bytes and of every 24th longer input (the oracles always run on every input and all four functions). encode: the same '
         'length/position scheme (thorough: lengths 0..66, 127..129, 255..257, 1000, 1024, 4095, 4096) with 14 offender characters (2, thorough 4 per '
         'position) over all 40 encodings, oracle only. distinct = distinct operation lines; non-trivial = input '
         'not empty',
 'thm_modules': ['EncodingRs.Thm.C11'],
 'trivial_re': '^oneshot \\S+ \\S+ \\. => ',
 'trusted': ['relational call model (Model.call with a stop budget) and the per-byte transition functions of the 13 variant decoders, tied by the dec '
             'correspondence run (C02/C06); here additionally tied end-to-end by the oneshot correspondence',
             'Spec/Utf8.lean (Unicode Table 3-7) as the definition of valid UTF-8 / of the chars of a &str',
             'String::with_capacity / reserve / Vec::extend_from_slice / from_utf8_unchecked of alloc/core behave as documented',
             'the streaming API of the crate itself is the harness oracle for text / flags (its own correctness is C01/C02/C09/C10)']}

MANIFEST_TEXT_EXTRA['C11'] = {'design_ref': 'DESIGN.md 4 C11',
 'note': 'Trusted: Lean kernel; translator (Encoding initialisers, tables); hand models of the variant decoders + relational call model (correspondence '
         'run); Spec/Utf8.lean; validators assumed exact (C14). Not proved: Encoding::encode (oracle only, no encoder model yet), the unreachable!() arm at '
         'the computed capacity (needs C07; proved for the never-stop policy), termination of the model loops (fuel), pointer aliasing (observed), the tie '
         'to the BOM-sniffing streaming life cycle (C10; oracle).',
 'technique': 'Lean 4 proof (refinement of the one-shot control flow to the chunk-free reference semantics, induction over loop rounds / the UTF-8 scan) + '
              'differential correspondence model/impl + streaming-API oracles with aliasing check',
 'text': 'Theorems over a model of the four one-shot decode functions written as the Rust is (for_bom / starts_with prefix tests, '
         'is_potentially_borrowable, choice of validator, early Cow::Borrowed, copy of the validated prefix, fresh decoder without BOM handling on the '
         'rest; grow loop around decode_to_string with reserve on OutputFull; single raw call with unreachable!() for the without-replacement form), for '
         'all 13 variant decoders = all 40 encodings, every input (no length bound), every stop policy of every inner call (= every capacity) and every '
         'number of OutputFull rounds: decode_without_bom_handling_eq_stream (text and had_errors = replaced text / error flag of the reference semantics '
         'ref F F.init bytes 0, which by C02 history_eq_ref and C09 replLoop_sound is what ANY streaming history yields); valid_prefix (prefix identity '
         'for every borrowable variant: ASCII / ISO-2022-JP-safe run via the per-family pass lemmas, UTF-8 via a new lemma that every Table 3-7 sequence '
         "drives the Utf8Decoder model from its initial state back to it emitting the sequence's scalar); without_replacement_none_iff (None iff the "
         'stream has a malformed sequence - for UTF-8: iff not valid UTF-8, utf8_hadErrors_iff - and Some = the streaming text, which then has no '
         'replacement); decode_eq_sniff / decode_with_bom_removal_eq / forBom_spec / withoutOwnBom_spec (a UTF-8 / UTF-16LE / UTF-16BE BOM selects that '
         "encoding whatever self is, only the encoding's own BOM is removed by the removal form, the rest is decoded as by the streaming decoder of the "
         'encoding used, encoding-used as documented); borrow_iff / without_replacement_borrow_iff / decode_borrow_iff (Borrowed iff: UTF-8 and the rest '
         'valid UTF-8; ISO-2022-JP and every byte ASCII other than 0E/0F/1B; any other encoding except UTF-16BE/LE/replacement - incl. x-user-defined and '
         'single-byte - and every byte ASCII; never for UTF-16BE/LE/replacement, not even for empty input; a borrowed result is the input itself with '
         'had_errors = false); sniff_single_call / remove_utf8_single_call / remove_utf16_single_call / remove_other_single_call (the streaming BOM life '
         'cycle fed the whole input in one last call selects the same decoder and the same rest as for_bom / starts_with); '
         'decode_without_bom_handling_terminates / _total (the model returns under the never-stop policy; rank bound for all 13 families); '
         'no_unreachable_partial; variant_identifies re-checks the variant tests against the regenerated Encoding list. Kernel-checked, axioms '
         'propext/Classical.choice/Quot.sound only. Model tied to the code by ~3.3*10^5 (quick) operation lines per run over all 40 encodings and lengths '
         '0..4096 with the first offending unit at every position mod 64; the same inputs (4.9*10^5 oracle evaluations incl. encode) are compared with the '
         'streaming API in one call and in 7-byte chunks, with Cow variant and pointer identity.'}

# --- C11, second round (agent-c11b): capacity arithmetic in the model, oneshot_no_unreachable, termination for every
# admissible policy, Encoding::encode modelled and proved.  Overrides of the entry above.
PROPS_EXTRA['C11']['thm_modules'] = ['EncodingRs.Thm.C11', 'EncodingRs.Lemmas.OneShotCap', 'EncodingRs.Lemmas.OneShotEnc']
PROPS_EXTRA['C11']['trivial_re'] = '^oneshot \\S+ \\S+ \\. => |^oneshotenc \\S+ \\. => '
PROPS_EXTRA['C11']['assumptions'] = [
    'bytes and scalar values are Nat; a `&str` / `String` is the list of its scalar values (`strScalars` of its bytes; for encode: the characters `Model.items8` reads from its UTF-8 bytes, = the text by C03 utf8_source_reads); `Cow::Borrowed` is a flag - pointer identity of a borrow is observed by the harness only (ptr/len equal to the argument slice after the BOM)',
    'the validators are the simple recursive definitions Model.asciiValidUpTo / Model.iso2022JpAsciiValidUpTo / Spec.validUpTo; that the real validators compute exactly these is property C14',
    'capacity arithmetic: the `...Cap` functions and `encode` execute it as written (checked_add, checked_next_power_of_two, checked_min / next_power_of_two over the max_* formulas of Gen.MaxLen, which are re-translated from the Rust on every run; `.unwrap()` = outcome `panic`); usize = 64 bit; usize::next_power_of_two is modelled as a release build computes it (0 on overflow; a debug build panics); String::with_capacity / reserve / Vec::with_capacity / reserve_exact are modelled by their documented contract "at least" - the excess the allocator grants is the free parameter `slack` and every theorem is quantified over it; their own panics (capacity above isize::MAX, allocation failure) are outside the model',
    'a stop policy is constrained by admissibility for the capacities the code computes (DecodeAdmissible / GrowAdmissible / NoReplAdmissible: every inner raw call is Model.Admissible for what is left of the spare capacity, as the dec correspondence run checks of every real call); the budget-parametrised functions of the first round (decodeWithoutBomHandling, ...) remain, their equality theorems hold for every policy, and the `...Cap` functions refine them (decodeWithoutBomHandlingCap_ok, noReplCap_ok)',
    'the loops are modelled with fuel; for the decode functions the fuel 10*len+10 is proved sufficient for every admissible policy (decode_without_bom_handling_cap_returns); for encode the fuel is NOT proved sufficient (see partial) - the equality theorems of encode are statements about every run of the model that returns',
    '`self == UTF_8` etc. (address comparison of &\'static Encoding) is modelled as a test on the variant; variant_identifies re-checks on the regenerated Gen.encodings that each such variant belongs to exactly the encoding of that name and that is_potentially_borrowable agrees with the index list extracted from lib.rs; outputEncoding_utf8_iff does the same for the `output_encoding == UTF_8` test of encode']
PROPS_EXTRA['C11']['correspondences'] = [
    'oneshot: Encoding::decode / decode_with_bom_removal / decode_without_bom_handling / decode_without_bom_handling_and_without_replacement impl (UTF-8 bytes of the result | None, encoding used, had_errors, Cow::Borrowed?) = Model.OneShot.decode / decodeWithBomRemoval / decodeWithoutBomHandling / decodeWithoutBomHandlingAndWithoutReplacement on every generated (encoding, input)',
    'oneshotenc: Encoding::encode impl (bytes, encoding used, had_unmappables, Cow::Borrowed?) = Model.OneShot.encode (capacity arithmetic executed, exact allocator, inner calls never stopped early) on every generated (encoding, text) up to 130 bytes and every 8th (thorough: 24th) longer one']
PROPS_EXTRA['C11']['partial'] = [
    'encode_terminates_partial (NOT a theorem): that the loop of Encoding::encode returns is not proved for any policy; encodeV_eq_stream / encodeV_borrow_iff / encodeV_conforms / encodeV_eq_any_history are statements about every run of the model that returns (any stop policy, slack, number of reserve rounds). The driver runs the model with fuel 10*len+16 on every oneshotenc line and would print `diverges` (a model disagreement); the oracle compares the real function with the streaming Encoder on every generated text',
    'the `.unwrap()` / next_power_of_two overflow of encode is modelled (outcome `panic`) but no length precondition that excludes it is proved (for the decode functions: 3*len+13 <= usize::MAX, without_replacement_panic_length / decode_without_bom_handling_panic_length)',
    'equality with the *sniffing / BOM-removing streaming Decoder* (life cycle of C10): decode_eq_sniff / decode_with_bom_removal_eq reduce the one-shot BOM handling to the streaming decoder WITHOUT BOM handling of the encoding used on the input after the BOM; sniff_single_call / remove_*_single_call prove that the life-cycle model Decoder.rawCall fed the whole input in ONE last call hands exactly that decoder and that slice on; other chunkings of the sniffing decoder are C10 and are compared by the harness oracle (one call and 7-byte chunks) on every generated input',
    'the capacity-aware decode functions are not run by the driver (it runs the budget-parametrised ones under the never-stop policy, which the `...Cap` functions refine): the capacities themselves are tied to the code through the C07 correspondence (max_* answers in every reached state), not through a C11 operation line',
    'pointer aliasing of a borrow is observed (harness), not proved']
PROPS_EXTRA['C11']['rule'] = PROPS_EXTRA['C11']['rule'].replace(
    'over all 40 encodings, oracle only.',
    'over all 40 encodings plus 150 (thorough 1500) random texts per encoding; oracles (bytes / had_unmappables / encoding used = streaming Encoder in one call and 7-byte chunks, Borrowed iff documented + aliasing, no panic) on every text, operation line `oneshotenc` for the model for every text up to 130 bytes and every 8th (thorough: 24th) longer one.')
PROPS_EXTRA['C11']['trusted'] = PROPS_EXTRA['C11']['trusted'] + [
    'encoder side: relational call model Model.ecall / Model.encRepl and the per-character step functions of Model/EncFam.lean (tied by the enc correspondence of C03/C04/C12), Spec/Encode.lean (the Standard\'s encoders) for encodeV_conforms',
    'Vec::with_capacity / reserve_exact / next_power_of_two of alloc/core behave as documented']
MANIFEST_TEXT_EXTRA['C11']['note'] = (
    'Trusted: Lean kernel (+ the native_decide table evaluations inherited from C07 / C03, listed in the evidence); translator (Encoding initialisers, tables, max_* formulas); '
    'hand models of the variant decoders / encoders + relational call models (correspondence runs); Spec/Utf8.lean, Spec/Encode.lean; validators assumed exact (C14); '
    'alloc behaves as documented. Not proved: termination of the encode loop (fuel; driver-checked), overflow precondition of encode, pointer aliasing (observed), '
    'the tie to the BOM-sniffing streaming life cycle beyond a single call (C10; oracle).')
MANIFEST_TEXT_EXTRA['C11']['text'] = MANIFEST_TEXT_EXTRA['C11']['text'].replace(
    'no_unreachable_partial; variant_identifies',
    'no_unreachable_partial. SECOND ROUND - the capacity arithmetic is executed by the model as written (Model.OneShot decodeWithoutBomHandlingCap / growLoopCap / '
    'decodeWithoutBomHandlingAndWithoutReplacementCap over the re-translated max_* formulas, `slack` = what the allocator grants beyond the request): '
    'oneshot_no_unreachable (full strength: for every encoding, input, slack and EVERY stop policy admissible for the computed capacity valid_up_to + '
    'max_utf8_buffer_length_without_replacement(rest), the unreachable!() arm is not taken - C07 variant_raw_sufficient at Reach.init), without_replacement_total '
    '(returns None/Some, None iff malformed), without_replacement_panic_length / decode_without_bom_handling_panic_length (the .unwrap()s panic only if '
    '3*len+13 > usize::MAX); decode_without_bom_handling_cap_returns (termination for EVERY admissible policy with the fuel bound 10*len+10: '
    'growLoopCap_returns - at most two rounds of the grow loop, since after reserve(max_utf8_buffer_length(rest)) in the decoder\'s current state C07 '
    'variant_repl_sufficient excludes a second OutputFull, the state being reachable by replLoop_reach; replLoop_terminates_any - the replacement loop ends '
    'within 10*rest+10 inner calls for ANY stop policy by C08 malformed_progress and rank <= 9), decode_without_bom_handling_cap_total / decode_cap_total / '
    'decode_with_bom_removal_cap_total (returns AND equals the streaming result), variantQuery_le (both UTF-8 queries and their intermediate results are <= 3n+13 '
    'in every reachable state). Encoding::encode is modelled (encode / encodeV / encodeLoop: output_encoding, the three borrow shortcuts, '
    'Vec::with_capacity(next_power_of_two(valid_up_to + max_buffer_length_from_utf8_if_no_unmappables(rest))), loop around encode_from_utf8_to_vec = '
    'Model.encRepl with reserve_exact on OutputFull) and proved for every run that returns, whatever the stop policy of the inner calls, the slack and the number '
    'of rounds: encodeV_eq_stream (bytes = erefHtml of the WHOLE text = by C03 encode_conforms the Standard\'s html-mode encode: encodeV_conforms; had_unmappables '
    '= the reference run reports an unmappable character), encodeV_eq_any_history (= what ANY protocol-following streaming Encoder history yields, C04), '
    'encodeV_borrow_iff (Borrowed iff output encoding UTF-8 / ISO-2022-JP and all bytes ASCII other than 0E/0F/1B / otherwise all bytes ASCII; borrowed = the '
    'input, had_unmappables false), encode_used / encode_encoder / outputEncoding_utf8_iff (encoding used = output_encoding(), encoder = new_encoder() of it), via '
    'encRepl_sound (new: the with-replacement wrapper against the reference for every stop policy, capacity and BOTH results) and encodeLoop_sound. '
    'Non-vacuity: an admissible policy with an OutputFull round and a reserve (EUC-KR 41 FF*6, kernel-evaluated through the executable checker decodeAdmissibleB, '
    'proved sound), the never-stop policy not admissible for the exact allocation. variant_identifies').replace(
    'Kernel-checked, axioms propext/Classical.choice/Quot.sound only.',
    'Kernel-checked; axioms propext/Classical.choice/Quot.sound, and for the second-round theorems the native_decide table evaluations of C07 (and of C03 for '
    'encodeV_conforms) they rest on.').replace(
    '~3.3*10^5 (quick) operation lines', '~3.7*10^5 (quick; 4.5*10^4 of them encode) operation lines')
MANIFEST_TEXT_EXTRA['C11']['technique'] = (
    'Lean 4 proof (refinement of the one-shot control flow to the chunk-free reference semantics, induction over loop rounds / the UTF-8 scan; capacity arithmetic '
    'executed over the re-translated formulas and discharged by the C07 sufficiency theorems; termination by C08 progress) + differential correspondence '
    'model/impl (decode and encode) + streaming-API oracles with aliasing check')

# ---------------------------------------------------------------------------
# C12 (sub-agent contribution).  The ENC_* strings are those of tools/props.py
# (copied: `from props import ...` here would be circular).

_C12_ENC_RULE = "histories of Encoder calls generated by harness/src/enc.rs: per encoding (all 40) seeded texts over an 88-character class alphabet (controls, ASCII punctuation, U+00A5/U+203E/U+2212, kana, half-width katakana, kanji mapped and unmapped, hangul, PUA incl. the GB18030-2022 code points, astral mapped/unmapped, U+10FFFF) plus random scalars and (UTF-16 source) unpaired surrogates; cuts at character boundaries incl. empty chunks and an empty final chunk; capacities cycling through {min, min+1..min+10, 20, 24, 64, 1000} (min = 4 raw, 14 with replacement); UTF-8 and UTF-16 sources; raw and with-replacement; one operation line = one whole history; non-trivial = at least two calls or a non-InputEmpty result"
_C12_ENC_TRIVIAL = r"^enc \S+ \S+ \S+ \S+ (\.|n=\d+,c=\d+,l=[01],r=I,rd=\d+,w=[^;]*) => "
_C12_ENC_CORR = "enc: every call of every generated history is admissible for the model (Model.ecall / Model.encRepl over the per-character step functions of Model/EncFam.lean with some stop budget; bytes, read, result, has_pending_state and had_unmappables must match; state followed through the history)"
_C12_ENC_TRUSTED = [
    "relational call model for encoders (stop budget constrained by EAdmissible); per-character step functions hand-modelled over the regenerated tables and validated exhaustively (all 1,112,064 scalars x 40 encodings, ENCCHAR sweep)",
]

_C12_NATIVE = (
    ["big5_bmp_%d" % i for i in range(5)] + ["big5_astral"]
    + [v + s for v in ("eucJp", "eucKr", "shiftJis", "gbk", "gb18030", "utf8", "userDefined") for s in ("_bmp", "_astral")]
    + ["single_bmp"]
    + ["iso_%s_%s" % (st, k) for st in ("ascii", "roman", "jis0208") for k in ("0", "1", "2", "3", "4", "5", "astral")]
)

PROPS_EXTRA["C12"] = {
    "thm_modules": ["EncodingRs.Thm.C12"],
    "harness_cfgs": ["default"],
    "generated": [
        "Gen.Encodings (the 40 Encoding initialisers: IsEnc, sbParams)",
        "Gen.SingleByte (every single-byte table: encode then decode re-evaluated for the whole BMP, single_bmp)",
        "Gen.Tables{Big5,Jis,Korean,Gb} (+Gated) and Gen.TablesMisc (GB18030_2022_OVERRIDE_PUA / _BYTES, ISO_2022_JP_HALF_WIDTH_TRAIL): encoder lookup then decoder lookup re-evaluated for every scalar value by the checkRange / isoCheckRange obligations of Lemmas/RT/*.lean",
    ],
    "correspondences": [
        _C12_ENC_CORR,
        "C12 oracle of harness/src/enc.rs on every generated history: after every call the bytes so far (NCR appended after an Unmappable) decode with the real decoder of the output encoding without Malformed; has_pending_state() = (escape state implied by the bytes emitted != ASCII) for ISO-2022-JP and false otherwise; a complete history ends in the ASCII state and decodes to the per-character round trip of the text with NCRs",
    ],
    "rule": _C12_ENC_RULE + "; the round-trip theorems are additionally discharged over ALL scalar values (x 3 encoder states for ISO-2022-JP) inside Lean",
    "trivial_re": _C12_ENC_TRIVIAL,
    "trusted": _C12_ENC_TRUSTED + [
        "native_decide (Lean compiler + IR evaluation) for the 42 finite per-character obligations of lean/EncodingRs/Lemmas/RT/*.lean: EncodingRs.Lemmas.RoundTrip.<n>._native.native_decide.ax_1_1 for <n> in " + ", ".join(_C12_NATIVE),
        "decoder side: the per-byte transition functions of Model/Fam/*.lean (hand models tied to the code by the dec correspondence of C02) and the reference decoding semantics Model.ref",
        "numeric character reference: Model.ncr (= write_ncr of lib.rs, tied by the enc correspondence of with-replacement histories)",
    ],
    "assumptions": [
        "the text is a list of Unicode scalar values (what both source forms deliver: Utf8Source on &str, Utf16Source with unpaired surrogates read as U+FFFD, see C04)",
        "v ranges over the variants of the 40 Encoding initialisers of lib.rs (IsEnc); UTF-16BE/LE and replacement encode as UTF-8 (output_encoding) and are decoded with the UTF-8 decoder",
        "the byte stream is the one produced with replacement (encode_from_utf8/utf16): every Unmappable(u) of the raw encoder is followed by ncr u (subst); with the raw API the caller is responsible for what is written after an Unmappable",
        "model follows the code after the repair of finding F1",
    ],
    "partial": [
        "the theorems are about the chunk-free reference run eref of the encoder model; that EVERY call history (any cuts, capacities, stop between an ISO-2022-JP escape and its character) emits exactly a byte prefix of that run is C04 (enc_history_eq_ref, raw API) - byte_prefix_decodes_clean covers every byte prefix; the lift of C04 through the NCR wrapper encRepl is covered by the enc correspondence + the C09/C12 oracles, not yet by a theorem",
        "has_pending_iff / final_ascii are stated on the model state after a text prefix (erefOpen); has_pending_state() of the implementation is tied to the model state by the enc correspondence after every call",
    ],
}

MANIFEST_TEXT_EXTRA["C12"] = {
    "text": "Theorems enc_dec_roundtrip, prefix_decodes_clean(_complete), byte_prefix_decodes_clean, iso2022jp_state_inv, has_pending_iff, final_ascii, folds_exact (Thm/C12.lean): for each of the 40 encodings and EVERY text of scalar values, the complete with-replacement output of the encoder model, decoded with the reference semantics of the decoder of the output encoding, yields without any error event exactly the text with each unmappable character replaced by the NCR the encoder reported (U+FFFD for SO/SI/ESC in ISO-2022-JP) and every other character c replaced by fold v c; the same holds for the bytes of every text prefix and for every byte prefix of the output followed by anything (so at every call boundary, also between an escape sequence and its character); for ISO-2022-JP the encoder state equals the escape state of the decoder that has read the bytes so far (Corr), has_pending_state <-> that state is not ASCII, and the complete output ends in ASCII; fold v c != c exactly for U+00A5, U+203E (EUC-JP, Shift_JIS), U+2212 (EUC-JP, Shift_JIS, ISO-2022-JP), U+FF61..U+FF9F (ISO-2022-JP, to the full-width forms) and the 18 GB18030-2022 PUA code points (GBK, gb18030; PUA -> the standard character the 2022 decoder assigns to the bytes written: U+E78D..E796 -> U+FE10,FE12,FE11,FE13..FE19; U+E81E,E826,E82B,E82C,E832,E843,E854,E864 -> U+9FB4..9FBB). Proof: generic feedAll_ref (bytes accepted step by step = ref, in front of any continuation) + induction over the text from per-character facts that are evaluated completely by native_decide over the regenerated tables: all 1,112,064 scalar values per stateless encoder, and all 3 x 1,112,064 (encoder state, scalar) pairs for ISO-2022-JP from the canonical decoder states, lifted to every corresponding decoder state by isoFeed_eqv (the decoder cannot observe a stale lead byte). Tied to the code by the enc correspondence and the C12 oracle (real decoder over the real encoder's output after every call).",
    "design_ref": "DESIGN.md 3.4, 4 C12",
    "note": "Trusted additionally: native_decide for 42 finite per-character obligations (listed in the evidence); the decoder families and ncr are hand models tied by the dec / enc correspondences. The theorem is about the reference run of the model; call histories are connected to it by C04 (raw API) and by the correspondence run (NCR wrapper).",
    "technique": "Lean 4 proof (generic decoder-acceptance lemma + induction over the text + complete finite evaluation of every per-character encode/decode pair over the regenerated tables, state-correspondence invariant for ISO-2022-JP) + differential correspondence + real-decoder oracle",
}
_C17_LEMMA_MODULES = ['Big5LessSlow', 'Big5Fast0', 'Big5Fast1', 'Big5Fast2', 'Big5Fast3', 'ShiftJisLessSlow', 'ShiftJisFast', 'EucJpLessSlow',
                      'EucJpFast', 'EucKrFast', 'GbLessSlowFalse', 'GbLessSlowTrue', 'GbFastFalse', 'GbFastTrue', 'IsoLessSlowAscii',
                      'IsoLessSlowRoman', 'IsoLessSlowJis0208', 'IsoFastAscii', 'IsoFastRoman', 'IsoFastJis0208', 'L1JisSjis', 'L1JisEuc',
                      'L1JisIso', 'L1Gb', 'L1Big5', 'KanjiSjisFast', 'KanjiSjisLessSlow', 'KanjiEucFast', 'KanjiEucLessSlow', 'KanjiIsoFast',
                      'KanjiIsoLessSlow', 'KanjiMapped', 'KanjiMappedLessSlow', 'Hangul', 'Hanja', 'HanziFast', 'HanziLessSlow', 'Sorted']

PROPS_EXTRA['C17'] = {
 # the first module states the theorems; the Lemmas/C17/* modules hold one complete evaluation (native_decide) each and are
 # listed so that their `…_check` theorems are audited (#print axioms) too
 'thm_modules': ['EncodingRs.Thm.C17'] + ['EncodingRs.Lemmas.C17.' + m for m in _C17_LEMMA_MODULES],
 'harness_cfgs': ['default', 'lessslow', 'fast', 'simd'],
 # ./check: run the SAME corpus through every configuration (concurrently), each through the model driver, and require the
 # operation files to be byte-identical (sha256 per operation kind in coverage.config_digests; first differing line => VIOLATION)
 'cross_config': True,
 'generated': ['Gen.TablesBig5Gated (BIG5_LEVEL1_HANZI_CODE_POINTS, BIG5_LEVEL1_HANZI_BYTES, BIG5_UNIFIED_IDEOGRAPH_BYTES)',
               'Gen.TablesJisGated (JIS0208_LEVEL1_KANJI_CODE_POINTS, JIS0208_LEVEL1_KANJI_SHIFT_JIS_BYTES, JIS0208_KANJI_BYTES)',
               'Gen.TablesKoreanGated (CP949_HANGUL_BYTES, KSX1001_UNIFIED_HANJA_BYTES, KSX1001_COMPATIBILITY_HANJA_BYTES)',
               'Gen.TablesGbGated (GB2312_LEVEL1_HANZI_CODE_POINTS, GB2312_LEVEL1_HANZI_BYTES, GBK_HANZI_BYTES)',
               'Gen.Tables{Big5,Jis,Korean,Gb,Misc} (default tables the gated variants are compared against)', 'Gen.Encodings', 'Gen.SingleByte'],
 'correspondences': ['cross-configuration: the operation files (calls + logical results + written prefixes) produced by the harness built with '
                     'default features, less-slow-kanji/big5/gb-hanzi-encode, fast-legacy-encode and simd-accel+std (nightly) are byte-identical',
                     'encchar / encchar16: every character of the corpus through every encoder from UTF-8 and from UTF-16, each configuration = '
                     'Model.efamOfVariant (the ONE configuration-independent model)',
                     'dec: every 0-, 1- and 2-byte string of the corpus through every decoder (both sinks) and the C02 histories, each configuration '
                     'admissible for Model.Decoder', 'enc: the C04 encoder histories, each configuration admissible for Model.ecall',
                     'valid / valid16 (incl. utf8 with verif_force_scalar_utf8 off and on), mem, cls / clschar / cls16: each configuration = the '
                     'models of C14 / C15 / C16'],
 'rule': 'one deterministic corpus, identical for all configurations: (1) every scalar value (thorough) / a class set of ~6 400 scalar values '
         '(quick: U+0000..U+04FF, every constant of the encoder bodies and gated lookups +-2, every 17th BMP code point, every 4099th astral one, '
         '1 300 seeded ideographs / hangul / others) through every encoder (40) from UTF-8 and from UTF-16 (ISO-2022-JP also after U+00A5 and '
         'U+3042; four lone surrogates per encoder); (2) every string of length 0, 1 and 2 over all 256 bytes (thorough) / over a 64-byte class '
         'alphabet for length 2 (quick) through every decoder, both sinks; (2b) stride regime, independent of the seed: every byte value at positions around the 16-byte stride boundaries of a 40-byte buffer of ASCII letters / ASCII punctuation through every decoder into both sinks, and every UTF-16 unit of 0..0x17F, 0xF77E..0xF801 and nine boundary units at stride positions of a 24-unit ASCII buffer through every encoder; (3) 324 fixed buffers of 56..136 bytes (four filler widths, six defect '
         'kinds) through utf8_valid_up_to with the scalar-validation switch off and on; (4) the generators of C14, C15, C16, C02, C04 with the '
         'C17 seed. distinct = distinct operation lines summed over the four configurations; trivial = empty input',
 'trivial_re': '^(valid(16)? \\S+( \\S+)? \\S+ \\.|mem \\S+ \\d+ \\.|cls\\S* \\S+ \\.|dec \\S+ \\S+ \\S+ \\S+ \\. \\S+) => ',
 'trusted': ['native_decide (Lean compiler + interpreter/native evaluation) for the finite table obligations of Lemmas/C17/*.lean: 41 complete '
             'evaluations over the 65 536 u16 values (or the index range of the caller) comparing the gated variant of a lookup / per-character '
             'encode function with the default one; axiom names listed in the evidence',
             'Model/DataEncGated.lean: hand models of the feature-gated variants as written (panics modelled as the impossible pair (256,256)); '
             'tied to the code by the correspondence run of the lessslow and fast configurations',
             'core::slice::binary_search returns Ok(i) with arr[i] = needle whenever the needle occurs in a strictly increasing array '
             '(sortedness of the three code-point arrays is theorem gated_code_points_sorted)',
             'cargo feature resolution of the harness crate: lessslow = less-slow-kanji-encode + less-slow-big5-hanzi-encode + '
             'less-slow-gb-hanzi-encode, fast = fast-legacy-encode, simd = simd-accel + std on the nightly toolchain installed here',
             'oracle failures of the borrowed generators (C14/C15/C16/C02/C04 oracles, e.g. findings F5 and the &mut str finding in the simd-accel '
             'build) are NOT counted by this property: C17 is about identical logical results, not about their correctness'],
 'assumptions': ['core::simd lane semantics, multiversion run-time dispatch and CPU feature detection (AVX2/SSE4.2 on this machine) are runtime '
                 'facts: not modelled, covered by the cross-configuration run only',
                 'simdutf8 (external SIMD UTF-8 validator) is a parameter assumed correct whenever it answers (c17_validator_paths_agree_utf8)',
                 'the model functions take Nat; the table theorems quantify over every u16 (the Rust parameter type) or every index the caller '
                 'passes; the per-character theorems hold for every Nat, hence every char'],
 'partial': ['the simd-accel conversion kernels (ascii_to_ascii, basic_latin_to_ascii, pack/unpack, convert_*) are not modelled separately: '
             'their agreement with the default build is established by the cross-configuration run (byte-identical mem/dec/enc lines); proved are '
             'the stride-independence theorems re-exported as c17_validator_paths_agree_*',
             'fast-hangul-encode / fast-hanja-encode enabled one without the other: lookup-level theorems only (ksx1001_encode_hangul_fast, '
             'ksx1001_encode_hanja_fast); the combination of fast-legacy-encode is a per-character theorem (eucKr_fast_char)',
             'targets other than x86_64 (NEON / wasm simd128 paths of simd_funcs.rs, utf_8.rs) are not built here']}

MANIFEST_TEXT_EXTRA['C17'] = {
 'design_ref': 'DESIGN.md 4 C17',
 'technique': 'Lean 4 proof (complete evaluation of every feature-gated lookup and per-character encode function against the default one over '
              'the regenerated tables; stride-independence theorems) + cross-configuration differential run (four builds, one model, '
              'byte-identical operation files)',
 'text': 'Theorems (Thm/C17.lean): for every cargo-feature-gated variant in data.rs and the encoder modules, modelled as written over the gated '
         'tables regenerated from /repo on every run, (a) lookup level: jis0208_level1_kanji_{shift_jis,euc_jp,iso_2022_jp}_encode_lessslow and '
         'gb2312_level1_hanzi_encode_lessslow equal the default lookups for every u16 (incl. shift_jis_to_euc_jp / shift_jis_to_iso_2022_jp); '
         'encode_kanji (three modules) and is_kanji_mapped, fast and less-slow, equal the default on every code point they are called with; '
         'ksx1001_encode_hangul_fast, ksx1001_encode_hanja_fast, gb_encode_hanzi_fast / _lessslow likewise; big5_level1_hanzi_encode agrees '
         'wherever both variants answer (the variants divide the work with big5_other_encode differently); code-point arrays strictly sorted, '
         'direct tables exactly as long as their index ranges; (b) encoder level: the per-character function of Big5, EUC-KR, EUC-JP, '
         'Shift_JIS, GBK, gb18030 and the ISO-2022-JP step in all three states, built from the less-slow / fast pieces, is the same function '
         'as the default one for EVERY character (big5_lessslow_char, big5_fast_char, …, iso_fast_step), so the encoder families the other '
         'theorems are about are the families of these builds (efam_*, estep_*). 41 complete evaluations by native_decide, nothing sampled. '
         '(c) c17_validator_paths_agree_*: the validators / ASCII kernels return the same index for any stride plan (default vs simd-accel '
         'shapes) and for the SIMD-validator vs scalar UTF-8 path. Cross-configuration run: the same deterministic corpus (every scalar x every '
         'encoder x both sources, all 2-byte strings x every decoder, the C14/C15/C16/C02/C04 generators; ~3*10^6 lines quick, ~10^8 thorough) '
         'is executed by harness binaries built with default, less-slow-*, fast-legacy-encode and simd-accel (nightly); each file is checked '
         'against the one model and the four files must be byte-identical (digests in the evidence).',
 'note': 'Trusted: Lean kernel + native_decide for the finite table obligations; translator (default and gated tables); hand models of the '
         'gated variants + correspondence run of each configuration; binary_search semantics. Assumed (run-time facts, covered by the '
         'cross-configuration run only): core::simd lane semantics, multiversion dispatch, CPU feature detection, simdutf8. Oracle findings of '
         'other properties in the simd-accel build (F5, &mut str validity) are not differences of logical results and are not counted here.'}
PROPS_EXTRA['C01'] = {
 'thm_modules': ['EncodingRs.Thm.C01'],
 'harness_cfgs': ['default'],
 'generated': ['Gen.Encodings (the 40 Encoding initialisers: name, variant, single-byte table index; re-checked by encodings_kinds / encodings_count)',
               'Gen.SingleByte (27 tables x 128 entries; re-checked equal to the vendored single-byte indexes by single_byte_tables_eq_snapshot)',
               'Gen.Tables{Big5,Jis,Korean,Gb} (every decode table, through the complete finite step checks big5_fin, eucKr_fin, shiftJis_fin, eucJp_fin, '
               'gb_one_check, gb_ranges_check, iso_trail_check against the vendored indexes)'],
 'correspondences': ['specdec: for every generated byte stream and each of the 40 encodings, the events of the REAL decoder (new_decoder_without_bom_handling, '
                     'decode_to_utf16_without_replacement on one query-sized buffer with last=true, called again after every Malformed(len, after); scalar values '
                     'and error spans start = consumed - after - len) = the output of the EXECUTABLE transcription of the Standard (Spec.Decode.run of the decoder '
                     'that Spec.Decode.decoderOfName gives for the name of the encoding in the regenerated Gen.encodings). This is also the failing-input search '
                     'oracle of C01 (implementation vs Standard, no hand model in between); the hand models of the decoders are tied to the code by the dec '
                     'correspondence of C02 and to the Standard by the theorems'],
 'rule': 'per encoding (all 40): the empty stream, all 256 one-byte streams, all two-byte streams over a 64-byte class alphabet (every lead/trail/escape/digit range '
         'boundary of every decoder; thorough: all 65536), all three-byte streams over a 16-byte alphabet, 2000 (thorough 50000) seeded streams from '
         'dec::gen_stream (half encoder-produced mostly-valid text with 0-3 byte edits, class-alphabet strings, random bytes, BOM-like prefixes; lengths <= 12, '
         'every fifth <= 120); targeted: complete rows (lead x all 256 second bytes) at the special regions of every two-byte index (Big5 0x87/0x88 incl. the four two-code-point pointers, Shift_JIS kana / NEC / IBM / end-user-defined rows, EUC-KR, EUC-JP, gb18030/GBK corners, ISO-2022-JP rows after ESC $ B), EUC-JP 0x8F/0x8E three- and four-byte forms with every class byte, gb18030/GBK four-byte sequences at pointers 0, 35/36, '
         '7456..7458, 39393..39395, 39418..39421, 188999..189001, 1237574..1237577, 1587599 complete / truncated / with every class byte in third and fourth '
         'place and followed by ASCII or a new sequence, every 97th BMP pointer, UTF-8 lead x continuation boundary grids of length 2-4, ISO-2022-JP every pair '
         'of escape fragments after 8 prefixes (each output state, inside a two-byte character) followed by class bytes, UTF-16LE/BE all triples of 8 boundary '
         'units incl. truncations. In the harness the UTF-8 sink must say the same as the UTF-16 sink and the Malformed numbers must be in the documented ranges '
         '(oracles). distinct = distinct operation lines; non-trivial = stream not empty',
 'trivial_re': '^specdec \\S+ \\. => ',
 'trusted': ['lean/EncodingRs/Spec/Decode.lean: hand transcription of the decoder handlers and of the run loop of the WHATWG Encoding Standard (UTF-8, single-byte, '
             'gb18030, Big5, EUC-JP, ISO-2022-JP, Shift_JIS, EUC-KR, replacement, shared UTF-16, x-user-defined), written from memory of the Standard (no network on '
             'this machine); errors are recorded and the loop continues (the Standard\'s error mode "replacement" with the error in place of U+FFFD)',
             'error-span annotation of every "return error" in Spec/Decode.lean (error len after): DESIGN.md Appendix A, our reading of the crate documentation of '
             'DecoderResult::Malformed',
             'vendored reference data (spec/PROVENANCE.md): index-{big5,euc-kr,gb18030,jis0208,jis0212}.txt and index-jis0208-tail.txt (pointers 8836..11279, needed '
             'by Shift_JIS) reconstructed from tests/test_data of the pinned tree (independent of src/data.rs); index-gb18030-ranges.txt (206 pairs + the final '
             '189000 -> U+10000) and index-single-byte.txt (27 x 128) are SNAPSHOTS of the pinned src/data.rs, the only copy on this machine (single-byte: '
             'cross-checked against CPython codecs, 89 differences, all the known WHATWG deviations: C1 fill-ins, KOI8-U 0xAE/0xBE, windows-1255 0xCA)',
             'native_decide (Lean compiler + evaluator) for the finite table obligations: big5_fin, eucKr_fin, shiftJis_fin (every lead state x 256 bytes + closure '
             'of the state list + end of stream), eucJp_fin (191 states x 256 bytes), gb_one_check (126 first bytes x 256 bytes), gb_ranges_check (four-byte '
             'pointers 0..39419), iso_trail_check (94 leads x 256 bytes); malformed_numbers additionally inherits the six *_checks axioms of Lemmas/ScalarFam*.lean (C05) through the reachable-state invariant variantScalar it is stated with; everything else is kernel-checked (decide +kernel for gb_none_check, ranges_all_le, '
             'ranges_last, single_byte_tables_eq_snapshot, encodings_kinds)',
             'the variant decoders\' hand models (Model/Fam/*.lean, Model/Data.lean) are tied to the code by the dec correspondence (C02) - C01\'s theorems are '
             'about them; the direct implementation-vs-Standard run (specdec) does not go through them'],
 'assumptions': ['Appendix A error spans are our reading of the documentation (the Standard does not define error spans)',
                 'bytes are naturals < 256 (hypothesis of every theorem); streams are complete (last = true); BOM handling off (C10 covers the BOM life cycle)',
                 'the theorems are stated for the variant decoders through the chunk-free reference semantics ref; that every protocol-following call history '
                 'reports exactly ref is C02 (history_eq_ref), that the with-replacement methods equal the manual procedure is C09'],
 'partial': ['single-byte indexes and index gb18030 ranges are compared with a snapshot of the pinned data.rs, not with an independent copy of the Standard',
             'malformed_numbers is stated per step / end of stream on the model under the reachable-state invariant of Lemmas.Scalar.variantScalar; its lift to '
             'call results is C06 (G3), the position formula start = consumed - after - len is Model.mkErr by definition and is checked on the implementation by '
             'the specdec correspondence'],
}

MANIFEST_TEXT_EXTRA['C01'] = {
 'design_ref': 'DESIGN.md 3.3, 3.5, 4 C01, Appendix A',
 'technique': 'Lean 4 proof (generic simulation lemma with held bytes by induction along the reference semantics; symbolic step checks for the table-free machines; '
              'complete finite evaluation over regenerated tables vs vendored indexes for the table-driven ones) + direct differential run of the real decoders '
              'against the executable transcription of the Standard',
 'text': 'Theorems decode_conforms_<family> for all 13 variant decoders (utf8, utf16 be/le, singleByte for an arbitrary index, userDefined, replacement, big5, '
         'eucKr, shiftJis, eucJp, gb18030 (= GBK), iso2022Jp), decode_conforms (v : Gen.Variant), decode_conforms_encodings (each of the 40 encodings of the '
         'regenerated Gen.encodings BY NAME: the decoder the Standard prescribes for that name), decode_unique, decodeRepl_conforms, hadErrors_conforms: for EVERY '
         'byte list (no length bound) presented as a complete stream, the reference semantics of the model of the crate\'s decoder - scalar values and absolute '
         'malformed spans (start, len) - is exactly the output of the literally transcribed WHATWG decoder run by the Standard\'s loop (relation Runs, proved '
         'deterministic, and executable run with a proved fuel bound), one error event where the replacement mode pushes U+FFFD. Proof: generic simulation lemma '
         'sim_conforms (held bytes: pending_ascii / Gb18030Pending::One, pending_prepended, pending_bmp correspond to the Standard\'s "restore to the I/O queue"; '
         'each model micro-step is matched by <= 8 iterations of the Standard\'s loop) + per-family step checks; the table-driven parts are evaluated completely '
         '(every state x byte; all four-byte gb18030 pointers 0..39419 + range arithmetic; 27 x 128 single-byte entries) with the regenerated implementation tables '
         'on one side and the vendored indexes on the other, which subsumes "implementation table = Standard index" for decoding. malformed_numbers: every error '
         'of every variant has 1 <= len <= 4, after <= 3, len + after <= 6. The real decoders are additionally compared directly with the executable transcription '
         'on ~5*10^5 (quick) / ~4.9*10^6 (thorough, all 65536 two-byte strings x 40 encodings) streams per run.',
 'note': 'Trusted: Lean kernel + native_decide for 7 finite table evaluations; the transcription of the Standard in Spec/Decode.lean incl. the error-span annotation '
         '(Appendix A = our reading of the docs); vendored indexes (multi-byte: reconstructed from tests/test_data, independent of data.rs; single-byte and gb18030 '
         'ranges: snapshot of the pinned data.rs); translator; the hand models are tied to the code by the C02 correspondence, the implementation is tied to the '
         'Standard directly by the specdec run.',
}

# ---------------------------------------------------------------------------------------------- C03
_C03_NATIVE = (
    "native_decide (Lean compiler + IR interpreter) for the finite table obligations of C03, each appearing as "
    "`<theorem>._native.native_decide.ax_*` under #print axioms: the complete evaluations over all code points "
    "big5_check_r0..r5, gb_check_r0..r9, eucKr_check_all, eucJp_check_all, shiftJis_check_all, iso_check_r0..r7 "
    "(3 states x all code points), sb_check_r0..r3 (28 single-byte encodings x all code points), and the inverse-table "
    "checks big5Inv_checks, gbInv_checks, eucKrInv_checks, jisInv_checks, sjisInv_checks, isoJisInv_checks (two linear "
    "passes each; that these imply `inverse look-up = index pointer` is kernel-checked: indexPointer_eq_invLookup)"
)

PROPS_EXTRA['C03'] = {
    'thm_modules': ['EncodingRs.Thm.C03'],
    'harness_cfgs': ['default'],
    'generated': [
        'Gen.Encodings (the 40 *_INIT initialisers: names, variants, single-byte run parameters; names_ok re-checks every name against the Standard\'s names and "get an output encoding")',
        'Gen.SingleByte (SINGLE_BYTE_DATA; sb_check_r0..r3 re-evaluate every table against the vendored index of the encoding\'s name)',
        'Gen.TablesBig5 (BIG5_LOW_BITS, BIG5_ASTRALNESS, ...: big5_check_r0..r5)',
        'Gen.TablesJis (JIS0208_*, IBM_*, ISO_2022_JP_HALF_WIDTH_TRAIL: eucJp_check_all, shiftJis_check_all, iso_check_r0..r7)',
        'Gen.TablesKorean (KSX1001_*, CP949_*: eucKr_check_all)',
        'Gen.TablesGb (GBK_*, GB2312_*, GB18030_RANGE_*: gb_check_r0..r9) and Gen.TablesMisc (GB18030_2022_OVERRIDE_*)',
    ],
    'correspondences': [
        'specenc: for each of the 40 encodings, everything Encoder::encode_from_utf16 (with replacement, last = true, big destination) writes for a text of UTF-16 code units = the bytes of the EXECUTABLE transcription of the Standard (Spec.Encode.encode: lossy UTF-16 -> scalar values, get an output encoding, encoder handler, process a queue in error mode html) on every generated text; theorem spec_encode_eq_model says this executable equals the model\'s reference run',
        'specdump: every line (code point -> bytes) of the vendored encode dumps spec/encode-dump-*.txt (tests/test_data/*_out*.txt of the pinned tree, pointer selection applied by the generator) is reproduced by Spec.Encode.encode (77 668 lines; cross-check of the transcription that involves neither the implementation nor its tables)',
        'enc: every call of every generated streaming history (harness/src/enc.rs: raw and with replacement, UTF-8 and UTF-16 sources, chunked, capacities around the thresholds) is admissible for the model (Model.Encoder.ecall / encRepl over the families of Model/EncFam.lean with some stop budget; bytes, read, result, has_pending_state, had_unmappables)',
        'ENCCHAR (run once when the families were written, re-runnable as `verif_harness ops ENCCHAR thorough`): Model.EncFam per-character functions = the real encoders on all 1 112 064 scalar values x 40 encodings',
    ],
    'rule': (
        'specenc (harness/src/specenc.rs), per encoding (all 40): quick = every scalar value of a ~4k class set alone (U+0000..U+04FF, '
        'every constant of the Standard\'s handlers and of the encoder bodies +-2, ~1400 characters obtained by decoding random byte strings with the same encoding, '
        '900 random BMP + 250 random astral), all 1600 ordered pairs of a 40-character per-encoding alphabet (ASCII incl. 0x0E/0x0F/0x1B/0x5C/0x7E, NCR characters, '
        'U+00A5, U+203E, U+2212, half-width katakana, kana, kanji, U+E5E5, U+E7C7, U+20AC, PUA, astral, Big5 last-pointer characters, decodable characters of the encoding: '
        'every ISO-2022-JP state transition and every NCR next to an escape), 14 surrogate arrangements (lone high/low, reversed, paired, doubled) alone and framed by a character of '
        'each ISO-2022-JP state, 2000 seeded texts of 1..9 (every 7th: 1..60) characters mixing alphabet, class set, ASCII, surrogate code units and random scalars, and the empty text; '
        'thorough = every one of the 1 112 064 scalar values (32 per operation for stateless encoders, one per operation for ISO-2022-JP), all 14 400 pairs of a 120-character alphabet, '
        '20 000 seeded texts. specdump: all 77 668 dump lines in both tiers. enc: 150 (thorough 2500) streaming histories per encoding as for C04. '
        'In-process oracles on every specenc text: Encoding::encode(&str) and streaming encode_from_utf8 on the lossy UTF-8 form write the same bytes, encode() names the output encoding, '
        'had_unmappables agrees, no panic; every dump line is reproduced by the real encoder. distinct = distinct operation lines; non-trivial = the text is not empty'
    ),
    'trivial_re': r'^(specenc|specdump) \S+ \. => |^enc \S+ \S+ \S+ \. ',
    'trusted': [
        'lean/EncodingRs/Spec/Encode.lean: the transcription of the Encoding Standard\'s encoder handlers, index-pointer rules and "process a queue" (read against the Standard as quoted in the comments of /repo/src/*.rs; no copy of the Standard on this machine). Mode `report` (a fatal run resumed after each error) is our reading of what the *_without_replacement API exposes',
        'vendored reference data (spec/PROVENANCE.md): index big5 / euc-kr / gb18030 (GB18030-2022) / jis0208 (all 11280 pointers) / ISO-2022-JP katakana RECONSTRUCTED from tests/test_data (independent of data.rs); index gb18030 ranges, the 27 single-byte indexes and the 18-row GB18030-2022 encoder table are a SNAPSHOT of data.rs / gb18030_2022.rs of the pinned tree (a mutation of those tables is caught against the snapshot only); the name -> single-byte index association is hand-written',
        _C03_NATIVE,
        'hand models of the encoder bodies and of the data.rs search functions (Model/EncFam.lean, Model/DataEnc.lean; default cargo features) tied to the code by the enc / ENCCHAR / specenc runs',
        'std String::from_utf16_lossy / char::encode_utf16 in the harness',
    ],
    'assumptions': [
        'code points / bytes / code units are Nat; theorems about texts assume every element < 0x110000 (surrogate values are allowed: the handlers are total and the equalities hold for them too); utf16_source_reads holds for every list of naturals',
        'default cargo features (the fast-legacy-encode / less-slow-* encoders are different code paths: not modelled by this property, see C17)',
        'the theorems speak about the reference run (nothing stops a call: unlimited budget, last = true); that chunking and small buffers do not change the output is C04',
    ],
    'partial': [
        'encRepl_html / encode_from_utf16_conforms / encode_from_utf8_conforms are about wrapper calls that end with InputEmpty and whose inner raw calls are not stopped (budget list []): where an OutputFull stop may happen and that stopping does not change the concatenated output is C04',
        'UTF-8 source: utf8_source_reads is about the UTF-8 form of a scalar-value text (valid UTF-8, as &str guarantees); read8 on invalid bytes is unspecified',
    ],
}

MANIFEST_TEXT_EXTRA['C03'] = {
    'design_ref': 'DESIGN.md 3.3, 3.4, 3.5 and 4 C03',
    'technique': 'Lean 4 proof (complete evaluation over all code points x states with native_decide against checked inverse index tables, symbolic proofs for the table-free encoders, induction over the text against a relational transcription of "process a queue") + differential correspondence implementation / executable Standard / model + independent encode dumps',
    'text': (
        'Theorem encode_conforms: for each of the 40 encodings of lib.rs and EVERY text of scalar values (induction, no length bound) the Standard\'s encoder of the output encoding exists '
        '(get an output encoding by name; UTF-16BE/LE and replacement -> UTF-8) and the bytes and Unmappable reports of the model\'s reference run (encoder families over the tables REGENERATED '
        'from /repo/src, run as the raw API runs them: eref_is_raw_api) are exactly a run of the Standard\'s "process a queue" (resumed after each error), and with decimal numeric character references '
        'written for the reports exactly its run in error mode "html" (NCR code points pushed back to the queue and encoded by the handler; ISO-2022-JP: final ESC ( B, U+FFFD for U+000E/0F/1B, '
        'escape to ASCII before an error in the JIS X 0208 state); Runs is deterministic (runs_deterministic) and computed by the executable used by the driver (spec_run_sound, spec_encode_eq_model). '
        'Per character (estep_conforms_*): single-byte x 28 (index looked up by the encoding\'s NAME), UTF-8 and x-user-defined symbolically for every natural, Big5 (pointers < (0xA1-0x81)*157 excluded, '
        'last pointer for U+2550/255E/2561/256A/5341/5345), EUC-KR, EUC-JP, Shift_JIS (8272..8835 excluded), GBK and gb18030 (U+E5E5 error, 0x80 for U+20AC in GBK, the 18 GB18030-2022 rows, ranges '
        'pointer with U+E7C7 -> 7457), ISO-2022-JP for all 3 states incl. restore chains - by complete evaluation of all 1 114 112 code points against the vendored WHATWG indexes (first pointer = linear '
        'search in the definition; the inverse table used for the evaluation is itself checked, kernel lemma indexPointer_eq_invLookup). utf16_source_reads (any unit list -> lossy scalar values), '
        'utf8_source_reads, ncr_decimal + decimalDigits_shortest, encRepl_html (the NCR wrapper of lib.rs with its total_read / NCR_EXTRA bookkeeping writes exactly that when it ends with InputEmpty) and the end-to-end corollaries encode_from_utf16_conforms (any UTF-16 unit buffer) / encode_from_utf8_conforms, output_encoding_utf8, utf8_never_unmappable. Implementation tied to the executable Standard by ~3.5*10^5 (quick) / 1.5*10^6 operations '
        '(thorough: every scalar x 40 encodings) per run; thorough sweep at build time: 0 disagreements.'
    ),
    'note': (
        'Trusted: Lean kernel + native_decide for 37 finite table evaluations (listed by axiom name in the evidence); Spec/Encode.lean as the reading of the Standard; vendored indexes '
        '(multi-byte: reconstructed from tests/test_data independently of data.rs; single-byte, gb18030 ranges, GB18030-2022 table: snapshot of the pinned tree); hand models + correspondence runs. '
        'No pending theorem. Stop positions (OutputFull) are out of scope here (C04).'
    ),
}

# operations whose model side is the specification itself (see check: spec_ops)
PROPS_EXTRA['C01']['spec_ops'] = ['specdec']
PROPS_EXTRA['C03']['spec_ops'] = ['specenc']

# C14 / C16 also run the simd-accel configuration (the validators and classifiers have SIMD kernels of their own)
PROPS_EXTRA['C14']['harness_cfgs'] = ['default', 'simd']
PROPS_EXTRA['C16']['harness_cfgs'] = ['default', 'simd']

# C15 at memory level (agent-corC): Thm/C15Mem.lean over Model/StrSink.lean, driver operation zerotail
PROPS_EXTRA['C15']['thm_modules'] = ['EncodingRs.Thm.C15', 'EncodingRs.Thm.C15Utf8', 'EncodingRs.Thm.C15Mem']
PROPS_EXTRA['C15']['generated'] = PROPS_EXTRA['C15']['generated'] + [
    'Gen.AsciiConsts (MAX_STRIDE_SIZE of ascii.rs: the window convert_*_to_str_partial zero after `written`)']
PROPS_EXTRA['C15']['correspondences'] = PROPS_EXTRA['C15']['correspondences'] + [
    'zerotail: the WHOLE &mut str destination after convert_utf16_to_str_partial / convert_utf16_to_str / convert_latin1_to_str_partial / '
    'convert_latin1_to_str = Model.StrSink.convert*StrPartialMem (memory-level model of the default kernels: every store threaded through the old '
    'contents, then zeroTrail true) for three valid multi-byte pre-fill patterns at four phases; `written` must be the model\'s; default and simd-accel '
    'build (the window the SIMD kernels may clobber is zeroed by both: Thm.C05Str.zeroTrail_window_irrelevant)']
PROPS_EXTRA['C15']['rule'] = PROPS_EXTRA['C15']['rule'] + (
    ' | zerotail (harness/src/strsink.rs, ~3.8*10^3 lines quick): ASCII runs of 0..49 units (thorough: every length 0..50) followed by 8 UTF-16 / 5 Latin1 '
    'tails x destination lengths around the ASCII run, around the complete output and +15..+35 behind it (thorough: every length) x &mut str destinations '
    'pre-filled with the three STR_PATS patterns behind 0..3 ASCII bytes; oracles: destination valid UTF-8, nothing behind the zeroed region modified')
PROPS_EXTRA['C15']['trivial_re'] = '^mem \\S+ \\d+ \\. => |^zerotail \\S+ \\S+ \\S+ \\. => '
PROPS_EXTRA['C15']['assumptions'] = [
    'bytes / UTF-16 units modelled as Nat; theorems about UTF-16 sources assume every unit < 65536, about byte sources every byte < 256 where stated',
    "destination: Model/Mem.lean abstracts it to capacity + written prefix; Model/StrSink.lean threads a real destination (old contents) through "
    "convert_utf16_to_utf8_partial / convert_latin1_to_utf8_partial for the DEFAULT (non-SIMD) kernels, at the granularity of the pure model (the bytes "
    "of one source unit are stored at dst[written..]; the ALU stride functions of ascii.rs store exactly the units they count - copy_stride after "
    "is_ascii, pack_stride_tail / copy_stride_tail up to the first non-ASCII unit). The simd-accel kernels store a whole stride before validating it and "
    "DO modify bytes beyond `written` (open finding F5): they are not modelled, and no theorem is about them",
    'harness profile has debug assertions on: the debug-only Latin1 assertion of convert_utf8_to_latin1_lossy / encode_latin1_lossy is modelled as enabled']
PROPS_EXTRA['C15']['partial'] = [
    "'bytes beyond written are left unmodified' (doc of convert_utf16_to_utf8_partial): theorem convert_utf16_to_utf8_partial_mem / "
    "_beyond_written_unmodified (and the same for convert_latin1_to_utf8_partial) for the memory-level model of the default kernels - destination "
    "afterwards = written prefix ++ old.drop written, for every source and old contents. On the implementation it is the guard-band oracle of memconv.rs "
    "on every generated call (default build: no violation; simd-accel build: violated, open finding F5 - the SIMD kernels are not modelled)",
    "the &mut str forms (convert_utf16_to_str_partial, convert_latin1_to_str_partial and the non-partial wrappers): trail zeroing modelled "
    "(Model.StrSink.zeroTrail) and proved to leave the whole destination valid UTF-8 (Thm/C05Str.lean: convert_*_to_str_partial_valid under the "
    "stride-garbage hypothesis - beyond `written` the conversion modified at most [written, written + MAX_STRIDE_SIZE) -, "
    "convert_*_to_str_partial_valid_default / convert_*_to_str_valid without it for the default kernels); the whole destination is compared with the "
    "model on every zerotail line in both builds (F9, the missing stride zeroing of convert_utf16_to_str_partial, is repaired: 7b61fb8)",
    'the other mem functions (copy_*, convert_utf8_to_utf16*, convert_*_to_latin1*, ensure_utf16_validity, …) have no memory-level model: counts and '
    'written prefix only; independence of old contents by the three-fill oracle (C18)',
    "simd-accel kernels: correspondence + oracles only (harness cfg 'simd'); the theorems are about the model of the default kernels"]
MANIFEST_TEXT_EXTRA['C15']['text'] = MANIFEST_TEXT_EXTRA['C15']['text'] + (
    ' Memory level (Thm/C15Mem.lean over Model/StrSink.lean, default kernels): convert_utf16_to_utf8_partial_mem / convert_latin1_to_utf8_partial_mem - '
    'with the destination threaded through the conversion as a byte list (every store a List.set at the running index, hot loop + cold tail at absolute '
    'offsets) the call returns the counts of the pure model and leaves the destination as written prefix ++ old.drop written, for every source and every '
    'old contents; corollaries *_beyond_written_unmodified (the documented guarantee), *_prefix_stored, *_independent_of_dst, *_mem_length. The &mut str '
    'forms = that conversion followed by zeroTrail (whole destination valid UTF-8: Thm/C05Str.lean, a theorem module of C05). Tied to the code by the zerotail run.')
MANIFEST_TEXT_EXTRA['C15']['note'] = (
    'Trusted: Lean kernel; Spec/Conv.lean (Unicode ch.3 tables, maximal-subpart rule, encodeInto greedy rule); translator for UTF8_DATA.table and '
    'MAX_STRIDE_SIZE; hand models + correspondence runs (the ascii.rs stride kernels are modelled as per-unit loops, at memory level as per-unit stores); '
    'std conversions used as oracle. "Bytes beyond `written` untouched" is a theorem about the model of the default kernels only; the simd-accel build '
    'violates it (open finding F5, printed as KNOWN-FINDING).')
# --- agent-corB: C12 lifted to call histories (Thm/C12Hist.lean, Thm/C12State.lean); C11: Encoding::encode terminates
# (Thm/C11EncTerm.lean).  Overrides of the entries above.
PROPS_EXTRA['C12']['thm_modules'] = ['EncodingRs.Thm.C12', 'EncodingRs.Thm.C12Hist', 'EncodingRs.Thm.C12State']
PROPS_EXTRA['C12']['partial'] = [
    'call histories are covered by theorems now (Thm/C12Hist.lean, Thm/C12State.lean: history_output_prefix, complete_history_output, has_pending_iff_history / has_pending_iff_repl_history, history_decodes_complete); the histories are over the encoder MODEL (EHist / EReplHist: Model.erunI / Model.encRepl calls with arbitrary stop budgets) - that every call of the implementation is such a call is the enc correspondence',
    'raw API: the byte stream considered is the manual procedure (bytes + the numeric character reference appended at each Unmappable; history_output_prefix_raw) or a history in which nothing was reported unmappable so far (history_output_prefix_no_unmappable); a caller who writes NOTHING for Unmappable produces a different stream, which output / expected do not describe and which for ISO-2022-JP is not even error-free (the encoder returns to ASCII before reporting Unmappable so that the reference is legal; with nothing written the next escape sequence follows immediately and the decoder reports the doubled escape: examples at the end of Thm/C12Hist.lean, confirmed on the real crate) - the documentation of EncoderResult::Unmappable obliges the caller to append a placeholder',
]
PROPS_EXTRA['C12']['assumptions'] = [a for a in PROPS_EXTRA['C12']['assumptions'] if not a.startswith('the byte stream is the one produced with replacement')] + [
    'the byte stream is the one produced with replacement (encode_from_utf8/utf16) or by the documented manual procedure over the raw API: every Unmappable(u) is followed by ncr u (subst = C09Enc.manualBytes, manualBytes_eq_subst; = C03 erefHtml, output_eq_erefHtml)',
    'a history (EHist / EReplHist) is any sequence of calls made so far: chunks at character boundaries given as source items resp. source buffers of either form, any capacities / stop budgets, `last` calls get everything that is left; it may end after any call',
]
MANIFEST_TEXT_EXTRA['C12']['text'] = MANIFEST_TEXT_EXTRA['C12']['text'].replace(
    ' Proof: generic feedAll_ref',
    ' Call histories (Thm/C12Hist.lean, Thm/C12State.lean): history_output_prefix / history_output_prefix_raw - for each of the 40 encodings, every text and EVERY history of encode_from_utf8/utf16 calls (EReplHist) resp. raw calls with the manual procedure (EHist) made so far - any chunks, source forms, capacities, stop decisions, ending after ANY call, e.g. one that returned OutputFull between an ISO-2022-JP escape sequence and its character - the bytes written so far are a byte prefix of the reference output (output v text = bytes ++ reference output of what is left from the current state: hist_sound / repl_hist_sound on top of C04 erunI_sound and C09Enc encRepl_sound) and hence decode, followed by anything, without an error event to a prefix of expected v text; complete_history_output(_raw) / boundary_of_complete_history: after the final call of a protocol-following history (C09Enc EReplProto / C04 EProto) the bytes are exactly output v text and decode to expected v text; manualBytes_eq_subst / output_eq_manual / output_eq_erefHtml connect output with C09 manualBytes and C03 erefHtml; has_pending_iff_history / has_pending_iff_repl_history: after every call of every ISO-2022-JP history the decoder accepts the bytes so far and is in the escape state of the encoder (CorrW), has_pending_state() <-> that state is not ASCII - via hist_pos (after any history the events are the unstopped run over a text prefix followed by a partial processing of the next character, Mid, or by the end-of-stream block), iso_mid_cases (inside a character at most one escape sequence, the one into the current state), iso_esc_feed, and repl_hist_is_hist / go_hist (a history of with-replacement calls IS a history of raw calls whose manual-procedure bytes are the bytes written); final_not_pending; history_decodes_complete(_raw): for all 40 encodings the bytes written so far by any history, taken on their own as a COMPLETE stream, decode without any error event - none at the end of the stream either, also when the history stops between an escape sequence and its character - to a prefix of expected v text. Proof: generic feedAll_ref')
MANIFEST_TEXT_EXTRA['C12']['note'] = (
    'Trusted additionally: native_decide for 42 finite per-character obligations (listed in the evidence); the decoder families and ncr are hand models tied by the dec / enc correspondences. '
    'The reference-run theorems are lifted to every call history of the encoder model, raw and with replacement (C12Hist, C12State); the model calls are tied to the implementation by the enc correspondence and the real-decoder oracle after every call.')
MANIFEST_TEXT_EXTRA['C12']['technique'] = MANIFEST_TEXT_EXTRA['C12']['technique'].replace(
    'state-correspondence invariant for ISO-2022-JP)', 'state-correspondence invariant for ISO-2022-JP, induction over call histories)')

PROPS_EXTRA['C11']['thm_modules'] = ['EncodingRs.Thm.C11', 'EncodingRs.Lemmas.OneShotCap', 'EncodingRs.Lemmas.OneShotEnc', 'EncodingRs.Thm.C11EncTerm']
PROPS_EXTRA['C11']['assumptions'] = [
    ('the loops are modelled with fuel; for the decode functions the fuel 10*len+10 is proved sufficient for every admissible policy (decode_without_bom_handling_cap_returns); for encode the fuel len+2 is proved sufficient for every admissible policy under the length precondition 204*len+142 <= usize::MAX (Thm/C11EncTerm.lean encodeV_terminates; EncodeVAdmissible: every inner raw call of every round is admissible for the part of the spare capacity it is offered)'
     if a.startswith('the loops are modelled with fuel') else a)
    for a in PROPS_EXTRA['C11']['assumptions']]
PROPS_EXTRA['C11']['partial'] = [
    'termination and panic-freedom of Encoding::encode are theorems now (Thm/C11EncTerm.lean: encodeLoop_outcome, encodeV_terminates, encode_terminates, encodeV_panic_length, encodeV_total) under the length precondition 204*len+142 <= usize::MAX, which is sufficient, not sharp (the constant comes from the crude output bound 11*(9*len+4)); encodeLoop_wrap_diverges shows that SOME length bound is needed for termination as well: when max_buffer_length_from_utf8_if_no_unmappables(len) exceeds 2^63 the unchecked next_power_of_two wraps to 0 in a release build and the loop repeats without progress (len > 2^61 on a 64-bit target; see notes/NOTES-corB.md for the 32-bit reading) - a statement about the model, not exercised on the implementation',
    'equality with the *sniffing / BOM-removing streaming Decoder* (life cycle of C10): decode_eq_sniff / decode_with_bom_removal_eq reduce the one-shot BOM handling to the streaming decoder WITHOUT BOM handling of the encoding used on the input after the BOM; sniff_single_call / remove_*_single_call prove that the life-cycle model Decoder.rawCall fed the whole input in ONE last call hands exactly that decoder and that slice on; other chunkings of the sniffing decoder are C10 and are compared by the harness oracle (one call and 7-byte chunks) on every generated input',
    'the capacity-aware decode functions are not run by the driver (it runs the budget-parametrised ones under the never-stop policy, which the `...Cap` functions refine): the capacities themselves are tied to the code through the C07 correspondence (max_* answers in every reached state), not through a C11 operation line',
    'pointer aliasing of a borrow is observed (harness), not proved']
MANIFEST_TEXT_EXTRA['C11']['note'] = (
    'Trusted: Lean kernel (+ the native_decide table evaluations inherited from C07 / C03, listed in the evidence); translator (Encoding initialisers, tables, max_* formulas); '
    'hand models of the variant decoders / encoders + relational call models (correspondence runs); Spec/Utf8.lean, Spec/Encode.lean; validators assumed exact (C14); '
    'alloc behaves as documented. Termination and panic-freedom of the encode loop are proved under a (sufficient, not sharp) length precondition. Not proved: pointer aliasing (observed), '
    'the tie to the BOM-sniffing streaming life cycle beyond a single call (C10; oracle).')
MANIFEST_TEXT_EXTRA['C11']['text'] = MANIFEST_TEXT_EXTRA['C11']['text'].replace(
    'Non-vacuity: an admissible policy with an OutputFull round',
    'THIRD ROUND (Thm/C11EncTerm.lean) - Encoding::encode returns: encodeLoop_outcome / encodeV_terminates / encode_terminates (for every output encoding, every valid &str with 204*len+142 <= usize::MAX, every allocator slack and EVERY admissible stop policy of the inner raw calls, the model returns ok for every fuel >= len+2: each round offers at least max_buffer_length_from_utf8_if_no_unmappables(rest) spare bytes - the first allocation, and re-established by every reserve_exact - so by C07 enc_repl_sufficient_had an OutputFull round replaced something and therefore consumed >= 1 unit, encRepl_outputFull_read_pos: at most len+1 rounds; the capacity never overflows because an OutputFull return left at most 13 bytes unused, encRepl_outputFull_filled, so the capacity is bounded by the output whatever the allocator granted), encodeV_panic_length (a panic outcome implies usize::MAX < 204*len+142, no fuel hypothesis), encodeV_total (returns AND equals the reference), encodeLoop_wrap_diverges (without a length bound the unchecked next_power_of_two can wrap to 0 and the loop diverges), executable admissibility checker encodeVAdmissibleB (proved sound) with a kernel-evaluated run that has an OutputFull round and a reserve_exact. '
    'Non-vacuity: an admissible policy with an OutputFull round')

