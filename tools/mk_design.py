#!/usr/bin/env python3
"""Assemble DESIGN.md: hand-written parts in design/ + section 4 generated from the property registry
(so that the per-property contracts never drift from what the checks claim)."""
import json, os, sys
sys.path.insert(0, os.path.dirname(__file__))
import props

VERIF = os.path.dirname(os.path.dirname(os.path.abspath(__file__)))
titles = {}
for l in open(os.path.join(VERIF, "properties.jsonl")):
    d = json.loads(l)
    titles[d["id"]] = d["title"]
out = [open(os.path.join(VERIF, "design/00_head.md")).read()]
out.append("---------------------------------------------------------------------------\n\n## 4. Per-property contracts\n\n"
           "For each property: the theorems (module `lean/EncodingRs/Thm/<id>.lean` unless stated), the tie to the code, and what is\n"
           "partial. `./check <id>` decides it; level `proof` in MANIFEST.json. (This section is generated from `tools/props.py`.)\n")
for i in range(1, 21):
    p = "C%02d" % i
    out.append("### %s %s\n" % (p, titles[p]))
    if p in props.PROPS:
        P = props.PROPS[p]
        T = props.MANIFEST_TEXT[p]
        out.append("**Theorems / what is decided.** %s\n" % T["text"])
        out.append("**Technique.** %s\n" % T["technique"])
        out.append("**Theorem modules.** %s\n" % ", ".join("`%s`" % m for m in P["thm_modules"]))
        out.append("**Regenerated from the source on every run.** %s\n" % "; ".join(P["generated"]))
        out.append("**Correspondence (hand model vs implementation).**\n" + "\n".join("* " + c for c in P["correspondences"]) + "\n")
        out.append("**Operations explored.** %s\n" % P["rule"])
        cfgs = {"default": "default features", "simd": "`simd-accel` (nightly)", "lessslow": "`less-slow-*` encode tables", "fast": "`fast-legacy-encode`"}
        out.append("**Harness configurations (the crate is rebuilt from /repo's working tree for each).** %s\n" % ", ".join(cfgs.get(c, c) for c in P.get("harness_cfgs", ["default"])))
        if P.get("assumptions"):
            out.append("**Assumptions.**\n" + "\n".join("* " + a for a in P["assumptions"]) + "\n")
        if P.get("partial"):
            out.append("**Partial / not yet a theorem.**\n" + "\n".join("* " + a for a in P["partial"]) + "\n")
        extra = os.path.join(VERIF, "design/4_%s.md" % p)
        if os.path.exists(extra):
            out.append(open(extra).read())
    else:
        out.append("Not claimed at this commit: %s\n" % props.NOT_APPLICABLE.get(p, ""))
        extra = os.path.join(VERIF, "design/4_%s.md" % p)
        if os.path.exists(extra):
            out.append(open(extra).read())
tail = open(os.path.join(VERIF, "design/50_tail.md")).read()
res_md = os.path.join(VERIF, "seeded", "RESULTS.md")
table = ""
if os.path.exists(res_md):
    table = "\n".join(l for l in open(res_md).read().split("\n") if l.startswith("|"))
import glob, re
nat_lines = []
for f in sorted(glob.glob(os.path.join(VERIF, "evidence", "C*.json"))):
    try:
        ev = json.load(open(f))
    except Exception:
        continue
    names = set()
    for axs in (ev.get("coverage", {}).get("theorem_axioms", {}) or {}).values():
        for a in axs:
            m = re.match(r"(.*)\._native\.native_decide\.", a)
            if m:
                names.add(m.group(1).replace("EncodingRs.", ""))
    if names:
        nat_lines.append("  * %s (%d): %s" % (os.path.basename(f)[:-5], len(names), ", ".join("`%s`" % n for n in sorted(names))))
    else:
        nat_lines.append("  * %s: none" % os.path.basename(f)[:-5])
hp = os.path.join(VERIF, "harmless", "RESULTS.md")
htable = "\n".join(l for l in open(hp).read().split("\n") if l.startswith("|")) if os.path.exists(hp) else "(not run yet)"
out.append(tail.replace("{{SEEDED_RESULTS}}", table).replace("{{NATIVE_AXIOMS}}", "\n".join(nat_lines)).replace("{{HARMLESS_RESULTS}}", htable))
out.append(open(os.path.join(VERIF, "design/90_appendixA.md")).read())
open(os.path.join(VERIF, "DESIGN.md"), "w").write("\n".join(out))
print("DESIGN.md written")
