//! C16: mem classification and bidi checks (`is_ascii`, `is_basic_latin`,
//! `is_utf8_latin1`, `is_str_latin1`, `is_utf16_latin1`, `is_utf8_bidi`,
//! `is_str_bidi`, `is_utf16_bidi`, `is_char_bidi`, `is_utf16_code_unit_bidi`,
//! `check_*_for_latin1_and_bidi`).
//!
//! Operation lines
//!   cls <fn> <hex>       => true|false|Latin1|LeftToRight|Bidi
//!   cls16 <fn> <hex16>   => …
//!   clschar <fn> <n>     => true|false
//! The oracle is an independent naive definition (`char` iterators + the
//! documented right-to-left block list).
use crate::util::*;
use encoding_rs::mem;
use encoding_rs::mem::Latin1Bidi;

/// The documented right-to-left block list (comment/doc of `is_char_bidi`).
fn doc_rtl_scalar(c: u32) -> bool {
    c == 0x200F
        || c == 0x202B
        || c == 0x202E
        || c == 0x2067
        || (0x0590..=0x08FF).contains(&c)
        || (0xFB1D..=0xFDFF).contains(&c)
        || (0xFE70..=0xFEFE).contains(&c)
        || (0x10800..=0x10FFF).contains(&c)
        || (0x1E800..=0x1EFFF).contains(&c)
}

/// Same list for UTF-16 code units: the astral blocks are recognised by their
/// lead surrogates D802, D803, D83A, D83B.
fn doc_rtl_unit(u: u16) -> bool {
    let c = u as u32;
    c == 0x200F
        || c == 0x202B
        || c == 0x202E
        || c == 0x2067
        || (0x0590..=0x08FF).contains(&c)
        || (0xFB1D..=0xFDFF).contains(&c)
        || (0xFE70..=0xFEFE).contains(&c)
        || c == 0xD802
        || c == 0xD803
        || c == 0xD83A
        || c == 0xD83B
}

fn l1b(x: Latin1Bidi) -> &'static str {
    match x {
        Latin1Bidi::Latin1 => "Latin1",
        Latin1Bidi::LeftToRight => "LeftToRight",
        Latin1Bidi::Bidi => "Bidi",
    }
}

fn combine(latin1: bool, bidi: bool) -> &'static str {
    if latin1 {
        "Latin1"
    } else if bidi {
        "Bidi"
    } else {
        "LeftToRight"
    }
}

fn b(x: bool) -> &'static str {
    if x {
        "true"
    } else {
        "false"
    }
}

pub const BYTE_FNS: &[&str] = &["is_ascii", "is_utf8_latin1", "is_utf8_bidi", "check_utf8_for_latin1_and_bidi"];
pub const STR_FNS: &[&str] = &["is_str_latin1", "is_str_bidi", "check_str_for_latin1_and_bidi"];
pub const U16_FNS: &[&str] = &["is_basic_latin", "is_utf16_latin1", "is_utf16_bidi", "check_utf16_for_latin1_and_bidi"];

fn emit(out: &mut Out, lhs: String, got: Result<String, String>, want: String) {
    out.oracle_evals += 1;
    match got {
        Err(msg) => {
            out.fail("C16", &lhs, format!("panicked: {}", msg));
            out.op(lhs, format!("panic:{}", msg));
        }
        Ok(g) => {
            if g != want {
                out.fail("C16", &lhs, format!("expected {} got {}", want, g));
            }
            out.op(lhs, g);
        }
    }
}

/// One byte-input function on one buffer. `str` functions are skipped (false
/// returned) when the buffer is not valid UTF-8.
pub fn one_bytes(out: &mut Out, f: &str, bytes: &[u8]) -> bool {
    let lhs = format!("cls {} {}", f, hex(bytes));
    let v = bytes.to_vec();
    let as_str = std::str::from_utf8(bytes).ok();
    let (got, want): (Result<String, String>, String) = match f {
        "is_ascii" => (
            catch(move || b(mem::is_ascii(&v)).to_string()),
            b(bytes.iter().all(|x| *x < 0x80)).to_string(),
        ),
        "is_utf8_latin1" => (
            catch(move || b(mem::is_utf8_latin1(&v)).to_string()),
            b(match as_str {
                Some(s) => s.chars().all(|c| (c as u32) <= 0xFF),
                None => false,
            })
            .to_string(),
        ),
        "is_utf8_bidi" => (
            catch(move || b(mem::is_utf8_bidi(&v)).to_string()),
            b(match as_str {
                Some(s) => s.chars().any(|c| doc_rtl_scalar(c as u32)),
                None => true,
            })
            .to_string(),
        ),
        "check_utf8_for_latin1_and_bidi" => (
            catch(move || l1b(mem::check_utf8_for_latin1_and_bidi(&v)).to_string()),
            match as_str {
                Some(s) => combine(
                    s.chars().all(|c| (c as u32) <= 0xFF),
                    s.chars().any(|c| doc_rtl_scalar(c as u32)),
                ),
                None => combine(false, true),
            }
            .to_string(),
        ),
        "is_str_latin1" | "is_str_bidi" | "check_str_for_latin1_and_bidi" => {
            let s = match as_str {
                Some(s) => s,
                None => return false,
            };
            let owned = s.to_string();
            let latin1 = s.chars().all(|c| (c as u32) <= 0xFF);
            let bidi = s.chars().any(|c| doc_rtl_scalar(c as u32));
            match f {
                "is_str_latin1" => (catch(move || b(mem::is_str_latin1(&owned)).to_string()), b(latin1).to_string()),
                "is_str_bidi" => (catch(move || b(mem::is_str_bidi(&owned)).to_string()), b(bidi).to_string()),
                _ => (
                    catch(move || l1b(mem::check_str_for_latin1_and_bidi(&owned)).to_string()),
                    combine(latin1, bidi).to_string(),
                ),
            }
        }
        _ => return false,
    };
    emit(out, lhs, got, want);
    true
}

pub fn one_u16(out: &mut Out, f: &str, units: &[u16]) -> bool {
    let lhs = format!("cls16 {} {}", f, hex16(units));
    let v = units.to_vec();
    let (got, want): (Result<String, String>, String) = match f {
        "is_basic_latin" => (
            catch(move || b(mem::is_basic_latin(&v)).to_string()),
            b(units.iter().all(|u| *u < 0x80)).to_string(),
        ),
        "is_utf16_latin1" => (
            catch(move || b(mem::is_utf16_latin1(&v)).to_string()),
            b(units.iter().all(|u| *u <= 0xFF)).to_string(),
        ),
        "is_utf16_bidi" => (
            catch(move || b(mem::is_utf16_bidi(&v)).to_string()),
            b(units.iter().any(|u| doc_rtl_unit(*u))).to_string(),
        ),
        "check_utf16_for_latin1_and_bidi" => (
            catch(move || l1b(mem::check_utf16_for_latin1_and_bidi(&v)).to_string()),
            combine(units.iter().all(|u| *u <= 0xFF), units.iter().any(|u| doc_rtl_unit(*u))).to_string(),
        ),
        _ => return false,
    };
    emit(out, lhs, got, want);
    true
}

pub fn one_char(out: &mut Out, f: &str, n: u32) -> bool {
    let lhs = format!("clschar {} {}", f, n);
    let (got, want): (Result<String, String>, String) = match f {
        "is_char_bidi" => {
            let c = match char::from_u32(n) {
                Some(c) => c,
                None => return false,
            };
            (catch(move || b(mem::is_char_bidi(c)).to_string()), b(doc_rtl_scalar(n)).to_string())
        }
        "is_utf16_code_unit_bidi" => {
            if n > 0xFFFF {
                return false;
            }
            let u = n as u16;
            (catch(move || b(mem::is_utf16_code_unit_bidi(u)).to_string()), b(doc_rtl_unit(u)).to_string())
        }
        _ => return false,
    };
    emit(out, lhs, got, want);
    true
}

pub fn replay(toks: &[&str], out: &mut Out) -> bool {
    if toks.len() != 3 {
        return false;
    }
    match toks[0] {
        "cls" => {
            if !one_bytes(out, toks[1], &unhex(toks[2])) {
                eprintln!("cls: cannot execute {} on this input (unknown function or not a str)", toks[1]);
            }
            true
        }
        "cls16" => {
            one_u16(out, toks[1], &unhex16(toks[2]));
            true
        }
        "clschar" => {
            one_char(out, toks[1], toks[2].parse().unwrap_or(u32::MAX));
            true
        }
        _ => false,
    }
}

fn all_bytes(out: &mut Out, bytes: &[u8]) {
    for f in BYTE_FNS {
        one_bytes(out, f, bytes);
    }
    if std::str::from_utf8(bytes).is_ok() {
        for f in STR_FNS {
            one_bytes(out, f, bytes);
        }
    }
}

fn all_u16(out: &mut Out, units: &[u16]) {
    for f in U16_FNS {
        one_u16(out, f, units);
    }
}

fn push_utf8(v: &mut Vec<u8>, c: u32) {
    let ch = char::from_u32(c).unwrap();
    let mut buf = [0u8; 4];
    v.extend_from_slice(ch.encode_utf8(&mut buf).as_bytes());
}

fn push_utf16(v: &mut Vec<u16>, c: u32) {
    if let Some(ch) = char::from_u32(c) {
        let mut buf = [0u16; 2];
        v.extend_from_slice(ch.encode_utf16(&mut buf));
    } else {
        v.push(c as u16); // lone surrogate
    }
}

/// Boundaries of the documented list, of Latin1 / ASCII, of the UTF-8 length
/// classes and of the surrogate range.
fn boundaries() -> Vec<u32> {
    vec![
        0x0, 0x80, 0x100, 0x590, 0x800, 0x900, 0x1000, 0x2000, 0x200F, 0x2010, 0x202B, 0x202C, 0x202E, 0x202F, 0x2067, 0x2068,
        0x3000, 0xD000, 0xD800, 0xD802, 0xD804, 0xD83A, 0xD83C, 0xDC00, 0xE000, 0xF000, 0xFB00, 0xFB1D, 0xFE00, 0xFE70, 0xFEFF,
        0x10000, 0x10800, 0x11000, 0x1E000, 0x1E800, 0x1F000, 0x20000, 0x40000, 0x100000, 0x10FFFF, 0x110000,
    ]
}

/// Scalars planted into buffers: every boundary of the list (both sides),
/// Latin1 / ASCII boundaries, surrogate neighbours, astral RTL blocks.
fn interesting_scalars(thorough: bool) -> Vec<u32> {
    let mut v: Vec<u32> = vec![
        0x41, 0x7F, 0x80, 0xFF, 0x100, 0x3FF, 0x58F, 0x590, 0x5D0, 0x7FF, 0x800, 0x8FF, 0x900, 0xFFF, 0x1000, 0x200E, 0x200F,
        0x2010, 0x202A, 0x202B, 0x202C, 0x202D, 0x202E, 0x202F, 0x2066, 0x2067, 0x2068, 0x3042, 0xD7FF, 0xE000, 0xFB1C,
        0xFB1D, 0xFDFF, 0xFE00, 0xFE6F, 0xFE70, 0xFEBF, 0xFEFE, 0xFEFF, 0xFFFD, 0xFFFF, 0x10000, 0x107FF, 0x10800, 0x10FFF,
        0x11000, 0x1E7FF, 0x1E800, 0x1EFFF, 0x1F000, 0x1F4A9, 0x10FFFF,
    ];
    if thorough {
        v.extend_from_slice(&[0xC0, 0xC3, 0x101, 0x591, 0x8FE, 0x901, 0x2000, 0x203F, 0x2040, 0x2FFF, 0xD000, 0xF000, 0xFB00, 0xFC00, 0xFE40, 0xFE7F, 0xFE80, 0xFEC0, 0x1D000, 0x1E000, 0x20000, 0x40000, 0x100000]);
    }
    v.sort();
    v.dedup();
    v
}

/// code units planted into UTF-16 buffers on their own (incl. lone surrogates)
fn interesting_units() -> Vec<u32> {
    vec![0xD800, 0xD801, 0xD802, 0xD803, 0xD804, 0xD839, 0xD83A, 0xD83B, 0xD83C, 0xDBFF, 0xDC00, 0xDFFF]
}

fn positions(len: usize, thorough: bool) -> Vec<usize> {
    let maxp = std::cmp::min(len, 49);
    if thorough {
        return (0..maxp).collect();
    }
    let mut v: Vec<usize> = Vec::new();
    for p in 0..maxp {
        let near_end = p + 4 >= len;
        let near_stride = (p % 16) <= 1 || (p % 16) >= 14;
        if p < 3 || near_end || near_stride {
            v.push(p);
        }
    }
    v
}

pub fn generate(prop: &str, out: &mut Out, thorough: bool, seed: u64) -> bool {
    if prop != "C16" {
        return false;
    }
    let mut rng = Rng::new(seed ^ 0xC16);

    // 1. the two per-character predicates: exhaustive (thorough) or every
    //    boundary +-2 and a stride through the rest (quick)
    if thorough {
        for n in 0..0x110000u32 {
            one_char(out, "is_char_bidi", n);
        }
        for n in 0..0x10000u32 {
            one_char(out, "is_utf16_code_unit_bidi", n);
        }
    } else {
        let mut pts: Vec<u32> = Vec::new();
        for bd in boundaries() {
            for d in 0..5u32 {
                let x = (bd + d).wrapping_sub(2);
                if x < 0x110000 {
                    pts.push(x);
                }
            }
        }
        let off = (rng.below(13)) as u32;
        let mut n = off;
        while n < 0x110000 {
            pts.push(n);
            n += 13;
        }
        pts.sort();
        pts.dedup();
        for &n in &pts {
            one_char(out, "is_char_bidi", n);
        }
        for n in 0..0x10000u32 {
            one_char(out, "is_utf16_code_unit_bidi", n);
        }
    }

    // 2. every scalar / code unit alone as a buffer
    {
        let mut pts: Vec<u32> = Vec::new();
        if thorough {
            pts.extend(0..0x110000u32);
        } else {
            for bd in boundaries() {
                for d in 0..5u32 {
                    let x = (bd + d).wrapping_sub(2);
                    if x < 0x110000 {
                        pts.push(x);
                    }
                }
            }
            let off = (rng.below(389)) as u32;
            let mut n = off;
            while n < 0x110000 {
                pts.push(n);
                n += 389;
            }
            pts.sort();
            pts.dedup();
        }
        for &n in &pts {
            if char::from_u32(n).is_some() {
                let mut v = Vec::new();
                push_utf8(&mut v, n);
                for f in ["is_utf8_bidi", "is_str_bidi", "check_utf8_for_latin1_and_bidi", "check_str_for_latin1_and_bidi"] {
                    one_bytes(out, f, &v);
                }
                if !thorough || n % 16 == 0 || n < 0x900 {
                    // followed by ASCII so that the four-byte look-ahead path is taken
                    v.extend_from_slice(b"\0\0\0\0\0\0\0\0");
                    one_bytes(out, "is_utf8_bidi", &v);
                    one_bytes(out, "is_str_bidi", &v);
                }
            }
            if n < 0x10000 {
                let u = [n as u16];
                one_u16(out, "is_utf16_bidi", &u);
                one_u16(out, "check_utf16_for_latin1_and_bidi", &u);
            }
        }
    }

    // 3. interesting scalars planted at every position 0..48 of buffers of
    //    every length 0..64 (in characters) over ASCII / Latin1 / non-Latin1 filler
    let fillers: [u32; 3] = [0x61, 0xE9, 0x3042];
    for &f in &fillers {
        for len in 0..=64usize {
            let mut v8 = Vec::new();
            let mut v16 = Vec::new();
            for _ in 0..len {
                push_utf8(&mut v8, f);
                push_utf16(&mut v16, f);
            }
            all_bytes(out, &v8);
            all_u16(out, &v16);
        }
    }
    let scalars = interesting_scalars(thorough);
    let lens: Vec<usize> = if thorough {
        (1..=64).collect()
    } else {
        vec![1, 2, 3, 4, 5, 8, 15, 16, 17, 18, 19, 20, 31, 32, 33, 35, 36, 48, 49, 63, 64]
    };
    for &c in &scalars {
        for &f in &fillers {
            for &len in &lens {
                for p in positions(len, thorough) {
                    let mut v8 = Vec::new();
                    let mut v16 = Vec::new();
                    for i in 0..len {
                        let x = if i == p { c } else { f };
                        push_utf8(&mut v8, x);
                        push_utf16(&mut v16, x);
                    }
                    all_bytes(out, &v8);
                    all_u16(out, &v16);
                }
            }
        }
    }
    // lone surrogates / lead surrogates of the RTL planes in UTF-16 buffers
    for &c in &interesting_units() {
        for &f in &fillers {
            for &len in &lens {
                for p in positions(len, thorough) {
                    let mut v16 = Vec::new();
                    for i in 0..len {
                        if i == p {
                            v16.push(c as u16);
                        } else {
                            push_utf16(&mut v16, f);
                        }
                    }
                    all_u16(out, &v16);
                }
            }
        }
    }

    // 4. systematic malformed UTF-8: every non-ASCII lead with second / third /
    //    fourth bytes from the class boundaries, complete and truncated, with
    //    ASCII before and after (so that both the look-ahead loop and the tail
    //    match of is_utf8_bidi see them)
    let seconds: Vec<u8> = if thorough {
        vec![0x00, 0x41, 0x7F, 0x80, 0x81, 0x8F, 0x90, 0x9E, 0x9F, 0xA0, 0xA3, 0xA4, 0xAC, 0xB7, 0xB8, 0xB9, 0xBA, 0xBB, 0xBF, 0xC0, 0xE0, 0xFF]
    } else {
        vec![0x41, 0x7F, 0x80, 0x8F, 0x90, 0x9F, 0xA0, 0xA4, 0xBF, 0xC0]
    };
    let thirds: Vec<u8> = if thorough {
        vec![0x00, 0x7F, 0x80, 0x8F, 0x9C, 0x9D, 0x9F, 0xA0, 0xA7, 0xAB, 0xAE, 0xAF, 0xB0, 0xBE, 0xBF, 0xC0, 0xFF]
    } else {
        vec![0x7F, 0x80, 0x9F, 0xA0, 0xBF, 0xC0]
    };
    let fourths: Vec<u8> = if thorough { vec![0x00, 0x7F, 0x80, 0xBF, 0xC0, 0xFF] } else { vec![0x7F, 0x80, 0xBF, 0xC0] };
    let frames: Vec<(usize, usize)> = if thorough {
        vec![(0, 0), (0, 1), (0, 4), (1, 0), (3, 2), (13, 0), (13, 5), (16, 3)]
    } else {
        vec![(0, 0), (0, 4), (14, 1)]
    };
    for lead in 0x80..=0xFFu32 {
        let lead = lead as u8;
        for &s in &seconds {
            for &t in &thirds {
                for &q in &fourths {
                    let full = [lead, s, t, q];
                    for n in 1..=4usize {
                        // emit each distinct prefix once
                        if n < 4 && q != fourths[0] {
                            continue;
                        }
                        if n < 3 && t != thirds[0] {
                            continue;
                        }
                        if n < 2 && s != seconds[0] {
                            continue;
                        }
                        for &(pre, post) in &frames {
                            let mut v = vec![b'a'; pre];
                            v.extend_from_slice(&full[..n]);
                            v.extend(std::iter::repeat(b'z').take(post));
                            one_bytes(out, "is_utf8_bidi", &v);
                            one_bytes(out, "is_utf8_latin1", &v);
                            one_bytes(out, "check_utf8_for_latin1_and_bidi", &v);
                            if std::str::from_utf8(&v).is_ok() {
                                one_bytes(out, "is_str_bidi", &v);
                                one_bytes(out, "check_str_for_latin1_and_bidi", &v);
                            }
                        }
                    }
                }
            }
        }
    }

    // 5. seeded random text with injected invalid UTF-8
    let alphabet: Vec<u32> = vec![
        0x20, 0x41, 0x61, 0x7A, 0x7F, 0x80, 0xA0, 0xE9, 0xFF, 0x100, 0x17F, 0x3B1, 0x44F, 0x58F, 0x7FF, 0x900, 0xE01, 0x1000, 0x200E,
        0x2010, 0x2066, 0x20AC, 0x3042, 0x4E00, 0xAC00, 0xD7FF, 0xE000, 0xFB1C, 0xFE00, 0xFE6F, 0xFEFF, 0xFFFD, 0x10000, 0x107FF,
        0x11000, 0x1E7FF, 0x1F000, 0x1F600, 0x10FFFF,
    ];
    let rtl: Vec<u32> = vec![0x590, 0x5D0, 0x627, 0x8FF, 0x200F, 0x202B, 0x202E, 0x2067, 0xFB1D, 0xFDFF, 0xFE70, 0xFEFE, 0x10800, 0x10FFF, 0x1E800, 0x1EFFF];
    let junk: Vec<u8> = vec![0x80, 0x8F, 0x90, 0xA0, 0xBF, 0xC0, 0xC1, 0xC2, 0xD6, 0xD7, 0xDF, 0xE0, 0xE2, 0xED, 0xEF, 0xF0, 0xF4, 0xF5, 0xFF, 0x41];
    let n_random = if thorough { 300_000 } else { 12_000 };
    for _ in 0..n_random {
        let nchars = rng.below(41);
        // the script mix of one text: mostly ASCII, mostly Latin1, or anything
        let mix = rng.below(3);
        let mut v8: Vec<u8> = Vec::new();
        let mut v16: Vec<u16> = Vec::new();
        for _ in 0..nchars {
            let c = if rng.chance(1, 40) {
                *rng.pick(&rtl)
            } else {
                match mix {
                    0 => {
                        if rng.chance(9, 10) {
                            0x20 + rng.below(0x5F) as u32
                        } else {
                            *rng.pick(&alphabet)
                        }
                    }
                    1 => {
                        if rng.chance(9, 10) {
                            rng.below(0x100) as u32
                        } else {
                            *rng.pick(&alphabet)
                        }
                    }
                    _ => *rng.pick(&alphabet),
                }
            };
            push_utf8(&mut v8, c);
            push_utf16(&mut v16, c);
        }
        if rng.chance(1, 2) && !v8.is_empty() {
            // inject invalid UTF-8 (1..2 edits)
            for _ in 0..(1 + rng.below(2)) {
                match rng.below(4) {
                    0 if !v8.is_empty() => {
                        let i = rng.below(v8.len());
                        v8[i] = *rng.pick(&junk);
                    }
                    0 | 1 => {
                        let i = rng.below(v8.len() + 1);
                        v8.insert(i, *rng.pick(&junk));
                    }
                    2 => {
                        if !v8.is_empty() {
                            let i = rng.below(v8.len());
                            v8.remove(i);
                        }
                    }
                    _ => {
                        let cut = rng.below(4);
                        let l = v8.len().saturating_sub(cut);
                        v8.truncate(l);
                    }
                }
            }
            // UTF-16: sprinkle a lone surrogate
            if !v16.is_empty() {
                let i = rng.below(v16.len());
                v16[i] = 0xD800 + rng.below(0x800) as u16;
            }
        }
        all_bytes(out, &v8);
        all_u16(out, &v16);
    }
    true
}
