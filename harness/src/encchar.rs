//! ENCCHAR: exhaustive per-character validation of the encoder family models.
//!
//!   encchar <ENC ident> <scalar value in hex>[,<scalar value in hex>…]
//!        => <hex of all bytes written>
//!         | U<hex scalar>[:<hex of the bytes written before>]
//!         | P (panic)
//!
//! A fresh encoder (`Encoding::new_encoder`, i.e. the encoder of the output
//! encoding) encodes the character(s) with `last = true` through
//! `encode_from_utf8_without_replacement` (16-byte destination, called again
//! until `InputEmpty`); the result is everything written (including ISO-2022-JP
//! escapes and the final `ESC ( B` of the end-of-stream block) or the first
//! `Unmappable` report.  One character per line, except that ISO-2022-JP
//! additionally gets every character after U+00A5 (encoder in the Roman state)
//! and after U+3042 (encoder in the JIS X 0208 state).
//!
//! Property names served: `ENCCHAR` (all 40 encodings) and `ENCCHAR:<ENC ident>`
//! (one encoding; for running the thorough sweep in parallel).
//! quick: about 6000 class-representative + random scalar values per encoding;
//! thorough: every scalar value (0..=0x10FFFF without surrogates).
use crate::dec::{enc_by_ident, ALL};
use crate::util::*;
use encoding_rs::{EncoderResult, Encoding};

pub fn encode_chars(e: &'static Encoding, s: &str) -> String {
    let s = s.to_string();
    let r = catch(move || {
        let mut enc = e.new_encoder();
        let mut src: &str = &s;
        let mut out: Vec<u8> = Vec::new();
        let mut rounds = 0;
        loop {
            let mut dst = [0u8; 16];
            let (r, read, written) = enc.encode_from_utf8_without_replacement(src, &mut dst, true);
            out.extend_from_slice(&dst[..written]);
            src = &src[read..];
            match r {
                EncoderResult::InputEmpty => return hex(&out),
                EncoderResult::OutputFull => {
                    rounds += 1;
                    if rounds > 8 {
                        return "STUCK".to_string();
                    }
                }
                EncoderResult::Unmappable(u) => {
                    return if out.is_empty() {
                        format!("U{:x}", u as u32)
                    } else {
                        format!("U{:x}:{}", u as u32, hex(&out))
                    };
                }
            }
        }
    });
    match r {
        Ok(s) => s,
        Err(_) => "P".to_string(),
    }
}

/// characters that put the ISO-2022-JP encoder into its Roman / JIS X 0208 state
const ISO_2022_JP_PREFIXES: [char; 2] = ['\u{A5}', '\u{3042}'];

fn emit(out: &mut Out, id: &str, e: &'static Encoding, c: u32) {
    if let Some(ch) = char::from_u32(c) {
        let mut buf = [0u8; 4];
        out.op(format!("encchar {} {:x}", id, c), encode_chars(e, ch.encode_utf8(&mut buf)));
        if e == encoding_rs::ISO_2022_JP {
            for p in ISO_2022_JP_PREFIXES {
                let s: String = [p, ch].iter().collect();
                out.op(format!("encchar {} {:x},{:x}", id, p as u32, c), encode_chars(e, &s));
            }
        }
    }
}

/// constants appearing in the encoder bodies (range ends, special cases)
const EDGES: &[u32] = &[
    0x00, 0x0E, 0x0F, 0x1B, 0x3B, 0x3C, 0x5C, 0x7E, 0x7F, 0x80, 0xA0, 0xA1, 0xA4, 0xA5, 0xAA, 0xE0, 0xF7, 0xFF, 0x0168,
    0x0262, 0x02C7, 0x02C9, 0x02CA, 0x02D9, 0x02DA, 0x02DD, 0x0391, 0x0401, 0x0451, 0x1E3F, 0x2010, 0x2014, 0x2015,
    0x203E, 0x20AC, 0x2160, 0x2170, 0x2179, 0x2212, 0x2460, 0x2500, 0x254C, 0x266D, 0x2E81, 0x2ECA, 0x3000, 0x3002,
    0x3015, 0x3017, 0x3041, 0x3093, 0x30A1, 0x30F6, 0x321C, 0x33D8, 0x33DE, 0x3400, 0x4491, 0x4E00, 0x4E5A, 0x4EDD,
    0x5188, 0x5202, 0x72DC, 0x9F9D, 0x9FA0, 0x9FA5, 0x9FA6, 0x9FB0, 0x9FB1, 0x9FB4, 0x9FBB, 0xA000, 0xAC00, 0xC8A5,
    0xD7A3, 0xD7A4, 0xD7FF, 0xE000, 0xE234, 0xE4C5, 0xE5E5, 0xE757, 0xE78D, 0xE796, 0xE7C7, 0xE810, 0xE814, 0xE816,
    0xE81E, 0xE826, 0xE82B, 0xE82C, 0xE832, 0xE843, 0xE854, 0xE855, 0xE864, 0xF780, 0xF7FF, 0xF900, 0xF929, 0xF9DC,
    0xFA0C, 0xFA0E, 0xFA2D, 0xFB00, 0xFE17, 0xFF01, 0xFF04, 0xFF3C, 0xFF61, 0xFF66, 0xFF70, 0xFF9D, 0xFF9F, 0xFFE1,
    0xFFE5, 0xFFFD, 0xFFFF, 0x10000, 0x1FFFF, 0x20000, 0x2008A, 0x200CC, 0x27607, 0x2F8A6, 0x2FFFF, 0x10FFFF,
];

/// all characters (sorted, without repetition) that the decoder of a legacy multi-byte encoding produces for a
/// two-byte sequence `lead trail` (lead 0x81..=0xFE, trail 0x40..=0xFE; ISO-2022-JP: `ESC $ B` + 0x21..=0x7E twice);
/// empty for the other encodings
fn two_byte_repertoire(e: &'static Encoding) -> Vec<u32> {
    use encoding_rs::*;
    let multi = [BIG5, EUC_KR, EUC_JP, SHIFT_JIS, GBK, GB18030, ISO_2022_JP];
    if !multi.contains(&e) {
        return Vec::new();
    }
    let mut set = std::collections::BTreeSet::new();
    let (lo, hi, tlo, thi) = if e == ISO_2022_JP { (0x21u8, 0x7Eu8, 0x21u8, 0x7Eu8) } else { (0x81, 0xFE, 0x40, 0xFE) };
    for lead in lo..=hi {
        for trail in tlo..=thi {
            let bytes: Vec<u8> = if e == ISO_2022_JP { vec![0x1B, 0x24, 0x42, lead, trail] } else { vec![lead, trail] };
            let (s, _) = e.decode_without_bom_handling(&bytes);
            let mut it = s.chars();
            if let (Some(ch), None) = (it.next(), it.next()) {
                if ch != '\u{FFFD}' && ch as u32 >= 0x80 {
                    set.insert(ch as u32);
                }
            } else {
                // Big5: four pointers decode to a base character + combining mark
                for ch in s.chars() {
                    if ch != '\u{FFFD}' && ch as u32 >= 0x80 {
                        set.insert(ch as u32);
                    }
                }
            }
        }
    }
    set.into_iter().collect()
}

pub fn generate(prop: &str, out: &mut Out, thorough: bool, seed: u64) -> bool {
    let encs: Vec<&'static Encoding> = if prop == "ENCCHAR" {
        ALL.to_vec()
    } else if let Some(id) = prop.strip_prefix("ENCCHAR:") {
        match enc_by_ident(id) {
            Some(e) => vec![e],
            None => return false,
        }
    } else {
        return false;
    };
    let mut rng = Rng::new(seed ^ 0xE2CC);
    for &e in &encs {
        let id = ident(e);
        if thorough {
            for c in 0..=0x10FFFFu32 {
                emit(out, &id, e, c);
            }
            continue;
        }
        // the first 0x500 scalar values: ASCII, Latin, Greek, Cyrillic (all single-byte repertoires start here)
        for c in 0..0x500u32 {
            emit(out, &id, e, c);
        }
        for &x in EDGES {
            for d in 0..5u32 {
                emit(out, &id, e, (x + d).saturating_sub(2));
            }
        }
        // boundary values of the source's own comparison constants
        for &c in source_constants().iter() {
            emit(out, &id, e, c);
        }
        // complete enumeration of the two-byte part of the index: every character the decoder produces for
        // some two-byte sequence is encoded (all mapped characters of the legacy multi-byte encodings, every
        // pointer incl. the first and last of each search range of data.rs and the characters that have more
        // than one pointer; model-mutation audit: Big5 U+2550/U+255E/U+2561/U+256A, pointers 18962, 18991, 18997)
        for (i, c) in two_byte_repertoire(e).into_iter().enumerate() {
            emit(out, &id, e, c);
            // the same low 16 bits in plane 1 / plane 2 (every eighth character): the BMP bodies work on `c as u16`
            // and must never see an astral character (model-mutation audit IS24, KR06)
            if i % 8 == 0 {
                emit(out, &id, e, 0x10000 + c);
                if i % 64 == 0 {
                    emit(out, &id, e, 0x20000 + c);
                }
            }
        }
        // what the decoder can produce is what the encoder is most likely to map
        for _ in 0..1500 {
            let n = 1 + rng.below(4);
            let bytes: Vec<u8> = (0..n).map(|i| if i == 0 { 0x80 | rng.below(0x80) as u8 } else { rng.below(256) as u8 }).collect();
            let (s, _) = e.decode_without_bom_handling(&bytes);
            for ch in s.chars() {
                emit(out, &id, e, ch as u32);
            }
        }
        for _ in 0..1800 {
            emit(out, &id, e, rng.below(0x10000) as u32);
        }
        for _ in 0..400 {
            emit(out, &id, e, 0x10000 + rng.below(0x100000) as u32);
        }
    }
    true
}

pub fn replay(toks: &[&str], out: &mut Out) -> bool {
    if toks.len() != 3 || toks[0] != "encchar" {
        return false;
    }
    let e = match enc_by_ident(toks[1]) {
        Some(e) => e,
        None => return false,
    };
    let mut s = String::new();
    for t in toks[2].split(',') {
        match u32::from_str_radix(t, 16).ok().and_then(char::from_u32) {
            Some(ch) => s.push(ch),
            None => return false,
        }
    }
    out.op(toks.join(" "), encode_chars(e, &s));
    true
}
